package rules

// R-C04-7 (discovery fallback), restated over the reach of the apply function (robustness pass):
// the filtered list may be built in a helper (`servers := sp.taggedServers(instances)`), the tag
// test may sit in a helper returning bool; both are followed (reach + inlining).

import (
	"go/ast"
	"go/constant"
	"go/token"
	"go/types"

	"golang.org/x/tools/go/cfg"

	"verif/internal/core"
	"verif/internal/flow"
)

// c04Builder is the function that builds the filtered []*Server list with append.
type c04Builder struct {
	g       *flow.Func
	obj     *types.Func
	listVar types.Object
	appends []*ast.CallExpr
}

func c04FindBuilders(info *c04Info, f *flow.Func) []*c04Builder {
	var out []*c04Builder
	for _, g := range reach(f, 3) {
		var b *c04Builder
		ast.Inspect(g.Body, func(n ast.Node) bool {
			as, ok := n.(*ast.AssignStmt)
			if !ok || len(as.Lhs) != 1 || len(as.Rhs) != 1 {
				return true
			}
			call, ok := ast.Unparen(as.Rhs[0]).(*ast.CallExpr)
			if !ok {
				return true
			}
			if bi, ok := g.Callee(call).(*types.Builtin); !ok || bi.Name() != "append" || len(call.Args) < 2 {
				return true
			}
			lid, ok1 := as.Lhs[0].(*ast.Ident)
			aid, ok2 := ast.Unparen(call.Args[0]).(*ast.Ident)
			if !ok1 || !ok2 || c04ObjOf(g.Info, lid) != c04ObjOf(g.Info, aid) {
				return true
			}
			o := c04ObjOf(g.Info, lid)
			if o == nil || !types.Identical(o.Type(), info.listType) {
				return true
			}
			if b == nil {
				b = &c04Builder{g: g, listVar: o}
				if fd, ok := g.Node.(*ast.FuncDecl); ok {
					b.obj, _ = g.Info.Defs[fd.Name].(*types.Func)
				}
			}
			if o == b.listVar {
				b.appends = append(b.appends, call)
			}
			return true
		})
		if b != nil {
			out = append(out, b)
		}
	}
	return out
}

func c04FreshEmpty(f *flow.Func, e ast.Expr) bool {
	if e == nil {
		return true
	}
	e = ast.Unparen(e)
	if f.Info.Types[e].IsNil() {
		return true
	}
	switch x := e.(type) {
	case *ast.CompositeLit:
		return len(x.Elts) == 0
	case *ast.CallExpr:
		if b, ok := f.Callee(x).(*types.Builtin); ok && b.Name() == "make" && len(x.Args) >= 2 {
			if v := f.Info.Types[x.Args[1]].Value; v != nil && constant.Sign(v) == 0 {
				return true
			}
		}
	}
	return false
}

// c04AssignTo returns the expression assigned to variable v by node n (ok=false: n does not
// assign v; rhs=nil: declared without a value).
func c04AssignTo(f *flow.Func, n ast.Node, v types.Object) (rhs ast.Expr, ok bool) {
	switch s := n.(type) {
	case *ast.AssignStmt:
		if len(s.Lhs) == len(s.Rhs) {
			for i, l := range s.Lhs {
				if id, isID := l.(*ast.Ident); isID && c04ObjOf(f.Info, id) == v {
					return s.Rhs[i], true
				}
			}
		} else {
			for _, l := range s.Lhs {
				if id, isID := l.(*ast.Ident); isID && c04ObjOf(f.Info, id) == v {
					return &ast.BadExpr{}, true
				}
			}
		}
	case *ast.ValueSpec:
		for i, id := range s.Names {
			if c04ObjOf(f.Info, id) == v {
				if i < len(s.Values) {
					return s.Values[i], true
				}
				return nil, true
			}
		}
	}
	return nil, false
}

// ownList: the builder hands back exactly the list it built (every return returns the list
// variable; the variable is only ever fresh-empty or appended to).
func (b *c04Builder) ownList() bool {
	ok := true
	nret := 0
	ast.Inspect(b.g.Body, func(n ast.Node) bool {
		switch s := n.(type) {
		case *ast.FuncLit:
			return false
		case *ast.ReturnStmt:
			nret++
			if len(s.Results) == 0 {
				// bare return: the named result must be the list variable
				if b.g.Type.Results == nil || len(b.g.Type.Results.List) != 1 || len(b.g.Type.Results.List[0].Names) != 1 ||
					b.g.Info.Defs[b.g.Type.Results.List[0].Names[0]] != b.listVar {
					ok = false
				}
				return true
			}
			id, isID := ast.Unparen(s.Results[0]).(*ast.Ident)
			if len(s.Results) != 1 || !isID || c04ObjOf(b.g.Info, id) != b.listVar {
				ok = false
			}
		default:
			if rhs, assigns := c04AssignTo(b.g, n, b.listVar); assigns {
				if call, isCall := ast.Unparen(rhsOrNil(rhs)).(*ast.CallExpr); isCall {
					for _, a := range b.appends {
						if a == call {
							return true
						}
					}
				}
				if !c04FreshEmpty(b.g, rhs) {
					ok = false
				}
			}
		}
		return true
	})
	return ok && nret > 0
}

func rhsOrNil(e ast.Expr) ast.Expr {
	if e == nil {
		return &ast.BadExpr{}
	}
	return e
}

type c04Finding struct {
	at  ast.Node
	st  *flow.State
	why string
}

func c04Discovery(c *core.Ctx, info *c04Info) {
	ap := info.roles.apply
	if ap == nil {
		c.Errorf("R-C04-7: anchor: no ServerPool method taking the discovered instances (map[string]*ServiceInstanceSpec) and installing a balancer was found")
		return
	}
	f := ap.f
	c.Count("functions_analysed", 1)
	cons := ap.cons()
	specServers := structField(c, c04pkg, "ServerPoolSpec", "Servers")
	if specServers == nil {
		return
	}
	// publishing points: calls of a function that publishes the list it is given (directly, through
	// helpers, or the apply function itself calling the dispatch) or that publishes the static list
	sum := &c04PubSum{info: info, spec: specServers, memo: map[*types.Func]*c04PubKind{}}
	var creates []*ast.CallExpr
	listArg := map[*ast.CallExpr]ast.Expr{}
	staticPoint := map[*ast.CallExpr]bool{}
	for _, call := range calls(f.Body, false) {
		fo, _ := f.Callee(call).(*types.Func)
		if fo == nil {
			continue
		}
		switch {
		case info.dispatch[fo] && info.roles.publish[ap.obj] != nil:
			for _, a := range call.Args {
				if tv, ok := f.Info.Types[a]; ok && tv.Type != nil && types.Identical(tv.Type, info.listType) && listArg[call] == nil {
					listArg[call] = a
				}
			}
			creates = append(creates, call)
		case fo.Pkg() == f.Pkg.Types:
			k := sum.of(f, fo)
			if k == nil {
				continue
			}
			if k.static {
				staticPoint[call] = true
			} else if k.idx < len(call.Args) {
				listArg[call] = call.Args[k.idx]
			}
			creates = append(creates, call)
		}
	}
	if !c.RequireCount("R-C04-7", "calls of the publishing function in the apply function", len(creates), 1) {
		return
	}
	isStatic := func(e ast.Expr) bool { return c04SelObj(f.Info, e) == types.Object(specServers) }

	builders := c04FindBuilders(info, f)
	if len(builders) == 0 {
		c.Errorf("R-C04-7: anchor: %s (and the same-package functions it calls) does not build a []*Server list with append", cons)
		return
	}
	if len(builders) > 1 {
		c.Undecide("R-C04-7", cons+"|append only tagged instances, once", pos(c, f.Body), sprintf("%d functions build a []*Server list with append; cannot tell which is the filtered list", len(builders)))
		return
	}
	b := builders[0]
	c.RequireCount("R-C04-7", "appends to the filtered list", len(b.appends), 1)
	c04DiscoveryAppends(c, cons, b)

	// ---- the list handed to the publishing function
	listVar := b.listVar
	if b.g != f {
		listVar = nil
		own := b.ownList()
		ast.Inspect(f.Body, func(n ast.Node) bool {
			as, ok := n.(*ast.AssignStmt)
			if !ok || len(as.Lhs) != len(as.Rhs) {
				return true
			}
			for i, r := range as.Rhs {
				call, isCall := ast.Unparen(r).(*ast.CallExpr)
				if !isCall || b.obj == nil || f.Callee(call) != types.Object(b.obj) {
					continue
				}
				if id, isID := as.Lhs[i].(*ast.Ident); isID && listVar == nil {
					listVar = c04ObjOf(f.Info, id)
				}
			}
			return true
		})
		if listVar == nil || !own {
			c.Undecide("R-C04-7", cons+"|list handed to createLoadBalancer", pos(c, f.Body), "the filtered list is built in "+b.g.Name+" but its result cannot be followed into the apply function")
			return
		}
	}
	isFiltered := func(rhs ast.Expr) bool {
		if b.g == f {
			return c04FreshEmpty(f, rhs)
		}
		call, ok := ast.Unparen(rhsOrNil(rhs)).(*ast.CallExpr)
		return ok && f.Callee(call) == types.Object(b.obj)
	}
	// fallback helpers: same-package functions h(list) []*Server that return their argument when it
	// is known non-empty and spec.Servers only when it is known empty
	fallbackMemo := map[*types.Func]bool{}
	isFallbackFn := func(fo *types.Func) bool {
		if v, ok := fallbackMemo[fo]; ok {
			return v
		}
		fallbackMemo[fo] = false
		fd := declOf(f.Pkg, fo)
		if fd == nil || fo.Pkg() != f.Pkg.Types {
			return false
		}
		h := flow.NewFunc(f.Pkg, fd)
		var p types.Object
		var pid *ast.Ident
		for _, fld := range fd.Type.Params.List {
			for _, n := range fld.Names {
				if o := h.Info.Defs[n]; o != nil && types.Identical(o.Type(), info.listType) {
					if p != nil {
						return false
					}
					p, pid = o, n
				}
			}
		}
		if p == nil {
			return false
		}
		hq := c04NewFacts(h, nil)
		if hq.unsafe[p] || hq.defs[p] != nil {
			return false
		}
		lk := "len(" + h.Render(pid) + ")"
		hres := analyze(c, h, flow.Config{NoHavoc: true})
		if hres == nil {
			return false
		}
		ok, n := true, 0
		for _, ex := range hres.Exits {
			if ex.Kind != flow.ExitReturn {
				continue
			}
			n++
			if ex.Return == nil || len(ex.Return.Results) != 1 {
				ok = false
				continue
			}
			r := ast.Unparen(ex.Return.Results[0])
			if id, isID := r.(*ast.Ident); isID && c04ObjOf(h.Info, id) == p {
				ok = ok && hq.positiveK(ex.State, lk)
			} else if c04SelObj(h.Info, r) == types.Object(specServers) {
				ok = ok && hq.zeroK(ex.State, lk)
			} else {
				ok = false
			}
		}
		fallbackMemo[fo] = ok && n > 0
		return fallbackMemo[fo]
	}
	isFallbackCall := func(call *ast.CallExpr) bool {
		fo, _ := f.Callee(call).(*types.Func)
		if fo == nil || !isFallbackFn(fo) {
			return false
		}
		for _, a := range call.Args {
			if id, ok := ast.Unparen(a).(*ast.Ident); ok && c04ObjOf(f.Info, id) == listVar {
				return true
			}
		}
		return false
	}
	isFallbackAssign := func(rhs ast.Expr) bool {
		call, ok := ast.Unparen(rhsOrNil(rhs)).(*ast.CallExpr)
		return ok && isFallbackCall(call)
	}
	var listIdent *ast.Ident
	ast.Inspect(f.Body, func(n ast.Node) bool {
		if id, ok := n.(*ast.Ident); ok && listIdent == nil && c04ObjOf(f.Info, id) == listVar {
			listIdent = id
		}
		return true
	})
	q := c04NewFacts(f, nil)
	lenK := "len(" + f.Render(listIdent) + ")"
	var badAssign *c04Finding
	res := analyze(c, f, flow.Config{
		NoHavoc: true,
		OnNode: func(st *flow.State, n ast.Node) {
			rhs, ok := c04AssignTo(f, n, listVar)
			if !ok {
				return
			}
			if call, isCall := ast.Unparen(rhsOrNil(rhs)).(*ast.CallExpr); isCall && b.g == f {
				for _, a := range b.appends {
					if a == call {
						return
					}
				}
			}
			switch {
			case isFiltered(rhs):
				st.Set("ev:filtered", flow.True)
				st.Set("ev:static", flow.False)
				st.Set("ev:resolved", flow.False)
			case isFallbackAssign(rhs):
				// servers = sp.orStatic(servers): the helper keeps a non-empty list and returns
				// spec.Servers exactly for an empty one
				if st.Is("ev:filtered", flow.True) {
					st.Set("ev:resolved", flow.True)
					st.Set("ev:filtered", flow.False)
				} else if badAssign == nil {
					badAssign = &c04Finding{n, st, "the fallback helper is applied to a list that is not the filtered instance list"}
				}
			case isStatic(rhs):
				if q.zeroK(st, lenK) {
					st.Set("ev:static", flow.True)
					st.Set("ev:filtered", flow.False)
				} else if badAssign == nil {
					badAssign = &c04Finding{n, st, "the static server list replaces the filtered list in a state where the filtered list is not known to be empty: instances that service discovery reported and that carry a configured tag are ignored"}
				}
			default:
				if badAssign == nil {
					badAssign = &c04Finding{n, st, "the list handed to the balancer is assigned from something that is neither the filtered instances nor spec.Servers"}
				}
			}
		},
		OnCall: func(st *flow.State, call *ast.CallExpr, callee types.Object, deferred bool) {
			for _, cr := range creates {
				if cr == call {
					st.Set("ev:created", flow.True)
				}
			}
		},
	})
	if res == nil {
		return
	}
	okArg := badAssign == nil
	if badAssign != nil {
		c.Violate("R-C04-7", cons+"|list handed to createLoadBalancer", pos(c, badAssign.at), badAssign.why, witness(badAssign.st)...)
	}
	nStates := 0
	for _, cr := range creates {
		if !okArg {
			break
		}
		if staticPoint[cr] {
			// `sp.useStaticServers()`: publishes spec.Servers — allowed exactly where the filtered
			// list is known empty
			for _, st := range res.At[cr] {
				nStates++
				if !q.zeroK(st, lenK) {
					okArg = false
					c.Violate("R-C04-7", cons+"|list handed to createLoadBalancer", pos(c, cr), "the static servers are published in a state where the filtered list is not known to be empty: qualifying discovered instances are ignored", witness(st)...)
					break
				}
			}
			continue
		}
		if listArg[cr] == nil {
			c.Undecide("R-C04-7", cons+"|list handed to createLoadBalancer", pos(c, cr), "the publishing call takes no []*Server argument")
			okArg = false
			break
		}
		arg := ast.Unparen(listArg[cr])
		// `create(sp.orStatic(servers))`: a fallback helper applied to the list variable
		viaHelper := false
		if hc, ok := arg.(*ast.CallExpr); ok && isFallbackCall(hc) {
			viaHelper = true
		}
		for _, st := range res.At[cr] {
			nStates++
			why := ""
			if viaHelper {
				if !st.Is("ev:filtered", flow.True) && !st.Is("ev:resolved", flow.True) {
					why = "cannot relate the list given to the fallback helper to the filtered instances"
				}
			} else if isStatic(arg) {
				if !q.zeroK(st, lenK) {
					why = "spec.Servers is published in a state where the filtered list is not known to be empty: qualifying discovered instances are ignored"
				}
			} else if id, ok := arg.(*ast.Ident); ok && c04ObjOf(f.Info, id) == listVar {
				switch {
				case st.Is("ev:static", flow.True), st.Is("ev:resolved", flow.True):
				case st.Is("ev:filtered", flow.True) && q.positiveK(st, lenK):
				case st.Is("ev:filtered", flow.True):
					why = "the filtered instance list is published in a state where it may be empty: when no discovered instance carries a configured tag the pool gets an empty list (every request fails with 503) instead of falling back to the static servers"
				default:
					why = "cannot relate the published list to the filtered instances or spec.Servers"
				}
			} else {
				why = "the list handed to createLoadBalancer is neither the filtered list nor spec.Servers"
			}
			if why != "" {
				okArg = false
				c.Violate("R-C04-7", cons+"|list handed to createLoadBalancer", pos(c, cr), why, witness(st)...)
				break
			}
		}
	}
	if okArg {
		c.Check(nStates > 0, "R-C04-7", cons+"|list handed to createLoadBalancer", pos(c, creates[0]),
			sprintf("%d states at the publishing call: filtered list known non-empty, or spec.Servers with the filtered list known empty", nStates),
			"the publishing call is unreachable in the apply function")
	}
	var badExit *flow.Exit
	for _, ex := range res.Exits {
		if ex.Kind == flow.ExitReturn && !ex.State.Is("ev:created", flow.True) {
			badExit = ex
		}
	}
	if badExit != nil {
		c.Violate("R-C04-7", cons+"|every report replaces the balancer", pos(c, badExit.At), "the apply function can return without installing a balancer for the reported instances: the pool keeps sending to the servers of the previous report", witness(badExit.State)...)
	} else {
		c.Discharge("R-C04-7", cons+"|every report replaces the balancer", pos(c, f.Body), sprintf("%d exits, all after the publishing call", len(res.Exits)))
	}
}

// c04DiscoveryAppends: an instance is appended only after a tag-membership test succeeded, at
// most once per instance. Analysed in the builder with same-package callees interpreted in place.
func c04DiscoveryAppends(c *core.Ctx, cons string, b *c04Builder) {
	g := b.g
	if g.Node != nil {
		c.Count("functions_analysed", 1)
	}
	var outer ast.Stmt
	if ls := enclosingLoops(g.Body, b.appends[0]); len(ls) > 0 {
		outer = ls[0]
	}
	isMember := func(h *flow.Func, call *ast.CallExpr) bool {
		fo, ok := h.Callee(call).(*types.Func)
		if !ok || fo.Pkg() == nil || len(call.Args) != 2 {
			return false
		}
		sig := fo.Type().(*types.Signature)
		if sig.Results().Len() != 1 || !types.Identical(sig.Results().At(0).Type(), types.Typ[types.Bool]) {
			return false
		}
		t0, t1 := h.Info.Types[call.Args[0]].Type, h.Info.Types[call.Args[1]].Type
		if t0 == nil || t1 == nil {
			return false
		}
		sl, ok := t1.Underlying().(*types.Slice)
		return ok && types.Identical(sl.Elem(), t0) && types.Identical(t0, types.Typ[types.String])
	}
	var members []*ast.CallExpr
	for _, h := range reach(g, 3) {
		for _, call := range calls(h.Body, false) {
			if isMember(h, call) {
				members = append(members, call)
			}
		}
	}
	// membership flags: boolean locals that are only ever assigned false, a membership test, or an
	// ||-combination of those (`matched = matched || StrInSlice(tag, instance.Tags)`): true means
	// some membership test succeeded
	isMemberCall := map[*ast.CallExpr]bool{}
	for _, m := range members {
		isMemberCall[m] = true
	}
	flagIdents := map[types.Object]*ast.Ident{}
	for _, h := range reach(g, 3) {
		cand := map[types.Object]bool{}
		var okExpr func(e ast.Expr) bool
		okExpr = func(e ast.Expr) bool {
			e = ast.Unparen(e)
			if tv, ok := h.Info.Types[e]; ok && tv.Value != nil {
				return constant.BoolVal(tv.Value) == false
			}
			switch x := e.(type) {
			case *ast.CallExpr:
				return isMemberCall[x]
			case *ast.Ident:
				return true // checked below: must itself be a candidate
			case *ast.BinaryExpr:
				return x.Op == token.LOR && okExpr(x.X) && okExpr(x.Y)
			}
			return false
		}
		bad := map[types.Object]bool{}
		ast.Inspect(h.Body, func(n ast.Node) bool {
			note := func(l ast.Expr, r ast.Expr) {
				id, ok := l.(*ast.Ident)
				if !ok || id.Name == "_" {
					return
				}
				o := c04ObjOf(h.Info, id)
				v, isVar := o.(*types.Var)
				if !isVar || !types.Identical(v.Type(), types.Typ[types.Bool]) {
					return
				}
				cand[o] = true
				if flagIdents[o] == nil {
					flagIdents[o] = id
				}
				if r == nil || !okExpr(r) {
					bad[o] = true
					return
				}
				ast.Inspect(r, func(m ast.Node) bool {
					if rid, ok := m.(*ast.Ident); ok {
						if ro, isV := c04ObjOf(h.Info, rid).(*types.Var); isV && ro != o && !ro.IsField() {
							if _, isCallArg := m.(*ast.Ident); isCallArg && types.Identical(ro.Type(), types.Typ[types.Bool]) && !cand[ro] {
								bad[o] = true
							}
						}
					}
					_, isCall := m.(*ast.CallExpr)
					return !isCall
				})
			}
			switch x := n.(type) {
			case *ast.AssignStmt:
				if len(x.Lhs) == len(x.Rhs) && (x.Tok == token.ASSIGN || x.Tok == token.DEFINE) {
					for i := range x.Lhs {
						note(x.Lhs[i], x.Rhs[i])
					}
				} else {
					for _, l := range x.Lhs {
						note(l, nil)
					}
				}
			case *ast.ValueSpec:
				for i, id := range x.Names {
					if i < len(x.Values) {
						note(id, x.Values[i])
					} else if o := h.Info.Defs[id]; o != nil && types.Identical(o.Type(), types.Typ[types.Bool]) {
						cand[o] = true
						flagIdents[o] = id
					}
				}
			case *ast.UnaryExpr:
				if id, ok := ast.Unparen(x.X).(*ast.Ident); ok && x.Op == token.AND {
					bad[c04ObjOf(h.Info, id)] = true
				}
			}
			return true
		})
		for o := range flagIdents {
			if bad[o] {
				delete(flagIdents, o)
			}
		}
	}
	isAppend := map[*ast.CallExpr]bool{}
	for _, a := range b.appends {
		isAppend[a] = true
	}
	var bad *c04Finding
	res := analyze(c, g, flow.Config{
		NoHavoc: true,
		Inline:  inlineSamePkg(g),
		OnBlock: func(st *flow.State, blk *cfg.Block) {
			if outer != nil && blk.Stmt == outer && (blk.Kind == cfg.KindRangeBody || blk.Kind == cfg.KindForBody) {
				st.Set("ev:appended", flow.False)
			}
		},
		OnCall: func(st *flow.State, call *ast.CallExpr, callee types.Object, deferred bool) {
			if !isAppend[call] {
				return
			}
			matched := false
			for _, m := range members {
				if st.Is(g.CallKey(m), flow.True) {
					matched = true
				}
			}
			for _, id := range flagIdents {
				if st.Is(g.VarKey(id), flow.True) {
					matched = true
				}
			}
			if !matched && bad == nil {
				bad = &c04Finding{call, st, "an instance is added to the server list without a tag-membership test having succeeded: instances that carry none of the configured serverTags receive traffic"}
			}
			if st.Is("ev:appended", flow.True) && bad == nil {
				bad = &c04Finding{call, st, "the same instance can be appended more than once (once per matching tag): it then receives a multiple of its share under roundRobin/random"}
			}
			st.Set("ev:appended", flow.True)
		},
	})
	if res == nil {
		return
	}
	if bad != nil {
		c.Violate("R-C04-7", cons+"|append only tagged instances, once", pos(c, bad.at), bad.why, witness(bad.st)...)
	} else {
		c.Discharge("R-C04-7", cons+"|append only tagged instances, once", pos(c, b.appends[0]), sprintf("%d append sites (in %s) reached only with a membership test true and not yet appended in this iteration", len(b.appends), g.Name))
	}
}

// c04PubSum summarises same-package functions that publish a balancer: for the list they are
// given as parameter idx, or for the static servers of the spec.
type c04PubKind struct {
	static bool
	idx    int
}

type c04PubSum struct {
	info *c04Info
	spec *types.Var
	memo map[*types.Func]*c04PubKind
	busy map[*types.Func]bool
}

func (p *c04PubSum) of(f *flow.Func, fo *types.Func) *c04PubKind {
	if k, ok := p.memo[fo]; ok {
		return k
	}
	if p.busy == nil {
		p.busy = map[*types.Func]bool{}
	}
	if p.busy[fo] {
		return nil
	}
	p.busy[fo] = true
	defer delete(p.busy, fo)
	var out *c04PubKind
	defer func() { p.memo[fo] = out }()
	fd := declOf(f.Pkg, fo)
	if fd == nil {
		return nil
	}
	g := funcOf(f.Pkg, fd)
	// it must actually reach a Store into the pool's slot
	reaches := false
	for _, h := range reach(g, 3) {
		if hd, ok := h.Node.(*ast.FuncDecl); ok {
			if o, _ := g.Info.Defs[hd.Name].(*types.Func); o != nil && p.info.roles.publish[o] != nil {
				reaches = true
			}
		}
	}
	if !reaches {
		return nil
	}
	q := c04NewFacts(g, nil)
	for _, call := range calls(fd.Body, false) {
		cf, _ := g.Callee(call).(*types.Func)
		if cf == nil {
			continue
		}
		var arg ast.Expr
		switch {
		case p.info.dispatch[cf]:
			for _, a := range call.Args {
				if tv, ok := g.Info.Types[a]; ok && tv.Type != nil && types.Identical(tv.Type, p.info.listType) && arg == nil {
					arg = a
				}
			}
		case cf.Pkg() == g.Pkg.Types && cf != fo:
			k := p.of(g, cf)
			if k == nil {
				continue
			}
			if k.static {
				out = &c04PubKind{static: true}
				return out
			}
			if k.idx < len(call.Args) {
				arg = call.Args[k.idx]
			}
		}
		if arg == nil {
			continue
		}
		if c04SelObj(g.Info, arg) == types.Object(p.spec) {
			out = &c04PubKind{static: true}
			return out
		}
		if id, ok := q.resolve(arg).(*ast.Ident); ok {
			if idx := c04ParamPos(g.Info, fd, c04ObjOf(g.Info, id)); idx >= 0 && !q.unsafe[c04ObjOf(g.Info, id)] && q.defs[c04ObjOf(g.Info, id)] == nil {
				out = &c04PubKind{idx: idx}
				return out
			}
		}
	}
	return nil
}
