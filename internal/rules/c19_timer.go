package rules

import (
	"go/ast"
	"go/types"

	"verif/internal/core"
	"verif/internal/flow"
)

// c19source classifies the channel a timer case of run's select receives from.
//
//	ticker      x.C of a *time.Ticker: fires forever unless stopped
//	timer       x.C of a *time.Timer: fires once per arming; must be re-armed (x.Reset) after it fired
//	inline      time.After(d) / time.Tick(d) evaluated in the select header: armed anew in every iteration
//	tickvar     a variable only ever assigned time.Tick(d): fires forever
//	aftervar    a variable assigned time.After(d): fires once; must be re-assigned from time.After after it fired
type c19source struct {
	kind string
	obj  types.Object
	why  string // for kind "" (unknown)
}

func c19timeNamed(t types.Type, name string) bool {
	if t == nil {
		return false
	}
	if p, ok := t.(*types.Pointer); ok {
		t = p.Elem()
	}
	n, ok := t.(*types.Named)
	return ok && n.Obj().Pkg() != nil && n.Obj().Pkg().Path() == "time" && n.Obj().Name() == name
}

func c19classifySource(r *c19run, f *flow.Func, ch ast.Expr, depth int) c19source {
	ch = ast.Unparen(ch)
	switch x := ch.(type) {
	case *ast.SelectorExpr:
		if x.Sel.Name == "C" {
			t := f.Info.TypeOf(x.X)
			o := c19obj(f, x.X)
			switch {
			case c19timeNamed(t, "Ticker") && o != nil:
				return c19source{kind: "ticker", obj: o}
			case c19timeNamed(t, "Timer") && o != nil:
				return c19source{kind: "timer", obj: o}
			}
		}
	case *ast.CallExpr:
		switch calleeFull(f, x) {
		case "time.After", "time.Tick":
			return c19source{kind: "inline"}
		}
	case *ast.Ident:
		o := c19obj(f, x)
		if o == nil || depth > 2 {
			break
		}
		var kinds []c19source
		unknown := false
		note := func(rhs ast.Expr) {
			rhs = ast.Unparen(rhs)
			if call, ok := rhs.(*ast.CallExpr); ok {
				switch calleeFull(f, call) {
				case "time.Tick":
					kinds = append(kinds, c19source{kind: "tickvar", obj: o})
					return
				case "time.After":
					kinds = append(kinds, c19source{kind: "aftervar", obj: o})
					return
				}
			}
			if sel, ok := rhs.(*ast.SelectorExpr); ok {
				if s := c19classifySource(r, f, sel, depth+1); s.kind == "ticker" || s.kind == "timer" {
					kinds = append(kinds, s)
					return
				}
			}
			unknown = true
		}
		ast.Inspect(f.Body, func(n ast.Node) bool {
			switch s := n.(type) {
			case *ast.AssignStmt:
				for i, l := range s.Lhs {
					if c19obj(f, l) == o {
						if len(s.Lhs) == len(s.Rhs) {
							note(s.Rhs[i])
						} else {
							unknown = true
						}
					}
				}
			case *ast.ValueSpec:
				for i, nm := range s.Names {
					if f.Info.Defs[nm] == o {
						if i < len(s.Values) {
							note(s.Values[i])
						} else {
							unknown = true
						}
					}
				}
			}
			return true
		})
		if !unknown && len(kinds) > 0 {
			k := kinds[0]
			same := true
			for _, other := range kinds[1:] {
				if other.kind != k.kind || other.obj != k.obj {
					same = false
				}
			}
			if same {
				return k
			}
		}
	}
	return c19source{why: "the timer case receives from " + f.Render(ch) + ", which is not x.C of a time.Ticker / time.Timer, an inline time.After / time.Tick, or a variable assigned from them"}
}

// needsRearm: the source fires once per arming.
func (s c19source) needsRearm() bool { return s.kind == "timer" || s.kind == "aftervar" }

// rearmCall: call re-arms the source (x.Reset(d) on the same timer).
func (s c19source) rearmCall(f *flow.Func, call *ast.CallExpr) bool {
	if s.kind != "timer" || calleeFull(f, call) != "(*time.Timer).Reset" {
		return false
	}
	sel, ok := ast.Unparen(call.Fun).(*ast.SelectorExpr)
	if !ok {
		return false
	}
	o := c19obj(f, sel.X)
	if o == s.obj {
		return true
	}
	// the same timer seen through a parameter of a helper (run split into setup + loop)
	return o != nil && (c19isParamVar(f, o) || c19isParamVar(f, s.obj))
}

// c19isParamVar: the variable is declared in the parameter list of some function or function
// literal of the package — it is then an alias of whatever its callers pass.
func c19isParamVar(f *flow.Func, o types.Object) bool {
	v, ok := o.(*types.Var)
	if !ok || v.IsField() || f == nil || f.Pkg == nil {
		return false
	}
	found := false
	for _, file := range f.Pkg.Syntax {
		if found || !(file.Pos() <= v.Pos() && v.Pos() <= file.End()) {
			continue
		}
		ast.Inspect(file, func(n ast.Node) bool {
			ft, ok := n.(*ast.FuncType)
			if !ok || ft.Params == nil || found {
				return !found
			}
			for _, fld := range ft.Params.List {
				for _, nm := range fld.Names {
					if f.Info.Defs[nm] == o {
						found = true
					}
				}
			}
			return true
		})
	}
	return found
}

// rearmNode: the statement re-arms the source (v = time.After(d) on the same variable).
func (s c19source) rearmNode(f *flow.Func, n ast.Node) bool {
	as, ok := n.(*ast.AssignStmt)
	if !ok || s.kind != "aftervar" || len(as.Lhs) != len(as.Rhs) {
		return false
	}
	for i, l := range as.Lhs {
		if c19obj(f, l) == s.obj {
			if call, ok := ast.Unparen(as.Rhs[i]).(*ast.CallExpr); ok && calleeFull(f, call) == "time.After" {
				return true
			}
		}
	}
	return false
}

const c19evRearm = "ev:rearmed"

// c19unitRearms: does every return path of the closure re-arm the source? (a witness of a path
// that does not, otherwise nil; ok=false if the analysis failed)
func c19unitRearms(c *core.Ctx, u *c19unit, s c19source) (always bool, bad *flow.State, ok bool) {
	res := analyze(c, u.f, flow.Config{
		OnCall: func(st *flow.State, call *ast.CallExpr, callee types.Object, deferred bool) {
			if s.rearmCall(u.f, call) {
				st.Set(c19evRearm, flow.True)
			}
		},
		OnNode: func(st *flow.State, n ast.Node) {
			if s.rearmNode(u.f, n) {
				st.Set(c19evRearm, flow.True)
			}
		},
	})
	if res == nil {
		return false, nil, false
	}
	always = true
	some := false
	for _, ex := range res.Exits {
		if ex.Kind != flow.ExitReturn || c19phantom(ex) {
			continue
		}
		if ex.State.Is(c19evRearm, flow.True) {
			some = true
		} else {
			always = false
			if bad == nil {
				bad = ex.State
			}
		}
	}
	if !some {
		bad = nil // the closure never re-arms: nothing to show inside it
	}
	return always, bad, true
}

// c19tickerStopped finds a call that stops the ticker while the loop can still run: any
// x.Stop() on it that is not deferred by run itself.
func c19tickerStopped(r *c19run, s c19source) ast.Node {
	var at ast.Node
	for _, f := range r.funcs {
		pm := r.pms[f]
		ast.Inspect(f.Body, func(n ast.Node) bool {
			call, ok := n.(*ast.CallExpr)
			if !ok || calleeFull(f, call) != "(*time.Ticker).Stop" {
				return true
			}
			if d, ok := pm[call].(*ast.DeferStmt); ok {
				inLit := false
				for p := pm[d]; p != nil; p = pm[p] {
					if _, ok := p.(*ast.FuncLit); ok {
						inLit = true
					}
				}
				if !inLit {
					return true // released when run (or the function holding the loop) returns
				}
			}
			at = call
			return true
		})
	}
	return at
}
