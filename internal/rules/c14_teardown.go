package rules

import (
	"go/ast"
	"go/types"
	"strings"

	"verif/internal/flow"
)

// R-C14-9 a connection's teardown removes its filters from the trie.
//
// Teardown function (by role) = a Client method that hands the filters of its own session
// (`topics := <recv>.session.allSubscribes()`) to TopicManager.unsubscribe — today closeAndDelSession.
//   (a) every return exit of a teardown function has executed that unsubscribe, unless the state
//       knows that ownership of the client id was lost to a successor: the connection registered in
//       Broker.clients under the id was looked up, is present and is not the receiver (the identity
//       guard decided by R-C16-3), the receiver carries the supersession mark that the takeover branch
//       of handleConn writes, or the receiver's session is known nil. Any other state-dependent
//       way around the unsubscribe (status flags, counters, ...) leaves the filters of a gone client
//       in the trie: residue that is routed to whoever connects under the id next.
//   (b) the connection's reader — the Client method that calls packets.ReadPacket — runs a teardown
//       function on every exit (normally a deferred function registered before the first return).
// Not decided here: that the guard itself is right (R-C16-3), the order of the teardown steps.

// calls2 lists the calls of a body including those in function literals (deferred closures).
func calls2(root ast.Node) []*ast.CallExpr { return calls(root, true) }

func c14Teardown(e *c14env) {
	c := e.c
	// fields by type: Broker's map[string]*Client registry, Client's *Session
	clientsMapF := c14fieldByType(c, "Broker", func(t types.Type) bool {
		m, ok := t.Underlying().(*types.Map)
		return ok && c14isStr(m.Key()) && c14isNamed(m.Elem(), mq, "Client")
	})
	sessionF := c14fieldByType(c, "Client", func(t types.Type) bool {
		_, isPtr := t.(*types.Pointer)
		return isPtr && c14isNamed(t, mq, "Session")
	})
	if clientsMapF == nil || sessionF == nil {
		return
	}
	unsubObj := e.role("unsubscribe").obj
	allSubsObj := e.role("allSubscribes").obj
	// the session's filters: allSubscribes, or a Session method handing its first result on
	// (subscribedTopics() []string)
	ownSrc := map[*types.Func]bool{allSubsObj: true}
	e.decls(func(g *flow.Func, gd *ast.FuncDecl) {
		o := e.funcObj(gd)
		rn := e.recvNamed(gd)
		if o == nil || rn == nil || rn.Obj().Name() != "Session" || o == allSubsObj {
			return
		}
		sig := o.Type().(*types.Signature)
		if sig.Params().Len() != 0 || sig.Results().Len() < 1 || !c14isSliceOf(sig.Results().At(0).Type(), c14isStr) {
			return
		}
		var v types.Object
		ast.Inspect(gd.Body, func(n ast.Node) bool {
			if as, ok := n.(*ast.AssignStmt); ok && len(as.Rhs) == 1 {
				if call, ok := ast.Unparen(as.Rhs[0]).(*ast.CallExpr); ok && c14calleeOf(g, call) == allSubsObj {
					v = c14obj(g, as.Lhs[0])
				}
			}
			return true
		})
		okAll, rets := v != nil, 0
		ast.Inspect(gd.Body, func(n ast.Node) bool {
			if r, ok := n.(*ast.ReturnStmt); ok {
				rets++
				if len(r.Results) < 1 || c14obj(g, r.Results[0]) != v {
					okAll = false
				}
			}
			return true
		})
		if okAll && rets > 0 {
			ownSrc[o] = true
		}
	})
	teardowns := map[*types.Func]bool{}
	isAccessor := func(g *flow.Func, call *ast.CallExpr) bool {
		fo := c14calleeOf(g, call)
		if fo == nil || fo.Pkg() != e.pkg.Types {
			return false
		}
		sig := fo.Type().(*types.Signature)
		if sig.Results().Len() != 2 || !c14isNamed(sig.Results().At(0).Type(), mq, "Client") {
			return false
		}
		hd := declOf(e.pkg, fo)
		if hd == nil {
			return false
		}
		h := funcOf(e.pkg, hd)
		nIdx, nOther := 0, 0
		ast.Inspect(hd.Body, func(n ast.Node) bool {
			switch t := n.(type) {
			case *ast.IndexExpr:
				if _, ok := c14fieldRecv(h, t.X, clientsMapF); ok {
					nIdx++
				}
			case *ast.CallExpr:
				nOther++
			}
			return true
		})
		return nIdx == 1 && nOther == 0
	}

	// own reading of the supersession mark (fallback when C16's role code does not find it): a bool
	// field of Client that is only ever set to true on a connection obtained from the registry (index
	// lookup or accessor) — the takeover branch marking the connection it replaces
	markFields := map[*types.Var]bool{}
	notMark := map[*types.Var]bool{}
	e.decls(func(g *flow.Func, gd *ast.FuncDecl) {
		fromRegistry := map[types.Object]bool{}
		ast.Inspect(gd.Body, func(n ast.Node) bool {
			if as, ok := n.(*ast.AssignStmt); ok && len(as.Rhs) == 1 && len(as.Lhs) == 2 {
				isLookup := false
				if ix, ok := ast.Unparen(as.Rhs[0]).(*ast.IndexExpr); ok {
					_, isLookup = c14fieldRecv(g, ix.X, clientsMapF)
				}
				if call, ok := ast.Unparen(as.Rhs[0]).(*ast.CallExpr); ok && isAccessor(g, call) {
					isLookup = true
				}
				if isLookup {
					if o := c14obj(g, as.Lhs[0]); o != nil {
						fromRegistry[o] = true
					}
				}
			}
			return true
		})
		ast.Inspect(gd.Body, func(n ast.Node) bool {
			as, ok := n.(*ast.AssignStmt)
			if !ok || len(as.Lhs) != len(as.Rhs) {
				return true
			}
			for i, l := range as.Lhs {
				sel, ok := ast.Unparen(l).(*ast.SelectorExpr)
				if !ok {
					continue
				}
				sl := g.Info.Selections[sel]
				if sl == nil || sl.Kind() != types.FieldVal || !c14isNamed(sl.Recv(), mq, "Client") {
					continue
				}
				fld, _ := sl.Obj().(*types.Var)
				if fld == nil {
					continue
				}
				if b, isB := fld.Type().Underlying().(*types.Basic); !isB || b.Info()&types.IsBoolean == 0 {
					continue
				}
				tv := g.Info.Types[as.Rhs[i]]
				if tv.Value != nil && tv.Value.ExactString() == "true" && fromRegistry[c14obj(g, sel.X)] {
					markFields[fld] = true
				} else if tv.Value == nil || tv.Value.ExactString() == "true" {
					notMark[fld] = true
				}
			}
			return true
		})
	})
	for fld := range notMark {
		delete(markFields, fld)
	}
	e16 := c16NewEnv(c)

	e.decls(func(f *flow.Func, fd *ast.FuncDecl) {
		recv := c14recvObj(f, fd)
		if recv == nil || !c14isNamed(recv.Type(), mq, "Client") {
			return
		}
		// topics variables bound to <recv>.session.allSubscribes()
		own := map[types.Object]bool{}
		var sessExpr ast.Expr
		ast.Inspect(fd.Body, func(n ast.Node) bool {
			as, ok := n.(*ast.AssignStmt)
			if !ok || len(as.Rhs) != 1 {
				return true
			}
			call, ok := ast.Unparen(as.Rhs[0]).(*ast.CallExpr)
			if !ok || !ownSrc[c14calleeOf(f, call)] {
				return true
			}
			sel, ok := ast.Unparen(call.Fun).(*ast.SelectorExpr)
			if !ok {
				return true
			}
			if x, ok := c14fieldRecv(f, sel.X, sessionF); ok && c14obj(f, x) == recv {
				if o := c14obj(f, as.Lhs[0]); o != nil {
					own[o] = true
					sessExpr = sel.X
				}
			}
			return true
		})
		// the unsubscribe of the own filters may sit in a helper that receives them as a parameter
		bind := c14bindings(f, 3)
		isOwn := func(g *flow.Func, x ast.Expr) bool {
			o := c14obj(g, x)
			for t := range own {
				if c14denotes(bind, g, o, t, 4) {
					return true
				}
			}
			return false
		}
		var unsubs []*ast.CallExpr
		for _, g := range reach(f, 3) {
			for _, call := range c14callsToFn(g, g.Body, false, unsubObj) {
				if len(call.Args) >= 1 && isOwn(g, call.Args[0]) {
					unsubs = append(unsubs, call)
				}
			}
		}
		if len(unsubs) == 0 {
			return
		}
		if o := e.funcObj(fd); o != nil {
			teardowns[o] = true
		}
		cons := declName(e.pkg, fd)
		isUnsub := map[*ast.CallExpr]bool{}
		for _, u := range unsubs {
			isUnsub[u] = true
		}
		// registered-connection lookups: r, ok := <x>.clients[...] — in f or in a helper (a bool
		// method `ownsClientID()` called under the broker lock)
		type lookup struct {
			g       *flow.Func
			val, ok *ast.Ident
			recv    *ast.Ident
		}
		var lookups []lookup
		for _, g := range reach(f, 3) {
			g := g
			gd, _ := g.Node.(*ast.FuncDecl)
			var grecv *ast.Ident
			if gd != nil && gd.Recv != nil && len(gd.Recv.List) == 1 && len(gd.Recv.List[0].Names) == 1 {
				grecv = gd.Recv.List[0].Names[0]
			}
			if grecv == nil || !c14isNamed(g.Info.Defs[grecv].Type(), mq, "Client") {
				continue
			}
			ast.Inspect(g.Body, func(n ast.Node) bool {
				if as, ok := n.(*ast.AssignStmt); ok && len(as.Rhs) == 1 && len(as.Lhs) == 2 {
					isLookup := false
					if ix, ok := ast.Unparen(as.Rhs[0]).(*ast.IndexExpr); ok {
						_, isLookup = c14fieldRecv(g, ix.X, clientsMapF)
					}
					// an accessor in front of the registry: lookupClientLocked(id) (*Client, bool)
					if call, ok := ast.Unparen(as.Rhs[0]).(*ast.CallExpr); ok && isAccessor(g, call) {
						isLookup = true
					}
					if isLookup {
						{
							v, _ := as.Lhs[0].(*ast.Ident)
							k, _ := as.Lhs[1].(*ast.Ident)
							if v != nil && k != nil && v.Name != "_" && k.Name != "_" {
								lookups = append(lookups, lookup{g, v, k, grecv})
							}
						}
					}
				}
				return true
			})
		}
		const ev = "ev:c14:unsubscribed"
		// interpret in place only the helpers that matter here (those containing the unsubscribe of
		// the own filters, a registry lookup or a read of the supersession mark, and their callers)
		relevant := map[types.Object]bool{}
		rfs := reach(f, 3)
		direct := func(g *flow.Func) bool {
			for _, l := range lookups {
				if l.g.Body == g.Body {
					return true
				}
			}
			hit := false
			ast.Inspect(g.Body, func(n ast.Node) bool {
				if call, ok := n.(*ast.CallExpr); ok && isUnsub[call] {
					hit = true
				}
				return !hit
			})
			if !hit && e16 != nil && len(e16.supFacts(g, func(ast.Expr) bool { return false })) > 0 {
				hit = true
			}
			return hit
		}
		for _, g := range rfs {
			if gd, ok := g.Node.(*ast.FuncDecl); ok && direct(g) {
				relevant[e.funcObj(gd)] = true
			}
		}
		for changed := true; changed; {
			changed = false
			for _, g := range rfs {
				gd, ok := g.Node.(*ast.FuncDecl)
				if !ok || relevant[e.funcObj(gd)] {
					continue
				}
				for _, call := range calls(g.Body, false) {
					if fo := c14calleeOf(g, call); fo != nil && relevant[fo] {
						relevant[e.funcObj(gd)] = true
						changed = true
						break
					}
				}
			}
		}
		base := inlineSamePkg(f)
		res := analyze(c, f, flow.Config{NoHavoc: true,
			Inline: func(call *ast.CallExpr, callee *types.Func) *flow.Func {
				if callee == nil || !relevant[callee] {
					return nil
				}
				return base(call, callee)
			},
			OnCall: func(st *flow.State, call *ast.CallExpr, callee types.Object, d bool) {
				if isUnsub[call] {
					st.Set(ev, flow.True)
				}
			}})
		if res == nil {
			return
		}
		// the supersession mark written by the takeover branch of handleConn (read by role, see c16_supersede.go)
		var sup []c16SupFact
		if e16 != nil {
			for _, g := range reach(f, 3) {
				g := g
				sup = append(sup, e16.supFacts(g, func(x ast.Expr) bool {
					for _, l := range lookups {
						if o := c14obj(g, x); o != nil && l.g.Body == g.Body && o == c14obj(g, l.val) {
							return true
						}
					}
					return false
				})...)
			}
		}
		// reads of the mark on the receiver, in f and its helpers
		var markKeys []string
		for _, g := range reach(f, 3) {
			g := g
			gd, _ := g.Node.(*ast.FuncDecl)
			if gd == nil {
				continue
			}
			grecv := c14recvObj(g, gd)
			ast.Inspect(g.Body, func(n ast.Node) bool {
				if sel, ok := n.(*ast.SelectorExpr); ok {
					if sl := g.Info.Selections[sel]; sl != nil && sl.Kind() == types.FieldVal {
						if fld, _ := sl.Obj().(*types.Var); fld != nil && markFields[fld] && grecv != nil && c14obj(g, sel.X) == grecv {
							markKeys = append(markKeys, g.VarKey(sel))
						}
					}
				}
				return true
			})
		}
		lost := func(st *flow.State) bool {
			for _, l := range lookups {
				if st.Is(l.g.VarKey(l.ok), flow.True) && st.Is(l.g.EqKey(l.val, l.recv), flow.False) {
					return true
				}
			}
			for _, sf := range sup {
				if st.Is(sf.key, sf.supWhen) {
					return true // the connection is known to have been taken over
				}
			}
			for _, k := range markKeys {
				if st.Is(k, flow.True) {
					return true // the receiver carries the mark the takeover sets on the connection it replaces
				}
			}
			return sessExpr != nil && st.Is(f.NilKey(sessExpr), flow.True)
		}
		var bad *flow.Exit
		n := 0
		for _, ex := range res.Exits {
			if ex.Kind != flow.ExitReturn {
				continue
			}
			n++
			if !ex.State.Is(ev, flow.True) && !lost(ex.State) {
				bad = ex
			}
		}
		c.Check(bad == nil, "R-C14-9", cons+"|filters unsubscribed unless ownership was lost", pos(c, fd.Body),
			sprintf("%d abstract exits: TopicManager.unsubscribe(own session's filters) executed, or the connection registered under the id is known to be another one", n),
			"the teardown can return without removing the session's filters from the trie although the client id was not taken over by a successor (a state-dependent early return / guard other than the identity guard): when the connection was closed by the broker first (deleted session, delete-watch reconnect, pipeline Disconnect) its filters stay in the trie and are routed to whoever connects under the id next", func() []string {
				if bad == nil {
					return nil
				}
				return append([]string{"exit at " + pos(c, bad.At)}, witness(bad.State)...)
			}()...)
	})
	if !c.RequireCount("R-C14-9", "teardown functions (unsubscribe of the receiver's own session filters)", len(teardowns), 1) {
		return
	}

	// (b) the reader runs a teardown on every exit. A method all of whose exits run a teardown on
	// its own receiver counts as one too (the deferred closure of the read loop moved into a method).
	tdEvent := func(g *flow.Func, recv types.Object) func(st *flow.State, call *ast.CallExpr, callee types.Object, d bool) {
		return func(st *flow.State, call *ast.CallExpr, callee types.Object, d bool) {
			fo := c14calleeOf(g, call)
			if fo == nil || !teardowns[fo] {
				return
			}
			if x := c14recvOf(g, call); x != nil && c14obj(g, x) == recv {
				st.Set("ev:c14:tornDown", flow.True)
			}
		}
	}
	for round := 0; round < 2; round++ {
		e.decls(func(g *flow.Func, gd *ast.FuncDecl) {
			recv := c14recvObj(g, gd)
			o := e.funcObj(gd)
			if recv == nil || o == nil || teardowns[o] || !c14isNamed(recv.Type(), mq, "Client") {
				return
			}
			calls := false
			for _, call := range calls2(gd.Body) {
				if fo := c14calleeOf(g, call); fo != nil && teardowns[fo] {
					calls = true
				}
			}
			if !calls {
				return
			}
			res := analyze(c, g, flow.Config{NoHavoc: true, OnCall: tdEvent(g, recv)})
			if res == nil || len(res.Exits) == 0 {
				return
			}
			for _, ex := range res.Exits {
				if !ex.State.Is("ev:c14:tornDown", flow.True) {
					return
				}
			}
			teardowns[o] = true
		})
	}
	readers := 0
	e.decls(func(f *flow.Func, fd *ast.FuncDecl) {
		recv := c14recvObj(f, fd)
		if recv == nil || !c14isNamed(recv.Type(), mq, "Client") {
			return
		}
		reads := false
		for _, call := range calls(fd.Body, false) {
			if calleeFull(f, call) == "github.com/eclipse/paho.mqtt.golang/packets.ReadPacket" {
				reads = true
			}
		}
		if !reads {
			return
		}
		readers++
		cons := declName(e.pkg, fd)
		const ev = "ev:c14:tornDown"
		res := analyze(c, f, flow.Config{NoHavoc: true, OnCall: tdEvent(f, recv)})
		if res == nil {
			return
		}
		var bad *flow.Exit
		for _, ex := range res.Exits {
			if !ex.State.Is(ev, flow.True) {
				bad = ex
			}
		}
		c.Check(bad == nil && len(res.Exits) > 0, "R-C14-9", cons+"|teardown on every exit of the reader", pos(c, fd.Body),
			sprintf("%d abstract exits of the connection's read loop, all through the teardown", len(res.Exits)),
			"the connection's read loop can end without running the teardown that unsubscribes the session's filters: the filters of a client that is gone stay in the trie", func() []string {
				if bad == nil {
					return nil
				}
				return append([]string{"exit at " + pos(c, bad.At)}, witness(bad.State)...)
			}()...)
	})
	c.RequireCount("R-C14-9", "connection readers (Client methods calling packets.ReadPacket)", readers, 1)
}

// c14Pairing (R-C14-5): the function that hands the session's subscriptions back as two parallel
// slices (filters, QoS) keeps them paired: both are filled in the same loop body from the same map
// entry, and neither is touched on its own afterwards (sorted, reversed, resliced, element-assigned).
func c14Pairing(e *c14env) {
	c := e.c
	topicsF := structField(c, mq, "SessionInfo", "Topics")
	f := e.role("allSubscribes").f
	if topicsF == nil {
		return
	}
	cons := e.role("allSubscribes").cons
	// result variables: the slice-typed identifiers of the return statements
	var subV, qosV types.Object
	ast.Inspect(f.Body, func(n ast.Node) bool {
		if r, ok := n.(*ast.ReturnStmt); ok && len(r.Results) >= 2 {
			a, b := c14obj(f, r.Results[0]), c14obj(f, r.Results[1])
			if a != nil && b != nil {
				if _, ok := a.Type().Underlying().(*types.Slice); ok {
					if _, ok := b.Type().Underlying().(*types.Slice); ok {
						subV, qosV = a, b
					}
				}
			}
		}
		return true
	})
	if subV == nil || qosV == nil {
		c.Undecide("R-C14-5", cons+"|filters and QoS stay paired", pos(c, f.Body), "allSubscribes does not return two slice variables")
		return
	}
	// fills: v = append(v, E) / v[i] = E
	type fill struct {
		at   *ast.AssignStmt
		elem ast.Expr
		idx  string
		loop ast.Stmt
	}
	fills := map[types.Object][]fill{}
	allowed := map[*ast.Ident]bool{}
	ast.Inspect(f.Body, func(n ast.Node) bool {
		as, ok := n.(*ast.AssignStmt)
		if !ok || len(as.Lhs) != 1 || len(as.Rhs) != 1 {
			return true
		}
		var loop ast.Stmt
		if ls := enclosingLoops(f.Body, as); len(ls) > 0 {
			loop = ls[len(ls)-1]
		}
		l := ast.Unparen(as.Lhs[0])
		r := ast.Unparen(as.Rhs[0])
		if o := c14obj(f, l); o == subV || o == qosV {
			if call, ok := r.(*ast.CallExpr); ok && c14isBuiltin(f, call, "append") && len(call.Args) == 2 && c14obj(f, call.Args[0]) == o {
				fills[o] = append(fills[o], fill{as, call.Args[1], "", loop})
				allowed[l.(*ast.Ident)] = true
				allowed[ast.Unparen(call.Args[0]).(*ast.Ident)] = true
			} else if call, ok := r.(*ast.CallExpr); ok && c14isBuiltin(f, call, "make") && loop == nil {
				allowed[l.(*ast.Ident)] = true // fresh allocation before the loop
			} else if c14emptySlice(f, r) && loop == nil {
				allowed[l.(*ast.Ident)] = true
			}
		}
		if ix, ok := l.(*ast.IndexExpr); ok && loop != nil {
			if o := c14obj(f, ix.X); o == subV || o == qosV {
				fills[o] = append(fills[o], fill{as, r, f.Render(ix.Index), loop})
				allowed[ast.Unparen(ix.X).(*ast.Ident)] = true
			}
		}
		return true
	})
	// any other use of the two variables
	pm := parentMap(f.Body)
	var badUse ast.Node
	var unknownUse *ast.CallExpr
	why := ""
	ast.Inspect(f.Body, func(n ast.Node) bool {
		id, ok := n.(*ast.Ident)
		if !ok || allowed[id] {
			return true
		}
		o := f.Info.Uses[id]
		if o == nil {
			o = f.Info.Defs[id]
		}
		if o != subV && o != qosV {
			return true
		}
		switch p := pm[id].(type) {
		case *ast.ReturnStmt, *ast.ValueSpec:
			return true
		case *ast.RangeStmt:
			if ast.Unparen(p.X) == ast.Expr(id) {
				return true // iterated, not changed
			}
			badUse, why = p, "is the key/value target of a range statement"
		case *ast.CallExpr:
			if c14isBuiltin(f, p, "len", "cap") {
				return true
			}
			if fo, _ := f.Callee(p).(*types.Func); fo != nil && fo.Pkg() != nil {
				switch pp := fo.Pkg().Path(); {
				case pp == "fmt" || pp == "log" || strings.HasSuffix(pp, "/logger"):
					return true // read-only consumers (formatting, logging)
				case pp == "sort" || pp == "slices" || pp == "math/rand":
				default:
					if unknownUse == nil {
						unknownUse = p
					}
					return true
				}
			}
			badUse, why = p, "is handed to "+f.Render(p.Fun)+" on its own"
		case *ast.AssignStmt:
			badUse, why = p, "is reassigned / resliced"
		default:
			badUse, why = pm[id], "is used in a way that may reorder or change it"
		}
		return true
	})
	if badUse != nil {
		// both slices handed to one call: a joint reordering may be fine
		if call, ok := badUse.(*ast.CallExpr); ok {
			s, q := false, false
			for _, a := range call.Args {
				s = s || c14obj(f, a) == subV
				q = q || c14obj(f, a) == qosV
			}
			if s && q {
				c.Undecide("R-C14-5", cons+"|filters and QoS stay paired", pos(c, call), "both slices are handed to "+f.Render(call.Fun)+": cannot decide whether they are permuted together")
				return
			}
		}
		c.Violate("R-C14-5", cons+"|filters and QoS stay paired", pos(c, badUse),
			"one of the two parallel slices (filters, QoS) "+why+" after/outside the loop that fills both: element i of one no longer belongs to element i of the other, so a resumed persistent session is re-subscribed with filters paired with each other's QoS")
		return
	}
	if unknownUse != nil {
		c.Undecide("R-C14-5", cons+"|filters and QoS stay paired", pos(c, unknownUse), "one of the two slices is handed to "+f.Render(unknownUse.Fun)+": cannot decide whether it reorders or changes it")
		return
	}
	// pairing of the fills
	fs, fq := fills[subV], fills[qosV]
	ok := len(fs) == 1 && len(fq) == 1 && fs[0].loop != nil && fs[0].loop == fq[0].loop && fs[0].idx == fq[0].idx
	detail := "the filter slice and the QoS slice are not each filled exactly once in the same loop body (two loops over a map visit it in different orders)"
	if ok {
		ok = false
		detail = "the element appended to the QoS slice is not the value stored in SessionInfo.Topics under the filter appended to the filter slice in the same iteration"
		ef, eq := ast.Unparen(fs[0].elem), ast.Unparen(fq[0].elem)
		if call, isConv := eq.(*ast.CallExpr); isConv && len(call.Args) == 1 {
			if tv, ok2 := f.Info.Types[call.Fun]; ok2 && tv.IsType() {
				eq = ast.Unparen(call.Args[0])
			}
		}
		if rs, isRange := fs[0].loop.(*ast.RangeStmt); isRange {
			if _, overTopics := c14fieldRecv(f, rs.X, topicsF); overTopics && rs.Key != nil && rs.Value != nil &&
				c14obj(f, ef) != nil && c14obj(f, ef) == c14obj(f, rs.Key) && c14obj(f, eq) != nil && c14obj(f, eq) == c14obj(f, rs.Value) {
				ok = true
			}
		}
		if ix, isIx := eq.(*ast.IndexExpr); isIx && !ok {
			if _, overTopics := c14fieldRecv(f, ix.X, topicsF); overTopics && f.Render(ix.Index) == f.Render(ef) {
				ok = true
			}
		}
	}
	// third form: the filters are collected first, then the QoS slice is built by looking every
	// collected filter up again, in the order of the filter slice: qos[i] = Topics[sub[i]]
	if !ok && len(fs) == 1 && len(fq) == 1 && fs[0].loop != nil && fq[0].loop != nil && fs[0].idx == "" && fq[0].idx == "" && fs[0].loop.End() <= fq[0].loop.Pos() {
		if rs, isRange := fq[0].loop.(*ast.RangeStmt); isRange && c14obj(f, rs.X) == subV && rs.Value != nil {
			eq := ast.Unparen(fq[0].elem)
			if call, isConv := eq.(*ast.CallExpr); isConv && len(call.Args) == 1 {
				if tv, ok2 := f.Info.Types[call.Fun]; ok2 && tv.IsType() {
					eq = ast.Unparen(call.Args[0])
				}
			}
			if ix, isIx := eq.(*ast.IndexExpr); isIx {
				if _, overTopics := c14fieldRecv(f, ix.X, topicsF); overTopics && c14obj(f, ix.Index) != nil && c14obj(f, ix.Index) == c14obj(f, rs.Value) {
					ok = true
				}
			}
		}
	}
	c.Check(ok, "R-C14-5", cons+"|filters and QoS stay paired", pos(c, f.Body),
		"both slices are filled once, in the same loop body, from the same entry of SessionInfo.Topics (or the QoS slice is built by looking up the filters in the order of the filter slice), and are not touched on their own afterwards", detail+": a resumed persistent session is re-subscribed with a QoS that belongs to another filter")
}
