package rules

import (
	"go/ast"
	"go/token"
	"go/types"
	"sort"
	"strings"

	"golang.org/x/tools/go/cfg"
	"golang.org/x/tools/go/packages"

	"verif/internal/core"
	"verif/internal/flow"
	"verif/internal/load"
)

const (
	c11TC  = "pkg/object/trafficcontroller"
	c11Sup = "pkg/supervisor"
	c11PL  = "pkg/object/pipeline"
)

type c11Registry struct {
	rel   string
	field *types.Var
	owner string // "Namespace"
	name  string // "Namespace.pipelines"
}

// c11Registries resolves the entity registries by role: every sync.Map field of
// trafficcontroller.Namespace and of supervisor.Supervisor (the exported owner types are the
// anchors; the unexported field names are not).
func c11Registries(c *core.Ctx) []c11Registry {
	var out []c11Registry
	for _, r := range [][2]string{{c11TC, "Namespace"}, {c11Sup, "Supervisor"}} {
		n := namedType(c, r[0], r[1])
		if n == nil {
			continue
		}
		st, ok := n.Underlying().(*types.Struct)
		if !ok {
			c.Errorf("anchor: %s.%s is not a struct", r[0], r[1])
			continue
		}
		k := 0
		for i := 0; i < st.NumFields(); i++ {
			if c11IsNamed(st.Field(i).Type(), "sync", "Map") {
				out = append(out, c11Registry{rel: r[0], field: st.Field(i), owner: r[1], name: r[1] + "." + st.Field(i).Name()})
				k++
			}
		}
		if k < 2 {
			c.Errorf("anchor: expected two sync.Map registries in %s.%s, found %d", r[0], r[1], k)
		}
	}
	return out
}

// c11RegCall: call is a method call on an entity registry — directly on one of the registry
// fields, or through a handle (a value of type sync.Map / *sync.Map in the packages that own
// the registries, e.g. `objects := kind.objects(space); objects.Store(name, entity)`).
// For Store-like methods through a handle the stored value must be an *ObjectEntity.
func c11RegCall(f *flow.Func, call *ast.CallExpr, regs []c11Registry, methods ...string) (string, bool) {
	sel, ok := ast.Unparen(call.Fun).(*ast.SelectorExpr)
	if !ok {
		return "", false
	}
	if len(methods) > 0 {
		hit := false
		for _, m := range methods {
			if sel.Sel.Name == m {
				hit = true
			}
		}
		if !hit {
			return "", false
		}
	}
	for _, r := range regs {
		if c11FieldCall(f, call, r.field) {
			return r.name, true
		}
	}
	tv, ok := f.Info.Types[sel.X]
	if !ok || tv.Type == nil || !c11IsNamed(tv.Type, "sync", "Map") {
		return "", false
	}
	if s := f.Info.Selections[sel]; s == nil || s.Kind() != types.MethodVal {
		return "", false
	}
	rel := relPkg(f.Pkg.PkgPath)
	if rel != c11TC && rel != c11Sup {
		return "", false
	}
	switch sel.Sel.Name {
	case "Store", "LoadOrStore", "Swap":
		if len(call.Args) < 2 {
			return "", false
		}
		if av, ok := f.Info.Types[call.Args[1]]; !ok || av.Type == nil || !c11IsNamed(av.Type, Mod+c11Sup, "ObjectEntity") {
			return "", false
		}
	}
	return "registry handle " + types.ExprString(sel.X), true
}

// c11DerivedRoot follows a root identifier through single-assignment locals:
// `newSpec := entity.Spec()` makes newSpec derive from entity.
func c11DerivedRoot(f *flow.Func, id *ast.Ident) types.Object {
	var obj types.Object
	for depth := 0; id != nil && depth < 4; depth++ {
		obj = f.Info.Uses[id]
		if obj == nil {
			obj = f.Info.Defs[id]
		}
		v, ok := obj.(*types.Var)
		if !ok || v.IsField() || !(f.Body.Pos() <= v.Pos() && v.Pos() < f.Body.End()) {
			return obj // parameter, receiver, package-level: a root
		}
		var src ast.Expr
		n := 0
		ast.Inspect(f.Body, func(x ast.Node) bool {
			switch as := x.(type) {
			case *ast.AssignStmt:
				for i, l := range as.Lhs {
					if lid, ok := l.(*ast.Ident); ok && (f.Info.Defs[lid] == obj || f.Info.Uses[lid] == obj) {
						n++
						if len(as.Rhs) == len(as.Lhs) {
							src = as.Rhs[i]
						} else {
							src = nil
						}
					}
				}
			case *ast.ValueSpec:
				for i, lid := range as.Names {
					if f.Info.Defs[lid] == obj {
						n++
						if i < len(as.Values) {
							src = as.Values[i]
						}
					}
				}
			case *ast.RangeStmt:
				for _, e := range []ast.Expr{as.Key, as.Value} {
					if lid, ok := e.(*ast.Ident); ok && f.Info.Defs[lid] == obj {
						n += 2
					}
				}
			}
			return true
		})
		if n != 1 || src == nil {
			return obj
		}
		// only value-preserving derivations: selector / method-call / assertion chains
		next := c11RootIdent(src)
		if next == nil {
			return obj
		}
		id = next
	}
	return obj
}

func c11RootIdent(e ast.Expr) *ast.Ident {
	for {
		switch x := ast.Unparen(e).(type) {
		case *ast.SelectorExpr:
			e = x.X
		case *ast.CallExpr:
			e = x.Fun
		case *ast.TypeAssertExpr:
			e = x.X
		case *ast.IndexExpr:
			e = x.X
		case *ast.StarExpr:
			e = x.X
		case *ast.Ident:
			return x
		default:
			return nil
		}
	}
}

// c11Recv returns the receiver expression of a method call.
func c11Recv(call *ast.CallExpr) ast.Expr {
	if sel, ok := ast.Unparen(call.Fun).(*ast.SelectorExpr); ok {
		return sel.X
	}
	return nil
}

const (
	c11InitFn    = "(*pkg/supervisor.ObjectEntity).InitWithRecovery"
	c11InheritFn = "(*pkg/supervisor.ObjectEntity).InheritWithRecovery"
	c11EqualsFn  = "(*pkg/supervisor.Spec).Equals"
)

// c11EntityFlow runs the engine over a function that builds and/or publishes object
// entities. Events: ev:built:<entity> (Init/InheritWithRecovery returned for it),
// ev:pub:<entity> (stored into a registry map).
type c11EntityFlow struct {
	f      *flow.Func
	res    *flow.Result
	builds []*ast.CallExpr
	pubs   []*ast.CallExpr // registry Store calls
	pubReg map[*ast.CallExpr]c11Registry
}

func c11AnalyzeEntities(c *core.Ctx, f *flow.Func, regs []c11Registry) *c11EntityFlow {
	ef := &c11EntityFlow{f: f, pubReg: map[*ast.CallExpr]c11Registry{}}
	for _, call := range calls(f.Body, false) {
		if calleeIs(f, call, c11InitFn, c11InheritFn) {
			ef.builds = append(ef.builds, call)
		}
		if name, ok := c11RegCall(f, call, regs, "Store", "LoadOrStore", "Swap"); ok && len(call.Args) >= 2 {
			ef.pubs = append(ef.pubs, call)
			ef.pubReg[call] = c11Registry{name: name}
		}
	}
	isBuild := map[*ast.CallExpr]bool{}
	for _, b := range ef.builds {
		isBuild[b] = true
	}
	// declaration position of the variable an event is about (to reset it per iteration)
	declPos := map[string]token.Pos{}
	note := func(key string, e ast.Expr) {
		if id := c11RootIdent(e); id != nil {
			if o := f.Info.Uses[id]; o != nil {
				declPos[key] = o.Pos()
			}
		}
	}
	ef.res = analyze(c, f, flow.Config{
		OnBlock: func(st *flow.State, b *cfg.Block) {
			if b.Kind != cfg.KindRangeBody && b.Kind != cfg.KindForBody {
				return
			}
			// a new iteration: events about variables declared by/in the loop are dead
			for _, fact := range st.Facts() {
				k := fact[:len(fact)-2]
				if !strings.HasPrefix(k, "ev:built:") && !strings.HasPrefix(k, "ev:pub:") {
					continue
				}
				if p, ok := declPos[k]; ok && b.Stmt != nil && b.Stmt.Pos() <= p && p < b.Stmt.End() {
					st.Set(k, flow.Unknown)
				}
			}
		},
		OnCall: func(st *flow.State, call *ast.CallExpr, callee types.Object, deferred bool) {
			if isBuild[call] {
				note("ev:built:"+f.Render(c11Recv(call)), c11Recv(call))
				st.Set("ev:built:"+f.Render(c11Recv(call)), flow.True)
			}
			if _, ok := ef.pubReg[call]; ok {
				note("ev:pub:"+f.Render(call.Args[1]), call.Args[1])
				st.Set("ev:pub:"+f.Render(call.Args[1]), flow.True)
			}
		},
	})
	if ef.res == nil {
		return nil
	}
	return ef
}

// c11PublishOrder: R-C11-2 for object entities — built before published, not rebuilt after,
// every built entity is published before the function returns.
func c11PublishOrder(c *core.Ctx) {
	regs := c11Registries(c)
	if len(regs) < 4 {
		return
	}
	nPub, nBuild := 0, 0
	for _, rel := range []string{c11TC, c11Sup} {
		pkg := c.Prog.Pkg(rel)
		if pkg == nil {
			c.Errorf("anchor: package %s not loaded", rel)
			continue
		}
		var fds []*ast.FuncDecl
		for _, file := range pkg.Syntax {
			for _, d := range file.Decls {
				if fd, ok := d.(*ast.FuncDecl); ok && fd.Body != nil {
					fds = append(fds, fd)
				}
			}
		}
		sort.Slice(fds, func(i, j int) bool { return fds[i].Pos() < fds[j].Pos() })
		type unit struct {
			f    *flow.Func
			fd   *ast.FuncDecl
			name string
		}
		var units []unit
		for _, fd := range fds {
			f0 := flow.NewFunc(pkg, fd)
			units = append(units, unit{f0, fd, declName(pkg, fd)})
			// a body moved into a closure (tc.withLock(func() {...})) is analysed as a unit of its own
			k := 0
			var lits func(n ast.Node)
			lits = func(n ast.Node) {
				ast.Inspect(n, func(x ast.Node) bool {
					if lit, ok := x.(*ast.FuncLit); ok {
						k++
						units = append(units, unit{f0.Lit(lit), fd, sprintf("%s$closure%d", declName(pkg, fd), k)})
						lits(lit.Body)
						return false
					}
					return true
				})
			}
			lits(fd.Body)
		}
		for _, u := range units {
			f, fd := u.f, u.fd
			has := false
			for _, call := range calls(f.Body, false) {
				if _, ok := c11RegCall(f, call, regs, "Store", "LoadOrStore", "Swap"); ok {
					has = true
				}
			}
			if !has {
				continue
			}
			c.Count("functions_analysed", 1)
			ef := c11AnalyzeEntities(c, f, regs)
			if ef == nil {
				continue
			}
			name := u.name
			nPub += len(ef.pubs)
			nBuild += len(ef.builds)
			// several Store sites of the same registry in one function (create / update branch)
			perReg := map[string]int{}
			for _, p := range ef.pubs {
				r := ef.pubReg[p]
				perReg[r.name]++
				role := "publish into " + r.name
				if perReg[r.name] > 1 {
					role = sprintf("publish into %s #%d", r.name, perReg[r.name])
				}
				ent := f.Render(p.Args[1])
				var bad *flow.State
				for _, st := range ef.res.At[p] {
					if !st.Is("ev:built:"+ent, flow.True) {
						bad = st
						break
					}
				}
				c.Check(bad == nil, "R-C11-2", name+"|"+role+" after Init/Inherit", pos(c, p),
					sprintf("%d states reach the Store, in all of them InitWithRecovery/InheritWithRecovery has returned for the stored entity", len(ef.res.At[p])),
					"the entity is stored into the registry map (visible to GetHandler / concurrent readers) on a path on which InitWithRecovery/InheritWithRecovery has not yet run for it: a request can pick up a half-built generation (nil filters map, nil runtime)", witness(bad)...)
			}
			for i, b := range ef.builds {
				ent := f.Render(c11Recv(b))
				var bad *flow.State
				for _, st := range ef.res.At[b] {
					if st.Is("ev:pub:"+ent, flow.True) {
						bad = st
						break
					}
				}
				c.Check(bad == nil, "R-C11-2", sprintf("%s|build #%d not after publication", name, i+1), pos(c, b),
					"Init/Inherit runs before the entity is visible", "Init/Inherit runs on an entity that has already been stored into the registry map: requests see it while its fields are being assigned", witness(bad)...)
			}
			if len(ef.builds) > 0 {
				var bad *flow.Exit
				for _, ex := range ef.res.Exits {
					if ex.Kind != flow.ExitReturn {
						continue
					}
					for _, fact := range ex.State.Facts() {
						if strings.HasPrefix(fact, "ev:built:") && strings.HasSuffix(fact, "=T") {
							ent := strings.TrimSuffix(strings.TrimPrefix(fact, "ev:built:"), "=T")
							if !ex.State.Is("ev:pub:"+ent, flow.True) {
								bad = ex
							}
						}
					}
					if bad != nil {
						break
					}
				}
				var w []string
				if bad != nil {
					w = witness(bad.State)
				}
				c.Check(bad == nil, "R-C11-2", name+"|built entity is published", pos(c, fd.Name),
					sprintf("%d exits: whenever Init/Inherit ran, the entity was stored", len(ef.res.Exits)),
					"a path initialises/inherits the new entity (Inherit closes or takes over the previous generation) but returns without storing it: new requests keep resolving to the superseded generation", w...)
			}
		}
	}
	c.RequireCount("R-C11-2", "registry Store sites (pipelines, trafficGates, businessControllers, systemControllers)", nPub, 4)
	c.RequireCount("R-C11-2", "Init/InheritWithRecovery sites in publishing functions", nBuild, 4)
	c11APICoverage(c, "R-C11-2", regs)
}

// c11APICoverage is the vacuity guard of the entity rules stated over the exported API:
// every Create/Update/Apply method of TrafficController must reach (through same-package
// calls) a function that stores an entity into a registry, however the bodies are shared.
func c11APICoverage(c *core.Ctx, rule string, regs []c11Registry) {
	n := 0
	for _, m := range []string{"CreatePipeline", "UpdatePipeline", "ApplyPipeline", "CreateTrafficGate", "UpdateTrafficGate", "ApplyTrafficGate"} {
		f := fnOpt(c, c11TC, "TrafficController", m)
		if f == nil {
			continue
		}
		hit := false
		for _, g := range reach(f, 4) {
			for _, call := range calls(g.Body, true) {
				if _, ok := c11RegCall(g, call, regs, "Store", "LoadOrStore", "Swap"); ok {
					hit = true
				}
			}
		}
		if hit {
			n++
		}
	}
	c.RequireCount(rule, "exported Create/Update/Apply methods of TrafficController that reach a registry Store", n, 6)
}

// c11EntityFactoryCall: the call builds a new object entity from configuration — by type, not
// by name: it returns (*supervisor.ObjectEntity, error) and takes the config text (a string)
// or a *supervisor.Spec. Works for the concrete Supervisor methods, for an interface put in
// front of them (entityFactory) and for a function value.
func c11EntityFactoryCall(f *flow.Func, call *ast.CallExpr) bool {
	tv, ok := f.Info.Types[call]
	if !ok || tv.Type == nil {
		return false
	}
	tup, ok := tv.Type.(*types.Tuple)
	if !ok || tup.Len() != 2 || !c11IsNamed(tup.At(0).Type(), Mod+c11Sup, "ObjectEntity") || !c11IsErrorT(tup.At(1).Type()) {
		return false
	}
	if len(call.Args) != 1 {
		return false
	}
	av, ok := f.Info.Types[call.Args[0]]
	if !ok || av.Type == nil {
		return false
	}
	if b, ok := av.Type.Underlying().(*types.Basic); ok && b.Info()&types.IsString != 0 {
		return true
	}
	return c11IsNamed(av.Type, Mod+c11Sup, "Spec")
}

func c11IsErrorT(t types.Type) bool {
	return types.Identical(t, types.Universe.Lookup("error").Type())
}

// c11NoOp: R-C11-4.
func c11NoOp(c *core.Ctx) {
	regs := c11Registries(c)
	done := map[ast.Node]bool{}
	for _, m := range []string{"ApplyPipeline", "ApplyTrafficGate"} {
		f0 := fn(c, c11TC, "TrafficController", m)
		if f0 == nil {
			continue
		}
		// the function that decides create / no-op / update: ApplyX itself or the shared
		// same-package worker it delegates to (the one holding the InheritWithRecovery site)
		var f *flow.Func
		fname0 := ""
		for _, g := range reach(f0, 3) {
			if len(callsTo(g, g.Body, false, c11InheritFn)) > 0 {
				f, fname0 = g, declName(g.Pkg, g.Node.(*ast.FuncDecl))
				break
			}
			// the body may live in a closure handed to a helper (withLock(func() {...}))
			ast.Inspect(g.Body, func(x ast.Node) bool {
				if lit, ok := x.(*ast.FuncLit); ok && f == nil {
					gl := g.Lit(lit)
					if len(callsTo(gl, gl.Body, false, c11InheritFn)) > 0 {
						f, fname0 = gl, declName(g.Pkg, g.Node.(*ast.FuncDecl))+"$closure"
					}
				}
				return true
			})
			if f != nil {
				break
			}
		}
		if f == nil {
			c.RequireCount("R-C11-4", "InheritWithRecovery sites reachable from "+m, 0, 1)
			continue
		}
		if done[f.Node] {
			continue // both methods share one worker: already decided
		}
		done[f.Node] = true
		name := fname0
		ef := c11AnalyzeEntities(c, f, regs)
		if ef == nil {
			continue
		}
		var inherits []*ast.CallExpr
		for _, b := range ef.builds {
			if calleeIs(f, b, c11InheritFn) {
				inherits = append(inherits, b)
			}
		}
		if !c.RequireCount("R-C11-4", "InheritWithRecovery sites in "+m, len(inherits), 1) {
			continue
		}
		eqs := callsTo(f, f.Body, false, c11EqualsFn)
		for i, inh := range inherits {
			cons := name + "|update only if the spec changed"
			if i > 0 {
				cons = sprintf("%s #%d", cons, i+1)
			}
			ent := c11RootIdent(c11Recv(inh))
			var entObj types.Object
			if ent != nil {
				entObj = f.Info.Uses[ent]
			}
			// a usable guard compares the new entity's spec with another entity's spec
			var guards []*ast.CallExpr
			for _, e := range eqs {
				a, b := c11RootIdent(c11Recv(e)), (*ast.Ident)(nil)
				if len(e.Args) == 1 {
					b = c11RootIdent(e.Args[0])
				}
				if a == nil || b == nil || entObj == nil {
					continue
				}
				ao, bo := c11DerivedRoot(f, a), c11DerivedRoot(f, b)
				if (ao == entObj) != (bo == entObj) {
					guards = append(guards, e)
				}
			}
			var bad *flow.State
			for _, st := range ef.res.At[inh] {
				ok := false
				for _, g := range guards {
					if st.Is(f.CallKey(g), flow.False) {
						ok = true
					}
				}
				if !ok {
					bad = st
					break
				}
			}
			c.Check(bad == nil, "R-C11-4", cons, pos(c, inh),
				sprintf("InheritWithRecovery is reached only with previous.Spec().Equals(new.Spec()) = false (%d states)", len(ef.res.At[inh])),
				"InheritWithRecovery is reachable without the previous spec having been compared unequal to the new one: applying an unchanged spec rebuilds the object (Pipeline.Inherit closes the previous generation's filters under in-flight requests, HTTPServer reloads its router)", witness(bad)...)
			// the equal path is a no-op
			var badExit *flow.Exit
			why := ""
			for _, ex := range ef.res.Exits {
				eq := false
				for _, g := range guards {
					if ex.State.Is(f.CallKey(g), flow.True) {
						eq = true
					}
				}
				if !eq {
					continue
				}
				for _, fact := range ex.State.Facts() {
					if (strings.HasPrefix(fact, "ev:built:") || strings.HasPrefix(fact, "ev:pub:")) && strings.HasSuffix(fact, "=T") {
						badExit, why = ex, "with an equal spec the function still initialises or stores an entity"
					}
				}
				if ex.Return != nil && len(ex.Return.Results) > 0 && entObj != nil {
					if id := c11RootIdent(ex.Return.Results[0]); id != nil && f.Info.Uses[id] == entObj {
						badExit, why = ex, "with an equal spec the never-initialised new entity is returned to the caller instead of the running one"
					}
				}
				if badExit != nil {
					break
				}
			}
			var w []string
			if badExit != nil {
				w = witness(badExit.State)
			}
			if len(guards) > 0 {
				c.Check(badExit == nil, "R-C11-4", name+"|equal spec is a no-op", pos(c, guards[0]),
					"on the Equals = true path nothing is built or stored and the running entity is returned", why, w...)
			}
		}
	}

	// ObjectRegistry.applyConfig
	// role: the method of ObjectRegistry that creates entities from configuration text
	var f *flow.Func
	cands := funcsByRole(c, c11Sup, func(g *flow.Func, fd *ast.FuncDecl) bool {
		if fd.Recv == nil || len(fd.Recv.List) != 1 || load.RecvName(fd.Recv.List[0].Type) != "ObjectRegistry" {
			return false
		}
		for _, call := range calls(g.Body, true) {
			if c11EntityFactoryCall(g, call) {
				return true
			}
		}
		return false
	})
	if len(cands) != 1 {
		c.Errorf("R-C11-4: anchor: expected one method of ObjectRegistry that builds entities from configuration text (a call returning (*ObjectEntity, error) for a string), found %d", len(cands))
		return
	}
	f = cands[0]
	c.Count("functions_analysed", 1)
	name := declName(f.Pkg, f.Node.(*ast.FuncDecl))
	// the new entity: variable assigned from NewObjectEntityFromConfig
	var entObj types.Object
	ast.Inspect(f.Body, func(n ast.Node) bool {
		if as, ok := n.(*ast.AssignStmt); ok && len(as.Rhs) == 1 {
			if call, ok := ast.Unparen(as.Rhs[0]).(*ast.CallExpr); ok && c11EntityFactoryCall(f, call) {
				if id, ok := as.Lhs[0].(*ast.Ident); ok {
					if o := f.Info.Defs[id]; o != nil {
						entObj = o
					} else {
						entObj = f.Info.Uses[id]
					}
				}
			}
		}
		return true
	})
	if entObj == nil {
		c.Errorf("R-C11-4: anchor: applyConfig does not create the new entity with NewObjectEntityFromConfig")
		return
	}
	// subject: map stores of the new entity
	var subj []*ast.AssignStmt
	ast.Inspect(f.Body, func(n ast.Node) bool {
		if as, ok := n.(*ast.AssignStmt); ok && len(as.Lhs) == 1 && len(as.Rhs) == 1 {
			if _, ok := ast.Unparen(as.Lhs[0]).(*ast.IndexExpr); ok {
				if id, ok := ast.Unparen(as.Rhs[0]).(*ast.Ident); ok && f.Info.Uses[id] == entObj {
					subj = append(subj, as)
				}
			}
		}
		return true
	})
	if !c.RequireCount("R-C11-4", "map stores of the new entity in applyConfig (entities / created / updated)", len(subj), 3) {
		return
	}
	var guards []*ast.CallExpr
	var prevObj types.Object
	for _, e := range callsTo(f, f.Body, false, c11EqualsFn) {
		a, b := c11RootIdent(c11Recv(e)), (*ast.Ident)(nil)
		if len(e.Args) == 1 {
			b = c11RootIdent(e.Args[0])
		}
		if a == nil || b == nil {
			continue
		}
		ao, bo := c11DerivedRoot(f, a), c11DerivedRoot(f, b)
		if (ao == entObj) != (bo == entObj) {
			guards = append(guards, e)
			if ao == entObj {
				prevObj = bo
			} else {
				prevObj = ao
			}
		}
	}
	// "no previous entity" facts: comma-ok variable of the lookup defining prev, or prev == nil
	var absent []func(st *flow.State) bool
	if prevObj != nil {
		ast.Inspect(f.Body, func(n ast.Node) bool {
			if as, ok := n.(*ast.AssignStmt); ok && len(as.Lhs) == 2 && len(as.Rhs) == 1 {
				if id, ok := as.Lhs[0].(*ast.Ident); ok && (f.Info.Defs[id] == prevObj || f.Info.Uses[id] == prevObj) {
					okID, _ := as.Lhs[1].(*ast.Ident)
					pid := id
					if okID != nil && okID.Name != "_" {
						absent = append(absent, func(st *flow.State) bool { return st.Is(f.VarKey(okID), flow.False) })
					}
					absent = append(absent, func(st *flow.State) bool { return st.Is(f.NilKey(pid), flow.True) })
				}
			}
			return true
		})
	}
	res := analyze(c, f, flow.Config{})
	if res == nil {
		return
	}
	for i, as := range subj {
		target := types.ExprString(ast.Unparen(as.Lhs[0]).(*ast.IndexExpr).X)
		_ = i
		var bad *flow.State
		for _, st := range res.At[as] {
			ok := false
			for _, g := range guards {
				if st.Is(f.CallKey(g), flow.False) {
					ok = true
				}
			}
			for _, a := range absent {
				if a(st) {
					ok = true
				}
			}
			if !ok {
				bad = st
				break
			}
		}
		c.Check(bad == nil, "R-C11-4", name+"|"+target+"[name] = new entity only if the spec changed", pos(c, as),
			sprintf("reached only when no entity of that name exists or Equals = false (%d states)", len(res.At[as])),
			"the new entity replaces / is announced as an update of an existing one without the specs having been compared unequal: every sync of an unchanged config re-inherits all controllers", witness(bad)...)
	}
}

// c11Isolation: R-C11-5.
func c11Isolation(c *core.Ctx) {
	regs := c11Registries(c)
	if len(regs) < 4 {
		return
	}
	specM := c11MethodObj(c, c11Sup, "ObjectEntity", "Spec")
	nameM := c11MethodObj(c, c11Sup, "Spec", "Name")
	if specM == nil || nameM == nil {
		return
	}
	uses := map[string]int{}
	stores := 0
	for _, rel := range []string{c11TC, c11Sup} {
		pkg := c.Prog.Pkg(rel)
		if pkg == nil {
			continue
		}
		eachFunc(c, func(p *packages.Package, fd *ast.FuncDecl) {
			if p != pkg {
				return
			}
			f := flow.NewFunc(p, fd)
			okSel := map[*ast.SelectorExpr]bool{}
			parents := parentMap(fd.Body)
			// taking the address of a registry (a handle) does not replace it
			ast.Inspect(fd.Body, func(n ast.Node) bool {
				if ue, ok := n.(*ast.UnaryExpr); ok && ue.Op == token.AND {
					if sel, ok := ast.Unparen(ue.X).(*ast.SelectorExpr); ok {
						okSel[sel] = true
					}
				}
				return true
			})
			for _, call := range calls(fd.Body, true) {
				{
					rname, isReg := c11RegCall(f, call, regs)
					if !isReg {
						continue
					}
					if inner, ok := ast.Unparen(ast.Unparen(call.Fun).(*ast.SelectorExpr).X).(*ast.SelectorExpr); ok {
						okSel[inner] = true
					}
					r := c11Registry{name: rname}
					m := methodName(call)
					if (m == "Store" || m == "LoadOrStore" || m == "Swap") && len(call.Args) >= 2 {
						stores++
						ok := c11KeyIsOwnName(f, fd, parents, call, call.Args[0], call.Args[1], specM, nameM)
						c.Check(ok, "R-C11-5", c11Uniq(c, "R-C11-5", declName(p, fd)+"|"+r.name+" keyed by the entity's own name"), pos(c, call),
							"the key is entity.Spec().Name() of the stored entity (or the key of the event map the entity was taken from, or the kind of a kind-named system object)",
							"the entity is stored under a key that is not derived from its own name: creating or updating this object replaces (makes unavailable) the object registered under that other key")
					}
				}
			}
			ast.Inspect(fd.Body, func(n ast.Node) bool {
				sel, ok := n.(*ast.SelectorExpr)
				if !ok {
					return true
				}
				sl := f.Info.Selections[sel]
				if sl == nil {
					return true
				}
				for _, r := range regs {
					if sl.Obj() == r.field {
						uses[r.name]++
						if !okSel[sel] {
							c.Violate("R-C11-5", declName(p, fd)+"|"+r.name+" accessed only through sync.Map methods", pos(c, sel),
								"the registry map is assigned or copied: replacing it wholesale drops every other object registered in it")
						}
					}
				}
				return true
			})
		})
	}
	c.RequireCount("R-C11-5", "keyed Store sites", stores, 4)
	c11APICoverage(c, "R-C11-5", regs)
	bad := false
	for _, o := range c.Obligations {
		if o.Rule == "R-C11-5" && o.Verdict == core.Violated && strings.Contains(o.Construct, "accessed only through") {
			bad = true
		}
	}
	if !bad {
		c.Discharge("R-C11-5", "registries|accessed only through sync.Map methods", c.Prog.Rel(regs[0].field.Pos()), sprintf("%v", uses))
	}
}

// c11KeyIsOwnName: key is <val>.Spec().Name() (directly or through a local only assigned
// that), or key and val are the key and value variables of one enclosing range statement.
func c11KeyIsOwnName(f *flow.Func, fd *ast.FuncDecl, parents map[ast.Node]ast.Node, at ast.Node, key, val ast.Expr, specM, nameM *types.Func) bool {
	vid, _ := ast.Unparen(val).(*ast.Ident)
	if vid == nil {
		return false
	}
	vobj := f.Info.Uses[vid]
	isOwn := func(e ast.Expr) bool {
		c1, ok := ast.Unparen(e).(*ast.CallExpr)
		if !ok || f.Callee(c1) != nameM {
			return false
		}
		c2, ok := ast.Unparen(c11Recv(c1)).(*ast.CallExpr)
		if !ok || f.Callee(c2) != specM {
			return false
		}
		id, ok := ast.Unparen(c11Recv(c2)).(*ast.Ident)
		return ok && f.Info.Uses[id] == vobj
	}
	// objects named by their kind (system controllers): <object>.Kind()
	isKind := func(e ast.Expr) bool {
		call, ok := ast.Unparen(e).(*ast.CallExpr)
		return ok && ifaceMethodCall(f, call, "pkg/supervisor", "Object", "Kind")
	}
	if isOwn(key) || isKind(key) {
		return true
	}
	kid, _ := ast.Unparen(key).(*ast.Ident)
	if kid == nil {
		return false
	}
	kobj := f.Info.Uses[kid]
	// range key/value pair
	for n := parents[at]; n != nil; n = parents[n] {
		if rs, ok := n.(*ast.RangeStmt); ok {
			k, _ := rs.Key.(*ast.Ident)
			v, _ := rs.Value.(*ast.Ident)
			if k != nil && v != nil && f.Info.Defs[k] == kobj && f.Info.Defs[v] == vobj {
				return true
			}
		}
	}
	n, good := 0, 0
	ast.Inspect(fd.Body, func(x ast.Node) bool {
		if as, ok := x.(*ast.AssignStmt); ok {
			for i, l := range as.Lhs {
				if lid, ok := l.(*ast.Ident); ok && (f.Info.Defs[lid] == kobj || f.Info.Uses[lid] == kobj) {
					n++
					if len(as.Rhs) == len(as.Lhs) && (isOwn(as.Rhs[i]) || isKind(as.Rhs[i])) {
						good++
					}
				}
			}
		}
		return true
	})
	return n > 0 && n == good
}

// c11PipelineImmutable: R-C11-2 for the pipeline generation — fields of Pipeline (and the
// filter bound to a FlowNode) are assigned only while the generation is being built, i.e.
// in Init / Inherit and helpers that are called from nowhere else.
func c11PipelineImmutable(c *core.Ctx) {
	pkg := c.Prog.Pkg(c11PL)
	if pkg == nil {
		c.Errorf("anchor: package %s not loaded", c11PL)
		return
	}
	fields := c11FieldsOf(c, c11PL, "Pipeline")
	// the filter instance bound to a flow node: the field(s) of FlowNode of type filters.Filter
	if fnT := namedType(c, c11PL, "FlowNode"); fnT != nil {
		if st, ok := fnT.Underlying().(*types.Struct); ok {
			k := 0
			for i := 0; i < st.NumFields(); i++ {
				if c11IsNamed(st.Field(i).Type(), Mod+"pkg/filters", "Filter") {
					fields[st.Field(i)] = "FlowNode." + st.Field(i).Name()
					k++
				}
			}
			if k == 0 {
				c.Errorf("R-C11-2: anchor: FlowNode has no field of type filters.Filter")
			}
		}
	}
	whole := map[*types.Named]bool{}
	if n := namedType(c, c11PL, "Pipeline"); n != nil {
		whole[n] = true
	}
	initM := c11MethodObj(c, c11PL, "Pipeline", "Init")
	inhM := c11MethodObj(c, c11PL, "Pipeline", "Inherit")
	if initM == nil || inhM == nil || len(fields) < 4 {
		return
	}
	decls := c11DeclOf(pkg)
	// callers / escaping references inside the package
	callers := map[*types.Func]map[*types.Func]bool{}
	escapes := map[*types.Func]bool{}
	for o, fd := range decls {
		callFun := map[*ast.Ident]bool{}
		for _, call := range calls(fd.Body, true) {
			switch x := ast.Unparen(call.Fun).(type) {
			case *ast.Ident:
				callFun[x] = true
			case *ast.SelectorExpr:
				callFun[x.Sel] = true
			}
		}
		ast.Inspect(fd.Body, func(n ast.Node) bool {
			if id, ok := n.(*ast.Ident); ok {
				if callee, ok := pkg.TypesInfo.Uses[id].(*types.Func); ok && decls[callee] != nil {
					if callFun[id] {
						if callers[callee] == nil {
							callers[callee] = map[*types.Func]bool{}
						}
						callers[callee][o] = true
					} else {
						escapes[callee] = true
					}
				}
			}
			return true
		})
	}
	allowed := map[*types.Func]bool{initM: true, inhM: true}
	for changed := true; changed; {
		changed = false
		for o := range decls {
			if allowed[o] || o.Exported() || escapes[o] || len(callers[o]) == 0 {
				continue
			}
			all := true
			for caller := range callers[o] {
				if !allowed[caller] && caller != o {
					all = false
				}
			}
			if all {
				allowed[o] = true
				changed = true
			}
		}
	}
	n := 0
	var os []*types.Func
	for o := range decls {
		os = append(os, o)
	}
	sort.Slice(os, func(i, j int) bool { return os[i].Pos() < os[j].Pos() })
	for _, o := range os {
		fd := decls[o]
		for _, s := range c11Stores(pkg.TypesInfo, fd, fields, whole) {
			n++
			what := "Pipeline"
			if s.field != nil {
				what = fields[s.field]
			}
			c.Check(allowed[o], "R-C11-2", c11Uniq(c, "R-C11-2", declName(pkg, fd)+"|store to "+what), pos(c, s.stmt),
				"assigned while the generation is built (Init/Inherit or a helper only they call)",
				sprintf("%s is assigned in a function that runs (or can run) after the pipeline has been published: a request walking the flow of this generation sees filters/flow of two generations", what))
		}
	}
	c.RequireCount("R-C11-2", "stores to Pipeline fields / FlowNode.filter", n, 2)
}
