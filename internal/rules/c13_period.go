package rules

import (
	"go/ast"
	"go/token"
	"go/types"
	"strconv"
	"strings"

	"verif/internal/core"
	"verif/internal/flow"
)

// Machine-checked reason of the reviewed divisors `ratelimiter.Policy.LimitRefreshPeriod` and
// `ratelimiter.MultiPolicy.LimitRefreshPeriod` (R-C13-3): every value that reaches the field is
// positive. All stores into the field in the reachable code are judged:
//
//   - a keyed value / assignment: the expression is positive in every state reaching the store
//     (constants, products and conversions of positives, comparisons and constant assignments the
//     engine knows, `x = y` with y positive, `if x <= 0 { x = 1 }`);
//   - a parameter of the storing function: the argument at every call site, recursively (the
//     constructor NewPolicy(timeout, refresh, limit) and helpers like newSingleLimiter);
//   - `x.F, _ = time.ParseDuration(s)`: s comes from a spec field that validation code parses
//     with time.ParseDuration too (the filter's Spec.Validate rejects periods <= 0);
//   - a struct literal that omits the field stores zero: the field must have been assigned a
//     positive value on every path before the struct value is handed on (`librl.New(&policy)`).

const c13EvPos = "ev:pos:"

type c13PeriodQuery struct {
	at   ast.Node
	eval func(st *flow.State) bool
	bad  *flow.State
	seen bool
}

type c13Period struct {
	c     *core.Ctx
	g     *c13Graph
	sf    *c13SpecFields
	field *types.Var
	fails []string
	n     int
}

func c13CheckPeriodPositive(rel, typ string) func(c *core.Ctx, g *c13Graph, sf *c13SpecFields) (bool, string) {
	return func(c *core.Ctx, g *c13Graph, sf *c13SpecFields) (bool, string) {
		return c13Memo(c, "period:"+typ, func() (bool, string) {
			field := structField(c, rel, typ, "LimitRefreshPeriod")
			if field == nil {
				return true, "anchor unresolved (checker error recorded)"
			}
			p := &c13Period{c: c, g: g, sf: sf, field: field}
			p.run()
			if len(p.fails) > 0 {
				return false, p.fails[0]
			}
			if p.n == 0 {
				c.Errorf("R-C13-3: no store into %s.LimitRefreshPeriod found", typ)
				return true, "no store found (checker error recorded)"
			}
			return true, sprintf("%d value(s) reaching %s.LimitRefreshPeriod, each positive on every path", p.n, typ)
		})
	}
}

func (p *c13Period) run() {
	owner := p.field
	for _, n := range p.g.nodes {
		if !n.reached || n.decl == nil {
			continue
		}
		info := n.pkg.TypesInfo
		var queries []*c13PeriodQuery
		ast.Inspect(n.body, func(x ast.Node) bool {
			switch e := x.(type) {
			case *ast.CompositeLit:
				tv := info.Types[e]
				if tv.Type == nil {
					return true
				}
				st, ok := tv.Type.Underlying().(*types.Struct)
				if !ok || !c13HasField(st, owner) {
					return true
				}
				var val ast.Expr
				keyed := len(e.Elts) == 0
				for _, el := range e.Elts {
					if kv, ok := el.(*ast.KeyValueExpr); ok {
						keyed = true
						if k, ok := kv.Key.(*ast.Ident); ok && info.Uses[k] == owner {
							val = kv.Value
						}
					}
				}
				if !keyed {
					return true // positional literal: not used for these types
				}
				if val != nil {
					queries = append(queries, p.valueQueries(n, e, val, 0)...)
				} else {
					queries = append(queries, p.zeroLiteralQueries(n, e)...)
				}
			case *ast.AssignStmt:
				for i, l := range e.Lhs {
					if c13FieldOf(n, l) != owner {
						continue
					}
					switch {
					case len(e.Lhs) == len(e.Rhs):
						queries = append(queries, p.valueQueries(n, e, e.Rhs[i], 0)...)
					case len(e.Rhs) == 1 && p.validatedParse(n, e.Rhs[0]):
						p.n++
					default:
						p.n++
						p.fails = append(p.fails, sprintf("%s assigns %s from a call result that is not known positive (%s)", n.name, owner.Name(), pos(p.c, e)))
					}
				}
			}
			return true
		})
		p.judge(n, queries)
	}
}

func c13HasField(st *types.Struct, f *types.Var) bool {
	for i := 0; i < st.NumFields(); i++ {
		if st.Field(i) == f {
			return true
		}
	}
	return false
}

// validatedParse: time.ParseDuration(s) with s (through single-definition locals) a spec field
// that validation code reads.
func (p *c13Period) validatedParse(n *c13Node, e ast.Expr) bool {
	call, ok := ast.Unparen(e).(*ast.CallExpr)
	if !ok || len(call.Args) != 1 {
		return false
	}
	id := c13CalleeIdent(call)
	if id == nil {
		return false
	}
	fo, ok := n.pkg.TypesInfo.Uses[id].(*types.Func)
	if !ok || fo.Pkg() == nil || fo.Pkg().Path() != "time" || fo.Name() != "ParseDuration" {
		return false
	}
	v := c13FieldOf(n, c13Core(n, call.Args[0]))
	// validation must look at the parsed value of the same field (Spec.Validate parses it and
	// rejects periods <= 0), not merely read the string
	return v != nil && p.sf.isSpec(v) && p.sf.validated[v] && p.sf.parsedDur[v]
}

// valueQueries: the value stored at node `at` of n must be positive. A parameter is followed
// to the call sites.
func (p *c13Period) valueQueries(n *c13Node, at ast.Node, val ast.Expr, depth int) []*c13PeriodQuery {
	if id, ok := c13StripConv(n, val).(*ast.Ident); ok && depth < 3 {
		if pi := c13ParamIndex(n, id); pi >= 0 {
			sites := p.g.callSites(n)
			for _, cs := range sites {
				if len(cs.call.Args) <= pi || cs.caller.decl == nil {
					continue
				}
				qs := p.valueQueries(cs.caller, cs.call, cs.call.Args[pi], depth+1)
				p.judge(cs.caller, qs)
			}
			return nil
		}
	}
	p.n++
	top := n.flowFunc()
	f := c13Innermost(top, at)
	q := &c13PeriodQuery{at: at}
	q.eval = func(st *flow.State) bool { return c13PosExpr(st, f, n, val, 0) }
	return []*c13PeriodQuery{q}
}

// zeroLiteralQueries: a literal without the field. If it initialises a local variable, the
// field must be positive wherever the variable (or its address) is handed on; otherwise zero
// reaches the field.
func (p *c13Period) zeroLiteralQueries(n *c13Node, lit *ast.CompositeLit) []*c13PeriodQuery {
	p.n++
	info := n.pkg.TypesInfo
	var v types.Object
	ast.Inspect(n.body, func(x ast.Node) bool {
		switch s := x.(type) {
		case *ast.AssignStmt:
			if len(s.Lhs) == len(s.Rhs) {
				for i, r := range s.Rhs {
					r = ast.Unparen(r)
					if u, ok := r.(*ast.UnaryExpr); ok && u.Op == token.AND {
						r = ast.Unparen(u.X)
					}
					if r == ast.Expr(lit) {
						if id, ok := s.Lhs[i].(*ast.Ident); ok {
							v = info.Defs[id]
							if v == nil {
								v = info.Uses[id]
							}
						}
					}
				}
			}
		case *ast.ValueSpec:
			for i, r := range s.Values {
				if ast.Unparen(r) == ast.Expr(lit) && i < len(s.Names) {
					v = info.Defs[s.Names[i]]
				}
			}
		}
		return true
	})
	if v == nil {
		p.fails = append(p.fails, sprintf("%s builds a %s without %s (zero) at %s", n.name, p.sf.owner[p.field], p.field.Name(), pos(p.c, lit)))
		return nil
	}
	top := n.flowFunc()
	var qs []*c13PeriodQuery
	// escape points: the variable (or its address) as a call argument, a returned value, or the
	// right-hand side of an assignment to something else
	escapes := func(e ast.Expr) bool {
		e = ast.Unparen(e)
		if u, ok := e.(*ast.UnaryExpr); ok && u.Op == token.AND {
			e = ast.Unparen(u.X)
		}
		id, ok := e.(*ast.Ident)
		return ok && info.Uses[id] == v
	}
	add := func(at ast.Node, id ast.Expr) {
		f := c13Innermost(top, at)
		e := ast.Unparen(id)
		if u, ok := e.(*ast.UnaryExpr); ok && u.Op == token.AND {
			e = ast.Unparen(u.X)
		}
		key := f.Render(e) + "." + p.field.Name()
		q := &c13PeriodQuery{at: at}
		q.eval = func(st *flow.State) bool { return c13PosName(st, key) }
		qs = append(qs, q)
	}
	ast.Inspect(n.body, func(x ast.Node) bool {
		switch s := x.(type) {
		case *ast.CallExpr:
			for _, a := range s.Args {
				if escapes(a) {
					add(s, a)
				}
			}
		case *ast.ReturnStmt:
			for _, r := range s.Results {
				if escapes(r) {
					add(s, r)
				}
			}
		case *ast.AssignStmt:
			for i, r := range s.Rhs {
				if escapes(r) && len(s.Lhs) == len(s.Rhs) {
					if lid, ok := s.Lhs[i].(*ast.Ident); !ok || info.Defs[lid] != v {
						add(s, r)
					}
				}
			}
		}
		return true
	})
	if len(qs) == 0 {
		p.fails = append(p.fails, sprintf("%s builds a %s without %s and never hands it on in a recognisable way (%s)", n.name, p.sf.owner[p.field], p.field.Name(), pos(p.c, lit)))
	}
	return qs
}

// judge runs one flow analysis of n (with the positivity events) and evaluates the queries.
func (p *c13Period) judge(n *c13Node, queries []*c13PeriodQuery) {
	if len(queries) == 0 || n.decl == nil {
		return
	}
	top := n.flowFunc()
	byFunc := map[ast.Node][]*c13PeriodQuery{}
	funcs := map[ast.Node]*flow.Func{}
	for _, q := range queries {
		f := c13Innermost(top, q.at)
		funcs[f.Node] = f
		byFunc[f.Node] = append(byFunc[f.Node], q)
	}
	for node, qs := range byFunc {
		f := funcs[node]
		cfg := flow.Config{
			Inline: inlineSamePkg(f),
			OnNode: func(st *flow.State, x ast.Node) {
				for _, q := range qs {
					if contains(x, q.at) && !c13InsideLit(x, q.at) {
						q.seen = true
						if q.bad == nil && !q.eval(st) {
							q.bad = st
						}
					}
				}
				c13PosTransfer(st, f, n, p, x)
			},
		}
		analyze(p.c, f, cfg)
		for _, q := range qs {
			if q.bad != nil {
				p.fails = append(p.fails, sprintf("%s hands on a value for %s that is not shown positive at %s (path: %s): a zero period makes the limiter divide by zero on the first request",
					n.name, p.field.Name(), pos(p.c, q.at), strings.Join(witness(q.bad), " / ")))
			}
		}
	}
}

func c13InsideLit(outer, inner ast.Node) bool {
	in := false
	ast.Inspect(outer, func(x ast.Node) bool {
		if lit, ok := x.(*ast.FuncLit); ok && contains(lit, inner) {
			in = true
		}
		return !in
	})
	return in
}

// c13PosTransfer maintains "assigned a positive value" events for locals and field paths.
func c13PosTransfer(st *flow.State, f *flow.Func, n *c13Node, p *c13Period, x ast.Node) {
	as, ok := x.(*ast.AssignStmt)
	if !ok {
		return
	}
	if len(as.Lhs) != len(as.Rhs) {
		for _, l := range as.Lhs {
			if id, isID := l.(*ast.Ident); isID && id.Name == "_" {
				continue
			}
			key := c13EvPos + f.Render(l)
			st.Set(key, flow.Unknown)
			if len(as.Rhs) == 1 && p != nil && c13FieldOf(n, l) == p.field && p.validatedParse(n, as.Rhs[0]) {
				st.Set(key, flow.True)
			}
		}
		return
	}
	type upd struct {
		key string
		pos bool
	}
	var ups []upd
	for i, l := range as.Lhs {
		if id, isID := l.(*ast.Ident); isID && id.Name == "_" {
			continue
		}
		rhs := as.Rhs[i]
		positive := false
		switch as.Tok {
		case token.ASSIGN, token.DEFINE:
			positive = c13PosExpr(st, f, n, rhs, 0)
		case token.ADD_ASSIGN, token.MUL_ASSIGN:
			positive = c13PosExpr(st, f, n, l, 0) && c13PosExpr(st, f, n, rhs, 0)
		}
		ups = append(ups, upd{c13EvPos + f.Render(l), positive})
	}
	for _, u := range ups {
		if u.pos {
			st.Set(u.key, flow.True)
		} else {
			st.Set(u.key, flow.Unknown)
		}
	}
}

// c13PosName: facts / events say that the rendered name is > 0.
func c13PosName(st *flow.State, r string) bool {
	if st.Is(c13EvPos+r, flow.True) || st.Is("lt:0<"+r, flow.True) || st.Is("lt:"+r+"<1", flow.False) {
		return true
	}
	pre := "eq:" + r + "=="
	for _, fact := range st.Facts() {
		if strings.HasPrefix(fact, pre) && strings.HasSuffix(fact, "=T") {
			if v, err := strconv.ParseInt(fact[len(pre):len(fact)-2], 10, 64); err == nil && v > 0 {
				return true
			}
		}
	}
	return false
}

// c13PosExpr: the expression is known positive in this state.
func c13PosExpr(st *flow.State, f *flow.Func, n *c13Node, e ast.Expr, depth int) bool {
	e = ast.Unparen(e)
	if tv := f.Info.Types[e]; tv.Value != nil {
		s := tv.Value.ExactString()
		return s != "0" && !strings.HasPrefix(s, "-") && s != "false" && s != `""`
	}
	switch x := e.(type) {
	case *ast.CallExpr:
		if tv, ok := f.Info.Types[x.Fun]; ok && tv.IsType() && len(x.Args) == 1 {
			return c13PosExpr(st, f, n, x.Args[0], depth)
		}
		return false
	case *ast.BinaryExpr:
		switch x.Op {
		case token.MUL, token.ADD:
			return c13PosExpr(st, f, n, x.X, depth) && c13PosExpr(st, f, n, x.Y, depth)
		}
		return false
	case *ast.Ident, *ast.SelectorExpr:
		if c13PosName(st, f.Render(x)) {
			return true
		}
		if id, ok := x.(*ast.Ident); ok && depth < 3 {
			if def := c13SingleDef(n, id); def != nil {
				return c13PosExpr(st, f, n, def, depth+1)
			}
		}
	}
	return false
}
