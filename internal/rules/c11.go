// Property C11 — hot update: each request sees one consistent generation; none fails on
// update (DESIGN.md §3 "C11").
//
// Files: c11.go (registration, rule texts), c11_mux.go (R-C11-1, router half of R-C11-2,
// shared helpers), c11_publish.go (entity publication order = second half of R-C11-2,
// R-C11-4, R-C11-5, pipeline immutability), c11_inherit.go (R-C11-3, SSA taint analysis).
//
// Expected on today's tree: everything discharged. History: the first run found one
// genuine defect,
//
//	R-C11-3|pkg/filters/ratelimiter.(RateLimiter).Inherit|predecessor field URLRule.rl
//
// (RateLimiter.reload set prev.rl = nil on the previous generation's URLRule, the old
// generation's Handle then called u.rl.AcquirePermission() on nil); repaired in /repo by
// 6641586 (the limiter is shared, not moved). R-C11-6 (fresh route cache per generation)
// reuses the C12 cache-freshness check (muxCacheFresh); self-test mutants incl. one for
// R-C11-6 are in selftest/mutants/C11.json.
//
// Mutants tried in a scratch worktree (each compiles) -> rule that fired:
//
//	m1  second m.inst.Load() in ServeHTTP (debug log)              -> R-C11-1 generation loaded once per request
//	m2  back pointer muxInstance.parent *mux + Load in serveHTTP    -> R-C11-1 no field path back to mux, no generation load on the request path
//	m3  search swaps host.paths[0]/[i] ("move to front")            -> R-C11-2 store to muxRule.paths
//	m4  m.inst.Store(inst) moved before the rules loop in reload    -> R-C11-2 store to muxInstance.rules (after publication)
//	m5  early return in reload when the ARC cache cannot be built   -> R-C11-2 every return publishes the new generation
//	m6  ApplyPipeline: Store before InitWithRecovery                -> R-C11-2 publish ... after Init/Inherit + build not after publication
//	m7  ApplyPipeline: Store dropped in the update branch           -> R-C11-2 built entity is published
//	m8  ApplyPipeline: Equals guard removed                         -> R-C11-4 update only if the spec changed
//	m8b ApplyTrafficGate: entity.Spec().Equals(entity.Spec())       -> R-C11-4 update only if the spec changed
//	m8c applyConfig: `exists && !prev.Spec().Equals(...)`           -> R-C11-4 updated[name]/or.entities[name] only if the spec changed
//	m8d ApplyPipeline: equal path returns the new entity            -> R-C11-4 equal spec is a no-op
//	m9  UpdatePipeline: Store(namespace, entity)                    -> R-C11-5 keyed by the entity's own name
//	m10 Proxy.Inherit takes prev.client and sets prev.client = nil  -> R-C11-3 predecessor field Proxy.client
//	m11 doHandle binds node.filter lazily                           -> R-C11-2 store to FlowNode.filter
//	m12 serveHTTP calls GetHandler twice (exists test, then fetch)  -> R-C11-1 pipeline handler resolved once
//	m13 ratelimiter move hidden in helper + deferred closure        -> R-C11-3 predecessor field URLRule.rl
//	m14 TrafficController.reload: previousGeneration.namespaces=nil -> R-C11-3 predecessor field TrafficController.namespaces
//	m15 GlobalFilter.reload: previous.beforePipeline.Store(nil)     -> R-C11-3 predecessor field GlobalFilter.beforePipeline
//	m16 runtime.reload reloads the mux only if the rules changed    -> R-C11-2 router reloaded on every update
//
//	r3b needRestartServer: `x.IPFilter, x.IPFilter = nil, nil` (round-3 seeded change b)   -> R-C11-10 blanked on both copies
//	m17 needRestartServer: Rules blanking dropped / one-sided Tracing / CacheSize 0 vs 1 /
//	    both copies from r.spec / pointer "copies" / DeepEqual(x, x)                      -> R-C11-10 (respective obligation)
//
// Behaviour-preserving edits (checker unchanged, only the genuine finding remains):
//
//	b1 reload: inst renamed, cache creation moved after the rules loop (still before Store); ServeHTTP
//	   loads into a local with comma-ok assertion, then dispatches
//	b2 ApplyPipeline: inverted if, Equals extracted into a local bool, key inlined as entity.Spec().Name();
//	   ApplyTrafficGate: switch instead of if, Equals operands swapped
//	b3 applyConfig: nested ifs, locals renamed, map stores reordered; handleEvent: statements reordered
//	b4 the proposed ratelimiter fix (through a local) + Pipeline.reload's map creation extracted into a helper
//	b5 benign predecessor write to a field Handle never reads; newMux builds the first instance in a
//	   struct-valued local and publishes &local
package rules

import (
	"verif/internal/core"
)

func init() { Registry["C11"] = c11 }

func c11(c *core.Ctx) string {
	c.Rule("R-C11-1", "single load: mux.inst is accessed only by atomic Load/Store; on every path of mux.ServeHTTP it is loaded at most once and the request is dispatched on the loaded instance; no function below muxInstance.serveHTTP loads it again and no field path leads from muxInstance/muxRule/MuxPath/route back to the mux; the backend pipeline (MuxMapper.GetHandler, Namespace.GetHandler) is resolved once per request")
	c.Rule("R-C11-2", "immutable after publish: fields of muxInstance/muxRule/MuxPath/route are assigned only on objects freshly created in the same function and before mux.inst.Store publishes them; every return of a publishing function has stored a fresh instance; object entities are stored into the registry maps (Namespace.pipelines/trafficGates, Supervisor.business/systemControllers) only after Init/InheritWithRecovery returned, never rebuilt afterwards, and every built entity is published; Pipeline fields and FlowNode.filter are assigned only in Init/Inherit and their private helpers")
	c.Rule("R-C11-3", "predecessor not mutated: for every implementation of filters.Filter.Inherit and of supervisor Controller/TrafficObject.Inherit, no store through a value derived from the previousGeneration parameter (excluding its explicit Close) hits a field that the kind's request path (Handle call tree) reads")
	c.Rule("R-C11-4", "unchanged spec is a no-op: in TrafficController.ApplyPipeline/ApplyTrafficGate InheritWithRecovery is reachable only with previous.Spec().Equals(new.Spec()) = false and the Equals = true path builds and stores nothing and returns the running entity; in ObjectRegistry.applyConfig the new entity is recorded (entities/created/updated) only if no entity of that name exists or Equals = false")
	c.Rule("R-C11-6", "a new router generation gets a fresh route cache: muxInstance.cache is only ever assigned a cache created in the same function (a cache carried over keeps routes whose filter chains and options belong to the old generation, so new requests would not see the new generation)")
	c.Rule("R-C11-10", "a hot-reloadable option never forces a restart: runtime.needRestartServer compares a private copy of the running Spec with a private copy of the next Spec (two distinct struct-valued locals from different specs); the fields blanked before the comparison are the same on both copies with the same neutral value (sibling symmetry), and Spec.Rules is among them")
	c.Rule("R-C11-5", "per-name isolation: Namespace.pipelines/trafficGates and Supervisor.businessControllers/systemControllers are used only as receivers of sync.Map methods (never assigned or copied), and every Store uses as key the stored entity's own Spec().Name() (or the key of the event map the entity came from)")
	c.NotDecided = []string{
		"absence of data races in general (only the publication discipline of the generation pointers/maps is checked)",
		"what filters and third-party resources do after Close while a request of the old generation is still in flight (Pipeline.Inherit closes the previous filters before the new pipeline is stored)",
		"predecessor state reached through interface method calls, function values, or heap cells not visible in the Inherit call tree; writes performed inside callees outside the module (except sync / sync/atomic mutators)",
		"mutation of generation objects through method calls on their sub-objects (cache.Add, IPFilters.Append) and through aliases created before publication",
		"WasmHost (build tag wasmhost, not part of the default build)",
		"route-cache freshness across generations (R-C12-5)",
	}

	c11SingleLoad(c)
	c11MuxImmutable(c)
	c11PipelineImmutable(c)
	c11PublishOrder(c)
	c11Inherit(c)
	c11NoOp(c)
	c11Isolation(c)
	muxCacheFresh(c, "R-C11-6")
	c11Restart(c)
	c11Birth(c)
	c11SpecEquals(c)
	// a filter update must be seen by new requests: the default policy reference takes part in the same-policy test (shared with R-C09-6)
	c.Alias("R-C09-6", "R-C11-9")
	c09DefaultRef(c)
	c.Alias("R-C09-6", "")
	// removing one object must not make another unavailable: the namespace-removal rule of C20
	c.Alias("R-C20-5", "R-C11-8")
	c20Namespaces(c)
	c.Alias("R-C20-5", "")
	return "Hot update is decided as structural necessary conditions: (1) a request loads the router generation once and nothing on its path can load it again (path-sensitive count over ServeHTTP, call-tree and type-reachability audit); (2) generations are immutable after publication and are published only when completely built (field-store audit by role + event ordering over all paths of reload and of the TrafficController/Supervisor create/update/apply functions); (3) no Inherit implementation (39 kinds, SSA taint from the predecessor parameter) writes predecessor state its Handle path reads; (4) the Equals guard dominates every rebuild (path-sensitive); (5) registry maps are per-name. Not decided: general data races, behaviour of closed resources under in-flight requests, aliasing through interfaces."
}
