package rules

// R-C16-5 — soundness side condition of the guard `registered.disconnected()` that R-C16-3 accepts
// for the un-registration in (Broker).removeClient: that guard proves "the registration may be
// dropped" only if disconnected() is false for a connection from the moment it is stored into
// Broker.clients until one of its closing methods runs. The rule evaluates the predicate of
// (Client).disconnected (comparison of the status word with a constant) on the constant status a
// new connection carries when handleConn registers it: constant propagation over the Client
// composite literal, atomic Store/Swap/CompareAndSwap on Client.statusFlag, plain assignments and
// Client methods (their effect is computed by analysing the method with the caller's value),
// through the constructor chain (newClient → connectionValidation → handleConn). Finite domain
// (the handful of integer constants that occur), decided path-sensitively by the flow engine.
//
// Seeded change C16/a (status no longer initialised, set by a CAS only after the CONNACK was
// written, disconnected() = status != Connected) → violated at the registration store.
// Further mutants of the same kind (see selftest): disconnected() spelled `>= Connected`;
// handleConn parking the status at 0 with a Store until the CONNACK is out; literal initialised
// with Disconnected. Behaviour-preserving variants that stay silent: only disconnected() rewritten
// to `!= Connected` (literal still Connected); status set by setConnected() *before* the store
// into Broker.clients; disconnected() via a local variable.

import (
	"go/ast"
	"go/constant"
	"go/token"
	"go/types"
	"strings"

	"golang.org/x/tools/go/cfg"

	"verif/internal/flow"
)

const (
	c16StPrefix = "ev:c16st="
	c16StInit   = "ev:c16stInit"
	c16Reg      = "ev:c16registered"
)

// c16Cur is the abstract status word of the connection under construction.
type c16Cur struct {
	val   string // constant.ExactString
	known bool
}

func c16GetCur(st *flow.State) c16Cur {
	for _, f := range st.Facts() {
		if strings.HasPrefix(f, c16StPrefix) && strings.HasSuffix(f, "=T") {
			return c16Cur{val: f[len(c16StPrefix) : len(f)-2], known: true}
		}
	}
	return c16Cur{}
}

func c16SetCur(st *flow.State, c c16Cur) {
	for _, f := range st.Facts() {
		if strings.HasPrefix(f, c16StPrefix) {
			st.Set(f[:len(f)-2], flow.Unknown)
		}
	}
	if c.known {
		st.Set(c16StPrefix+c.val, flow.True)
	}
}

type c16StatusAn struct {
	e        *c16Env
	statusF  *types.Var
	doneF    *types.Var
	inD      func(v constant.Value) bool
	consts   map[string]constant.Value
	ctorMemo map[string]c16Cur
	effMemo  map[string]c16Cur
	wrMemo   map[*ast.FuncDecl]int // 0 unknown, 1 no, 2 yes
	tdMemo   map[*ast.FuncDecl]int
	depth    int
	connReg  map[types.Object]bool // variables of the connect path loaded from Broker.clients
	// results of the handleConn run
	badAfter *flow.State
	badWhy   string
}

func (a *c16StatusAn) konst(f *flow.Func, x ast.Expr) (c16Cur, bool) {
	tv, ok := f.Info.Types[x]
	if !ok || tv.Value == nil {
		return c16Cur{}, false
	}
	s := tv.Value.ExactString()
	a.consts[s] = tv.Value
	return c16Cur{val: s, known: true}, true
}

func (a *c16StatusAn) isD(c c16Cur) bool {
	v, ok := a.consts[c.val]
	return c.known && ok && a.inD(v)
}

func c16IsClientLit(x ast.Expr, f *flow.Func) *ast.CompositeLit {
	x = ast.Unparen(x)
	if u, ok := x.(*ast.UnaryExpr); ok && u.Op == token.AND {
		x = ast.Unparen(u.X)
	}
	lit, ok := x.(*ast.CompositeLit)
	if !ok {
		return nil
	}
	tv, ok := f.Info.Types[lit]
	if !ok || tv.Type == nil {
		return nil
	}
	n, ok := tv.Type.(*types.Named)
	if !ok || n.Obj().Name() != "Client" || n.Obj().Pkg() == nil || n.Obj().Pkg().Path() != Mod+mq {
		return nil
	}
	return lit
}

func (a *c16StatusAn) litInit(f *flow.Func, lit *ast.CompositeLit) c16Cur {
	for _, el := range lit.Elts {
		kv, ok := el.(*ast.KeyValueExpr)
		if !ok {
			return c16Cur{} // positional literal: not analysed
		}
		if id, ok := kv.Key.(*ast.Ident); ok && f.Info.Uses[id] == a.statusF {
			c, _ := a.konst(f, kv.Value)
			return c
		}
	}
	z := constant.MakeInt64(0)
	a.consts[z.ExactString()] = z
	return c16Cur{val: z.ExactString(), known: true}
}

// atomicWrite recognises sync/atomic writes to <x>.statusFlag.
func (a *c16StatusAn) atomicWrite(f *flow.Func, call *ast.CallExpr) (x ast.Expr, kind string) {
	fo, ok := c16FnOK(f, call)
	if !ok || fo.Pkg() == nil || fo.Pkg().Path() != "sync/atomic" || len(call.Args) < 1 {
		return nil, ""
	}
	u, ok := ast.Unparen(call.Args[0]).(*ast.UnaryExpr)
	if !ok || u.Op != token.AND || !c16Sel(f, u.X, a.statusF) {
		return nil, ""
	}
	x = ast.Unparen(u.X).(*ast.SelectorExpr).X
	switch {
	case strings.HasPrefix(fo.Name(), "Load"):
		return nil, ""
	case strings.HasPrefix(fo.Name(), "Store"), strings.HasPrefix(fo.Name(), "Swap"):
		return x, "store"
	case strings.HasPrefix(fo.Name(), "CompareAndSwap"):
		return x, "cas"
	}
	return x, "other"
}

func (a *c16StatusAn) applyWrite(f *flow.Func, st *flow.State, call *ast.CallExpr, kind string) {
	switch kind {
	case "store":
		if len(call.Args) == 2 {
			if c, ok := a.konst(f, call.Args[1]); ok {
				c16SetCur(st, c)
				return
			}
		}
	case "cas":
		if len(call.Args) == 3 {
			o, ok1 := a.konst(f, call.Args[1])
			n, ok2 := a.konst(f, call.Args[2])
			cur := c16GetCur(st)
			if ok1 && ok2 && cur.known {
				if cur.val == o.val {
					c16SetCur(st, n)
				}
				return
			}
		}
	}
	c16SetCur(st, c16Cur{})
}

// writesStatus: does the function (transitively, depth <= 3) write Client.statusFlag?
func (a *c16StatusAn) writesStatus(d *ast.FuncDecl, depth int) bool {
	if v := a.wrMemo[d]; v != 0 {
		return v == 2
	}
	a.wrMemo[d] = 1
	f := flow.NewFunc(a.e.pkg, d)
	yes := false
	ast.Inspect(d.Body, func(n ast.Node) bool {
		switch x := n.(type) {
		case *ast.CallExpr:
			if _, kind := a.atomicWrite(f, x); kind != "" {
				yes = true
			} else if fo, ok := c16FnOK(f, x); ok && depth < 3 {
				if cd := a.e.decls[fo]; cd != nil && cd != d && a.writesStatus(cd, depth+1) {
					yes = true
				}
			}
		case *ast.AssignStmt:
			for _, l := range x.Lhs {
				if c16Sel(f, l, a.statusF) {
					yes = true
				}
			}
		}
		return !yes
	})
	if yes {
		a.wrMemo[d] = 2
	}
	return yes
}

// closes: does the method (transitively) close the connection's done channel — i.e. is it one of
// the connection's closing methods?
func (a *c16StatusAn) closes(d *ast.FuncDecl, depth int) bool {
	if v := a.tdMemo[d]; v != 0 {
		return v == 2
	}
	a.tdMemo[d] = 1
	f := flow.NewFunc(a.e.pkg, d)
	yes := false
	ast.Inspect(d.Body, func(n ast.Node) bool {
		if x, ok := n.(*ast.CallExpr); ok {
			if calleeFull(f, x) == "builtin.close" && len(x.Args) == 1 && c16Sel(f, x.Args[0], a.doneF) {
				yes = true
			} else if fo, ok := c16FnOK(f, x); ok && depth < 3 {
				if cd := a.e.decls[fo]; cd != nil && cd != d && a.closes(cd, depth+1) {
					yes = true
				}
			}
		}
		return !yes
	})
	if yes {
		a.tdMemo[d] = 2
	}
	return yes
}

func c16IsClientMethod(d *ast.FuncDecl) bool {
	return d.Recv != nil && len(d.Recv.List) == 1 && strings.TrimPrefix(types.ExprString(d.Recv.List[0].Type), "*") == "Client"
}

// targets of a function: local variables that hold the connection under construction (assigned
// from a Client literal or from an in-package call returning *Client).
func (a *c16StatusAn) targets(f *flow.Func) map[types.Object]bool {
	out := map[types.Object]bool{}
	ast.Inspect(f.Body, func(n ast.Node) bool {
		as, ok := n.(*ast.AssignStmt)
		if !ok {
			return true
		}
		if len(as.Lhs) == len(as.Rhs) {
			for i, l := range as.Lhs {
				if o := c16Obj(f, l); o != nil && (c16IsClientLit(as.Rhs[i], f) != nil || a.ctorCall(f, as.Rhs[i]) != nil) && c16PtrTo(o.Type(), "Client") {
					out[o] = true
				}
			}
		} else if len(as.Rhs) == 1 && a.ctorCall(f, as.Rhs[0]) != nil {
			for _, l := range as.Lhs {
				if o := c16Obj(f, l); o != nil && c16PtrTo(o.Type(), "Client") {
					out[o] = true
				}
			}
		}
		return true
	})
	return out
}

// ctorCall: x is a call of an in-package function (with body) one of whose results is *Client.
func (a *c16StatusAn) ctorCall(f *flow.Func, x ast.Expr) *ast.FuncDecl {
	call, ok := ast.Unparen(x).(*ast.CallExpr)
	if !ok {
		return nil
	}
	fo, ok := c16FnOK(f, call)
	if !ok {
		return nil
	}
	d := a.e.decls[fo]
	if d == nil {
		return nil
	}
	res := fo.Type().(*types.Signature).Results()
	for i := 0; i < res.Len(); i++ {
		if c16PtrTo(res.At(i).Type(), "Client") {
			return d
		}
	}
	return nil
}

// run analyses f tracking the status of the target variables from the given entry value.
// handle is true for the handleConn run (registration / after-registration bookkeeping).
func (a *c16StatusAn) run(f *flow.Func, targets map[types.Object]bool, entry c16Cur, handle bool) *flow.Result {
	isTarget := func(x ast.Expr) bool {
		id := c16Root(x)
		return id != nil && targets[c16Obj(f, id)]
	}
	// direct: x itself denotes the connection (a target variable; in the connect path: any expression
	// of type *Client that is not rooted in a variable loaded from the registry - the connection may
	// travel inside a struct, `attempt.client`)
	direct := func(x ast.Expr) bool { return targets[c16Obj(f, x)] }
	if handle {
		newConn := func(x ast.Expr) bool {
			x = ast.Unparen(x)
			tv, ok := f.Info.Types[x]
			if !ok || tv.Type == nil {
				if o := c16Obj(f, x); o != nil {
					tv.Type = o.Type()
				} else {
					return false
				}
			}
			if !c16PtrTo(tv.Type, "Client") {
				return false
			}
			id := c16Root(x)
			return id != nil && !a.connReg[c16Obj(f, id)]
		}
		direct = newConn
		isTarget = func(x ast.Expr) bool {
			// x is <conn>.statusFlag or <conn>
			if sel, ok := ast.Unparen(x).(*ast.SelectorExpr); ok && c16Sel(f, sel, a.statusF) {
				// the status word may sit in a sub-struct of Client
				for cur := ast.Unparen(sel.X); ; {
					if newConn(cur) {
						return true
					}
					inner, ok := cur.(*ast.SelectorExpr)
					if !ok {
						return false
					}
					cur = ast.Unparen(inner.X)
				}
			}
			return newConn(x)
		}
	}
	noteAfter := func(st *flow.State, via string, closing bool) {
		if !handle || !st.Is(c16Reg, flow.True) || closing || a.badAfter != nil {
			return
		}
		cur := c16GetCur(st)
		if !cur.known {
			a.badAfter, a.badWhy = st, "after the connection was registered, "+via+" leaves its status undetermined"
		} else if a.isD(cur) {
			a.badAfter, a.badWhy = st, "after the connection was registered, "+via+" sets its status to "+cur.val+", for which disconnected() is true, although the connection is not being closed"
		}
	}
	var inline func(*ast.CallExpr, *types.Func) *flow.Func
	if handle {
		// follow the registration and the status writes into the helpers handleConn was split into
		inline = a.e.inlineWhere(f, func(g *flow.Func, n ast.Node) bool {
			switch x := n.(type) {
			case *ast.AssignStmt:
				for _, l := range x.Lhs {
					if a.e.isClientsLookup(g, l) || c16Sel(g, l, a.statusF) {
						return true
					}
				}
			case *ast.CallExpr:
				if _, kind := a.atomicWrite(g, x); kind != "" {
					return true
				}
				return a.ctorCall(g, x) != nil
			case *ast.CompositeLit:
				return c16IsClientLit(x, g) != nil
			}
			return false
		})
	}
	return analyze(a.e.c, f, flow.Config{
		NoHavoc: true,
		Inline:  inline,
		OnBlock: func(st *flow.State, b *cfg.Block) {
			if !st.Is(c16StInit, flow.True) {
				st.Set(c16StInit, flow.True)
				c16SetCur(st, entry)
			}
		},
		OnNode: func(st *flow.State, n ast.Node) {
			as, ok := n.(*ast.AssignStmt)
			if !ok {
				return
			}
			if len(as.Lhs) == len(as.Rhs) {
				for i, l := range as.Lhs {
					switch {
					case c16Sel(f, l, a.statusF) && isTarget(l):
						c, _ := a.konst(f, as.Rhs[i])
						c16SetCur(st, c)
						noteAfter(st, "an assignment", false)
					case handle && a.e.isClientsLookup(f, l) && direct(as.Rhs[i]):
						st.Set(c16Reg, flow.True)
					case direct(l):
						if lit := c16IsClientLit(as.Rhs[i], f); lit != nil {
							c16SetCur(st, a.litInit(f, lit))
						} else if d := a.ctorCall(f, as.Rhs[i]); d != nil {
							c16SetCur(st, a.ctorResult(d, 0))
						}
					}
				}
			} else if len(as.Rhs) == 1 {
				if d := a.ctorCall(f, as.Rhs[0]); d != nil {
					for j, l := range as.Lhs {
						if direct(l) {
							c16SetCur(st, a.ctorResult(d, j))
						}
					}
				}
			}
		},
		OnCall: func(st *flow.State, call *ast.CallExpr, callee types.Object, deferred bool) {
			if x, kind := a.atomicWrite(f, call); kind != "" {
				if isTarget(x) {
					a.applyWrite(f, st, call, kind)
					noteAfter(st, "an atomic write in "+f.Name, false)
				}
				return
			}
			fo, ok := callee.(*types.Func)
			if !ok {
				return
			}
			d := a.e.decls[fo]
			if d == nil || !c16IsClientMethod(d) || c16Recv(call) == nil || !direct(c16Recv(call)) {
				return
			}
			if handle && (d == a.e.declOfAnchor("readLoop") || d == a.e.declOfAnchor("writeLoop")) {
				return // the connection's life; its end is the subject of R-C16-3
			}
			if !a.writesStatus(d, 0) {
				return
			}
			c16SetCur(st, a.effect(d, c16GetCur(st)))
			noteAfter(st, "the call of (Client)."+fo.Name(), a.closes(d, 0))
		},
	})
}

// effect of a Client method on the status of its receiver, given the value on entry.
func (a *c16StatusAn) effect(d *ast.FuncDecl, entry c16Cur) c16Cur {
	key := d.Name.Name + "|" + entry.val + sprintf("|%v", entry.known)
	if c, ok := a.effMemo[key]; ok {
		return c
	}
	a.effMemo[key] = c16Cur{}
	if a.depth > 4 || d.Recv == nil || len(d.Recv.List[0].Names) == 0 {
		return c16Cur{}
	}
	a.depth++
	defer func() { a.depth-- }()
	f := flow.NewFunc(a.e.pkg, d)
	recv := f.Info.Defs[d.Recv.List[0].Names[0]]
	res := a.run(f, map[types.Object]bool{recv: true}, entry, false)
	if res == nil {
		return c16Cur{}
	}
	out, first := entry, true
	for _, ex := range res.Exits {
		if !c16RealExit(ex) {
			continue
		}
		c := c16GetCur(ex.State)
		if first {
			out, first = c, false
		} else if c != out {
			out = c16Cur{}
		}
	}
	a.effMemo[key] = out
	return out
}

// ctorResult: status of the *Client returned as result j of constructor-like function d.
func (a *c16StatusAn) ctorResult(d *ast.FuncDecl, j int) c16Cur {
	key := sprintf("%s|%d", d.Name.Name, j)
	if c, ok := a.ctorMemo[key]; ok {
		return c
	}
	a.ctorMemo[key] = c16Cur{}
	if a.depth > 4 {
		return c16Cur{}
	}
	a.depth++
	defer func() { a.depth-- }()
	f := flow.NewFunc(a.e.pkg, d)
	targets := a.targets(f)
	res := a.run(f, targets, c16Cur{}, false)
	if res == nil {
		return c16Cur{}
	}
	var out c16Cur
	first := true
	for _, ex := range res.Exits {
		if !c16RealExit(ex) || ex.Return == nil || j >= len(ex.Return.Results) {
			continue
		}
		r := ast.Unparen(ex.Return.Results[j])
		var c c16Cur
		switch {
		case f.Info.Types[r].IsNil():
			continue
		case c16IsClientLit(r, f) != nil:
			c = a.litInit(f, c16IsClientLit(r, f))
		case a.ctorCall(f, r) != nil:
			c = a.ctorResult(a.ctorCall(f, r), 0)
		case targets[c16Obj(f, r)]:
			c = c16GetCur(ex.State)
		}
		if first {
			out, first = c, false
		} else if c != out {
			out = c16Cur{}
		}
	}
	a.ctorMemo[key] = out
	return out
}

// parsePredicate extracts the set D = {v | disconnected() is true when the status is v}.
func (a *c16StatusAn) parsePredicate(f *flow.Func) (desc string, ok bool) {
	var rets []*ast.ReturnStmt
	ast.Inspect(f.Body, func(n ast.Node) bool {
		if _, isLit := n.(*ast.FuncLit); isLit {
			return false
		}
		if r, isR := n.(*ast.ReturnStmt); isR {
			rets = append(rets, r)
		}
		return true
	})
	if len(rets) != 1 || len(rets[0].Results) != 1 {
		return "", false
	}
	isLoad := func(x ast.Expr) bool {
		x = ast.Unparen(x)
		if id, isID := x.(*ast.Ident); isID {
			rhs := c16DefRHS(f, c16Obj(f, id))
			if len(rhs) != 1 {
				return false
			}
			x = ast.Unparen(rhs[0])
		}
		if c16Sel(f, x, a.statusF) {
			return true
		}
		call, isC := x.(*ast.CallExpr)
		if !isC || len(call.Args) != 1 {
			return false
		}
		fo, isF := c16FnOK(f, call)
		if !isF || fo.Pkg() == nil || fo.Pkg().Path() != "sync/atomic" || !strings.HasPrefix(fo.Name(), "Load") {
			return false
		}
		u, isU := ast.Unparen(call.Args[0]).(*ast.UnaryExpr)
		return isU && u.Op == token.AND && c16Sel(f, u.X, a.statusF)
	}
	expr := ast.Unparen(rets[0].Results[0])
	neg := false
	for {
		u, isU := expr.(*ast.UnaryExpr)
		if !isU || u.Op != token.NOT {
			break
		}
		neg = !neg
		expr = ast.Unparen(u.X)
	}
	be, isB := expr.(*ast.BinaryExpr)
	if !isB {
		return "", false
	}
	switch be.Op {
	case token.EQL, token.NEQ, token.LSS, token.LEQ, token.GTR, token.GEQ:
	default:
		return "", false
	}
	var k constant.Value
	loadLeft := false
	if tv := f.Info.Types[be.Y]; tv.Value != nil && isLoad(be.X) {
		k, loadLeft = tv.Value, true
	} else if tv := f.Info.Types[be.X]; tv.Value != nil && isLoad(be.Y) {
		k = tv.Value
	} else {
		return "", false
	}
	op := be.Op
	a.inD = func(v constant.Value) bool {
		var r bool
		if loadLeft {
			r = constant.Compare(v, op, k)
		} else {
			r = constant.Compare(k, op, v)
		}
		return r != neg
	}
	return types.ExprString(rets[0].Results[0]), true
}

func c16Status(e *c16Env) {
	c := e.c
	hcons := fname(mq, "Broker", "handleConn")
	if hf0 := e.anchor("handleConn"); hf0 != nil {
		hcons = e.fnameOf(hf0)
	}
	if !e.discRelied {
		c.Discharge("R-C16-5", hcons+"|registered connection does not look disconnected", "-", "no un-registration relies on registered.disconnected() (R-C16-3), nothing to show")
		return
	}
	a := &c16StatusAn{e: e, consts: map[string]constant.Value{}, ctorMemo: map[string]c16Cur{}, effMemo: map[string]c16Cur{},
		wrMemo: map[*ast.FuncDecl]int{}, tdMemo: map[*ast.FuncDecl]int{}}
	a.statusF = structField(c, mq, "Client", "statusFlag")
	a.doneF = structField(c, mq, "Client", "done")
	pf := fn(c, mq, "Client", "disconnected")
	hf := e.anchor("handleConn")
	if a.statusF == nil || a.doneF == nil || pf == nil || hf == nil {
		return
	}
	desc, ok := a.parsePredicate(pf)
	if !ok {
		c.Undecide("R-C16-5", fname(mq, "Client", "disconnected")+"|status predicate", pos(c, pf.Body), "disconnected() is not a single comparison of the status word with a constant; the set of statuses it reports as disconnected cannot be extracted")
		return
	}
	targets := a.targets(hf)
	e.bindParams(hf, targets, 3)
	// the connections loaded from the registry (the superseded one): everything else of type *Client
	// in the connect path is the new connection
	a.connReg = map[types.Object]bool{}
	for _, g := range syncReach(e, hf, 3) {
		r, _, _ := e.handleConnRegVars(g)
		for o := range r {
			a.connReg[o] = true
		}
	}
	e.bindParams(hf, a.connReg, 3)
	var regs []ast.Node
	for _, g := range syncReach(e, hf, 3) {
		g := g
		ast.Inspect(g.Body, func(n ast.Node) bool {
			if as, ok := n.(*ast.AssignStmt); ok && len(as.Lhs) == len(as.Rhs) {
				for i, l := range as.Lhs {
					if !e.isClientsLookup(g, l) {
						continue
					}
					if tv, ok := g.Info.Types[as.Rhs[i]]; ok && tv.Type != nil && c16PtrTo(tv.Type, "Client") {
						if id := c16Root(as.Rhs[i]); id != nil && !a.connReg[c16Obj(g, id)] {
							regs = append(regs, as)
						}
					}
				}
			}
			return true
		})
	}
	if !c.RequireCount("R-C16-5", "stores of the new connection into Broker.clients in handleConn", len(regs), 1) {
		return
	}
	res := a.run(hf, targets, c16Cur{}, true)
	if res == nil {
		return
	}
	for _, reg := range regs {
		states := res.At[reg]
		var bad, unknown *flow.State
		vals := map[string]bool{}
		for _, st := range states {
			cur := c16GetCur(st)
			switch {
			case !cur.known:
				unknown = st
			case a.isD(cur):
				bad = st
				vals[cur.val] = true
			default:
				vals[cur.val] = true
			}
		}
		cons := hcons + "|registered connection does not look disconnected"
		switch {
		case len(states) == 0:
			c.Violate("R-C16-5", cons, pos(c, reg), "the store into Broker.clients is unreachable")
		case bad != nil:
			cur := c16GetCur(bad)
			c.Violate("R-C16-5", cons, pos(c, reg),
				"a connection is stored into Broker.clients with status "+cur.val+", for which disconnected() (`"+desc+"`) is true: the guard `registered.disconnected()` of the un-registration in removeClient then takes the NEW connection for a dead one, and the teardown of the superseded connection deletes the new connection's registration (it stops receiving messages) until the status is changed", witness(bad)...)
		case unknown != nil:
			c.Undecide("R-C16-5", cons, pos(c, reg), "the status of the connection at the store into Broker.clients is not a known constant on some path")
		default:
			c.Discharge("R-C16-5", cons, pos(c, reg), sprintf("%d states reach the store, status in %v, disconnected() (`%s`) false for each", len(states), sortedKeys(vals), desc))
		}
	}
	c.Check(a.badAfter == nil, "R-C16-5", hcons+"|connection keeps looking connected until its read loop", pos(c, hf.Body),
		"between the store into Broker.clients and the read loop only closing methods change the status to a disconnected one", a.badWhy+": the teardown of a superseded connection may then delete this connection's registration", witness(a.badAfter)...)
}
