package rules

// Two provenance obligations found by the fourth round of seeded changes:
//
//	R-C06-8  every update received from the user source (the etcd sync channel, the file watcher)
//	         is applied to the htpasswd object before the next one is awaited: no content-dependent
//	         skip between the receive and Reload / ReloadFromReader (a skipped snapshot keeps
//	         deleted users valid)
//	R-C06-2  (token source) the token handed to the jwt parser by JWTValidator.Validate is the
//	         cookie's value only where that value is known non-empty, otherwise the Bearer token of
//	         the Authorization header (JWTValidatorSpec.CookieName: "exists and has a non-empty value")

import (
	"go/ast"
	"go/token"
	"go/types"
	"strings"

	"golang.org/x/tools/go/cfg"
	"golang.org/x/tools/go/packages"

	"verif/internal/core"
	"verif/internal/flow"
)

// ---------------------------------------------------------------------------------------
// R-C06-8

// c06IsUpdateRecv reports whether e is a receive of a credential update: a channel of
// map[string]string (etcd syncer) or of fsnotify events (file watcher).
func c06IsUpdateRecv(g *flow.Func, e ast.Expr) bool {
	u, ok := ast.Unparen(e).(*ast.UnaryExpr)
	if !ok || u.Op != token.ARROW {
		return false
	}
	tv, ok := g.Info.Types[u]
	if !ok || tv.Type == nil {
		return false
	}
	t := tv.Type
	if tup, ok := t.(*types.Tuple); ok && tup.Len() > 0 {
		t = tup.At(0).Type()
	}
	switch t.String() {
	case "map[string]string", "github.com/fsnotify/fsnotify.Event":
		return true
	}
	return false
}

func c06IsStoreUsers(g *flow.Func, call *ast.CallExpr) bool {
	fo, _ := c06Callee(g, call)
	if fo == nil || fo.Pkg() == nil || !strings.HasSuffix(fo.Pkg().Path(), "tg123/go-htpasswd") {
		return false
	}
	return strings.HasPrefix(fo.Name(), "Reload")
}

func c06UserSource(c *core.Ctx) {
	const rule = "R-C06-8"
	pkg := c.Prog.Pkg(c06val)
	if pkg == nil {
		c.Errorf("%s: anchor: package %s not loaded", rule, c06val)
		return
	}
	// subjects: the functions / function literals that receive updates in a loop
	type subject struct {
		g    *flow.Func
		name string
		recv []ast.Node
	}
	var subjects []subject
	eachFunc(c, func(p *packages.Package, fd *ast.FuncDecl) {
		if p != pkg {
			return
		}
		outer := flow.NewFunc(p, fd)
		var visit func(g *flow.Func, body *ast.BlockStmt)
		visit = func(g *flow.Func, body *ast.BlockStmt) {
			var recvs []ast.Node
			ast.Inspect(body, func(n ast.Node) bool {
				switch x := n.(type) {
				case *ast.FuncLit:
					if x.Body != body {
						visit(outer.Lit(x), x.Body)
						return false
					}
				case *ast.UnaryExpr:
					if c06IsUpdateRecv(g, x) {
						recvs = append(recvs, x)
					}
				}
				return true
			})
			if len(recvs) > 0 {
				subjects = append(subjects, subject{g, declName(p, fd), recvs})
			}
		}
		visit(outer, fd.Body)
	})
	if !c.RequireCount(rule, "loops receiving credential updates (etcd syncer, file watcher)", len(subjects), 1) {
		return
	}
	for _, s := range subjects {
		g := s.g
		cons := s.name + "|every received credential update is applied"
		isRecvNode := func(n ast.Node) (bool, *ast.Ident) {
			// the CFG node holding the receive: `kvs := <-ch`, `_, ok := <-ch`, `<-ch`
			var rhs ast.Expr
			var okID *ast.Ident
			switch x := n.(type) {
			case *ast.AssignStmt:
				if len(x.Rhs) == 1 {
					rhs = x.Rhs[0]
					if len(x.Lhs) == 2 {
						okID, _ = x.Lhs[1].(*ast.Ident)
					}
				}
			case *ast.ExprStmt:
				rhs = x.X
			}
			if rhs == nil || !c06IsUpdateRecv(g, rhs) {
				return false, nil
			}
			return true, okID
		}
		okKeys := map[string]bool{}
		stores := 0
		for _, h := range reach(g, 3) {
			for _, call := range calls(h.Body, true) {
				if c06IsStoreUsers(h, call) {
					stores++
				}
			}
		}
		var bad *flow.State
		var badAt ast.Node
		// go/cfg evaluates the comm statements of ALL cases when a select is entered and marks
		// the chosen case by a SelectCaseBody block: a receive in a select counts when its case
		// body is entered, a plain receive statement when it executes, a range over the channel
		// at each iteration
		comms := map[ast.Node]bool{}
		ast.Inspect(g.Body, func(n ast.Node) bool {
			if cc, ok := n.(*ast.CommClause); ok && cc.Comm != nil {
				comms[cc.Comm] = true
			}
			return true
		})
		received := func(st *flow.State, at ast.Node, okID *ast.Ident) {
			// the previous update must have been applied before the next one is awaited
			if st.Is("ev:received", flow.True) && !st.Is("ev:stored", flow.True) && bad == nil {
				bad, badAt = st, at
			}
			st.Set("ev:received", flow.True)
			st.Set("ev:stored", flow.Unknown)
			if okID != nil && okID.Name != "_" {
				okKeys[g.VarKey(okID)] = true
			}
		}
		res := analyze(c, g, flow.Config{
			NoHavoc: true,
			Inline:  inlineSamePkg(g),
			OnBlock: func(st *flow.State, b *cfg.Block) {
				switch b.Kind {
				case cfg.KindSelectCaseBody:
					if cc, ok := b.Stmt.(*ast.CommClause); ok && cc.Comm != nil {
						if isRecv, okID := isRecvNode(cc.Comm); isRecv {
							received(st, cc.Comm, okID)
						}
					}
				case cfg.KindRangeBody:
					if rs, ok := b.Stmt.(*ast.RangeStmt); ok {
						if tv, ok := g.Info.Types[rs.X]; ok && tv.Type != nil {
							if ch, ok := tv.Type.Underlying().(*types.Chan); ok {
								switch ch.Elem().String() {
								case "map[string]string", "github.com/fsnotify/fsnotify.Event":
									received(st, rs, nil)
								}
							}
						}
					}
				}
			},
			OnNode: func(st *flow.State, n ast.Node) {
				if comms[n] {
					return
				}
				if isRecv, okID := isRecvNode(n); isRecv {
					received(st, n, okID)
				}
			},
			OnCall: func(st *flow.State, call *ast.CallExpr, callee types.Object, deferred bool) {
				if c06IsStoreUsers(g, call) {
					st.Set("ev:stored", flow.True)
				}
			},
		})
		if res == nil {
			continue
		}
		for _, ex := range res.Exits {
			if ex.Kind != flow.ExitReturn || bad != nil {
				continue
			}
			st := ex.State
			if !st.Is("ev:received", flow.True) || st.Is("ev:stored", flow.True) {
				continue
			}
			closed := false
			for k := range okKeys {
				if st.Is(k, flow.False) {
					closed = true // channel closed: nothing was received
				}
			}
			if !closed {
				bad, badAt = st, ex.At
			}
		}
		switch {
		case stores == 0:
			c.Violate(rule, cons, pos(c, s.recv[0]), "credential updates are received but never applied to the htpasswd object (no Reload / ReloadFromReader in reach): deleted or changed users stay valid")
		case bad != nil:
			c.Violate(rule, cons, pos(c, badAt), "a received credential update can be dropped without Reload / ReloadFromReader being called (a content-dependent skip between the receive and the store): the previously known users stay valid — after the last user under the prefix is deleted, or the password file is emptied, the old credentials are still accepted", witness(bad)...)
		default:
			inl := ""
			if len(res.Inlined) > 0 {
				inl = "; interpreted in place: " + strings.ReplaceAll(strings.Join(res.Inlined, ", "), Mod, "")
			}
			c.Discharge(rule, cons, pos(c, s.recv[0]), sprintf("%d receive site(s); every path from a receive reaches Reload* before the next receive or the end of the loop%s", len(s.recv), inl))
		}
	}
}

// ---------------------------------------------------------------------------------------
// R-C06-2 token source

func c06TokenSource(c *core.Ctx) {
	const rule = "R-C06-2"
	f := fn(c, c06val, "JWTValidator", "Validate")
	if f == nil {
		return
	}
	cons := fname(c06val, "JWTValidator", "Validate") + "|token is the non-empty cookie value, else the Bearer token"
	cookieValue := c06StdField(c, "net/http", "Cookie", "Value")
	if cookieValue == nil {
		return
	}
	var parse *ast.CallExpr
	var parseIn *flow.Func
	for _, g := range reach(f, 3) {
		for _, call := range calls(g.Body, true) {
			if c06KeyfuncArg(g, call) != nil && len(call.Args) > 0 {
				parse, parseIn = call, g
			}
		}
	}
	if parse == nil {
		c.Undecide(rule, cons, pos(c, f.Body), "no jwt parse call in the reach of JWTValidator.Validate")
		return
	}
	_ = parseIn
	tokenArg := parse.Args[0]
	// does the cookie feed the token at all?
	usesCookie := false
	for _, g := range reach(f, 3) {
		if c06MentionsField(g, g.Body, cookieValue) {
			usesCookie = true
		}
	}
	if !usesCookie {
		c.Discharge(rule, cons, pos(c, parse), "the cookie is not a token source")
		return
	}
	isHeaderRead := func(g *flow.Func, e ast.Node) bool {
		return c06HeaderRead(g, e) || c06MentionsCall(g, e, "(*"+Mod+c06hh+".HTTPHeader).Get")
	}
	// flow-insensitive provenance of string values inside each function of the reach: a
	// value expression is "cookie" if its closure mentions Cookie.Value, "header" if it reads
	// a header
	classify := func(g *flow.Func, e ast.Expr) flow.Val {
		tv, ok := g.Info.Types[e]
		if !ok || tv.Type == nil {
			return flow.Unknown
		}
		if b, ok := tv.Type.Underlying().(*types.Basic); !ok || b.Info()&types.IsString == 0 {
			return flow.Unknown
		}
		cl := c06ValueClosure(g, []ast.Expr{e})
		cookie, header := false, false
		for _, x := range cl {
			if c06MentionsField(g, x, cookieValue) {
				cookie = true
			}
			if isHeaderRead(g, x) {
				header = true
			}
		}
		switch {
		case cookie && !header:
			return flow.True
		case header && !cookie:
			return flow.False
		}
		return flow.Unknown
	}
	funcOfNode := func(n ast.Node) *flow.Func {
		for _, g := range reach(f, 3) {
			if contains(g.Body, n) {
				return g
			}
		}
		return f
	}
	res := analyze(c, f, flow.Config{
		NoHavoc: true,
		Inline:  inlineSamePkg(f),
		OnNode: func(st *flow.State, n ast.Node) {
			c06TrackNonNil(f, st, n)
			g := funcOfNode(n)
			var vals []ast.Expr
			switch x := n.(type) {
			case *ast.AssignStmt:
				if len(x.Lhs) == len(x.Rhs) {
					// only direct assignments of a source expression decide; `token := helper()`
					// is decided by the helper's return statement
					for _, r := range x.Rhs {
						if _, isCall := ast.Unparen(r).(*ast.CallExpr); !isCall || isHeaderRead(g, r) {
							vals = append(vals, r)
						}
					}
				}
			case *ast.ReturnStmt:
				if !contains(f.Body, n) {
					vals = append(vals, x.Results...)
				}
			}
			for _, v := range vals {
				// a direct mention decides; values computed from locals follow their closure
				switch classify(g, v) {
				case flow.True:
					st.Set("ev:tok:cookie", flow.True)
				case flow.False:
					st.Set("ev:tok:cookie", flow.False)
				}
			}
		},
	})
	if res == nil {
		return
	}
	states := res.At[parse]
	if len(states) == 0 {
		c.Undecide(rule, cons, pos(c, parse), "the jwt parse call is not reached by the analysis (helper not interpreted in place)")
		return
	}
	nonEmpty := func(st *flow.State) bool {
		cands := []ast.Expr{tokenArg}
		for _, g := range reach(f, 3) {
			ast.Inspect(g.Body, func(n ast.Node) bool {
				if e, ok := n.(ast.Expr); ok && c06FieldSel(g, e) == cookieValue {
					cands = append(cands, e)
				}
				return true
			})
		}
		for _, e := range cands {
			r := f.Render(ast.Unparen(e))
			if st.Is("eq:"+r+`==""`, flow.False) || st.Is("lt:0<len("+r+")", flow.True) || st.Is("eq:len("+r+")==0", flow.False) {
				return true
			}
		}
		return false
	}
	var bad, unknown *flow.State
	cookiePaths, bearerPaths := 0, 0
	for _, st := range states {
		switch st.Get("ev:tok:cookie") {
		case flow.True:
			cookiePaths++
			if !nonEmpty(st) && bad == nil {
				bad = st
			}
		case flow.False:
			bearerPaths++
		default:
			if unknown == nil {
				unknown = st
			}
		}
	}
	switch {
	case bad != nil:
		c.Violate(rule, cons, pos(c, parse), "the value of the configured cookie is handed to the jwt parser on a path where it has not been established non-empty: a request with an empty cookie (`Cookie: name=`) and a valid Bearer token in the Authorization header is rejected instead of falling back to the header (JWTValidatorSpec.CookieName: the cookie is used only if it exists and has a non-empty value)", witness(bad)...)
	case unknown != nil:
		c.Undecide(rule, cons, pos(c, parse), "cannot tell whether the token handed to the jwt parser comes from the cookie or from the Authorization header")
	case bearerPaths == 0:
		c.Violate(rule, cons, pos(c, parse), "no path hands the Bearer token of the Authorization header to the jwt parser: requests without the cookie cannot authenticate")
	default:
		c.Discharge(rule, cons, pos(c, parse), sprintf("%d abstract paths hand the cookie value (known non-empty) and %d the Bearer token to the parser", cookiePaths, bearerPaths))
	}
}
