package rules

// R-C06-9: no stale payload reader. GetPayload() of a request/response hands out a reader over the
// CURRENT payload; for a stream payload that reader is the stream itself. A function that replaces
// the payload with SetPayload (the signed-request builder of the Validator buffers a streamed body
// this way, so that the signer and the backend see the same bytes) must not afterwards use a reader
// it obtained BEFORE the replacement: that reader is the drained stream, so whoever consumes it (the
// signer) sees an empty body while the replacement is what is forwarded — a request signed over the
// empty body is then accepted with any body attached. Path-sensitive typestate on go/cfg:
//   v := X.GetPayload()   → v fresh for X
//   X.SetPayload(..)      → every reader variable of X becomes stale
//   use of a stale v      → violation, unless the use is closing it (v.Close(), v.(io.Closer))
// Subjects: every function of the module outside pkg/protocols that calls both methods.

import (
	"go/ast"
	"go/types"
	"strings"

	"golang.org/x/tools/go/packages"

	"verif/internal/core"
	"verif/internal/flow"
)

func c06StaleReaders(c *core.Ctx) {
	const rule = "R-C06-9"
	protoCallee := func(f *flow.Func, call *ast.CallExpr, name string) (recv ast.Expr, ok bool) {
		sel, isSel := ast.Unparen(call.Fun).(*ast.SelectorExpr)
		if !isSel || sel.Sel.Name != name {
			return nil, false
		}
		o, isFn := f.Callee(call).(*types.Func)
		if !isFn || o.Pkg() == nil || !strings.HasPrefix(o.Pkg().Path(), Mod+"pkg/protocols") {
			return nil, false
		}
		return sel.X, true
	}
	subjects, validatorSeen := 0, false
	eachFunc(c, func(pkg *packages.Package, fd *ast.FuncDecl) {
		if strings.HasPrefix(pkg.PkgPath, Mod+"pkg/protocols") {
			return
		}
		f := flow.NewFunc(pkg, fd)
		sets, gets := 0, 0
		for _, call := range calls(fd.Body, true) {
			if _, ok := protoCallee(f, call, "SetPayload"); ok {
				sets++
			}
			if _, ok := protoCallee(f, call, "GetPayload"); ok {
				gets++
			}
		}
		if sets == 0 || gets == 0 {
			return
		}
		subjects++
		name := declName(pkg, fd)
		if strings.HasPrefix(name, "pkg/filters/validator.") {
			validatorSeen = true
		}
		c.Count("functions_analysed", 1)
		// reader variables: object → rendered owner X
		owner := map[types.Object]string{}
		type bad struct {
			at  ast.Node
			v   string
			wit []string
		}
		var bads []bad
		seenBad := map[ast.Node]bool{}
		key := func(o types.Object) string { return "ev:stalepayload:" + o.Name() + "@" + f.Pos(o.Pos()) }
		objOf := func(id *ast.Ident) types.Object {
			if o := f.Info.Defs[id]; o != nil {
				return o
			}
			return f.Info.Uses[id]
		}
		// uses of reader variables in n that are not closing uses and not the LHS of an assignment
		uses := func(n ast.Node) []*ast.Ident {
			var out []*ast.Ident
			skip := map[*ast.Ident]bool{}
			ast.Inspect(n, func(x ast.Node) bool {
				switch t := x.(type) {
				case *ast.FuncLit:
					return false
				case *ast.AssignStmt:
					for _, l := range t.Lhs {
						if id, ok := ast.Unparen(l).(*ast.Ident); ok {
							skip[id] = true
						}
					}
				case *ast.TypeAssertExpr:
					if id, ok := ast.Unparen(t.X).(*ast.Ident); ok {
						skip[id] = true
					}
				case *ast.SelectorExpr:
					if id, ok := ast.Unparen(t.X).(*ast.Ident); ok && t.Sel.Name == "Close" {
						skip[id] = true
					}
				case *ast.BinaryExpr: // v == nil / v != nil
					for _, s := range []ast.Expr{t.X, t.Y} {
						if id, ok := ast.Unparen(s).(*ast.Ident); ok {
							skip[id] = true
						}
					}
				case *ast.Ident:
					if !skip[t] {
						if o := objOf(t); o != nil && owner[o] != "" {
							out = append(out, t)
						}
					}
				}
				return true
			})
			return out
		}
		// pre-pass: which variables are ever assigned X.GetPayload()
		ast.Inspect(fd.Body, func(x ast.Node) bool {
			as, ok := x.(*ast.AssignStmt)
			if !ok || len(as.Lhs) != len(as.Rhs) {
				return true
			}
			for i, r := range as.Rhs {
				call, ok := ast.Unparen(r).(*ast.CallExpr)
				if !ok {
					continue
				}
				if x, ok := protoCallee(f, call, "GetPayload"); ok {
					if id, ok := ast.Unparen(as.Lhs[i]).(*ast.Ident); ok {
						if o := objOf(id); o != nil {
							owner[o] = f.Render(x)
						}
					}
				}
			}
			return true
		})
		if len(owner) == 0 {
			c.Discharge(rule, name+"|payload readers are not kept in variables", pos(c, fd), "every GetPayload() result is consumed where it is obtained: nothing can outlive a SetPayload")
			return
		}
		res := analyze(c, f, flow.Config{
			NoHavoc: true,
			OnNode: func(st *flow.State, n ast.Node) {
				for _, id := range uses(n) {
					o := objOf(id)
					if st.Is(key(o), flow.True) && !seenBad[id] {
						seenBad[id] = true
						bads = append(bads, bad{id, id.Name, witness(st)})
					}
				}
				if as, ok := n.(*ast.AssignStmt); ok && len(as.Lhs) == len(as.Rhs) {
					for i, l := range as.Lhs {
						id, ok := ast.Unparen(l).(*ast.Ident)
						if !ok {
							continue
						}
						if o := objOf(id); o != nil && owner[o] != "" {
							// any re-assignment makes the variable fresh again (a GetPayload after the
							// replacement reads the new payload; another value is not a payload reader)
							_ = as.Rhs[i]
							st.Set(key(o), flow.False)
						}
					}
				}
			},
			OnCall: func(st *flow.State, call *ast.CallExpr, callee types.Object, deferred bool) {
				if x, ok := protoCallee(f, call, "SetPayload"); ok && !deferred {
					xr := f.Render(x)
					for o, own := range owner {
						if own == xr {
							st.Set(key(o), flow.True)
						}
					}
				}
			},
		})
		if res == nil {
			return
		}
		if len(bads) == 0 {
			c.Discharge(rule, name+"|no payload reader used after the payload was replaced", pos(c, fd), sprintf("%d reader variable(s), %d SetPayload call(s): on every path a reader obtained before SetPayload is only closed afterwards", len(owner), sets))
			return
		}
		for _, b := range bads {
			c.Violate(rule, name+"|no payload reader used after the payload was replaced", pos(c, b.at),
				"the reader "+b.v+" was obtained from GetPayload() before SetPayload replaced the payload and is used afterwards: for a stream payload it is the drained stream, so its consumer (the signature check) sees an empty body while the replacement is forwarded", b.wit...)
		}
	})
	c.RequireCount(rule, "functions calling both GetPayload and SetPayload of a protocol message", subjects, 3)
	if !validatorSeen {
		c.Errorf("anchor: no function of pkg/filters/validator calls both GetPayload and SetPayload (the signed-request builder that buffers a streamed body is gone: R-C06-9 has lost its main subject)")
	}
}
