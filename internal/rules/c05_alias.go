package rules

// ipChainNoAliasing (R-C05-7 = R-C12-7): sibling IP-filter chains do not share a backing array.
//
// The chain of a rule / path is built from its parent's chain plus its own filter. Where a
// constructor hands the parent's slice on without copying it (today: newIPFilterChain calls
// ipfilter.NewIPFilters(parent.Filters()...) and both NewIPFilters and Filters pass the slice
// through), the child's Append writes into the parent's backing array whenever that array has spare
// capacity — and every sibling built from the same parent writes into the same slot, so all of them
// end with the LAST sibling's filter. The chain is what a route-cache hit consults: an allowed client
// gets 403, a denied one is dispatched, only with the cache on. Two cooperating sites:
//
//	(A) sharing site: a spread call NewIPFilters(X...) where X is (*IPFilters).Filters() or the
//	    field IPFilters.filters, while Filters returns the field itself and NewIPFilters stores its
//	    parameter itself;
//	(B) spare-capacity source: make([]*ipfilter.IPFilter, len, cap) with constant cap > constant len
//	    in package ipfilter or in a function that calls NewIPFilters.
//
// Violated iff both exist. Without (B) every shared slice has cap == len at the time it is shared
// only if it grew by append from nil/exact slices; that arithmetic (append's growth policy) is NOT
// decided here — the rule decides only the introduction of explicit spare capacity next to sharing.

import (
	"go/ast"
	"go/constant"
	"go/types"
	"strings"

	"golang.org/x/tools/go/packages"

	"verif/internal/core"
	"verif/internal/flow"
)

func ipChainNoAliasing(c *core.Ctx, rule string) {
	c.Rule(rule, "sibling IP-filter chains do not alias: where a chain constructor shares its parent's filter slice (NewIPFilters(parent.Filters()...) with pass-through Filters/NewIPFilters) no filter slice is created with explicit spare capacity (make with constant cap > len) in package ipfilter or beside a NewIPFilters call — spare capacity would make every sibling's Append overwrite the same slot, so a cached route is checked against its last sibling's filter")
	field := structField(c, ipf, "IPFilters", "filters")
	ipPkg := c.Prog.Pkg(ipf)
	if field == nil || ipPkg == nil {
		return
	}
	newObj, _ := ipPkg.Types.Scope().Lookup("NewIPFilters").(*types.Func)
	if newObj == nil {
		c.Errorf("anchor: function %s.NewIPFilters not found", ipf)
		return
	}
	isFilterSlice := func(t types.Type) bool {
		s, ok := t.Underlying().(*types.Slice)
		if !ok {
			return false
		}
		p, ok := s.Elem().(*types.Pointer)
		if !ok {
			return false
		}
		n, ok := p.Elem().(*types.Named)
		return ok && n.Obj().Pkg() == ipPkg.Types && n.Obj().Name() == "IPFilter"
	}
	isFieldSel := func(info *types.Info, e ast.Expr) bool {
		sel, ok := ast.Unparen(e).(*ast.SelectorExpr)
		return ok && info.Uses[sel.Sel] == field
	}
	// does Filters() return the field itself, does NewIPFilters store its parameter itself?
	passThrough := map[types.Object]bool{} // methods of IPFilters returning the field itself
	storesParam := false
	for _, file := range ipPkg.Syntax {
		for _, d := range file.Decls {
			fd, ok := d.(*ast.FuncDecl)
			if !ok || fd.Body == nil {
				continue
			}
			obj := ipPkg.TypesInfo.Defs[fd.Name]
			if obj == newObj {
				var param types.Object
				if n := len(fd.Type.Params.List); n > 0 && len(fd.Type.Params.List[n-1].Names) > 0 {
					param = ipPkg.TypesInfo.Defs[fd.Type.Params.List[n-1].Names[0]]
				}
				ast.Inspect(fd.Body, func(x ast.Node) bool {
					switch t := x.(type) {
					case *ast.AssignStmt:
						for _, l := range t.Lhs {
							if id, ok := ast.Unparen(l).(*ast.Ident); ok && param != nil && ipPkg.TypesInfo.Uses[id] == param {
								_ = id // the parameter is replaced (by a copy, or by a make: source B decides)
							}
						}
					case *ast.KeyValueExpr:
						if id, ok := t.Key.(*ast.Ident); ok && ipPkg.TypesInfo.Uses[id] == field {
							if v, ok := ast.Unparen(t.Value).(*ast.Ident); ok && param != nil && ipPkg.TypesInfo.Uses[v] == param {
								storesParam = true
							}
						}
					}
					return true
				})
				continue
			}
			if fd.Recv == nil {
				continue
			}
			ast.Inspect(fd.Body, func(x ast.Node) bool {
				if r, ok := x.(*ast.ReturnStmt); ok && len(r.Results) == 1 && isFieldSel(ipPkg.TypesInfo, r.Results[0]) {
					passThrough[obj] = true
				}
				return true
			})
		}
	}
	type site struct {
		at   ast.Node
		name string
	}
	var sharing, spare []site
	eachFunc(c, func(pkg *packages.Package, fd *ast.FuncDecl) {
		f := flow.NewFunc(pkg, fd)
		callsNew := false
		var makes []ast.Node
		for _, call := range calls(fd.Body, true) {
			switch o := f.Callee(call).(type) {
			case *types.Func:
				if o != newObj {
					continue
				}
				callsNew = true
				if !call.Ellipsis.IsValid() || len(call.Args) == 0 {
					continue
				}
				arg := ast.Unparen(call.Args[len(call.Args)-1])
				shared := isFieldSel(pkg.TypesInfo, arg)
				if inner, ok := arg.(*ast.CallExpr); ok {
					if m, ok := f.Callee(inner).(*types.Func); ok && passThrough[m] {
						shared = true
					}
				}
				if shared && storesParam {
					sharing = append(sharing, site{call, declName(pkg, fd)})
				}
			case *types.Builtin:
				if o.Name() != "make" || len(call.Args) != 3 {
					continue
				}
				tv, ok := pkg.TypesInfo.Types[call.Args[0]]
				if !ok || !isFilterSlice(tv.Type) {
					continue
				}
				l, c2 := pkg.TypesInfo.Types[call.Args[1]].Value, pkg.TypesInfo.Types[call.Args[2]].Value
				if l != nil && c2 != nil {
					lv, ok1 := constant.Int64Val(constant.ToInt(l))
					cv, ok2 := constant.Int64Val(constant.ToInt(c2))
					if ok1 && ok2 && cv > lv {
						makes = append(makes, call)
					}
				}
			}
		}
		if len(makes) > 0 && (callsNew || pkg == ipPkg) {
			for _, m := range makes {
				spare = append(spare, site{m, declName(pkg, fd)})
			}
		}
	})
	c.Count("call_sites_checked", len(sharing)+len(spare))
	cons := ipf + ".IPFilters|chains built from a shared parent slice have no explicit spare capacity"
	switch {
	case len(sharing) == 0:
		c.Discharge(rule, cons, c.Prog.Rel(field.Pos()), "no constructor shares a parent's filter slice (every chain owns its backing array): Append cannot reach a sibling")
	case len(spare) == 0:
		var names []string
		for _, s := range sharing {
			names = append(names, s.name+" at "+pos(c, s.at))
		}
		c.Discharge(rule, cons, pos(c, sharing[0].at), sprintf("%d sharing site(s) (%s); no filter slice is made with explicit spare capacity in package ipfilter or beside a NewIPFilters call", len(sharing), strings.Join(names, ", ")))
	default:
		for _, s := range spare {
			c.Violate(rule, s.name+"|no filter slice with explicit spare capacity beside a shared chain", pos(c, s.at), sprintf("%s creates a filter slice with spare capacity while %s (%s) builds a child chain on its parent's slice without copying it: the Append of every sibling chain writes into the same slot of the shared array — on a route-cache hit a path is checked against its last sibling's IP filter (allowed client refused, denied client dispatched)", s.name, sharing[0].name, pos(c, sharing[0].at)))
		}
	}
}
