package rules

import (
	"go/ast"
	"go/token"
	"go/types"
	"sort"
	"strings"

	"verif/internal/flow"
)

// R-C08-8 window counter pairing. Not window arithmetic (ring positions, second buckets, rates
// stay undecided) but the pairing every sliding window needs for its rates to mean anything:
// a counter is incremented by the class of the PUSHED result and decremented by the class of the
// EVICTED one (the value read from the slot before it is overwritten); in the time-based window
// the per-bucket counters are incremented together with the window counters of the same class and
// eviction subtracts from each window counter the bucket counter of the same class.
//
// Roles: implementations = the struct types of the package whose pointer implements Window;
// total = the field Total() returns, failure / slow = the other counter FailureRate() / SlowRate()
// reads; pushed = the CallResult parameter(s) of Push and of the helpers it reaches; evicted = an
// element of the []CallResult field (or a local holding one); bucket counters = the uint32 fields
// of the element struct of the bucket slice, their class learned from the guard under which Push
// increments them.

type c08win struct {
	v     *c08env
	t     *types.Named
	name  string
	role  map[*types.Var]string // window counter -> "total" | "failure" | "slow"
	slot  *types.Var            // the []CallResult field (count-based ring), if any
	bkt   map[*types.Var]bool   // counters of the bucket struct (time-based), if any
	resT  types.Type
	class map[string]string   // all constants of type CallResult: name -> value
	own   map[*types.Var]bool // uint32 fields of the window struct and of its struct-typed fields (a `sum counters` sub-struct)
	subT  []types.Type        // the struct types of those fields
}

// ownCounters collects the counter candidates: uint32 fields of the window struct itself and
// of its (embedded or named) struct-typed fields.
func (w *c08win) ownCounters() {
	w.own = map[*types.Var]bool{}
	st := w.t.Underlying().(*types.Struct)
	for i := 0; i < st.NumFields(); i++ {
		ft := st.Field(i).Type()
		if b, ok := ft.Underlying().(*types.Basic); ok && b.Kind() == types.Uint32 {
			w.own[st.Field(i)] = true
		}
		if p, ok := ft.(*types.Pointer); ok {
			ft = p.Elem()
		}
		if _, isNamed := ft.(*types.Named); !isNamed {
			continue
		}
		if sub, ok := ft.Underlying().(*types.Struct); ok && ft.String() != "time.Time" {
			n := 0
			for j := 0; j < sub.NumFields(); j++ {
				if b, ok := sub.Field(j).Type().Underlying().(*types.Basic); ok && b.Kind() == types.Uint32 {
					w.own[sub.Field(j)] = true
					n++
				}
			}
			if n > 0 {
				w.subT = append(w.subT, ft)
			}
		}
	}
}

func c08Window(v *c08env) {
	c := v.c
	scope := v.pkg.Types.Scope()
	iface, _ := v.winT.Underlying().(*types.Interface)
	resObj, _ := scope.Lookup("CallResult").(*types.TypeName)
	if iface == nil || resObj == nil {
		c.Errorf("R-C08-8: anchor: Window interface / CallResult type not found")
		return
	}
	class := map[string]string{}
	for _, n := range scope.Names() {
		if k, ok := scope.Lookup(n).(*types.Const); ok && types.Identical(k.Type(), resObj.Type()) {
			class[n] = k.Val().ExactString()
		}
	}
	n := 0
	for _, name := range scope.Names() {
		tn, ok := scope.Lookup(name).(*types.TypeName)
		if !ok {
			continue
		}
		named, ok := tn.Type().(*types.Named)
		if !ok {
			continue
		}
		if _, isStruct := named.Underlying().(*types.Struct); !isStruct || !types.Implements(types.NewPointer(named), iface) {
			continue
		}
		n++
		w := &c08win{v: v, t: named, name: name, role: map[*types.Var]string{}, bkt: map[*types.Var]bool{}, resT: resObj.Type(), class: class}
		if why := w.resolve(); why != "" {
			c.Undecide("R-C08-8", c08cb+".("+name+").Push|counter roles", "?", why)
			continue
		}
		w.check()
	}
	c.RequireCount("R-C08-8", "Window implementations", n, 1)
}

func (w *c08win) method(name string) *flow.Func {
	_, fd := w.v.c.Prog.FuncDecl(c08cb, w.name, name)
	if fd == nil || fd.Body == nil {
		return nil
	}
	return flow.NewFunc(w.v.pkg, fd)
}

// fieldsIn lists the counters selected in f and in the same-package helpers it calls
// (Total() { return w.sum.total }, FailureRate() { return w.sum.failureRate() }).
func (w *c08win) fieldsIn(f *flow.Func, _ ast.Node) []*types.Var {
	var out []*types.Var
	seen := map[*types.Var]bool{}
	for _, g := range reach(f, 2) {
		ast.Inspect(g.Body, func(x ast.Node) bool {
			if e, ok := x.(ast.Expr); ok {
				if fv, _ := c08sel(f, e); fv != nil && w.own[fv] && !seen[fv] {
					seen[fv] = true
					out = append(out, fv)
				}
			}
			return true
		})
	}
	return out
}

func (w *c08win) resolve() string {
	w.ownCounters()
	tot, fr, sr := w.method("Total"), w.method("FailureRate"), w.method("SlowRate")
	if tot == nil || fr == nil || sr == nil {
		return "Total / FailureRate / SlowRate of " + w.name + " not found"
	}
	tf := w.fieldsIn(tot, tot.Body)
	if len(tf) != 1 {
		return sprintf("Total() of %s reads %d counters, expected one", w.name, len(tf))
	}
	w.role[tf[0]] = "total"
	for _, p := range []struct {
		f    *flow.Func
		role string
	}{{fr, "failure"}, {sr, "slow"}} {
		var other []*types.Var
		for _, fv := range w.fieldsIn(p.f, p.f.Body) {
			if fv != tf[0] {
				other = append(other, fv)
			}
		}
		if len(other) != 1 {
			return sprintf("the %s rate of %s reads %d counters besides the total, expected one", p.role, w.name, len(other))
		}
		if r, dup := w.role[other[0]]; dup {
			return "counter " + other[0].Name() + " of " + w.name + " plays the roles " + r + " and " + p.role
		}
		w.role[other[0]] = p.role
	}
	st := w.t.Underlying().(*types.Struct)
	for i := 0; i < st.NumFields(); i++ {
		sl, ok := st.Field(i).Type().Underlying().(*types.Slice)
		if !ok {
			continue
		}
		if types.Identical(sl.Elem(), w.resT) {
			w.slot = st.Field(i)
			continue
		}
		if bs, ok := sl.Elem().Underlying().(*types.Struct); ok {
			for j := 0; j < bs.NumFields(); j++ {
				if b, ok := bs.Field(j).Type().Underlying().(*types.Basic); ok && b.Kind() == types.Uint32 {
					w.bkt[bs.Field(j)] = true
				}
			}
		}
	}
	return ""
}

// c08counterWrite classifies node n as a write to a counter: op is "inc" (+1), "dec" (-1),
// "sub" (-= expr, rhs returned), "other".
func c08counterWrite(f *flow.Func, n ast.Node, isCounter func(*types.Var) bool) (fv *types.Var, op string, rhs ast.Expr) {
	fv, op, rhs, _ = c08counterWriteB(f, n, isCounter)
	return
}

// c08counterWriteB additionally returns the expression the counter is selected from.
func c08counterWriteB(f *flow.Func, n ast.Node, isCounter func(*types.Var) bool) (fv *types.Var, op string, rhs ast.Expr, base ast.Expr) {
	isOne := func(e ast.Expr) bool {
		cv := c08constOf(f, e)
		return cv != nil && cv.ExactString() == "1"
	}
	switch s := n.(type) {
	case *ast.IncDecStmt:
		if got, bs := c08sel(f, s.X); got != nil && isCounter(got) {
			if s.Tok == token.INC {
				return got, "inc", nil, bs
			}
			return got, "dec", nil, bs
		}
	case *ast.AssignStmt:
		for i, l := range s.Lhs {
			got, bs := c08sel(f, l)
			if got == nil || !isCounter(got) {
				continue
			}
			if len(s.Lhs) != len(s.Rhs) {
				return got, "other", nil, bs
			}
			r := ast.Unparen(s.Rhs[i])
			switch s.Tok {
			case token.ADD_ASSIGN:
				if isOne(r) {
					return got, "inc", nil, bs
				}
				return got, "other", r, bs
			case token.SUB_ASSIGN:
				if isOne(r) {
					return got, "dec", nil, bs
				}
				return got, "sub", r, bs
			case token.ASSIGN:
				if be, ok := r.(*ast.BinaryExpr); ok {
					lx, _ := c08sel(f, be.X)
					switch {
					case be.Op == token.ADD && lx == got && isOne(be.Y):
						return got, "inc", nil, bs
					case be.Op == token.SUB && lx == got && isOne(be.Y):
						return got, "dec", nil, bs
					case be.Op == token.SUB && lx == got:
						return got, "sub", ast.Unparen(be.Y), bs
					}
				}
				return got, "other", r, bs
			default:
				return got, "other", r, bs
			}
		}
	}
	return nil, "", nil, nil
}

func (w *c08win) check() {
	c := w.v.c
	f := w.method("Push")
	if f == nil {
		c.Errorf("R-C08-8: anchor: %s has no Push method", w.name)
		return
	}
	cons := fname(c08cb, w.name, "Push")
	at := pos(c, f.Node.(*ast.FuncDecl).Name)
	bodies := reach(f, 3)
	defs := c08defs{}
	for _, g := range bodies {
		for o, ds := range c08collectDefs(g, g.Body) {
			defs[o] = append(defs[o], ds...)
		}
	}
	// renderings of the pushed result and of the evicted element
	var pushedR, evictedR []string
	pushedObj := map[types.Object]bool{}
	if f.Type != nil && f.Type.Params != nil {
		for _, fl := range f.Type.Params.List {
			for _, n := range fl.Names {
				if o := f.Info.Defs[n]; o != nil && types.Identical(o.Type(), w.resT) {
					pushedR = append(pushedR, f.Render(n))
					pushedObj[o] = true
				}
			}
		}
	}
	isSlotElem := func(e ast.Expr) bool {
		ix, ok := ast.Unparen(e).(*ast.IndexExpr)
		if !ok || w.slot == nil {
			return false
		}
		fv, _ := c08sel(f, ix.X)
		return fv == w.slot
	}
	seenR := map[string]bool{}
	for _, g := range bodies {
		ast.Inspect(g.Body, func(n ast.Node) bool {
			switch x := n.(type) {
			case *ast.IndexExpr:
				if isSlotElem(x) && !seenR[f.Render(x)] {
					seenR[f.Render(x)] = true
					evictedR = append(evictedR, f.Render(x))
				}
			case *ast.Ident:
				if o := f.Info.Defs[x]; o != nil && !pushedObj[o] {
					if ds := defs[o]; len(ds) == 1 && ds[0] != nil && isSlotElem(ds[0]) && !seenR[f.Render(x)] {
						seenR[f.Render(x)] = true
						evictedR = append(evictedR, f.Render(x))
					}
				}
			}
			return true
		})
	}
	// a CallResult parameter of a helper plays the role of what is handed to it: add(result) gets
	// the pushed result, remove(slot[i]) the evicted one
	evictedObj := map[types.Object]bool{}
	isEvictedExpr := func(e ast.Expr) bool {
		e = ast.Unparen(e)
		if isSlotElem(e) {
			return true
		}
		if id, ok := e.(*ast.Ident); ok {
			o := c08obj(f, id)
			if evictedObj[o] {
				return true
			}
			if ds := defs[o]; len(ds) == 1 && ds[0] != nil && isSlotElem(ds[0]) {
				return true
			}
		}
		return false
	}
	for round := 0; round < 2; round++ {
		for _, g := range bodies {
			for _, call := range calls(g.Body, true) {
				fo, ok := f.Callee(call).(*types.Func)
				if !ok {
					continue
				}
				gd := declOf(w.v.pkg, fo)
				if gd == nil || gd.Type.Params == nil {
					continue
				}
				j := 0
				for _, fl := range gd.Type.Params.List {
					for _, n := range fl.Names {
						o := f.Info.Defs[n]
						if j < len(call.Args) && o != nil && types.Identical(o.Type(), w.resT) {
							arg := ast.Unparen(call.Args[j])
							if id, ok := arg.(*ast.Ident); ok && pushedObj[c08obj(f, id)] && !pushedObj[o] {
								pushedObj[o] = true
								pushedR = append(pushedR, f.Render(n))
							}
							if isEvictedExpr(arg) && !evictedObj[o] {
								evictedObj[o] = true
								evictedR = append(evictedR, f.Render(n))
							}
						}
						j++
					}
				}
			}
		}
	}
	if len(pushedR) == 0 {
		c.Undecide("R-C08-8", cons+"|counter pairing", at, "Push has no parameter of type CallResult")
		return
	}
	// which counters a write touches: the window's own sum ("win") or a per-bucket record ("bkt")
	// — told by the expression the counter is selected from (the same struct type may serve both)
	isSubT := func(t types.Type) bool {
		if p, ok := t.(*types.Pointer); ok {
			t = p.Elem()
		}
		for _, x := range w.subT {
			if types.Identical(t, x) {
				return true
			}
		}
		return false
	}
	var kindOf func(st *flow.State, base ast.Expr, depth int) string
	kindOf = func(st *flow.State, base ast.Expr, depth int) string {
		base = ast.Unparen(base)
		if u, ok := base.(*ast.UnaryExpr); ok && u.Op == token.AND {
			base = ast.Unparen(u.X)
		}
		if sx, ok := base.(*ast.StarExpr); ok {
			base = ast.Unparen(sx.X)
		}
		t := f.Info.TypeOf(base)
		if p, ok := t.(*types.Pointer); ok {
			t = p.Elem()
		}
		if t != nil && types.Identical(t, w.t) {
			return "win"
		}
		switch x := base.(type) {
		case *ast.SelectorExpr:
			if fv, b2 := c08sel(f, x); fv != nil && isSubT(fv.Type()) {
				return kindOf(st, b2, depth+1)
			}
		case *ast.IndexExpr:
			if fv, _ := c08sel(f, x.X); fv != nil {
				if _, isSlice := fv.Type().Underlying().(*types.Slice); isSlice {
					return "bkt"
				}
			}
		case *ast.Ident:
			r := f.Render(x)
			for _, k := range []string{"win", "bkt"} {
				if st.Is("ev:ctx:"+r+":"+k, flow.True) {
					return k
				}
			}
			if ds := defs[c08obj(f, x)]; depth < 3 && len(ds) == 1 && ds[0] != nil {
				return kindOf(st, ds[0], depth+1)
			}
		}
		return ""
	}
	// classVals: what the state knows about a CallResult expression (domain = the declared constants)
	classVals := func(st *flow.State, renders []string) map[string]flow.Val {
		out := map[string]flow.Val{}
		for n, val := range w.class {
			for _, r := range renders {
				if x := st.Get("eq:" + r + "==" + val); x != flow.Unknown {
					out[n] = x
				}
			}
		}
		isTrue, falses := "", 0
		for n, x := range out {
			if x == flow.True {
				isTrue = n
			}
			if x == flow.False {
				falses++
			}
		}
		if isTrue != "" {
			for n := range w.class {
				if n != isTrue {
					out[n] = flow.False
				}
			}
		} else if falses == len(w.class)-1 {
			for n := range w.class {
				if out[n] != flow.False {
					out[n] = flow.True
				}
			}
		}
		return out
	}
	classOfRole := map[string]string{"failure": "CallResultFailure", "slow": "CallResultSlow"}
	isCounter := func(fv *types.Var) bool { return w.role[fv] != "" || w.bkt[fv] }
	vd := c08newVerdicts("inc", "dec", "complete", "bucket")
	var unknownBase ast.Node
	bktRole := map[*types.Var]map[string]bool{}
	overwrites := 0
	res := analyze(c, f, flow.Config{
		NoHavoc: true,
		Inline:  inlineSamePkg(f),
		OnInline: func(st *flow.State, ev *flow.InlineEvent) {
			c08constParams(f)(st, ev)
			if !ev.Enter {
				return
			}
			for i, p := range ev.Params {
				if p == nil || i >= len(ev.Args) {
					continue
				}
				o := f.Info.Defs[p]
				if o == nil || !isSubT(o.Type()) {
					continue
				}
				k := kindOf(st, ev.Args[i], 0)
				r := f.Render(p)
				st.Set("ev:ctx:"+r+":win", flow.Unknown)
				st.Set("ev:ctx:"+r+":bkt", flow.Unknown)
				if k != "" {
					st.Set("ev:ctx:"+r+":"+k, flow.True)
				}
			}
		},
		OnNode: func(st *flow.State, n ast.Node) {
			// the slot is overwritten: everything owed to the evicted element must have happened
			if as, ok := n.(*ast.AssignStmt); ok && len(as.Lhs) == len(as.Rhs) {
				for i, l := range as.Lhs {
					if !isSlotElem(l) {
						continue
					}
					overwrites++
					vd.seen("complete")
					ev := classVals(st, evictedR)
					for role, cl := range classOfRole {
						n := c08count(st, "dec:"+role)
						switch {
						case ev[cl] != flow.False && n != 1:
							vd.fail("complete", sprintf("the slot is overwritten although an evicted %s element is not excluded and the %s counter was decremented %d time(s): after the ring has wrapped the %s counter keeps results that have left the window (or loses them twice) and the %s rate is wrong", cl, role, n, role, role), st)
						case ev[cl] == flow.False && n != 0:
							vd.fail("complete", sprintf("the %s counter is decremented although the evicted element is not %s", role, cl), st)
						}
					}
					if ev["CallResultUnknown"] != flow.True && c08count(st, "dec:total") != 1 {
						vd.fail("complete", "a recorded element is evicted without the total being decremented exactly once", st)
					}
					if id, isID := ast.Unparen(as.Rhs[i]).(*ast.Ident); !isID || !pushedObj[c08obj(f, id)] {
						vd.fail("complete", "the slot is not overwritten with the pushed result", st)
					}
				}
			}
			fv, op, _, base := c08counterWriteB(f, n, isCounter)
			if fv == nil {
				return
			}
			pv := classVals(st, pushedR)
			kind := kindOf(st, base, 0)
			if kind == "" {
				if w.bkt[fv] && w.role[fv] == "" {
					kind = "bkt"
				} else if !w.bkt[fv] {
					kind = "win"
				} else {
					unknownBase = n
					return
				}
			}
			if kind == "bkt" {
				// a per-bucket counter: its class is the guard under which Push increments it
				if op == "inc" {
					cl := "other"
					for role, k := range classOfRole {
						if pv[k] == flow.True {
							cl = role
						}
					}
					if bktRole[fv] == nil {
						bktRole[fv] = map[string]bool{}
					}
					bktRole[fv][cl] = true
					c08bump(st, "binc:"+fv.Name())
				}
				return
			}
			role := w.role[fv]
			switch op {
			case "inc":
				vd.seen("inc")
				c08bump(st, "inc:"+role)
				if cl := classOfRole[role]; cl != "" && pv[cl] != flow.True {
					vd.fail("inc", sprintf("the %s counter is incremented without the pushed result being known to be %s: results of another class are counted as %s", role, cl, role), st)
				}
			case "dec":
				vd.seen("dec")
				c08bump(st, "dec:"+role)
				ev := classVals(st, evictedR)
				if cl := classOfRole[role]; cl != "" && ev[cl] != flow.True {
					hint := ""
					if pv[cl] == flow.True {
						hint = " (the guard tests the PUSHED result instead)"
					}
					vd.fail("dec", sprintf("the %s counter is decremented without the evicted element — the value read from the slot before it is overwritten — being known to be %s%s: once the ring has wrapped, %s results are removed for the wrong evictions and the %s rate no longer reflects the last N calls", role, cl, hint, role, role), st)
				}
				if role == "total" && ev["CallResultUnknown"] != flow.False {
					vd.fail("dec", "the total is decremented although the slot may still be empty (CallResultUnknown)", st)
				}
			case "other":
				st.Set("ev:otherWrite:"+role, flow.True)
			}
		},
	})
	if res == nil {
		return
	}
	c08dump("window:"+w.name, f, res)
	if unknownBase != nil {
		c.Undecide("R-C08-8", cons+"|counter pairing", pos(c, unknownBase), "a counter is written through an expression that cannot be told to be the window's sum or a bucket")
		return
	}
	// exits: everything owed to the pushed result has happened
	nExit := 0
	for _, ex := range res.Exits {
		if ex.Kind != flow.ExitReturn {
			continue
		}
		nExit++
		st := ex.State
		pv := classVals(st, pushedR)
		for role, cl := range classOfRole {
			n := c08count(st, "inc:"+role)
			switch {
			case pv[cl] != flow.False && n != 1:
				vd.fail("inc", sprintf("Push returns with the %s counter incremented %d time(s) although a pushed %s result is not excluded: such results are not (or doubly) counted in the %s rate", role, n, cl, role), st)
			case pv[cl] == flow.False && n != 0:
				vd.fail("inc", sprintf("the %s counter is incremented for a result that is not %s", role, cl), st)
			}
			if st.Is("ev:otherWrite:"+role, flow.True) {
				vd.fail("inc", "the "+role+" counter is written other than by +1 / -1", st)
			}
		}
		if n := c08count(st, "inc:total"); n != 1 {
			vd.fail("inc", sprintf("Push returns with the total incremented %d time(s) instead of once", n), st)
		}
		// bucket counters move together with the window counters of their class
		for fv, seen := range bktRole {
			for _, role := range []string{c08bucketRole(seen)} {
				if c08count(st, "binc:"+fv.Name()) != c08count(st, "inc:"+role) {
					vd.fail("bucket", sprintf("the bucket counter %s (class %s) is not incremented together with the window's %s counter: eviction will later subtract a different amount than was added", fv.Name(), role, role), st)
				}
			}
		}
	}
	if !c.RequireCount("R-C08-8", "exits of "+w.name+".Push", nExit, 1) {
		return
	}
	c.Check(vd.bad["inc"] == "", "R-C08-8", cons+"|increments by the class of the pushed result", at,
		sprintf("%d increment sites/exits: failure++ iff pushed Failure, slow++ iff pushed Slow, total++ once", vd.n["inc"]+nExit), vd.bad["inc"], vd.w["inc"]...)
	if w.slot != nil {
		if overwrites == 0 {
			c.Violate("R-C08-8", cons+"|decrements by the class of the evicted element", at, "Push never stores the result into the ring: nothing is ever evicted and the window is not the last N calls")
		} else {
			bad := vd.bad["dec"]
			wit := vd.w["dec"]
			if bad == "" {
				bad, wit = vd.bad["complete"], vd.w["complete"]
			}
			c.Check(bad == "", "R-C08-8", cons+"|decrements by the class of the evicted element", at,
				sprintf("%d decrement sites, %d overwrite states: failure-- iff evicted Failure, slow-- iff evicted Slow, total-- iff the slot was occupied; slot := pushed", vd.n["dec"], vd.n["complete"]), bad, wit...)
		}
	}
	if len(w.bkt) > 0 {
		// classes of the bucket counters, then the subtractions of the eviction code
		roleOfB := map[*types.Var]string{}
		var amb []string
		used := map[string]bool{}
		for fv, seen := range bktRole {
			r := c08bucketRole(seen)
			roleOfB[fv] = r
			if used[r] {
				amb = append(amb, fv.Name())
			}
			used[r] = true
		}
		sort.Strings(amb)
		switch {
		case len(amb) > 0:
			c.Violate("R-C08-8", cons+"|bucket counters follow the window counters", at, "bucket counter(s) "+strings.Join(amb, ", ")+" are incremented for the same result class as another bucket counter: the per-second buckets no longer add up to the window counters")
		case len(roleOfB) < 3:
			c.Violate("R-C08-8", cons+"|bucket counters follow the window counters", at, sprintf("only %d of the bucket's counters are incremented by Push: eviction cannot subtract what was added", len(roleOfB)))
		default:
			c.Check(vd.bad["bucket"] == "", "R-C08-8", cons+"|bucket counters follow the window counters", at,
				"each bucket counter is incremented exactly when the window counter of its class is", vd.bad["bucket"], vd.w["bucket"]...)
			w.checkEvict(roleOfB)
		}
	}
}

// checkEvict: wherever a method of the window subtracts from a window counter, the amount is the
// bucket counter of the same class.
func (w *c08win) checkEvict(roleOfB map[*types.Var]string) {
	v, c := w.v, w.v.c
	subs, bad := 0, ""
	var badAt ast.Node
	for _, file := range v.pkg.Syntax {
		for _, d := range file.Decls {
			fd, ok := d.(*ast.FuncDecl)
			if !ok || fd.Body == nil || fd.Recv == nil {
				continue
			}
			g := flow.NewFunc(v.pkg, fd)
			t := g.Info.TypeOf(fd.Recv.List[0].Type)
			if p, ok := t.(*types.Pointer); ok {
				t = p.Elem()
			}
			mine := types.Identical(t, w.t)
			for _, x := range w.subT {
				mine = mine || types.Identical(t, x)
			}
			if !mine {
				continue
			}
			ast.Inspect(fd.Body, func(n ast.Node) bool {
				fv, op, rhs := c08counterWrite(g, n, func(x *types.Var) bool { return w.role[x] != "" })
				if fv == nil || op != "sub" {
					return true
				}
				subs++
				var amount *types.Var
				ast.Inspect(rhs, func(y ast.Node) bool {
					if e, ok := y.(ast.Expr); ok {
						if bv, _ := c08sel(g, e); bv != nil && w.bkt[bv] {
							amount = bv
						}
					}
					return true
				})
				// through a local: x := b.slow; w.slow -= x
				if amount == nil {
					if id, ok := ast.Unparen(rhs).(*ast.Ident); ok {
						ds := c08collectDefs(g, fd.Body)[c08obj(g, id)]
						if len(ds) == 1 && ds[0] != nil {
							if bv, _ := c08sel(g, ds[0]); bv != nil && w.bkt[bv] {
								amount = bv
							}
						}
					}
				}
				switch {
				case amount == nil:
					if bad == "" {
						bad, badAt = "the "+w.role[fv]+" counter is reduced by something that is not a bucket counter", n
					}
				case roleOfB[amount] != w.role[fv]:
					if bad == "" {
						bad, badAt = sprintf("eviction reduces the window's %s counter by the bucket's %s count (%s): after the first eviction the %s rate is computed from the wrong results", w.role[fv], roleOfB[amount], amount.Name(), w.role[fv]), n
					}
				}
				return true
			})
		}
	}
	cons := c08cb + ".(" + w.name + ")|eviction subtracts the bucket counter of the same class"
	if subs == 0 {
		c.Violate("R-C08-8", cons, "?", "no method of "+w.name+" subtracts evicted buckets from the window counters: results never leave the time window")
		return
	}
	c.Check(bad == "", "R-C08-8", cons, pos(c, badAt), sprintf("%d subtraction sites pair total/failure/slow with the bucket's total/failure/slow", subs), bad)
}

// c08bucketRole: a bucket counter incremented only for pushed Slow results is the slow counter,
// only for Failure the failure counter, otherwise (every result) the total.
func c08bucketRole(seen map[string]bool) string {
	if len(seen) == 1 {
		for r := range seen {
			if r != "other" {
				return r
			}
		}
	}
	return "total"
}
