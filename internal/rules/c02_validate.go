package rules

import (
	"go/ast"
	"go/token"
	"go/types"
	"strings"

	"golang.org/x/tools/go/cfg"

	"verif/internal/core"
	"verif/internal/flow"
	"verif/internal/load"
)

// R-C02-7: validation covers the runtime lookups.

func c02Validate(c *core.Ctx, a *c02Anchors) {
	fv := fn(c, c02pl, "Spec", "Validate")
	pkg := c.Prog.Pkg(c02pl)
	if fv == nil || pkg == nil {
		return
	}
	// the jump validator by role: method of Spec taking a map[string]filters.Spec
	var vj *flow.Func
	var vjObj *types.Func
	var vjCons string
	isSpecMap := func(t types.Type) bool {
		m, ok := t.Underlying().(*types.Map)
		if !ok {
			return false
		}
		b, ok := m.Key().Underlying().(*types.Basic)
		return ok && b.Kind() == types.String && c02IsNamed(m.Elem(), Mod+c02fl, "Spec")
	}
	for _, file := range pkg.Syntax {
		for _, dcl := range file.Decls {
			fd, ok := dcl.(*ast.FuncDecl)
			if !ok || fd.Body == nil || fd.Recv == nil {
				continue
			}
			fo, _ := pkg.TypesInfo.Defs[fd.Name].(*types.Func)
			if fo == nil {
				continue
			}
			sig := fo.Type().(*types.Signature)
			if !c02IsNamed(sig.Recv().Type(), Mod+c02pl, "Spec") {
				continue
			}
			for i := 0; i < sig.Params().Len(); i++ {
				if isSpecMap(sig.Params().At(i).Type()) {
					if vj != nil {
						c.Errorf("R-C02-7: anchor: more than one method of pipeline.Spec takes a map[string]filters.Spec")
						return
					}
					vj, vjObj, vjCons = flow.NewFunc(pkg, fd), fo, declName(pkg, fd)
					c.Count("functions_analysed", 1)
				}
			}
		}
	}
	if vj == nil {
		c.Errorf("R-C02-7: anchor: jump validator (method of pipeline.Spec taking map[string]filters.Spec) not found")
		return
	}
	c02ValidateSpec(c, a, fv, vjObj, isSpecMap)
	c02ValidateJump(c, a, vj, vjCons, isSpecMap)
	c02ValidateGlobal(c, a)
}

// c02TrueOn reports whether the boolean helper fn (one string parameter) returns true
// whenever its parameter equals the constant with ExactString exact. decided=false when the
// helper has a shape the evaluator does not understand.
func c02TrueOn(c *core.Ctx, pkgRel string, fo *types.Func, exact string) (holds, decided bool) {
	f := fnOpt(c, pkgRel, "", fo.Name())
	if f == nil {
		return false, false
	}
	fd := f.Node.(*ast.FuncDecl)
	if fd.Type.Params == nil || len(fd.Type.Params.List) != 1 || len(fd.Type.Params.List[0].Names) != 1 {
		return false, false
	}
	pid := fd.Type.Params.List[0].Names[0]
	key := "eq:" + f.Render(pid) + "==" + exact
	res := analyze(c, f, flow.Config{})
	if res == nil {
		return false, false
	}
	var implied func(st *flow.State, e ast.Expr) (bool, bool)
	implied = func(st *flow.State, e ast.Expr) (bool, bool) {
		e = ast.Unparen(e)
		if tv := f.Info.Types[e]; tv.Value != nil {
			return tv.Value.ExactString() == "true", true
		}
		if be, ok := e.(*ast.BinaryExpr); ok {
			switch be.Op {
			case token.LOR:
				l, ld := implied(st, be.X)
				r, rd := implied(st, be.Y)
				if (l && ld) || (r && rd) {
					return true, true
				}
				return false, ld && rd
			case token.EQL, token.NEQ:
				k, neg := f.Atom(be)
				if k == key {
					return !neg, true
				}
				if len(k) > 3 && k[:3] == "eq:" && st.Get(k) == flow.Unknown {
					// comparison of the parameter with another constant: false when param == exact
					if k[:len("eq:"+f.Render(pid)+"==")] == "eq:"+f.Render(pid)+"==" {
						return neg, true
					}
				}
			}
		}
		if id, ok := e.(*ast.Ident); ok {
			switch st.Get(f.VarKey(id)) {
			case flow.True:
				return true, true
			case flow.False:
				return false, true
			}
			// `_, ok := table[param]; return ok` with a package-level set that is never written
			// after its initialisation: true exactly for the keys of the literal
			if has, known := c02TableHas(f, id, pid, exact); known {
				return has, true
			}
		}
		return false, false
	}
	holds, decided = true, true
	n := 0
	for _, ex := range res.Exits {
		if ex.Kind != flow.ExitReturn || ex.Return == nil || len(ex.Return.Results) != 1 {
			continue
		}
		if ex.State.Is(key, flow.False) {
			continue // parameter known to differ from the constant on this path
		}
		n++
		v, d := implied(ex.State, ex.Return.Results[0])
		if !d {
			decided = false
		}
		if !v {
			holds = false
		}
	}
	if n == 0 {
		return false, false
	}
	return holds, decided
}

func c02ValidateSpec(c *core.Ctx, a *c02Anchors, f *flow.Func, vjObj *types.Func, isSpecMap func(types.Type) bool) {
	cons := fname(c02pl, "Spec", "Validate")
	fd := f.Node.(*ast.FuncDecl)
	// Spec.Validate together with the same-package helpers it calls (the jump validator excepted)
	d := c02ReachDefs(f, 3)
	fFilters := c02FieldByYAML(c, c02pl, "Spec", "filters")
	if fFilters == nil {
		return
	}
	var news []*ast.CallExpr
	for _, g := range d.funcs {
		news = append(news, callsTo(g, g.Body, false, c02fl+".NewSpec")...)
	}
	if !c.RequireCount("R-C02-7", "filters.NewSpec call sites in Spec.Validate and its helpers", len(news), 1) {
		return
	}
	newSpec := news[0]
	if d.lift(newSpec) == nil {
		c.Undecide("R-C02-7", cons+"|every filter spec is built", pos(c, newSpec), "filters.NewSpec is called from a helper with several call sites")
		return
	}
	as, ok := d.parent(newSpec).(*ast.AssignStmt)
	if !ok || len(as.Lhs) != 2 {
		c.Violate("R-C02-7", cons+"|filter spec built and its error checked", pos(c, newSpec), "the results of filters.NewSpec are not both kept: a filter spec that fails its own validation is accepted")
		return
	}
	specObj, errObj := c02Obj(f, as.Lhs[0]), c02Obj(f, as.Lhs[1])
	errID, _ := ast.Unparen(as.Lhs[1]).(*ast.Ident)
	if specObj == nil || errObj == nil {
		c.Violate("R-C02-7", cons+"|filter spec built and its error checked", pos(c, newSpec), "the spec or the error returned by filters.NewSpec is discarded: a filter spec that fails its own validation is accepted")
		return
	}
	// the loop over the filters: in the function of the call or in one that reaches it
	var loops []ast.Stmt
	var lf *flow.Func // the function containing that loop
	for n := ast.Node(newSpec); n != nil; {
		g := d.owner(n)
		ls := enclosingLoops(g.Body, n)
		if len(ls) > 0 && lf == nil {
			lf = g
		}
		loops = append(loops, ls...)
		if g == f {
			break
		}
		n = d.site[g]
	}
	if len(loops) != 1 {
		c.Violate("R-C02-7", cons+"|every filter spec is built", pos(c, newSpec), "filters.NewSpec is not called from a single loop over the spec's filters")
		return
	}
	lp := c02LoopOf(f, loops[0])
	if lp == nil || lp.reverse {
		c.Undecide("R-C02-7", cons+"|every filter spec is built", pos(c, loops[0]), "the loop around filters.NewSpec is neither a range statement nor `for i := 0; i < len(xs); i++`")
		return
	}
	loop := lp.stmt
	_, overFilters := d.fieldSel(lp.X, fFilters)
	rawOK := len(newSpec.Args) == 3 && lp.elem(d, newSpec.Args[2])
	if lp.indexed {
		overFilters = overFilters && d.n[lp.key] == 2 && !d.taken[lp.key] // init and post only
	}
	c.Check(overFilters && rawOK, "R-C02-7", cons+"|every filter spec is built", pos(c, loop),
		"range over Spec.Filters, each element handed to filters.NewSpec",
		"the loop building filter specs does not range over the spec's `filters` list with the element as raw spec: some filters are not validated")
	// nodes executed inside the loop: its body and the helpers called from it
	inLoop := func(visit func(n ast.Node) bool) { d.inside(lp.body, lf, visit) }
	for _, x := range breaksOut(lf, loop, labelOf(lf.Body, loop)) {
		if es, ok := x.(*ast.ExprStmt); ok {
			if call, ok := es.X.(*ast.CallExpr); ok {
				if b, ok := f.Callee(call).(*types.Builtin); ok && b.Name() == "panic" {
					continue
				}
			}
		}
		c.Violate("R-C02-7", cons+"|every filter spec is built", pos(c, x), "the loop over the filters can be left early without rejecting the spec: the remaining filters are neither validated nor registered for jump validation")
	}

	// the store specs[name] = spec
	var store *ast.AssignStmt
	var storeIx *ast.IndexExpr
	nstores := 0
	inLoop(func(n ast.Node) bool {
		s, ok := n.(*ast.AssignStmt)
		if !ok || len(s.Lhs) != 1 || len(s.Rhs) != 1 {
			return true
		}
		ix, ok := ast.Unparen(s.Lhs[0]).(*ast.IndexExpr)
		if !ok {
			return true
		}
		if tv := f.Info.Types[ix.X]; tv.Type != nil && isSpecMap(tv.Type) {
			nstores++
			store, storeIx = s, ix
		}
		return true
	})
	if !c.RequireCount("R-C02-7", "stores into the name → spec map in the filter loop", nstores, 1) {
		return
	}
	if nstores > 1 {
		c.Undecide("R-C02-7", cons+"|spec registered under its name", pos(c, store), "more than one store into the spec map")
		return
	}
	mapObj := d.canon(storeIx.X)
	specC := d.canonObj(specObj)
	K := d.norm(storeIx.Index)
	keyOK := false
	if call, ok := d.alias(storeIx.Index).(*ast.CallExpr); ok {
		if sel, ok := ast.Unparen(call.Fun).(*ast.SelectorExpr); ok {
			if s := f.Info.Selections[sel]; s != nil && s.Obj().Name() == "Name" && d.canon(sel.X) == specC {
				keyOK = true
			}
		}
	}
	c.Check(keyOK && d.canon(store.Rhs[0]) == specC, "R-C02-7", cons+"|spec registered under its name", pos(c, store),
		"specs[spec.Name()] = spec with the spec just built",
		"the spec map is not filled as specs[spec.Name()] = spec: jump validation looks filters up by FlowNode.FilterName, so nodes are validated against the wrong filter kind (or reported missing)")

	// duplicate check facts
	var dupOK []string // fact keys whose False value (ok variable) proves absence
	var dupNil []string
	inLoop(func(n ast.Node) bool {
		switch x := n.(type) {
		case *ast.AssignStmt:
			if len(x.Lhs) == 2 && len(x.Rhs) == 1 {
				if ix, ok := ast.Unparen(x.Rhs[0]).(*ast.IndexExpr); ok && d.canon(ix.X) == mapObj && d.norm(ix.Index) == K {
					if id, ok := ast.Unparen(x.Lhs[1]).(*ast.Ident); ok && id.Name != "_" {
						dupOK = append(dupOK, f.VarKey(id))
					}
				}
			}
		case *ast.IndexExpr:
			if d.canon(x.X) == mapObj && d.norm(x.Index) == K && x != storeIx {
				dupNil = append(dupNil, f.NilKey(x))
			}
		}
		return true
	})
	// reserved-name check facts
	var resCalls []string // CallKey facts whose False value proves name != END
	var resEq []string
	helperBad := ""
	helperUndecided, resUndecided := false, false
	inLoop(func(n ast.Node) bool {
		switch x := n.(type) {
		case *ast.CallExpr:
			fo, ok := f.Callee(x).(*types.Func)
			if !ok || fo.Pkg() == nil || fo.Pkg().Path() != Mod+c02pl || len(x.Args) != 1 || d.norm(x.Args[0]) != K {
				return true
			}
			sig := fo.Type().(*types.Signature)
			if sig.Recv() != nil || sig.Results().Len() != 1 {
				return true
			}
			if b, ok := sig.Results().At(0).Type().Underlying().(*types.Basic); !ok || b.Kind() != types.Bool {
				return true
			}
			holds, decided := c02TrueOn(c, c02pl, fo, a.endExact)
			switch {
			case !decided:
				helperBad = "cannot evaluate helper " + fo.Name()
				helperUndecided = true
			case holds:
				resCalls = append(resCalls, f.CallKey(x))
			default:
				helperBad = "helper " + fo.Name() + " does not return true for the name " + a.endVal
			}
		case *ast.BinaryExpr:
			if x.Op == token.EQL || x.Op == token.NEQ {
				for _, pr := range [][2]ast.Expr{{x.X, x.Y}, {x.Y, x.X}} {
					if d.norm(pr[0]) == K {
						if v, ok := c02ConstString(f, pr[1]); ok && v == a.endVal {
							resEq = append(resEq, f.EqKey(x.X, x.Y))
						}
					}
				}
			}
		}
		return true
	})

	const (
		evIn     = "ev:inbody"
		evStored = "ev:stored"
		evVJ     = "ev:jumpsValidated"
		evErrSet = "ev:errSet"
	)
	// named error result
	var errRes types.Object
	if fd.Type.Results != nil {
		for _, fl := range fd.Type.Results.List {
			for _, id := range fl.Names {
				if o := f.Info.Defs[id]; o != nil && isErrType(o.Type()) {
					errRes = o
				}
			}
		}
	}
	var vjCalls []*ast.CallExpr
	for _, g := range d.funcs {
		for _, call := range calls(g.Body, false) {
			if f.Callee(call) == types.Object(vjObj) {
				vjCalls = append(vjCalls, call)
			}
		}
	}
	// the variable an assignment writes: x, or *p with p a name for &x (a recover helper that
	// receives the address of the error result)
	errTarget := func(l ast.Expr) types.Object {
		l = ast.Unparen(l)
		if st, ok := l.(*ast.StarExpr); ok {
			if u, ok := d.alias(st.X).(*ast.UnaryExpr); ok && u.Op == token.AND {
				return c02Obj(f, u.X)
			}
			return nil
		}
		return c02Obj(f, l)
	}
	var badIter *flow.State
	res := analyze(c, f, flow.Config{
		NoHavoc: true,
		Inline:  inlineSamePkg(f, vjObj),
		// a recover closure held in a local (`recoverAsError := func() {..}; defer recoverAsError()`)
		InlineClosures: true,
		OnBlock: func(st *flow.State, b *cfg.Block) {
			if b.Stmt != loop {
				return
			}
			switch b.Kind {
			case lp.bodyKind:
				st.Set(evIn, flow.True)
				st.Set(evStored, flow.False)
			case lp.backKind:
				if st.Is(evIn, flow.True) && !st.Is(evStored, flow.True) && badIter == nil {
					badIter = st
				}
				st.Set(evIn, flow.False)
			}
		},
		OnCall: func(st *flow.State, call *ast.CallExpr, callee types.Object, deferred bool) {
			if callee == types.Object(vjObj) {
				good := len(call.Args) == 1 && d.canon(call.Args[0]) == mapObj && !st.Is(evIn, flow.True)
				st.Set(evVJ, boolToVal(good))
			}
		},
		OnNode: func(st *flow.State, n ast.Node) {
			s, ok := n.(*ast.AssignStmt)
			if !ok {
				return
			}
			if s == store {
				st.Set(evStored, flow.True)
			}
			if errRes != nil && len(s.Lhs) == 1 && len(s.Rhs) == 1 && errTarget(s.Lhs[0]) == errRes {
				nonNil := false
				if call, ok := ast.Unparen(s.Rhs[0]).(*ast.CallExpr); ok {
					switch calleeFull(f, call) {
					case "fmt.Errorf", "errors.New":
						nonNil = true
					}
				}
				st.Set(evErrSet, boolToVal(nonNil))
			}
		},
	})
	if res == nil {
		return
	}
	// at the store
	states := res.At[store]
	if len(states) == 0 {
		c.Violate("R-C02-7", cons+"|spec registered under its name", pos(c, store), "the store into the spec map is unreachable")
		return
	}
	var badErr, badDup, badRes *flow.State
	for _, st := range states {
		if errID != nil && !st.Is(f.NilKey(errID), flow.True) && badErr == nil {
			badErr = st
		}
		dup := false
		for _, k := range dupOK {
			if st.Is(k, flow.False) {
				dup = true
			}
		}
		for _, k := range dupNil {
			if st.Is(k, flow.True) {
				dup = true
			}
		}
		if !dup && badDup == nil {
			badDup = st
		}
		rsv := false
		for _, k := range resCalls {
			if st.Is(k, flow.False) {
				rsv = true
			}
		}
		for _, k := range resEq {
			if st.Is(k, flow.False) {
				rsv = true
			}
		}
		if !rsv && badRes == nil {
			badRes = st
		}
	}
	c.Check(badErr == nil, "R-C02-7", cons+"|filter spec built and its error checked", pos(c, newSpec),
		sprintf("all %d states registering a spec have err == nil from filters.NewSpec", len(states)),
		"a filter spec is registered although filters.NewSpec returned an error (the spec is nil / invalid): an invalid filter is accepted or validation dereferences nil", witness(badErr)...)
	c.Check(badDup == nil, "R-C02-7", cons+"|duplicate filter names rejected", pos(c, store),
		"a spec is registered only after the map was found not to contain its name",
		"a filter spec is registered without a preceding test that its name is not yet in the map: duplicated filter names are accepted and the later one silently replaces the earlier", witness(badDup)...)
	resWhy := "a filter spec is registered without a preceding test that its name is not the reserved name " + a.endVal + ": a filter called " + a.endVal + " is accepted but can never run (the flow loop treats the node as the built-in END)"
	if helperBad != "" {
		resWhy += " [" + helperBad + "]"
	}
	if badRes != nil && helperUndecided {
		c.Undecide("R-C02-7", cons+"|reserved filter name rejected", pos(c, store), "the name is tested with a helper the checker cannot evaluate ("+helperBad+")")
		badRes = nil
		resUndecided = true
	}
	if !resUndecided {
		c.Check(badRes == nil, "R-C02-7", cons+"|reserved filter name rejected", pos(c, store),
			"a spec is registered only after its name was tested against BuiltInFilterEnd", resWhy, witness(badRes)...)
	}
	c.Check(badIter == nil, "R-C02-7", cons+"|every accepted filter is registered", pos(c, loop),
		"every iteration that continues the loop has stored the spec",
		"an iteration of the filter loop continues without registering the spec: jump validation does not see that filter", witness(badIter)...)

	// exits
	var badVJ, badRec, badPanic *flow.Exit
	normal, recovered := 0, 0
	for _, ex := range res.Exits {
		st := ex.State
		switch {
		case ex.Kind == flow.ExitPanic:
			if badPanic == nil {
				badPanic = ex
			}
		case st.Is(flow.Recovered, flow.True):
			recovered++
			if !st.Is(evErrSet, flow.True) && badRec == nil {
				badRec = ex
			}
		default:
			normal++
			if !st.Is(evVJ, flow.True) && badVJ == nil {
				badVJ = ex
			}
		}
	}
	exw := func(ex *flow.Exit) []string {
		if ex == nil {
			return nil
		}
		return append([]string{"exit at " + pos(c, ex.At)}, witness(ex.State)...)
	}
	c.RequireCount("R-C02-7", "accepting exits of Spec.Validate", normal, 1)
	vjWhy := "Spec.Validate can accept a spec without having validated its jumpIf targets against the registered filter specs (after the filter loop, with the map it filled)"
	if len(vjCalls) == 0 {
		vjWhy = "Spec.Validate never calls the jump validator: unknown filters, undeclared results, backward / ambiguous / missing jump targets are all accepted"
	}
	c.Check(badVJ == nil, "R-C02-7", cons+"|jumps validated on every accepting path", pos(c, fd),
		sprintf("all %d accepting exits have called the jump validator with the filled map after the loop", normal), vjWhy, exw(badVJ)...)
	c.Check(badPanic == nil, "R-C02-7", cons+"|rejections are recovered", pos(c, fd),
		"no panic escapes Spec.Validate",
		"a rejection (panic) escapes Spec.Validate instead of being turned into an error: the caller crashes / the spec is not rejected cleanly", exw(badPanic)...)
	if recovered > 0 || badPanic == nil {
		c.Check(badRec == nil && recovered > 0, "R-C02-7", cons+"|a recovered rejection returns an error", pos(c, fd),
			sprintf("all %d recovered exits assign a non-nil error to the result", recovered),
			"a recovered rejection does not set the error result (fmt.Errorf/errors.New): the invalid spec is accepted", exw(badRec)...)
	}
}

func isErrType(t types.Type) bool {
	return t != nil && types.Identical(t, types.Universe.Lookup("error").Type())
}

// c02ValidateJump decides the shape of the jump validator.
func keyRender(lp *c02Loop) string {
	if lp.key == nil {
		return "?"
	}
	return lp.keyR
}

func c02ValidateJump(c *core.Ctx, a *c02Anchors, f *flow.Func, cons string, isSpecMap func(types.Type) bool) {
	fd := f.Node.(*ast.FuncDecl)
	// the jump validator together with the same-package helpers it calls
	d := c02ReachDefs(f, 3)
	// loopsAround counts the loops enclosing a node along the chain of helpers up to f and returns
	// the node (or call) in f standing for it
	loopsAround := func(n ast.Node) (int, ast.Node) {
		ls, _, ok := d.loopsOut(n)
		if !ok {
			return -1, nil
		}
		if len(ls) == 0 {
			return 0, n
		}
		return len(ls), ls[len(ls)-1] // the outermost loop stands for the node
	}
	fSpecFlow := c02FieldByYAML(c, c02pl, "Spec", "flow")
	fResults := structField(c, c02fl, "Kind", "Results")
	if fSpecFlow == nil || fResults == nil {
		return
	}
	var mapParam types.Object
	for _, fl := range fd.Type.Params.List {
		for _, id := range fl.Names {
			if o := f.Info.Defs[id]; o != nil && isSpecMap(o.Type()) {
				mapParam = o
			}
		}
	}
	// the target counter increment
	var incs []ast.Stmt
	var incIxs []*ast.IndexExpr
	var incIx *ast.IndexExpr
	isCounter := func(e ast.Expr) *ast.IndexExpr {
		ix, ok := ast.Unparen(e).(*ast.IndexExpr)
		if !ok {
			return nil
		}
		tv := f.Info.Types[ix.X]
		m, ok := tv.Type.Underlying().(*types.Map)
		if !ok {
			return nil
		}
		if b, ok := m.Elem().Underlying().(*types.Basic); !ok || b.Info()&types.IsInteger == 0 {
			return nil
		}
		return ix
	}
	incVisit := func(n ast.Node) bool {
		switch x := n.(type) {
		case *ast.IncDecStmt:
			if ix := isCounter(x.X); ix != nil && x.Tok == token.INC {
				incs = append(incs, x)
				incIxs = append(incIxs, ix)
				incIx = ix
			}
		case *ast.AssignStmt:
			if len(x.Lhs) == 1 && (x.Tok == token.ADD_ASSIGN || x.Tok == token.ASSIGN) {
				if ix := isCounter(x.Lhs[0]); ix != nil {
					incs = append(incs, x)
					incIxs = append(incIxs, ix)
					incIx = ix
				}
			}
		}
		return true
	}
	for _, g := range d.funcs {
		ast.Inspect(g.Body, incVisit)
	}
	if !c.RequireCount("R-C02-7", "target counter increments in the jump validator", len(incs), 1) {
		return
	}
	for i := range incs {
		// several increments are fine if they count the same thing in the same loop
		ki, ui := loopsAround(incs[i])
		k0, u0 := loopsAround(incs[0])
		if ui == nil || u0 == nil {
			c.Undecide("R-C02-7", cons+"|targets counted from later nodes only", pos(c, incs[i]), "the target counter is updated in a helper with several call sites")
			return
		}
		if d.norm(incIxs[i]) != d.norm(incIxs[0]) || ki != k0 || (ki > 0 && ui != u0) {
			c.Undecide("R-C02-7", cons+"|targets counted from later nodes only", pos(c, incs[i]), "several statements update the target counter with different keys or in different loops")
			return
		}
	}
	incIx = incIxs[0]
	inc := incs[0]
	vtObj := d.canon(incIx.X)
	outLoops, outFns, chainOK := d.loopsOut(inc)
	if !chainOK {
		c.Undecide("R-C02-7", cons+"|targets counted from later nodes only", pos(c, inc), "the target counter is updated in a helper or callback whose invocation cannot be followed")
		return
	}
	if len(outLoops) != 1 {
		// a loop body behind a callback that is not understood: say so instead of guessing
		if len(outLoops) == 0 {
			inLit := false
			ast.Inspect(f.Body, func(n ast.Node) bool {
				if lit, ok := n.(*ast.FuncLit); ok && contains(lit, inc) {
					inLit = true
				}
				return true
			})
			if inLit {
				c.Undecide("R-C02-7", cons+"|targets counted from later nodes only", pos(c, inc), "the target counter is incremented inside a function literal whose caller (a callback iterator) cannot be followed")
				return
			}
		}
		c.Violate("R-C02-7", cons+"|targets counted from later nodes only", pos(c, inc), sprintf("the target counter is incremented inside %d loops (expected: once per node of the flow loop)", len(outLoops)))
		return
	}
	outer := outLoops[0]
	outerFn := outFns[0] // the function holding the node loop (the validator or a callback iterator it uses)
	// node of the iteration and the naming method
	var N string
	aliasCall, _ := d.alias(incIx.Index).(*ast.CallExpr)
	var aliasM *types.Func
	if aliasCall != nil {
		aliasM, _ = f.Callee(aliasCall).(*types.Func)
		if sel, ok := ast.Unparen(aliasCall.Fun).(*ast.SelectorExpr); ok && aliasM != nil {
			N = d.norm(sel.X)
		}
	}
	if aliasM == nil || N == "" {
		c.Violate("R-C02-7", cons+"|targets counted by the runtime alias", pos(c, inc), "the target counter is not keyed by a FlowNode naming method of the node: validation and the flow loop disagree about what a jump target is called")
		return
	}
	if a.aliasFn != nil {
		c.Check(aliasM == a.aliasFn, "R-C02-7", cons+"|targets counted by the runtime alias", pos(c, inc),
			"validation counts targets with the same FlowNode method ("+aliasM.Name()+") the flow loop compares the pending target with",
			"validation counts jump targets with "+aliasM.Name()+" but the flow loop compares the pending target with "+a.aliasFn.Name()+": a validated jump may never be taken at run time")
	}
	// outer loop: reverse over Spec.Flow
	var iID *ast.Ident
	var flowX ast.Expr
	indexRender := "" // how the node of the iteration is indexed: i, or (n - 1)
	switch l := outer.(type) {
	case *ast.RangeStmt:
		// forwards only if the node of the iteration is the element the loop is at
		if lp := c02LoopOf(f, l); lp != nil && (N == d.norm(lp.X)+"["+keyRender(lp)+"]" || (lp.val != nil && strings.HasPrefix(N, f.Render(l.Value)))) {
			c.Violate("R-C02-7", cons+"|targets counted from later nodes only", pos(c, l), "the node loop of the jump validator runs forwards: when a node's jumps are checked the counter holds the nodes before it, so backward jumps are accepted (at run time they skip every remaining filter and never end the pipeline) and forward jumps are rejected")
			return
		}
		c.Undecide("R-C02-7", cons+"|targets counted from later nodes only", pos(c, l), "the node loop is a range statement whose node is not the element of the iteration; cannot tell the order in which nodes are visited")
		return
	case *ast.ForStmt:
		post, isIncDec := l.Post.(*ast.IncDecStmt)
		if lp := c02LoopOf(f, l); lp != nil && !lp.reverse {
			if N == d.norm(lp.X)+"["+keyRender(lp)+"]" {
				c.Violate("R-C02-7", cons+"|targets counted from later nodes only", pos(c, l), "the node loop of the jump validator runs forwards: when a node's jumps are checked the counter holds the nodes before it, so backward jumps are accepted (at run time they skip every remaining filter and never end the pipeline) and forward jumps are rejected")
			} else {
				c.Undecide("R-C02-7", cons+"|targets counted from later nodes only", pos(c, l), "the node loop counts upwards but the node is not flow[i]; cannot tell the order in which nodes are visited")
			}
			return
		}
		if isIncDec && post.Tok == token.INC {
			c.Undecide("R-C02-7", cons+"|targets counted from later nodes only", pos(c, l), "unrecognised upward loop in the jump validator")
			return
		}
		okShape := false
		if isIncDec && post.Tok == token.DEC {
			iID, _ = ast.Unparen(post.X).(*ast.Ident)
		}
		if init, ok := l.Init.(*ast.AssignStmt); ok && iID != nil && len(init.Lhs) == 1 && len(init.Rhs) == 1 && c02Obj(f, init.Lhs[0]) == c02Obj(f, iID) {
			// len(X) - 1
			if be, ok := ast.Unparen(init.Rhs[0]).(*ast.BinaryExpr); ok && be.Op == token.SUB {
				if one := f.Info.Types[be.Y]; one.Value != nil && one.Value.ExactString() == "1" {
					if call, ok := ast.Unparen(be.X).(*ast.CallExpr); ok && len(call.Args) == 1 {
						if b, ok := f.Callee(call).(*types.Builtin); ok && b.Name() == "len" {
							flowX = call.Args[0]
						}
					}
				}
			}
			// cond: i >= 0 | 0 <= i | i > -1
			if flowX != nil && l.Cond != nil {
				k, neg := f.Atom(l.Cond)
				ri := f.Render(iID)
				if (k == "lt:"+ri+"<0" && neg) || (k == "lt:-1<"+ri && !neg) {
					okShape = true
				}
			}
		}
		// the other spelling of the same loop: for n := len(X); n > 0; n-- { … X[n-1] … }
		if !okShape {
			if init, ok := l.Init.(*ast.AssignStmt); ok && iID != nil && len(init.Lhs) == 1 && len(init.Rhs) == 1 && c02Obj(f, init.Lhs[0]) == c02Obj(f, iID) && l.Cond != nil {
				if call, ok := ast.Unparen(init.Rhs[0]).(*ast.CallExpr); ok && len(call.Args) == 1 {
					if b, ok := f.Callee(call).(*types.Builtin); ok && b.Name() == "len" {
						k, neg := f.Atom(l.Cond)
						ri := f.Render(iID)
						if (k == "lt:0<"+ri && !neg) || (k == "lt:"+ri+"<1" && neg) {
							flowX, okShape = call.Args[0], true
							indexRender = "(" + ri + " - 1)"
						}
					}
				}
			}
		}
		if !okShape {
			c.Undecide("R-C02-7", cons+"|targets counted from later nodes only", pos(c, l), "node loop is neither `for i := len(flow)-1; i >= 0; i--`, `for n := len(flow); n > 0; n--` nor a forward loop")
			return
		}
	}
	if indexRender == "" && iID != nil {
		indexRender = f.Render(iID)
	}
	_, overFlow := d.fieldSel(flowX, fSpecFlow)
	if !overFlow || d.n[c02Obj(f, iID)] != 2 { // init + post
		c.Violate("R-C02-7", cons+"|every node visited", pos(c, outer), "the node loop does not visit Spec.Flow[len-1 … 0] one by one (other slice, or the index is modified in the body): some nodes' jumps are not validated")
		return
	}
	if N != d.norm(flowX)+"["+indexRender+"]" {
		c.Violate("R-C02-7", cons+"|targets counted by the runtime alias", pos(c, inc), "the counted node ("+N+") is not the node of this iteration")
		return
	}
	okExits := true
	for _, x := range breaksOut(outerFn, outer, labelOf(outerFn.Body, outer)) {
		if es, ok := x.(*ast.ExprStmt); ok {
			if call, ok := es.X.(*ast.CallExpr); ok {
				if b, ok := f.Callee(call).(*types.Builtin); ok && b.Name() == "panic" {
					continue
				}
			}
		}
		okExits = false
		c.Violate("R-C02-7", cons+"|every node visited", pos(c, x), "the node loop of the jump validator can be left early without rejecting: the jumps of the earlier nodes are never validated")
	}
	if okExits {
		c.Discharge("R-C02-7", cons+"|every node visited", pos(c, outer), "reverse index loop over Spec.Flow, left only by exhaustion or panic")
	}

	// spec lookup of the node's filter
	var specID, specOK *ast.Ident
	d.inside(f.Body, f, func(n ast.Node) bool {
		as, ok := n.(*ast.AssignStmt)
		if !ok || len(as.Rhs) != 1 {
			return true
		}
		ix, ok := ast.Unparen(as.Rhs[0]).(*ast.IndexExpr)
		if !ok || d.rootObj(ix.X) != mapParam || mapParam == nil {
			return true
		}
		if base, ok := d.fieldSel(ix.Index, a.fName); ok && d.norm(base) == N {
			specID, _ = ast.Unparen(as.Lhs[0]).(*ast.Ident)
			if len(as.Lhs) == 2 {
				specOK, _ = ast.Unparen(as.Lhs[1]).(*ast.Ident)
			}
		}
		return true
	})
	if specID == nil {
		c.Undecide("R-C02-7", cons+"|unknown filter rejected", pos(c, fd), "cannot find the lookup specs[N.FilterName]")
		return
	}
	specObj := d.canonObj(c02Obj(f, specID))
	if d.owner(specID) != f {
		c.Undecide("R-C02-7", cons+"|unknown filter rejected", pos(c, specID), "the lookup specs[N.FilterName] sits in a helper; its nil test cannot be related to the node loop")
		return
	}

	// inner loop over N.JumpIf (in the validator or in a helper it calls for the node)
	var inner *ast.RangeStmt
	d.inside(f.Body, f, func(n ast.Node) bool {
		if r, ok := n.(*ast.RangeStmt); ok {
			if base, ok := d.fieldSel(r.X, a.fJump); ok && d.norm(base) == N {
				inner = r
			}
		}
		return true
	})
	if inner == nil {
		c.Violate("R-C02-7", cons+"|every jumpIf entry checked", pos(c, outer), "the jump validator does not range over the node's JumpIf: jumps are not validated at all")
		return
	}
	gi := d.owner(inner) // the function holding the JumpIf loop
	incInInner := false
	for _, x := range incs {
		if up := d.liftTo(x, gi); up != nil && contains(inner, up) {
			incInInner = true
		}
	}
	if innerLoops, innerUp := loopsAround(inner); innerUp == nil || innerUp != ast.Node(outer) || innerLoops != 2 || incInInner { // enclosingLoops counts the loop itself
		c.Violate("R-C02-7", cons+"|every jumpIf entry checked", pos(c, inner), "the loop over JumpIf is not inside the node loop / contains the counter increment")
		return
	}
	resKey, target := c02Obj(f, inner.Key), types.Object(nil)
	if inner.Value != nil {
		target = c02Obj(f, inner.Value)
	}
	okInner := true
	for _, x := range breaksOut(gi, inner, labelOf(gi.Body, inner)) {
		if es, ok := x.(*ast.ExprStmt); ok {
			if call, ok := es.X.(*ast.CallExpr); ok {
				if b, ok := f.Callee(call).(*types.Builtin); ok && b.Name() == "panic" {
					continue
				}
			}
		}
		okInner = false
		c.Violate("R-C02-7", cons+"|every jumpIf entry checked", pos(c, x), "the loop over a node's JumpIf can be left early without rejecting (map order decides which entries are checked)")
	}
	// membership test
	var member *ast.CallExpr
	memberStatus := ""
	var memberAt ast.Node
	memberWhy := "the jump validator never tests the jumpIf key against the filter kind's Results (stringtool.StrInSlice): a jumpIf on a result the filter can never return is accepted"
	var memberCalls []*ast.CallExpr
	d.inside(inner.Body, gi, func(n ast.Node) bool {
		if call, ok := n.(*ast.CallExpr); ok && calleeIs(f, call, "pkg/util/stringtool.StrInSlice") {
			memberCalls = append(memberCalls, call)
		}
		return true
	})
	for _, call := range memberCalls {
		if len(call.Args) != 2 {
			continue
		}
		if resKey == nil || d.rootObj(call.Args[0]) != resKey {
			memberWhy = "the membership test does not test the jumpIf key (result)"
			continue
		}
		// arg1: GetKind(spec.Kind()).Results
		base, ok := d.fieldSel(call.Args[1], fResults)
		if !ok {
			memberWhy = "the membership test does not test against filters.Kind.Results"
			continue
		}
		gk, ok := d.alias(base).(*ast.CallExpr)
		if !ok || !calleeIs(f, gk, c02fl+".GetKind") || len(gk.Args) != 1 {
			memberWhy = "the Results tested are not those of filters.GetKind(…)"
			continue
		}
		kc, ok := d.alias(gk.Args[0]).(*ast.CallExpr)
		good := false
		if ok {
			if sel, ok := ast.Unparen(kc.Fun).(*ast.SelectorExpr); ok && sel.Sel.Name == "Kind" && d.canon(sel.X) == specObj {
				good = true
			}
		}
		if !good {
			memberWhy = "the kind whose Results are tested is not the kind of the node's own filter spec"
			continue
		}
		member = call
	}
	// a membership predicate of the project's own (`kind.HasResult(result)`, `hasResult(results, r)`)
	if member == nil {
		d.inside(inner.Body, gi, func(n ast.Node) bool {
			call, ok := n.(*ast.CallExpr)
			if !ok || member != nil {
				return true
			}
			m, why, status := c02MemberHelper(c, f, d, call, resKey, specObj, fResults)
			switch status {
			case "ok":
				member = m
			case "bad", "undecided":
				member, memberWhy = nil, why
				memberStatus = status
				memberAt = call
			}
			return true
		})
	}
	// count expressions
	var countRenders []string
	if target != nil {
		d.inside(inner.Body, gi, func(n ast.Node) bool {
			switch x := n.(type) {
			case *ast.IndexExpr:
				if d.canon(x.X) == vtObj && d.rootObj(x.Index) == target {
					countRenders = append(countRenders, f.Render(x))
				}
			case *ast.AssignStmt:
				if len(x.Lhs) == 1 && len(x.Rhs) == 1 {
					if ix, ok := ast.Unparen(x.Rhs[0]).(*ast.IndexExpr); ok && d.canon(ix.X) == vtObj && d.rootObj(ix.Index) == target {
						if id, ok := ast.Unparen(x.Lhs[0]).(*ast.Ident); ok {
							countRenders = append(countRenders, f.Render(id))
						}
					}
				}
			}
			return true
		})
	}
	// END comparisons of this node
	var endKeys []string
	d.inside(f.Body, f, func(n ast.Node) bool {
		if x, ok := n.(*ast.BinaryExpr); ok && (x.Op == token.EQL || x.Op == token.NEQ) {
			for _, pr := range [][2]ast.Expr{{x.X, x.Y}, {x.Y, x.X}} {
				if base, ok := d.fieldSel(pr[0], a.fName); ok && d.norm(base) == N {
					if v, ok := c02ConstString(f, pr[1]); ok && v == a.endVal {
						endKeys = append(endKeys, f.EqKey(x.X, x.Y))
					}
				}
			}
		}
		return true
	})

	const (
		evOIn       = "ev:outerBody"
		evIIn       = "ev:innerBody"
		evCounted   = "ev:counted"
		evInnerDone = "ev:innerDone"
		evDeref     = "ev:specDeref"
	)
	var badMember, badCount, badNode *flow.State
	countWhy := ""
	innerIter, outerIter := 0, 0
	res := analyze(c, f, flow.Config{
		NoHavoc:        true,
		Inline:         inlineSamePkg(f),
		InlineClosures: true, // the node loop's body may be a function literal handed to a callback iterator
		OnBlock: func(st *flow.State, b *cfg.Block) {
			switch {
			case b.Stmt == outer && b.Kind == cfg.KindForBody:
				st.Set(evOIn, flow.True)
				st.Set(evCounted, flow.False)
				st.Set(evInnerDone, flow.False)
				st.Set(evDeref, flow.False)
			case b.Stmt == outer && b.Kind == cfg.KindForPost:
				if st.Is(evOIn, flow.True) {
					outerIter++
					end := false
					for _, k := range endKeys {
						if st.Is(k, flow.True) {
							end = true
						}
					}
					if !st.Is(evCounted, flow.True) && !end && badNode == nil {
						badNode = st
					}
				}
				st.Set(evOIn, flow.False)
			case b.Stmt == ast.Stmt(inner) && b.Kind == cfg.KindRangeBody:
				st.Set(evIIn, flow.True)
			case b.Stmt == ast.Stmt(inner) && b.Kind == cfg.KindRangeLoop:
				if st.Is(evIIn, flow.True) {
					innerIter++
					if member != nil && !st.Is(f.CallKey(member), flow.True) && badMember == nil {
						badMember = st
					}
					okCount := false
					why := "the number of later nodes carrying the target's name is never read"
					best := 99
					for _, r := range countRenders {
						vals, readable := c02IntRange(st, r, 3)
						if readable && len(vals) == 1 && vals[0] == 1 {
							okCount = true
						}
						if len(vals) >= best {
							continue
						}
						best = len(vals)
						why = sprintf("a jumpIf entry is accepted with the count of later nodes named like its target in %v (must be exactly 1)", vals)
						if len(vals) > 0 && vals[0] == 0 {
							why += ": a target that does not exist after the node (missing or backward) is accepted — at run time every remaining filter is skipped and the pipeline does not end"
						} else {
							why += ": an ambiguous target is accepted — at run time the first of the duplicates is taken silently"
						}
					}
					if !okCount && badCount == nil {
						badCount, countWhy = st, why
					}
				}
				st.Set(evIIn, flow.False)
			case b.Stmt == ast.Stmt(inner) && b.Kind == cfg.KindRangeDone:
				st.Set(evInnerDone, flow.True)
			}
		},
		OnNode: func(st *flow.State, n ast.Node) {
			for _, x := range incs {
				if n == ast.Node(x) {
					st.Set(evCounted, flow.True)
				}
			}
		},
		OnCall: func(st *flow.State, call *ast.CallExpr, callee types.Object, deferred bool) {
			// a method call on the looked-up spec (an interface value) panics when the filter
			// is unknown: that is a rejection too (Spec.Validate recovers it)
			if sel, ok := ast.Unparen(call.Fun).(*ast.SelectorExpr); ok && d.canon(sel.X) == specObj && types.IsInterface(specObj.Type()) {
				st.Set(evDeref, flow.True)
			}
		},
	})
	if res == nil {
		return
	}
	c.RequireCount("R-C02-7", "abstract iterations over jumpIf entries", innerIter, 1)
	c.RequireCount("R-C02-7", "abstract iterations over flow nodes", outerIter, 1)
	if member == nil && memberStatus == "undecided" {
		c.Undecide("R-C02-7", cons+"|result declared by the filter kind", pos(c, memberAt), memberWhy)
	} else if member == nil {
		at := ast.Node(inner)
		if memberAt != nil {
			at = memberAt
		}
		c.Violate("R-C02-7", cons+"|result declared by the filter kind", pos(c, at), memberWhy)
	} else {
		c.Check(badMember == nil, "R-C02-7", cons+"|result declared by the filter kind", pos(c, member),
			"every accepted jumpIf entry has passed StrInSlice(result, GetKind(spec.Kind()).Results)",
			"a jumpIf entry is accepted although its key was not found in the filter kind's Results: the jump can never be taken, the configured result silently ends the pipeline", witness(badMember)...)
	}
	c.Check(badCount == nil, "R-C02-7", cons+"|target is a unique later node", pos(c, inner),
		"every accepted jumpIf entry has exactly one later node (or END) named like its target", countWhy, witness(badCount)...)
	if okInner {
		c.Discharge("R-C02-7", cons+"|every jumpIf entry checked", pos(c, inner), "range over N.JumpIf left only by exhaustion or panic")
	}
	c.Check(badNode == nil, "R-C02-7", cons+"|only END nodes are passed over", pos(c, outer),
		"every iteration that continues either counted the node or found it to be END",
		"a node that is not END is passed over by the jump validator: its jumpIf entries are not validated and it is not counted as a target", witness(badNode)...)
	// at the increment
	var badOrder, badSpec *flow.State
	reach := 0
	for _, x := range incs {
		for _, st := range res.At[x] {
			reach++
			if !st.Is(evInnerDone, flow.True) && badOrder == nil {
				badOrder = st
			}
			known := st.Is(f.NilKey(specID), flow.False) || (specOK != nil && st.Is(f.VarKey(specOK), flow.True)) || st.Is(evDeref, flow.True)
			if !known && badSpec == nil {
				badSpec = st
			}
		}
	}
	if reach == 0 {
		c.Violate("R-C02-7", cons+"|targets counted from later nodes only", pos(c, inc), "the counter increment is unreachable")
		return
	}
	c.Check(badOrder == nil, "R-C02-7", cons+"|targets counted from later nodes only", pos(c, inc),
		"reverse loop; the node is counted only after its own jumpIf entries were checked",
		"a node is counted as a jump target before its own jumpIf entries are checked: a filter may jump to itself (the flow loop only moves forward, so the jump skips every remaining filter)", witness(badOrder)...)
	c.Check(badSpec == nil, "R-C02-7", cons+"|unknown filter rejected", pos(c, inc),
		"a node is accepted only with specs[N.FilterName] found (nil test, comma-ok test, or a method call on the looked-up interface value)",
		"a flow node naming a filter that is not defined is accepted (at run time its nil filter is invoked)", witness(badSpec)...)
}

// c02ValidateGlobal: GlobalFilter's Validate validates both pipeline specs.
func c02ValidateGlobal(c *core.Ctx, a *c02Anchors) {
	f := fn(c, c02gf, "Spec", "Validate")
	fb := c02FieldByYAML(c, c02gf, "Spec", "beforePipeline")
	fa := c02FieldByYAML(c, c02gf, "Spec", "afterPipeline")
	if f == nil || fb == nil || fa == nil {
		return
	}
	cons := fname(c02gf, "Spec", "Validate")
	fd := f.Node.(*ast.FuncDecl)
	d := c02NewDefs(f)
	pm := parentMap(f.Body)
	type vcall struct {
		name  string
		call  *ast.CallExpr
		errID *ast.Ident
		own   *ast.AssignStmt
	}
	var vcs []*vcall
	for _, call := range callsTo(f, f.Body, false, "(*"+c02pl+".Spec).Validate", "("+c02pl+".Spec).Validate") {
		sel, ok := ast.Unparen(call.Fun).(*ast.SelectorExpr)
		if !ok {
			continue
		}
		v := &vcall{call: call}
		if _, ok := d.fieldSel(sel.X, fb); ok {
			v.name = "beforePipeline"
		} else if _, ok := d.fieldSel(sel.X, fa); ok {
			v.name = "afterPipeline"
		} else {
			continue
		}
		if as, ok := pm[call].(*ast.AssignStmt); ok && len(as.Lhs) == 1 {
			v.errID, _ = ast.Unparen(as.Lhs[0]).(*ast.Ident)
			v.own = as
		}
		vcs = append(vcs, v)
	}
	if len(vcs) == 0 && c02ValidateGlobalTable(c, f, d, cons, fb, fa) {
		return
	}
	for _, want := range []string{"beforePipeline", "afterPipeline"} {
		var v *vcall
		for _, x := range vcs {
			if x.name == want {
				v = x
			}
		}
		if v == nil {
			c.Violate("R-C02-7", cons+"|"+want+" spec validated", pos(c, fd), "GlobalFilter's Validate never validates the "+want+" spec: flows with invalid jumps / unknown filters are accepted and run around every request")
		} else if v.errID == nil || v.errID.Name == "_" {
			c.Violate("R-C02-7", cons+"|"+want+" spec validated", pos(c, v.call), "the error returned by validating the "+want+" spec is discarded")
			v.errID = nil
		}
	}
	var live []*vcall
	for _, v := range vcs {
		if v.errID != nil && v.errID.Name != "_" {
			live = append(live, v)
		}
	}
	if len(live) == 0 {
		return
	}
	bad := map[string]*flow.State{}
	res := analyze(c, f, flow.Config{
		OnCall: func(st *flow.State, call *ast.CallExpr, callee types.Object, deferred bool) {
			for _, v := range live {
				if v.call == call {
					st.Set("ev:called:"+v.name, flow.True)
					st.Set("ev:checked:"+v.name, flow.False)
				}
			}
		},
		OnNode: func(st *flow.State, n ast.Node) {
			as, ok := n.(*ast.AssignStmt)
			if !ok {
				return
			}
			for _, v := range live {
				if as == v.own || !st.Is("ev:called:"+v.name, flow.True) || st.Is("ev:checked:"+v.name, flow.True) {
					continue
				}
				for _, l := range as.Lhs {
					if c02Obj(f, l) == c02Obj(f, v.errID) {
						// the error variable is overwritten: it must be known nil by now
						if st.Is(f.NilKey(v.errID), flow.True) {
							st.Set("ev:checked:"+v.name, flow.True)
						} else if bad[v.name] == nil {
							bad[v.name] = st
						}
					}
				}
			}
		},
	})
	if res == nil {
		return
	}
	for _, v := range live {
		var badExit *flow.Exit
		n := 0
		for _, ex := range res.Exits {
			if ex.Kind != flow.ExitReturn {
				continue
			}
			st := ex.State
			// does this exit accept (return nil)?
			accept := true
			if ex.Return != nil && len(ex.Return.Results) == 1 {
				r := ast.Unparen(ex.Return.Results[0])
				if tv := f.Info.Types[r]; tv.IsNil() {
					accept = true
				} else if id, ok := r.(*ast.Ident); ok {
					accept = !st.Is(f.NilKey(id), flow.False)
				} else if _, ok := r.(*ast.CallExpr); ok {
					accept = false
				}
			}
			if !accept {
				continue
			}
			n++
			okPath := st.Is("ev:called:"+v.name, flow.True) && (st.Is("ev:checked:"+v.name, flow.True) || st.Is(f.NilKey(v.errID), flow.True))
			if !okPath && badExit == nil {
				badExit = ex
			}
		}
		w := witness(bad[v.name])
		if badExit != nil {
			w = append([]string{"exit at " + pos(c, badExit.At)}, witness(badExit.State)...)
		}
		c.Check(badExit == nil && bad[v.name] == nil && n > 0, "R-C02-7", cons+"|"+v.name+" spec validated", pos(c, v.call),
			sprintf("all %d accepting exits validated the %s spec and saw a nil error", n, v.name),
			"GlobalFilter's Validate can accept a spec although the "+v.name+" spec was not validated or its validation error was dropped: invalid before/after flows are accepted", w...)
	}
}

// c02TableHas decides `_, ok := T[param]` (ok is the identifier given) for param == the constant
// with ExactString exact, when T is a package-level map initialised by a composite literal with
// constant keys and never assigned, indexed for writing, deleted from or address-taken elsewhere.
func c02TableHas(f *flow.Func, okID, param *ast.Ident, exact string) (has, known bool) {
	okObj := c02Obj(f, okID)
	var table types.Object
	n := 0
	ast.Inspect(f.Body, func(x ast.Node) bool {
		as, isAs := x.(*ast.AssignStmt)
		if !isAs {
			return true
		}
		for i, l := range as.Lhs {
			if c02Obj(f, l) != okObj {
				continue
			}
			n++
			if i == 1 && len(as.Lhs) == 2 && len(as.Rhs) == 1 {
				if ix, ok := ast.Unparen(as.Rhs[0]).(*ast.IndexExpr); ok && c02Obj(f, ix.Index) == c02Obj(f, param) {
					table = c02Obj(f, ix.X)
				}
			}
		}
		return true
	})
	v, isVar := table.(*types.Var)
	if n != 1 || !isVar || v.Parent() != f.Pkg.Types.Scope() {
		return false, false
	}
	if _, isMap := v.Type().Underlying().(*types.Map); !isMap {
		return false, false
	}
	var lit *ast.CompositeLit
	written := false
	for _, file := range f.Pkg.Syntax {
		ast.Inspect(file, func(x ast.Node) bool {
			switch t := x.(type) {
			case *ast.ValueSpec:
				for i, id := range t.Names {
					if f.Info.Defs[id] == table && i < len(t.Values) {
						lit, _ = ast.Unparen(t.Values[i]).(*ast.CompositeLit)
					}
				}
			case *ast.AssignStmt:
				for _, l := range t.Lhs {
					l = ast.Unparen(l)
					if ix, ok := l.(*ast.IndexExpr); ok {
						l = ast.Unparen(ix.X)
					}
					if id, ok := l.(*ast.Ident); ok && f.Info.Uses[id] == table {
						written = true
					}
				}
			case *ast.UnaryExpr:
				if id, ok := ast.Unparen(t.X).(*ast.Ident); ok && t.Op == token.AND && f.Info.Uses[id] == table {
					written = true
				}
			case *ast.CallExpr:
				if id, ok := t.Fun.(*ast.Ident); ok && id.Name == "delete" && len(t.Args) > 0 {
					if a0, ok := ast.Unparen(t.Args[0]).(*ast.Ident); ok && f.Info.Uses[a0] == table {
						written = true
					}
				}
			}
			return true
		})
	}
	if lit == nil || written {
		return false, false
	}
	for _, el := range lit.Elts {
		kv, ok := el.(*ast.KeyValueExpr)
		if !ok {
			return false, false
		}
		tv := f.Info.Types[kv.Key]
		if tv.Value == nil {
			return false, false
		}
		if tv.Value.ExactString() == exact {
			has = true
		}
	}
	return has, true
}

// c02MemberHelper recognises a call, inside the jumpIf loop, of a project function that decides
// whether the jumpIf key is one of the Results of the node's filter kind, and verifies the helper:
// it may return true only after an element of Results was found equal to the key (or StrInSlice said
// so). status: "" (not such a call), "ok", "bad" (helper can say yes without the equality),
// "undecided" (helper shape not understood).
func c02MemberHelper(c *core.Ctx, f *flow.Func, d *c02Defs, call *ast.CallExpr, resKey, specObj types.Object, fResults *types.Var) (*ast.CallExpr, string, string) {
	fo, ok := f.Callee(call).(*types.Func)
	if !ok || fo.Pkg() == nil || !strings.HasPrefix(fo.Pkg().Path(), load.ModulePath) || resKey == nil {
		return nil, "", ""
	}
	sig := fo.Type().(*types.Signature)
	if sig.Results().Len() != 1 {
		return nil, "", ""
	}
	if b, ok := sig.Results().At(0).Type().Underlying().(*types.Basic); !ok || b.Kind() != types.Bool {
		return nil, "", ""
	}
	// the key argument
	keyIdx := -1
	for i, arg := range call.Args {
		if d.rootObj(arg) == resKey {
			keyIdx = i
		}
	}
	if keyIdx < 0 {
		return nil, "", ""
	}
	// is `e` (in the caller) the Results of the node's own kind, or that kind itself?
	isKind := func(e ast.Expr) bool {
		gk, ok := d.alias(e).(*ast.CallExpr)
		if !ok || !calleeIs(f, gk, c02fl+".GetKind") || len(gk.Args) != 1 {
			return false
		}
		kc, ok := d.alias(gk.Args[0]).(*ast.CallExpr)
		if !ok {
			return false
		}
		sel, ok := ast.Unparen(kc.Fun).(*ast.SelectorExpr)
		return ok && sel.Sel.Name == "Kind" && d.canon(sel.X) == specObj
	}
	isResults := func(e ast.Expr) bool {
		base, ok := d.fieldSel(e, fResults)
		return ok && isKind(base)
	}
	pkg := c.Prog.All[fo.Pkg().Path()]
	fd := declOf(pkg, fo)
	if pkg == nil || fd == nil {
		return nil, "", ""
	}
	h := flow.NewFunc(pkg, fd)
	name := fo.Name()
	// which names inside the helper stand for the key and for the Results
	var keyObj types.Object
	resultsParam := map[types.Object]bool{}
	var kindRecv types.Object
	i := 0
	for _, fld := range fd.Type.Params.List {
		for _, id := range fld.Names {
			if i == keyIdx {
				keyObj = h.Info.Defs[id]
			} else if i < len(call.Args) && isResults(call.Args[i]) {
				resultsParam[h.Info.Defs[id]] = true
			}
			i++
		}
	}
	if fd.Recv != nil && len(fd.Recv.List) == 1 && len(fd.Recv.List[0].Names) == 1 {
		if sel, ok := ast.Unparen(call.Fun).(*ast.SelectorExpr); ok && isKind(sel.X) {
			kindRecv = h.Info.Defs[fd.Recv.List[0].Names[0]]
		}
	}
	if keyObj == nil || (len(resultsParam) == 0 && kindRecv == nil) {
		return nil, "", "" // not a predicate over the key and the kind's Results
	}
	hd := c02NewDefs(h)
	inResults := func(e ast.Expr) bool { // e denotes the Results slice inside the helper
		e = hd.alias(e)
		if o := c02Obj(h, e); o != nil && resultsParam[o] {
			return true
		}
		if sel, ok := e.(*ast.SelectorExpr); ok && kindRecv != nil {
			if s := h.Info.Selections[sel]; s != nil && s.Obj() == types.Object(fResults) && hd.rootObj(sel.X) == kindRecv {
				return true
			}
		}
		return false
	}
	// element of Results: Results[i], or the value variable of a range over Results
	elemVars := map[types.Object]bool{}
	ast.Inspect(fd.Body, func(n ast.Node) bool {
		if r, ok := n.(*ast.RangeStmt); ok && r.Value != nil && inResults(r.X) {
			elemVars[c02Obj(h, r.Value)] = true
		}
		return true
	})
	isElem := func(e ast.Expr) bool {
		e = hd.alias(e)
		if ix, ok := e.(*ast.IndexExpr); ok {
			return inResults(ix.X)
		}
		o := c02Obj(h, e)
		return o != nil && elemVars[o]
	}
	isKey := func(e ast.Expr) bool { return hd.rootObj(e) == keyObj }
	// atoms that establish membership
	var memberKeys []string
	isMemberAtom := func(e ast.Expr) bool {
		e = ast.Unparen(e)
		if be, ok := e.(*ast.BinaryExpr); ok && be.Op == token.EQL {
			return (isElem(be.X) && isKey(be.Y)) || (isElem(be.Y) && isKey(be.X))
		}
		if cl, ok := e.(*ast.CallExpr); ok && calleeIs(h, cl, "pkg/util/stringtool.StrInSlice") && len(cl.Args) == 2 {
			return isKey(cl.Args[0]) && inResults(cl.Args[1])
		}
		return false
	}
	ast.Inspect(fd.Body, func(n ast.Node) bool {
		if e, ok := n.(ast.Expr); ok && isMemberAtom(e) {
			k, _ := h.Atom(e)
			memberKeys = append(memberKeys, k)
		}
		return true
	})
	// a boolean local whose every assignment is false, true (judged on the path) or an expression that
	// implies membership by its form
	var staticImplies func(e ast.Expr, self types.Object) bool
	staticImplies = func(e ast.Expr, self types.Object) bool {
		e = ast.Unparen(e)
		if tv := h.Info.Types[e]; tv.Value != nil {
			return true // false: never true; true: judged by ev:flagTainted
		}
		if isMemberAtom(e) {
			return true
		}
		if id, ok := e.(*ast.Ident); ok && c02Obj(h, id) == self {
			return true
		}
		if be, ok := e.(*ast.BinaryExpr); ok {
			switch be.Op {
			case token.LAND:
				return staticImplies(be.X, self) || staticImplies(be.Y, self)
			case token.LOR:
				return staticImplies(be.X, self) && staticImplies(be.Y, self)
			}
		}
		return false
	}
	flagOK := func(o types.Object) bool {
		if hd.taken[o] {
			return false
		}
		ok, n := true, 0
		ast.Inspect(fd.Body, func(x ast.Node) bool {
			switch t := x.(type) {
			case *ast.AssignStmt:
				for i, l := range t.Lhs {
					if c02Obj(h, l) != o {
						continue
					}
					n++
					if len(t.Lhs) != len(t.Rhs) || !staticImplies(t.Rhs[i], o) {
						ok = false
					}
				}
			case *ast.ValueSpec:
				for i, id := range t.Names {
					if h.Info.Defs[id] == o && i < len(t.Values) && !staticImplies(t.Values[i], o) {
						ok = false
					}
				}
			}
			return true
		})
		return ok && n > 0
	}
	// does expression e, when true, imply membership (given the facts of st)?
	var implies func(st *flow.State, e ast.Expr) (yes, known bool)
	implies = func(st *flow.State, e ast.Expr) (bool, bool) {
		e = ast.Unparen(e)
		if tv := h.Info.Types[e]; tv.Value != nil {
			if tv.Value.ExactString() == "false" {
				return true, true // never true
			}
			return st.Is("ev:member", flow.True), true
		}
		if isMemberAtom(e) {
			return true, true
		}
		switch x := e.(type) {
		case *ast.BinaryExpr:
			switch x.Op {
			case token.LAND:
				l, lk := implies(st, x.X)
				r, rk := implies(st, x.Y)
				if (l && lk) || (r && rk) {
					return true, true
				}
				return st.Is("ev:member", flow.True), lk && rk
			case token.LOR:
				l, lk := implies(st, x.X)
				r, rk := implies(st, x.Y)
				return l && r, lk && rk
			case token.EQL, token.NEQ, token.LSS, token.LEQ, token.GTR, token.GEQ:
				return st.Is("ev:member", flow.True), true // a comparison that is not the equality with an element
			}
		case *ast.Ident:
			if st.Is(h.VarKey(x), flow.False) {
				return true, true
			}
			// a flag that is only ever set from expressions implying membership
			if o := c02Obj(h, x); o != nil && flagOK(o) && !st.Is("ev:flagTainted:"+x.Name, flow.True) {
				return true, true
			}
			return st.Is("ev:member", flow.True), true
		}
		return false, false
	}
	res := analyze(c, h, flow.Config{
		NoHavoc: true,
		OnNode: func(st *flow.State, n ast.Node) {
			// `flag = true` outside a place where membership is established taints the flag
			as, ok := n.(*ast.AssignStmt)
			if !ok || len(as.Lhs) != len(as.Rhs) {
				return
			}
			for i, l := range as.Lhs {
				id, ok := ast.Unparen(l).(*ast.Ident)
				if !ok {
					continue
				}
				if tv := h.Info.Types[as.Rhs[i]]; tv.Value != nil && tv.Value.ExactString() == "true" && !st.Is("ev:member", flow.True) {
					st.Set("ev:flagTainted:"+id.Name, flow.True)
				}
			}
		},
		AfterAssume: func(st *flow.State, cond ast.Expr, outcome bool) {
			for _, k := range memberKeys {
				if st.Is(k, flow.True) {
					st.Set("ev:member", flow.True)
				}
			}
		},
	})
	if res == nil {
		return nil, "cannot analyse membership helper " + name, "undecided"
	}
	n := 0
	for _, ex := range res.Exits {
		if ex.Kind != flow.ExitReturn || ex.Return == nil || len(ex.Return.Results) != 1 {
			continue
		}
		n++
		yes, known := implies(ex.State, ex.Return.Results[0])
		if !known {
			return nil, "the membership helper " + name + " has a shape the checker cannot evaluate (" + types.ExprString(ex.Return.Results[0]) + ")", "undecided"
		}
		if !yes {
			return nil, "the membership predicate " + name + " can answer true (`return " + types.ExprString(ex.Return.Results[0]) + "` at " + pos(c, ex.Return) +
				") without an element of Results having been found equal to the jumpIf key (e.g. sort.SearchStrings returns the insertion index, not a hit): a jumpIf on a result the filter kind does not declare is accepted and can never be taken", "bad"
		}
	}
	if n == 0 {
		return nil, "membership helper " + name + " has no return", "undecided"
	}
	return call, "", "ok"
}

// c02ValidateGlobalTable handles the table form of GlobalFilter's Validate: one call of the pipeline
// Spec's Validate inside a loop over a literal list whose entries name the before and the after spec.
// Decided: both specs are in the list, every iteration validates its entry, the loop goes on only with
// a nil error, and the function accepts only after the loop is exhausted. Returns false when the
// function does not have that form.
func c02ValidateGlobalTable(c *core.Ctx, f *flow.Func, d *c02Defs, cons string, fb, fa *types.Var) bool {
	fd := f.Node.(*ast.FuncDecl)
	var call *ast.CallExpr
	var lp *c02Loop
	for _, cl := range callsTo(f, f.Body, false, "(*"+c02pl+".Spec).Validate", "("+c02pl+".Spec).Validate") {
		loops := enclosingLoops(f.Body, cl)
		if len(loops) != 1 {
			continue
		}
		l := c02LoopOf(f, loops[0])
		sel, ok := ast.Unparen(cl.Fun).(*ast.SelectorExpr)
		if l == nil || l.reverse || !ok {
			continue
		}
		// the receiver is (a field of) the element of the iteration
		root := sel.X
		for {
			if s2, ok := ast.Unparen(root).(*ast.SelectorExpr); ok {
				root = s2.X
				continue
			}
			break
		}
		if l.elem(d, root) || l.elem(d, sel.X) {
			call, lp = cl, l
		}
	}
	if call == nil {
		return false
	}
	lit, ok := d.alias(lp.X).(*ast.CompositeLit)
	if !ok {
		return false
	}
	covered := map[*types.Var]bool{}
	for _, el := range lit.Elts {
		ast.Inspect(el, func(n ast.Node) bool {
			if se, ok := n.(*ast.SelectorExpr); ok {
				if sl := f.Info.Selections[se]; sl != nil {
					if sl.Obj() == types.Object(fb) {
						covered[fb] = true
					}
					if sl.Obj() == types.Object(fa) {
						covered[fa] = true
					}
				}
			}
			return true
		})
	}
	var errID *ast.Ident
	if as, ok := d.parent(call).(*ast.AssignStmt); ok && len(as.Lhs) == 1 {
		errID, _ = ast.Unparen(as.Lhs[0]).(*ast.Ident)
	}
	var badBack, badSkip *flow.State
	var badExit *flow.Exit
	if errID != nil && errID.Name != "_" {
		const (
			evIn     = "ev:tbl:in"
			evCalled = "ev:tbl:called"
		)
		res := analyze(c, f, flow.Config{
			OnBlock: func(st *flow.State, b *cfg.Block) {
				if b.Stmt != lp.stmt {
					return
				}
				switch b.Kind {
				case lp.bodyKind:
					st.Set(evIn, flow.True)
					st.Set(evCalled, flow.False)
				case lp.backKind:
					if st.Is(evIn, flow.True) {
						if !st.Is(evCalled, flow.True) && badSkip == nil {
							badSkip = st
						} else if st.Is(evCalled, flow.True) && !st.Is(f.NilKey(errID), flow.True) && badBack == nil {
							badBack = st
						}
					}
					st.Set(evIn, flow.False)
				case lp.doneKind:
					if !st.Is(evIn, flow.True) {
						st.Set("ev:tbl:done", flow.True)
					}
				}
			},
			OnCall: func(st *flow.State, cc *ast.CallExpr, callee types.Object, deferred bool) {
				if cc == call {
					st.Set(evCalled, flow.True)
				}
			},
		})
		if res == nil {
			return true
		}
		for _, ex := range res.Exits {
			if ex.Kind != flow.ExitReturn {
				continue
			}
			accept := true
			if ex.Return != nil && len(ex.Return.Results) == 1 {
				r := ast.Unparen(ex.Return.Results[0])
				if id, ok := r.(*ast.Ident); ok && !f.Info.Types[r].IsNil() {
					accept = !ex.State.Is(f.NilKey(id), flow.False)
				} else if _, ok := r.(*ast.CallExpr); ok {
					accept = false
				}
			}
			if accept && !ex.State.Is("ev:tbl:done", flow.True) && badExit == nil {
				badExit = ex
			}
		}
	}
	for _, k := range []struct {
		name string
		v    *types.Var
	}{{"beforePipeline", fb}, {"afterPipeline", fa}} {
		name := cons + "|" + k.name + " spec validated"
		switch {
		case !covered[k.v]:
			c.Violate("R-C02-7", name, pos(c, lit), "the list of specs GlobalFilter's Validate walks over does not contain the "+k.name+" spec: flows with invalid jumps / unknown filters are accepted and run around every request")
		case errID == nil || errID.Name == "_":
			c.Violate("R-C02-7", name, pos(c, call), "the error returned by validating the listed specs is discarded")
		default:
			var w []string
			switch {
			case badBack != nil:
				w = witness(badBack)
			case badSkip != nil:
				w = witness(badSkip)
			case badExit != nil:
				w = append([]string{"exit at " + pos(c, badExit.At)}, witness(badExit.State)...)
			}
			c.Check(badBack == nil && badSkip == nil && badExit == nil, "R-C02-7", name, pos(c, call),
				"listed, validated in every iteration, the loop continues only with a nil error and the function accepts only after the list is exhausted",
				"GlobalFilter's Validate can accept a spec although a listed pipeline spec was not validated or its validation error was dropped (loop continued with an unchecked error, entry passed over, or accepted before the list was exhausted): invalid before/after flows are accepted", w...)
		}
	}
	_ = fd
	return true
}
