package rules

import (
	"go/ast"
	"go/types"
	"sort"
	"strings"

	"verif/internal/core"
)

// Machine-checked reason of the reviewed panic("should not reach here") at the end of
// proxy.(*ServerPool).handle (R-C13-1): the error that comes back through the resilience
// wrappers is nil, a sentinel of pkg/resilience, or an error the wrapped handler itself returned.
//
// For every implementation of resilience.Wrapper the function value returned by Wrap is
// analysed by value origin (flow-insensitive, hence conservative): each returned error is
//
//	nil        the nil literal / the zero value of a declared error variable
//	sentinel   a package-level error variable of pkg/resilience (ErrShortCircuited)
//	handler    the result of calling a value of type resilience.HandlerFunc (the wrapped handler,
//	           wherever it is kept: parameter, captured variable, struct field)
//	other      anything else (ctx.Err(), fmt.Errorf(..), an error of a helper that is not one of
//	           the above) — this breaks the contract handle relies on
//
// Locals take the union of everything assigned to them; same-package helpers are followed
// through their return statements with their parameters bound to the origins of the arguments.

type c13Origins map[string]string // origin class -> example position / description

func (o c13Origins) add(class, why string) {
	if _, ok := o[class]; !ok {
		o[class] = why
	}
}

func (o c13Origins) merge(p c13Origins) {
	for k, v := range p {
		o.add(k, v)
	}
}

type c13OriginCtx struct {
	c       *core.Ctx
	pkg     *c13Node // any node of the package (types.Info is shared per package)
	handler *types.Named
	errT    types.Type
	active  map[ast.Node]bool
	depth   int
}

func c13CheckWrapperOrigins(c *core.Ctx, g *c13Graph) (bool, string) {
	return c13Memo(c, "wrapper-origins", func() (bool, string) {
		const rel = "pkg/resilience"
		wrapperT := namedType(c, rel, "Wrapper")
		handlerT := namedType(c, rel, "HandlerFunc")
		if wrapperT == nil || handlerT == nil {
			return true, "anchor unresolved (checker error recorded)"
		}
		iface, _ := wrapperT.Underlying().(*types.Interface)
		if iface == nil {
			c.Errorf("R-C13-1: resilience.Wrapper is not an interface")
			return true, "anchor unresolved (checker error recorded)"
		}
		n := 0
		var names []string
		for _, nt := range g.named {
			if !types.Implements(nt, iface) && !types.Implements(types.NewPointer(nt), iface) {
				continue
			}
			wrap := g.method(nt, "Wrap")
			if wrap == nil || wrap.decl == nil {
				continue
			}
			n++
			names = append(names, nt.Obj().Name())
			oc := &c13OriginCtx{c: c, pkg: wrap, handler: handlerT, errT: types.Universe.Lookup("error").Type(), active: map[ast.Node]bool{}}
			// the function value(s) Wrap returns
			bodies := oc.returnedFuncs(wrap)
			if len(bodies) == 0 {
				c.Errorf("R-C13-1: cannot identify the function returned by %s", wrap.name)
				return true, "returned function not identified (checker error recorded)"
			}
			for _, b := range bodies {
				got := oc.returnOrigins(b.node, b.ftype, b.body, 0, map[types.Object]c13Origins{}, 0)
				if why, bad := got["other"]; bad {
					return false, sprintf("%s returns an error that is neither nil, a sentinel of pkg/resilience nor the error returned by the wrapped handler (%s): ServerPool.handle treats such an error as impossible and panics (\"should not reach here\")", wrap.name, why)
				}
			}
		}
		if n < 2 {
			c.Errorf("R-C13-1: only %d implementations of resilience.Wrapper found (expected >= 2)", n)
			return true, "anchor lost (checker error recorded)"
		}
		sort.Strings(names)
		return true, sprintf("%d Wrapper implementations (%s) return only nil, a resilience sentinel or the wrapped handler's error", n, strings.Join(names, ", "))
	})
}

type c13FuncBody struct {
	node  *c13Node
	ftype *ast.FuncType
	body  *ast.BlockStmt
}

// returnedFuncs finds the function literals / declared functions that Wrap returns.
func (oc *c13OriginCtx) returnedFuncs(wrap *c13Node) []c13FuncBody {
	info := wrap.pkg.TypesInfo
	var out []c13FuncBody
	ast.Inspect(wrap.body, func(x ast.Node) bool {
		if _, isLit := x.(*ast.FuncLit); isLit {
			return false
		}
		ret, ok := x.(*ast.ReturnStmt)
		if !ok || len(ret.Results) != 1 {
			return true
		}
		e := ast.Unparen(ret.Results[0])
		if id, ok := e.(*ast.Ident); ok {
			if def := c13SingleDef(wrap, id); def != nil {
				e = ast.Unparen(def)
			}
		}
		switch v := e.(type) {
		case *ast.CallExpr:
			// `return guard(w.AcquirePermission, w.RecordResult, handler)`: the function value is
			// built by a same-package function; the handler it calls is recognised by its type
			if id := c13CalleeIdentOf(v.Fun); id != nil && oc.depth < 3 {
				if fo, ok := info.Uses[id].(*types.Func); ok && fo.Pkg() == wrap.pkg.Types {
					if fd := declOf(wrap.pkg, fo); fd != nil {
						oc.depth++
						out = append(out, oc.returnedFuncs(&c13Node{pkg: wrap.pkg, decl: fd, body: fd.Body})...)
						oc.depth--
					}
				}
			}
		case *ast.FuncLit:
			out = append(out, c13FuncBody{wrap, v.Type, v.Body})
		case *ast.Ident, *ast.SelectorExpr:
			id := c13CalleeIdentOf(v)
			if id != nil {
				if fo, ok := info.Uses[id].(*types.Func); ok {
					if fd := declOf(wrap.pkg, fo); fd != nil {
						out = append(out, c13FuncBody{&c13Node{pkg: wrap.pkg, decl: fd, body: fd.Body}, fd.Type, fd.Body})
					}
				}
			}
		}
		return true
	})
	return out
}

func c13CalleeIdentOf(e ast.Expr) *ast.Ident {
	switch v := ast.Unparen(e).(type) {
	case *ast.Ident:
		return v
	case *ast.SelectorExpr:
		return v.Sel
	}
	return nil
}

// returnOrigins: the origins of result #idx of the function (body), with params bound.
func (oc *c13OriginCtx) returnOrigins(n *c13Node, ft *ast.FuncType, body *ast.BlockStmt, idx int, bind map[types.Object]c13Origins, depth int) c13Origins {
	out := c13Origins{}
	if oc.active[body] || depth > 4 {
		out.add("other", "recursion / depth limit at "+pos(oc.c, body))
		return out
	}
	oc.active[body] = true
	defer delete(oc.active, body)
	info := n.pkg.TypesInfo
	// named result
	var named types.Object
	if ft.Results != nil {
		i := 0
		for _, fl := range ft.Results.List {
			if len(fl.Names) == 0 {
				i++
				continue
			}
			for _, nm := range fl.Names {
				if i == idx {
					named = info.Defs[nm]
				}
				i++
			}
		}
	}
	ast.Inspect(body, func(x ast.Node) bool {
		if _, isLit := x.(*ast.FuncLit); isLit {
			return false // returns of nested literals are not returns of this function
		}
		ret, ok := x.(*ast.ReturnStmt)
		if !ok {
			return true
		}
		switch {
		case len(ret.Results) == 0 && named != nil:
			out.merge(oc.varOrigins(n, body, named, bind, depth))
		case len(ret.Results) > idx:
			out.merge(oc.exprOrigins(n, body, ret.Results[idx], bind, depth))
		case len(ret.Results) == 1:
			// return h(..) with several results
			out.merge(oc.callOrigins(n, body, ret.Results[0], idx, bind, depth))
		}
		return true
	})
	return out
}

// exprOrigins classifies an error-valued expression inside the function `scope`.
func (oc *c13OriginCtx) exprOrigins(n *c13Node, scope *ast.BlockStmt, e ast.Expr, bind map[types.Object]c13Origins, depth int) c13Origins {
	out := c13Origins{}
	info := n.pkg.TypesInfo
	e = ast.Unparen(e)
	if tv := info.Types[e]; tv.IsNil() {
		out.add("nil", "")
		return out
	}
	switch x := e.(type) {
	case *ast.Ident:
		switch o := info.Uses[x].(type) {
		case *types.Var:
			if o.Pkg() != nil && o.Parent() == o.Pkg().Scope() {
				if strings.HasSuffix(o.Pkg().Path(), "pkg/resilience") && types.Identical(o.Type(), oc.errT) {
					out.add("sentinel", o.Name())
				} else {
					out.add("other", "package variable "+o.Name()+" at "+pos(oc.c, x))
				}
				return out
			}
			return oc.varOrigins(n, scope, o, bind, depth)
		}
	case *ast.SelectorExpr:
		if o, ok := info.Uses[x.Sel].(*types.Var); ok && !o.IsField() && o.Pkg() != nil && o.Parent() == o.Pkg().Scope() {
			if strings.HasSuffix(o.Pkg().Path(), "pkg/resilience") && types.Identical(o.Type(), oc.errT) {
				out.add("sentinel", o.Name())
				return out
			}
		}
	case *ast.CallExpr:
		return oc.callOrigins(n, scope, x, 0, bind, depth)
	case *ast.TypeAssertExpr:
		return oc.exprOrigins(n, scope, x.X, bind, depth)
	}
	out.add("other", types.ExprString(e)+" at "+pos(oc.c, e))
	return out
}

// callOrigins: result #idx of a call.
func (oc *c13OriginCtx) callOrigins(n *c13Node, scope *ast.BlockStmt, e ast.Expr, idx int, bind map[types.Object]c13Origins, depth int) c13Origins {
	out := c13Origins{}
	info := n.pkg.TypesInfo
	call, ok := ast.Unparen(e).(*ast.CallExpr)
	if !ok {
		out.add("other", types.ExprString(e)+" at "+pos(oc.c, e))
		return out
	}
	// a call of a HandlerFunc value: the wrapped handler
	if tv := info.Types[call.Fun]; tv.Type != nil && types.Identical(tv.Type, oc.handler) {
		out.add("handler", "")
		return out
	}
	if tv := info.Types[call.Fun]; tv.IsType() && len(call.Args) == 1 {
		return oc.exprOrigins(n, scope, call.Args[0], bind, depth)
	}
	// a same-package function or method: its returns, with the error-typed arguments bound
	if id := c13CalleeIdentOf(call.Fun); id != nil {
		if fo, ok := info.Uses[id].(*types.Func); ok && fo.Pkg() == n.pkg.Types {
			if fd := declOf(n.pkg, fo); fd != nil {
				nb := map[types.Object]c13Origins{}
				i := 0
				for _, fl := range fd.Type.Params.List {
					for _, nm := range fl.Names {
						if i < len(call.Args) {
							if po := info.Defs[nm]; po != nil && types.Identical(po.Type(), oc.errT) {
								nb[po] = oc.exprOrigins(n, scope, call.Args[i], bind, depth)
							}
						}
						i++
					}
					if len(fl.Names) == 0 {
						i++
					}
				}
				callee := &c13Node{pkg: n.pkg, decl: fd, body: fd.Body}
				return oc.returnOrigins(callee, fd.Type, fd.Body, idx, nb, depth+1)
			}
		}
	}
	out.add("other", types.ExprString(call)+" at "+pos(oc.c, call))
	return out
}

// varOrigins: the union of what is assigned to the variable inside scope (the function
// literal / declaration it lives in, nested literals included: closures assign captured
// variables), plus its binding if it is a parameter.
func (oc *c13OriginCtx) varOrigins(n *c13Node, scope *ast.BlockStmt, v types.Object, bind map[types.Object]c13Origins, depth int) c13Origins {
	out := c13Origins{}
	if b, ok := bind[v]; ok {
		out.merge(b)
	}
	info := n.pkg.TypesInfo
	// the whole declaration the scope belongs to (a captured variable may be declared outside)
	var root ast.Node = scope
	if n.decl != nil && contains(n.decl, scope) {
		root = n.decl.Body
	}
	assigned := false
	ast.Inspect(root, func(x ast.Node) bool {
		switch s := x.(type) {
		case *ast.AssignStmt:
			for i, l := range s.Lhs {
				id, ok := ast.Unparen(l).(*ast.Ident)
				if !ok || (info.Defs[id] != v && info.Uses[id] != v) {
					continue
				}
				assigned = true
				switch {
				case len(s.Lhs) == len(s.Rhs):
					if r, ok := ast.Unparen(s.Rhs[i]).(*ast.Ident); ok && info.Uses[r] == v {
						continue // x = x
					}
					out.merge(oc.exprOriginsGuarded(n, scope, s.Rhs[i], bind, depth, v))
				case len(s.Rhs) == 1:
					out.merge(oc.callOrigins(n, scope, s.Rhs[0], i, bind, depth))
				}
			}
		case *ast.ValueSpec:
			for i, nm := range s.Names {
				if info.Defs[nm] != v {
					continue
				}
				assigned = true
				switch {
				case len(s.Values) == 0:
					out.add("nil", "")
				case len(s.Values) == len(s.Names):
					out.merge(oc.exprOriginsGuarded(n, scope, s.Values[i], bind, depth, v))
				case len(s.Values) == 1:
					out.merge(oc.callOrigins(n, scope, s.Values[0], i, bind, depth))
				}
			}
		case *ast.RangeStmt:
			for _, l := range []ast.Expr{s.Key, s.Value} {
				if id, ok := l.(*ast.Ident); ok && (info.Defs[id] == v || info.Uses[id] == v) {
					assigned = true
					out.add("other", "range variable at "+pos(oc.c, s))
				}
			}
		}
		return true
	})
	if _, bound := bind[v]; !bound && !assigned {
		out.add("other", "variable "+v.Name()+" is never assigned in sight")
	}
	return out
}

var c13OriginVarActive = map[types.Object]bool{}

// exprOriginsGuarded avoids infinite recursion through x = y; y = x chains.
func (oc *c13OriginCtx) exprOriginsGuarded(n *c13Node, scope *ast.BlockStmt, e ast.Expr, bind map[types.Object]c13Origins, depth int, v types.Object) c13Origins {
	if c13OriginVarActive[v] {
		return c13Origins{}
	}
	c13OriginVarActive[v] = true
	defer delete(c13OriginVarActive, v)
	return oc.exprOrigins(n, scope, e, bind, depth)
}
