package rules

// R-C16-2, third obligation: Session.allSubscribes enumerates every topic. The two result slices
// (returned identifiers or named results) must be filled - `s = append(s, x)` or `s[i] = x` - in
// loops without early exit: the topics from a range over info.Topics with the key; the QoS values
// either in a range over info.Topics (value variable, or Topics[key]) or in a loop over the topics
// result indexing info.Topics with its element. A shape the rule cannot follow is undecided.

import (
	"go/ast"
	"go/token"
	"go/types"

	"verif/internal/flow"
)

func c16AllSubscribes(e *c16Env, f *flow.Func) {
	c := e.c
	cons := e.fnameOf(f) + "|enumerates every topic"
	// result slices
	var tObj, qObj types.Object
	if fd, ok := f.Node.(*ast.FuncDecl); ok && fd.Type.Results != nil {
		var named []*ast.Ident
		for _, fld := range fd.Type.Results.List {
			named = append(named, fld.Names...)
		}
		if len(named) >= 2 {
			tObj, qObj = f.Info.Defs[named[0]], f.Info.Defs[named[1]]
		}
	}
	ast.Inspect(f.Body, func(n ast.Node) bool {
		if _, isLit := n.(*ast.FuncLit); isLit {
			return false
		}
		if r, ok := n.(*ast.ReturnStmt); ok && len(r.Results) >= 2 {
			if t, q := c16Obj(f, r.Results[0]), c16Obj(f, r.Results[1]); t != nil && q != nil {
				tObj, qObj = t, q
			}
		}
		return true
	})
	type loop struct {
		stmt     ast.Stmt
		body     *ast.BlockStmt
		overTop  bool // ranges over info.Topics
		overT    bool // runs over the topics result
		key, val types.Object
	}
	var loops []loop
	topicsLoops := 0
	ast.Inspect(f.Body, func(n ast.Node) bool {
		switch l := n.(type) {
		case *ast.RangeStmt:
			lp := loop{stmt: l, body: l.Body, key: c16Obj(f, l.Key), val: c16Obj(f, l.Value)}
			switch {
			case c16Sel(f, l.X, e.topicsF):
				lp.overTop = true
				topicsLoops++
			case tObj != nil && c16Obj(f, l.X) == tObj:
				lp.overT = true
			default:
				return true
			}
			loops = append(loops, lp)
		case *ast.ForStmt:
			// for i := 0; i < len(T); i++
			if be, ok := l.Cond.(*ast.BinaryExpr); ok && be.Op == token.LSS {
				if call, ok := ast.Unparen(be.Y).(*ast.CallExpr); ok && calleeFull(f, call) == "builtin.len" && len(call.Args) == 1 && tObj != nil && c16Obj(f, call.Args[0]) == tObj {
					loops = append(loops, loop{stmt: l, body: l.Body, overT: true, key: c16Obj(f, be.X)})
				}
			}
		}
		return true
	})
	if topicsLoops == 0 {
		c.Violate("R-C16-2", cons, pos(c, f.Body), "allSubscribes does not range over the session's Topics")
		return
	}
	if tObj == nil || qObj == nil {
		c.Undecide("R-C16-2", cons, pos(c, f.Body), "the topic / QoS results are not returned through variables")
		return
	}
	for _, lp := range loops {
		if ex := breaksOut(f, lp.stmt, labelOf(f.Body, lp.stmt)); len(ex) > 0 {
			c.Violate("R-C16-2", cons, pos(c, lp.stmt), "the loop over the session's topics can be left early ("+pos(c, ex[0])+"): the remaining subscriptions are not restored on reconnect")
			return
		}
	}
	// fills returns the expressions stored into slice inside lp
	fills := func(lp loop, slice types.Object) []ast.Expr {
		var out []ast.Expr
		ast.Inspect(lp.body, func(n ast.Node) bool {
			as, ok := n.(*ast.AssignStmt)
			if !ok || len(as.Lhs) != 1 || len(as.Rhs) != 1 {
				return true
			}
			if c16Obj(f, as.Lhs[0]) == slice {
				if call, ok := ast.Unparen(as.Rhs[0]).(*ast.CallExpr); ok && calleeFull(f, call) == "builtin.append" && len(call.Args) >= 2 && c16Obj(f, call.Args[0]) == slice {
					out = append(out, call.Args[1:]...)
				}
			}
			if ix, ok := ast.Unparen(as.Lhs[0]).(*ast.IndexExpr); ok && c16Obj(f, ix.X) == slice {
				out = append(out, as.Rhs[0])
			}
			return true
		})
		return out
	}
	// element of the topics result in a loop over it: the value variable, or T[key]
	elemOfT := func(lp loop, x ast.Node) bool {
		if lp.val != nil && c16Mentions(f, x, lp.val) {
			return true
		}
		found := false
		ast.Inspect(x, func(n ast.Node) bool {
			if ix, ok := n.(*ast.IndexExpr); ok && c16Obj(f, ix.X) == tObj && lp.key != nil && c16Mentions(f, ix.Index, lp.key) {
				found = true
			}
			return !found
		})
		return found
	}
	topicsIndexed := func(x ast.Expr, by func(ast.Node) bool) bool {
		found := false
		ast.Inspect(x, func(n ast.Node) bool {
			if ix, ok := n.(*ast.IndexExpr); ok && c16Sel(f, ix.X, e.topicsF) && by(ix.Index) {
				found = true
			}
			return !found
		})
		return found
	}
	tOK, qOK := false, false
	for _, lp := range loops {
		lp := lp
		if lp.overTop && lp.key != nil {
			for _, x := range fills(lp, tObj) {
				if c16Mentions(f, x, lp.key) {
					tOK = true
				}
			}
			for _, x := range fills(lp, qObj) {
				if (lp.val != nil && c16Mentions(f, x, lp.val)) || topicsIndexed(x, func(n ast.Node) bool { return c16Mentions(f, n, lp.key) }) {
					qOK = true
				}
			}
		}
		if lp.overT {
			for _, x := range fills(lp, qObj) {
				if topicsIndexed(x, func(n ast.Node) bool { return elemOfT(lp, n) }) {
					qOK = true
				}
			}
		}
	}
	switch {
	case tOK && qOK:
		c.Discharge("R-C16-2", cons, pos(c, loops[0].stmt), "every key of info.Topics is stored into the topics result and its QoS into the QoS result, in loops without early exit")
	case len(fills(loops[0], tObj))+len(fills(loops[0], qObj)) == 0 && !tOK && !qOK:
		c.Undecide("R-C16-2", cons, pos(c, loops[0].stmt), "the way the topic / QoS results are built from info.Topics is not one the rule follows (append or indexed store in a loop over info.Topics or over the topics result)")
	default:
		c.Violate("R-C16-2", cons, pos(c, loops[0].stmt), "the returned topic / QoS slices are not built by storing every key / value of the session's Topics")
	}
}
