package rules

import (
	"go/ast"
	"go/token"
	"go/types"
	"strings"

	"golang.org/x/tools/go/packages"

	"verif/internal/core"
	"verif/internal/flow"
)

// c03Cache decides R-C03-8: header maps cross the boundary of the proxy's memory cache only
// by copy. The cache entry type is resolved by role: the struct the cache lookup method
// (*MemoryCache).Load returns; its header-typed fields are the subject.
//
// A header map is mutated in place by every later filter (ResponseAdaptor, CORSAdaptor,
// Fallback, SetCookie …). If an entry's header is the same map as a live response's header —
// because the entry was filled with the response's map, or because a hit hands out the entry's
// map — the first such mutation rewrites what all later hits are served (e.g. Content-Encoding
// and Content-Length of a body that is not stored that way), and concurrent hits race on the
// map.
func c03Cache(c *core.Ctx) {
	// the cache entry type, by role: the named struct of the package with a header-typed field
	// that a function taking the client's request returns a pointer to (the cache lookup)
	var entry *types.Named
	var st *types.Struct
	cands := map[*types.Named]bool{}
	for _, g := range funcsByRole(c, c03px, func(g *flow.Func, fd *ast.FuncDecl) bool { return true }) {
		fo, ok := g.Info.Defs[g.Node.(*ast.FuncDecl).Name].(*types.Func)
		if !ok {
			continue
		}
		sig := fo.Type().(*types.Signature)
		takesReq := false
		for i := 0; i < sig.Params().Len(); i++ {
			if strings.HasSuffix(sig.Params().At(i).Type().String(), c03hp+".Request") {
				takesReq = true
			}
		}
		if !takesReq || sig.Results().Len() != 1 {
			continue
		}
		p, ok := sig.Results().At(0).Type().(*types.Pointer)
		if !ok {
			continue
		}
		n, ok := p.Elem().(*types.Named)
		if !ok || n.Obj().Pkg() == nil || n.Obj().Pkg().Path() != Mod+c03px {
			continue
		}
		if s2, ok := n.Underlying().(*types.Struct); ok {
			for i := 0; i < s2.NumFields(); i++ {
				if c03isHeaderType(s2.Field(i).Type()) {
					cands[n] = true
				}
			}
		}
	}
	if len(cands) != 1 {
		c.Errorf("R-C03-8: anchor: expected one cache entry type (struct with a header field returned by a lookup taking the request), found %d", len(cands))
		return
	}
	for n := range cands {
		entry = n
		st = n.Underlying().(*types.Struct)
	}
	hdrFields := map[*types.Var]int{}
	for i := 0; i < st.NumFields(); i++ {
		if c03isHeaderType(st.Field(i).Type()) {
			hdrFields[st.Field(i)] = i
		}
	}
	if !c.RequireCount("R-C03-8", "header-typed fields of the cache entry type "+entry.Obj().Name(), len(hdrFields), 1) {
		return
	}
	ename := entry.Obj().Name()

	writes, reads := 0, 0
	eachFunc(c, func(pkg *packages.Package, fd *ast.FuncDecl) {
		f := flow.NewFunc(pkg, fd)
		name := declName(pkg, fd)
		var pm map[ast.Node]ast.Node
		parents := func() map[ast.Node]ast.Node {
			if pm == nil {
				pm = parentMap(fd.Body)
			}
			return pm
		}

		// fresh(e): e evaluates to a header map nobody else holds
		var fresh func(e ast.Expr, depth int) (bool, bool) // (fresh, decided)
		fresh = func(e ast.Expr, depth int) (bool, bool) {
			e = ast.Unparen(e)
			if tv, ok := f.Info.Types[e]; ok && tv.IsNil() {
				return true, true
			}
			switch x := e.(type) {
			case *ast.CompositeLit:
				return true, true
			case *ast.CallExpr:
				if op, _ := c03hdrOp(f, x); op == "Clone" {
					return true, true
				} else if op != "" {
					return false, false
				}
				if b, ok := f.Callee(x).(*types.Builtin); ok && b.Name() == "make" {
					return true, true
				}
				if fo, ok := f.Callee(x).(*types.Func); ok {
					// accessor methods of the protocol types hand out the live map
					if sig := fo.Type().(*types.Signature); sig.Recv() != nil && (fo.Name() == "HTTPHeader" || fo.Name() == "Header") {
						return false, true
					}
					if hf := c03declOf(c, fo); hf != nil && depth < 2 {
						all, any := true, false
						ast.Inspect(hf.Body, func(n ast.Node) bool {
							switch r := n.(type) {
							case *ast.FuncLit:
								return false
							case *ast.ReturnStmt:
								any = true
								if len(r.Results) != 1 {
									all = false
									return true
								}
								re := ast.Unparen(r.Results[0])
								okr := false
								if call, ok := re.(*ast.CallExpr); ok {
									if op, _ := c03hdrOp(hf, call); op == "Clone" {
										okr = true
									}
								}
								if id, ok := re.(*ast.Ident); ok {
									defs := c03defs(hf, c03obj(hf, id))
									okr = len(defs) > 0
									for _, d := range defs {
										op := ""
										if d.call != nil && d.rhs != nil {
											op, _ = c03hdrOp(hf, d.call)
										}
										if op != "Clone" {
											okr = false
										}
									}
								}
								if !okr {
									all = false
								}
							}
							return true
						})
						if any && all {
							return true, true
						}
					}
				}
				return false, false
			case *ast.Ident:
				o := c03obj(f, x)
				defs := c03defs(f, o)
				if len(defs) == 0 || depth > 3 {
					return false, true // parameter / global: shared with the caller
				}
				for _, d := range defs {
					if d.rhs == nil {
						return false, false
					}
					if fr, dec := fresh(d.rhs, depth+1); !fr {
						return false, dec
					}
				}
				return true, true
			case *ast.SelectorExpr:
				return false, true // a field of something else: that something still holds the map
			}
			return false, false
		}
		checkWrite := func(val ast.Expr, at ast.Node) {
			writes++
			cons := name + "|header stored in " + ename
			fr, dec := fresh(val, 0)
			switch {
			case fr:
				c.Discharge("R-C03-8", cons, pos(c, at), "the stored header is a fresh copy (Clone)")
			case dec:
				c.Violate("R-C03-8", cons, pos(c, at),
					"the cache entry keeps a reference to a header map that is still in use (no Clone): every later filter that edits the live response's headers edits the cached entry, so later cache hits are served headers (Content-Encoding, Content-Length …) that do not belong to the cached body")
			default:
				c.Undecide("R-C03-8", cons, pos(c, at), "cannot tell whether the stored header is a copy")
			}
		}

		// ---- writes
		ast.Inspect(fd.Body, func(n ast.Node) bool {
			switch x := n.(type) {
			case *ast.CompositeLit:
				tv, ok := f.Info.Types[x]
				if !ok {
					return true
				}
				t := tv.Type
				if p, ok := t.(*types.Pointer); ok {
					t = p.Elem()
				}
				if !types.Identical(t, entry) {
					return true
				}
				for i, el := range x.Elts {
					if kv, ok := el.(*ast.KeyValueExpr); ok {
						if k, ok := kv.Key.(*ast.Ident); ok {
							if fv, ok := f.Info.Uses[k].(*types.Var); ok {
								if _, isHdr := hdrFields[fv]; isHdr {
									checkWrite(kv.Value, kv)
								}
							}
						}
						continue
					}
					for _, idx := range hdrFields {
						if idx == i {
							checkWrite(el, el)
						}
					}
				}
			case *ast.AssignStmt:
				for i, l := range x.Lhs {
					if _, isHdr := hdrFields[c03fieldOf(f, l)]; isHdr && len(x.Lhs) == len(x.Rhs) {
						checkWrite(x.Rhs[i], x)
					}
				}
			}
			return true
		})

		// ---- reads: the entry's header (or a local alias of it) may only be copied or inspected
		type use struct {
			e     ast.Expr
			depth int
		}
		var work []use
		ast.Inspect(fd.Body, func(n ast.Node) bool {
			if sel, ok := n.(*ast.SelectorExpr); ok {
				if _, isHdr := hdrFields[c03fieldOf(f, sel)]; isHdr {
					// skip the left-hand side of a write
					if as, ok := parents()[sel].(*ast.AssignStmt); ok {
						for _, l := range as.Lhs {
							if l == ast.Expr(sel) {
								return true
							}
						}
					}
					work = append(work, use{sel, 0})
				}
			}
			return true
		})
		seenAlias := map[types.Object]bool{}
		for len(work) > 0 {
			u := work[0]
			work = work[1:]
			reads++
			cons := name + "|use of the header of a cached " + ename
			var e ast.Node = u.e
			p := parents()[e]
			for {
				if pe, ok := p.(*ast.ParenExpr); ok {
					e, p = pe, parents()[pe]
					continue
				}
				break
			}
			bad, undecided := "", ""
			switch x := p.(type) {
			case *ast.SelectorExpr: // method on the header
				call, _ := parents()[x].(*ast.CallExpr)
				if call == nil || ast.Unparen(call.Fun) != ast.Expr(x) {
					undecided = "method value taken from the cached header"
					break
				}
				switch op, _ := c03hdrOp(f, call); op {
				case "Clone", "Get", "Values", "Write", "WriteSubset":
				case "Set", "Add", "Del":
					bad = "the cached entry's header map is modified in place (" + op + ")"
				default:
					undecided = "unknown operation on the cached header"
				}
			case *ast.IndexExpr:
				if x.X != e {
					break // used as an index: harmless
				}
				if as, ok := parents()[x].(*ast.AssignStmt); ok {
					for _, l := range as.Lhs {
						if ast.Unparen(l) == ast.Expr(x) {
							bad = "the cached entry's header map is modified in place (index store)"
						}
					}
				}
			case *ast.RangeStmt:
				if x.X != e {
					undecided = "cached header used as a range variable"
				}
			case *ast.BinaryExpr:
				if x.Op != token.EQL && x.Op != token.NEQ {
					undecided = "unexpected operator on the cached header"
				}
			case *ast.CallExpr:
				if b, ok := f.Callee(x).(*types.Builtin); ok && (b.Name() == "len") {
					break
				}
				if b, ok := f.Callee(x).(*types.Builtin); ok && b.Name() == "delete" {
					bad = "the cached entry's header map is modified in place (delete)"
					break
				}
				// handed to a same-package helper: fine if the helper only copies or inspects
				// its parameter (e.g. func copyHeader(h http.Header) http.Header { return h.Clone() })
				switch c03paramUse(c, f, x, ast.Unparen(u.e), 0) {
				case "ok":
				case "bad":
					bad = "the cached entry's header map is handed to a helper that stores, returns or modifies it (no Clone)"
				default:
					undecided = "the cached header is passed to a function"
				}
			case *ast.AssignStmt:
				// right-hand side: an alias if the target is a local variable, an escape otherwise
				idx := -1
				for i, r := range x.Rhs {
					if ast.Unparen(r) == ast.Unparen(u.e) || r == e {
						idx = i
					}
				}
				if idx < 0 || len(x.Lhs) != len(x.Rhs) {
					undecided = "unrecognised assignment of the cached header"
					break
				}
				if id, ok := ast.Unparen(x.Lhs[idx]).(*ast.Ident); ok {
					o := c03obj(f, id)
					if v, ok := o.(*types.Var); ok && !v.IsField() && v.Parent() != v.Pkg().Scope() && u.depth < 3 {
						if !seenAlias[o] {
							seenAlias[o] = true
							ast.Inspect(fd.Body, func(n ast.Node) bool {
								if uid, ok := n.(*ast.Ident); ok && uid != id && f.Info.Uses[uid] == o {
									// uses only (not re-definitions)
									if as, ok := parents()[uid].(*ast.AssignStmt); ok {
										for _, l := range as.Lhs {
											if l == ast.Expr(uid) {
												return true
											}
										}
									}
									work = append(work, use{uid, u.depth + 1})
								}
								return true
							})
						}
						break
					}
				}
				bad = "the cached entry's header map itself is stored into another object (no Clone)"
			case *ast.ValueSpec:
				undecided = "var declaration initialised with the cached header"
			case *ast.ReturnStmt:
				bad = "the cached entry's header map itself is returned (no Clone)"
			case *ast.KeyValueExpr, *ast.CompositeLit:
				bad = "the cached entry's header map itself is stored into another object (no Clone)"
			default:
				undecided = "unrecognised use of the cached header"
			}
			switch {
			case bad != "":
				tail := ": whoever receives it shares the header with the cache entry (and with every other hit), so a later filter that edits response headers — e.g. ResponseAdaptor compress setting Content-Encoding and Content-Length — rewrites the entry, and following hits are sent the stored body with headers that do not describe it; concurrent hits race on the map"
				if strings.Contains(bad, "modified in place") {
					tail = ": following cache hits are served the modified headers instead of the backend's, and concurrent hits race on the map"
				}
				c.Violate("R-C03-8", cons, pos(c, u.e), bad+tail)
			case undecided != "":
				c.Undecide("R-C03-8", cons, pos(c, u.e), undecided)
			default:
				c.Discharge("R-C03-8", cons, pos(c, u.e), "the cached header is only copied or inspected here")
			}
		}
	})
	c.RequireCount("R-C03-8", "stores into the header of a cache entry", writes, 1)
	c.RequireCount("R-C03-8", "uses of the header of a cache entry", reads, 1)
}

// c03paramUse classifies what a same-package callee does with the argument `arg` of call:
// "ok" if the corresponding parameter is only cloned / read (Clone, Get, Values, index read,
// range, len, nil test, or passed on to a helper that is "ok"), "bad" if it is returned,
// stored or modified, "" if unknown.
func c03paramUse(c *core.Ctx, f *flow.Func, call *ast.CallExpr, arg ast.Expr, depth int) string {
	fo, ok := f.Callee(call).(*types.Func)
	if !ok || depth > 2 {
		return ""
	}
	hf := c03declOf(c, fo)
	if hf == nil {
		return ""
	}
	fd := hf.Node.(*ast.FuncDecl)
	var param types.Object
	i := 0
	for _, fl := range fd.Type.Params.List {
		for _, id := range fl.Names {
			if i < len(call.Args) && ast.Unparen(call.Args[i]) == arg {
				param = hf.Info.Defs[id]
			}
			i++
		}
	}
	if sel, ok := ast.Unparen(call.Fun).(*ast.SelectorExpr); ok && ast.Unparen(sel.X) == arg && fd.Recv != nil && len(fd.Recv.List) == 1 && len(fd.Recv.List[0].Names) == 1 {
		param = hf.Info.Defs[fd.Recv.List[0].Names[0]]
	}
	if param == nil {
		return ""
	}
	pm := parentMap(fd.Body)
	verdict := "ok"
	worse := func(v string) {
		if v == "bad" || (v == "" && verdict == "ok") {
			verdict = v
		}
	}
	ast.Inspect(fd.Body, func(n ast.Node) bool {
		id, ok := n.(*ast.Ident)
		if !ok || hf.Info.Uses[id] != param {
			return true
		}
		var e ast.Node = id
		p := pm[e]
		for {
			if pe, ok := p.(*ast.ParenExpr); ok {
				e, p = pe, pm[pe]
				continue
			}
			break
		}
		switch x := p.(type) {
		case *ast.SelectorExpr:
			pc, _ := pm[x].(*ast.CallExpr)
			if pc == nil || ast.Unparen(pc.Fun) != ast.Expr(x) {
				worse("")
				return true
			}
			switch op, _ := c03hdrOp(hf, pc); op {
			case "Clone", "Get", "Values", "Write", "WriteSubset":
			case "Set", "Add", "Del":
				worse("bad")
			default:
				worse(c03paramUse(c, hf, pc, id, depth+1))
			}
		case *ast.IndexExpr:
			if x.X == e {
				if as, ok := pm[x].(*ast.AssignStmt); ok {
					for _, l := range as.Lhs {
						if ast.Unparen(l) == ast.Expr(x) {
							worse("bad")
						}
					}
				}
			}
		case *ast.RangeStmt:
			if x.X != e {
				worse("")
			}
		case *ast.BinaryExpr:
		case *ast.CallExpr:
			if b, ok := hf.Callee(x).(*types.Builtin); ok {
				if b.Name() == "delete" {
					worse("bad")
				} else if b.Name() != "len" {
					worse("")
				}
				return true
			}
			worse(c03paramUse(c, hf, x, id, depth+1))
		case *ast.ReturnStmt, *ast.KeyValueExpr, *ast.CompositeLit:
			worse("bad")
		case *ast.AssignStmt:
			worse("bad") // stored or aliased: not followed further, the map may escape
		default:
			worse("")
		}
		return true
	})
	return verdict
}
