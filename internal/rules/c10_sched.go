package rules

import (
	"go/ast"
	"go/token"
	"go/types"

	"verif/internal/core"
	"verif/internal/flow"
)

// The attempt loop may range over a per-policy schedule (`for _, base := range p.backOffs`) instead
// of counting: then the number of attempts is the LENGTH of that schedule, and the bound is decided
// where the schedule is built: it must hold exactly MaxAttempts entries whatever it held before
// (the policy object is shared: CreateWrapper runs once per pool that names the policy).

type c10sched struct {
	fld     *types.Var        // the schedule field
	g       *flow.Func        // the function that builds it
	loop    *ast.ForStmt      // the loop in which entries are appended (nil: sized by make)
	appends map[ast.Node]bool // the append statements
}

// c10freshSlice reports whether e denotes an empty slice: nil, T{}, make(T, 0[, n]).
func c10freshSlice(f *flow.Func, e ast.Expr) bool {
	e = ast.Unparen(e)
	if f.Info.Types[e].IsNil() {
		return true
	}
	switch x := e.(type) {
	case *ast.CompositeLit:
		return len(x.Elts) == 0
	case *ast.SliceExpr: // s[:0]
		if x.High != nil && x.Low == nil {
			n, ok := c10constInt(f, x.High)
			return ok && n == 0
		}
	case *ast.CallExpr:
		if b, ok := f.Callee(x).(*types.Builtin); ok && b.Name() == "make" && len(x.Args) >= 2 {
			n, ok := c10constInt(f, x.Args[1])
			return ok && n == 0
		}
	}
	return false
}

// c10selfAppend reports whether e is append(target, one value) for the given target object.
func c10selfAppend(f *flow.Func, e ast.Expr, target types.Object) bool {
	call, ok := ast.Unparen(e).(*ast.CallExpr)
	if !ok || len(call.Args) != 2 || call.Ellipsis.IsValid() {
		return false
	}
	if b, ok := f.Callee(call).(*types.Builtin); !ok || b.Name() != "append" {
		return false
	}
	return c10denotes(f, call.Args[0], target)
}

// c10denotes: e is the identifier of local `target` or a selector of field `target`.
func c10denotes(f *flow.Func, e ast.Expr, target types.Object) bool {
	switch x := ast.Unparen(e).(type) {
	case *ast.Ident:
		return c10obj(f, x) == target
	case *ast.SelectorExpr:
		s := f.Info.Selections[x]
		return s != nil && s.Obj() == target
	}
	return false
}

// c10Schedule decides "attempt loop bound" for an attempt loop that ranges over a schedule.
func c10Schedule(c *core.Ctx, r *c10retry) {
	f := r.f
	cons := r.cons + "|attempt loop bound"
	maxF := structField(c, c10rs, "RetryPolicy", "MaxAttempts")
	if maxF == nil {
		return
	}
	if r.peeled > 0 {
		c10shape(c, "R-C10-1", cons, pos(c, r.rloop), "attempts in front of a loop that ranges over a schedule")
		return
	}
	x := c10alias(f, f.Body, r.rloop.X)
	sel, _ := ast.Unparen(x).(*ast.SelectorExpr)
	var fld *types.Var
	if sel != nil {
		if s := f.Info.Selections[sel]; s != nil {
			fld, _ = s.Obj().(*types.Var)
		}
	}
	if fld == nil || !fld.IsField() {
		c10shape(c, "R-C10-1", cons, pos(c, r.rloop), "the attempt loop ranges over "+types.ExprString(r.rloop.X)+", which is not a field holding a per-policy schedule")
		return
	}
	isMax := func(g *flow.Func, e ast.Expr) bool { return c10fieldSel(g, c10alias(g, g.Body, c10strip(g, e)), maxF) }

	// every store to the schedule field in the package
	type store struct {
		g    *flow.Func
		at   *ast.AssignStmt
		rhs  ast.Expr
		kind string // fresh, sized, append, local, other
	}
	var stores []store
	for _, g := range funcsByRole(c, c10rs, func(*flow.Func, *ast.FuncDecl) bool { return true }) {
		g := g
		ast.Inspect(g.Body, func(n ast.Node) bool {
			as, ok := n.(*ast.AssignStmt)
			if !ok || len(as.Lhs) != len(as.Rhs) {
				return true
			}
			for i, l := range as.Lhs {
				if !c10fieldSel(g, l, fld) {
					continue
				}
				st := store{g: g, at: as, rhs: as.Rhs[i], kind: "other"}
				switch {
				case c10freshSlice(g, st.rhs):
					st.kind = "fresh"
				case c10selfAppend(g, st.rhs, fld):
					st.kind = "append"
				case c10ident(st.rhs) != nil:
					st.kind = "local"
				default:
					if call, ok := ast.Unparen(st.rhs).(*ast.CallExpr); ok {
						if b, ok := g.Callee(call).(*types.Builtin); ok && b.Name() == "make" && len(call.Args) == 2 && isMax(g, call.Args[1]) {
							st.kind = "sized"
						}
					}
				}
				stores = append(stores, st)
			}
			return true
		})
	}
	if len(stores) == 0 {
		c.Violate("R-C10-1", cons, pos(c, r.rloop), sprintf("the attempt loop ranges over RetryPolicy.%s, which is never assigned: no attempt is ever made", fld.Name()))
		return
	}
	var builder *flow.Func
	var target types.Object = fld
	sized := false
	for _, st := range stores {
		switch st.kind {
		case "other":
			c10shape(c, "R-C10-1", cons, pos(c, st.at), sprintf("store to the schedule field %s is neither a reset, make(.., MaxAttempts), a one-element append nor a local slice", fld.Name()))
			return
		case "sized":
			sized = true
		case "append", "local":
			if builder != nil && builder != st.g {
				c10shape(c, "R-C10-1", cons, pos(c, st.at), "the schedule is built in more than one function")
				return
			}
			builder = st.g
			if st.kind == "local" {
				target = c10obj(st.g, c10ident(st.rhs))
			}
		}
	}
	if builder == nil {
		if sized {
			c.Discharge("R-C10-1", cons, pos(c, r.rloop), sprintf("the attempt loop ranges over RetryPolicy.%s, which is only ever make(.., MaxAttempts) or reset: at most MaxAttempts iterations", fld.Name()))
		} else {
			c.Violate("R-C10-1", cons, pos(c, r.rloop), sprintf("the attempt loop ranges over RetryPolicy.%s, which is only ever reset: no attempt is ever made", fld.Name()))
		}
		return
	}
	g := builder
	// the appends of the builder, and the loop they sit in
	sc := &c10sched{fld: fld, g: g, appends: map[ast.Node]bool{}}
	fresh := map[ast.Node]bool{}
	spoil := map[ast.Node]bool{}
	var loopStmt ast.Stmt
	okShape := true
	ast.Inspect(g.Body, func(n ast.Node) bool {
		switch x := n.(type) {
		case *ast.AssignStmt:
			if len(x.Lhs) != len(x.Rhs) {
				return true
			}
			for i, l := range x.Lhs {
				if !c10denotes(g, l, target) {
					continue
				}
				switch {
				case c10freshSlice(g, x.Rhs[i]):
					fresh[x] = true
				case c10selfAppend(g, x.Rhs[i], target):
					sc.appends[x] = true
					ls := enclosingLoops(g.Body, x)
					if len(ls) != 1 || (loopStmt != nil && loopStmt != ls[0]) {
						okShape = false
					} else {
						loopStmt = ls[0]
					}
				case target != types.Object(fld) || c10ident(x.Rhs[i]) == nil:
					spoil[x] = true
				}
			}
		case *ast.ValueSpec:
			for i, name := range x.Names {
				if g.Info.Defs[name] == target && (len(x.Values) == 0 || (i < len(x.Values) && c10freshSlice(g, x.Values[i]))) {
					fresh[x] = true
				}
			}
		}
		return true
	})
	fl, isFor := loopStmt.(*ast.ForStmt)
	if !okShape || len(sc.appends) == 0 || !isFor {
		c10shape(c, "R-C10-1", cons, pos(c, g.Body), "the schedule's entries are not appended in exactly one counting loop of "+c10funcCons(g))
		return
	}
	sc.loop = fl
	r.sched = sc
	// the loop that appends runs exactly MaxAttempts times
	br := &c10retry{f: g, loop: fl, body: g.Body, pm: parentMap(g.Body), cons: r.cons}
	v := c10LoopBound(c, br)
	if v.kind != "ok" {
		if v.kind == "violate" {
			v.detail = sprintf("the attempt loop ranges over the schedule RetryPolicy.%s built in %s: ", fld.Name(), c10funcCons(g)) + v.detail
		}
		v.emit(c, "R-C10-1", cons)
		return
	}
	// one entry per iteration, appended onto a schedule that is empty at the first append
	nilKey := ""
	if target == types.Object(fld) {
		if s := c10firstSel(g, g.Body, fld); s != nil {
			nilKey = g.NilKey(s)
		}
	}
	res := analyze(c, g, flow.Config{
		NoHavoc: true,
		OnNode: func(st *flow.State, n ast.Node) {
			switch {
			case fresh[n]:
				st.Set("ev:fresh", flow.True)
			case spoil[n]:
				st.Set("ev:fresh", flow.False)
			case br.steps[n]:
				if st.Is("ev:stepped", flow.True) {
					st.Set("ev:overstepped", flow.True)
				}
				st.Set("ev:stepped", flow.True)
			case sc.appends[n]:
				st.Set("ev:fresh", flow.True) // from here on it is this call's schedule
				st.Set("ev:appended", flow.True)
				st.Set("ev:stepped", flow.False)
				st.Set("ev:overstepped", flow.False)
			}
		},
	})
	if res == nil {
		return
	}
	var badFresh, badStep *flow.State
	var badAt ast.Node
	whyStep := ""
	n := 0
	for a := range sc.appends {
		for _, st := range res.At[a] {
			n++
			if !st.Is("ev:fresh", flow.True) && !(nilKey != "" && st.Is(nilKey, flow.True)) && badFresh == nil {
				badFresh, badAt = st, a
			}
			if st.Is("ev:appended", flow.True) {
				switch {
				case badStep != nil:
				case !st.Is("ev:stepped", flow.True):
					badStep, badAt, whyStep = st, a, "two entries are appended to the schedule without the counter having been stepped in between: the schedule holds more than MaxAttempts entries"
				case st.Is("ev:overstepped", flow.True):
					badStep, badAt, whyStep = st, a, "the counter is stepped more than once between two appended entries: the schedule holds fewer than MaxAttempts entries"
				}
			}
		}
	}
	var badReset *flow.State
	for fr := range fresh {
		for _, st := range res.At[fr] {
			if st.Is("ev:appended", flow.True) && badReset == nil {
				badReset, badAt = st, fr
			}
		}
	}
	switch {
	case badReset != nil:
		c.Violate("R-C10-1", cons, pos(c, badAt), sprintf("the schedule RetryPolicy.%s is emptied again after entries were appended to it: it ends up with fewer than MaxAttempts entries (a Retry policy that never retries)", fld.Name()), witness(badReset)...)
	case n == 0:
		c.Violate("R-C10-1", cons, pos(c, fl), sprintf("the append that builds the schedule RetryPolicy.%s is unreachable: no attempt is ever made", fld.Name()))
	case badFresh != nil:
		c.Violate("R-C10-1", cons, pos(c, badAt), sprintf("the attempt loop ranges over the per-policy schedule RetryPolicy.%s, and %s appends MaxAttempts entries to it without having emptied it first: the policy object is shared and %s runs once per pool that names the policy, so with k pools the schedule holds k*MaxAttempts entries and a failing call is attempted up to k*MaxAttempts times",
			fld.Name(), c10funcCons(g), c10funcCons(g)), witness(badFresh)...)
	case badStep != nil:
		c.Violate("R-C10-1", cons, pos(c, badAt), whyStep, witness(badStep)...)
	default:
		c.Discharge("R-C10-1", cons, pos(c, r.rloop), sprintf("the attempt loop ranges over RetryPolicy.%s; %s empties it and appends one entry per iteration of a loop that runs exactly MaxAttempts times (%s)", fld.Name(), c10funcCons(g), v.detail))
	}
}

// c10SchedGrowth decides, for a schedule-driven attempt loop, that successive entries grow exactly
// when the policy is exponential (the growth statements and the exponential test live in the builder).
func c10SchedGrowth(c *core.Ctx, r *c10retry, growth map[ast.Node]bool, expVal func(*flow.State) flow.Val) (bad *flow.State, at ast.Node, why string) {
	sc := r.sched
	res := analyze(c, sc.g, flow.Config{
		NoHavoc: true,
		OnNode: func(st *flow.State, n ast.Node) {
			if growth[n] {
				st.Set("ev:grown", flow.True)
			}
			if sc.appends[n] {
				st.Set("ev:ticked", flow.True)
				st.Set("ev:grown", flow.False)
			}
		},
	})
	if res == nil {
		return nil, nil, ""
	}
	for a := range sc.appends {
		for _, st := range res.At[a] {
			if !st.Is("ev:ticked", flow.True) || bad != nil {
				continue
			}
			ev := expVal(st)
			switch {
			case st.Is("ev:grown", flow.True) && ev != flow.True:
				bad, at, why = st, a, "the schedule's entries grow although BackOffPolicy is not known to be \"exponential\": the random policy no longer waits the configured duration"
			case !st.Is("ev:grown", flow.True) && ev != flow.False:
				bad, at, why = st, a, "a further schedule entry is appended with BackOffPolicy == \"exponential\" (or untested) without the wait having grown since the previous entry"
			}
		}
	}
	for n := range growth {
		for _, st := range res.At[n] {
			if expVal(st) != flow.True && bad == nil {
				bad, at, why = st, n, "the wait is multiplied on a path where BackOffPolicy is not known to be \"exponential\""
			}
		}
	}
	return
}

var _ = token.NoPos
