// Package rules holds the per-property obligations (DESIGN.md §3).
package rules

import (
	"fmt"
	"go/ast"
	"go/token"
	"go/types"
	"sort"
	"strings"

	"golang.org/x/tools/go/packages"

	"verif/internal/core"
	"verif/internal/flow"
	"verif/internal/load"
)

// Registry maps property ids to rule functions.
var Registry = map[string]func(c *core.Ctx) string{}

// Mod is the module path prefix.
const Mod = load.ModulePath + "/"

// fn resolves a function declaration by role name; a missing subject is a checker error.
func fn(c *core.Ctx, rel, recv, name string) *flow.Func {
	pkg, fd := c.Prog.FuncDecl(rel, recv, name)
	if pkg == nil {
		c.Errorf("anchor: package %s not loaded", rel)
		return nil
	}
	if fd == nil || fd.Body == nil {
		if recv != "" {
			c.Errorf("anchor: method %s.(%s).%s not found", rel, recv, name)
		} else {
			c.Errorf("anchor: function %s.%s not found", rel, name)
		}
		return nil
	}
	c.Count("functions_analysed", 1)
	return flow.NewFunc(pkg, fd)
}

// fnOpt is fn without the error (for optional anchors).
func fnOpt(c *core.Ctx, rel, recv, name string) *flow.Func {
	pkg, fd := c.Prog.FuncDecl(rel, recv, name)
	if pkg == nil || fd == nil || fd.Body == nil {
		return nil
	}
	c.Count("functions_analysed", 1)
	return flow.NewFunc(pkg, fd)
}

// fname renders a function construct name: "pkg/path.(Recv).Name".
func fname(rel, recv, name string) string {
	if recv != "" {
		return rel + ".(" + recv + ")." + name
	}
	return rel + "." + name
}

// pos renders a node position relative to the repo.
func pos(c *core.Ctx, n ast.Node) string {
	if n == nil {
		return "?"
	}
	return c.Prog.Rel(n.Pos())
}

// calleeFull returns the types.Func full name of a call's static callee
// ("(*pkg/path.T).Method" or "pkg/path.Func"), "" if not a static function call.
func calleeFull(f *flow.Func, call *ast.CallExpr) string {
	switch o := f.Callee(call).(type) {
	case *types.Func:
		return o.FullName()
	case *types.Builtin:
		return "builtin." + o.Name()
	}
	return ""
}

// calleeIs reports whether the call's callee full name has the given suffix after the module
// prefix is stripped, e.g. "pkg/object/mqttproxy.Session).publish".
func calleeIs(f *flow.Func, call *ast.CallExpr, names ...string) bool {
	full := calleeFull(f, call)
	if full == "" {
		return false
	}
	full = strings.ReplaceAll(full, Mod, "")
	for _, n := range names {
		if full == n {
			return true
		}
	}
	return false
}

// methodName returns the selector name of a method/function call ("" for others).
func methodName(call *ast.CallExpr) string {
	switch f := ast.Unparen(call.Fun).(type) {
	case *ast.SelectorExpr:
		return f.Sel.Name
	case *ast.Ident:
		return f.Name
	}
	return ""
}

// calls returns every call expression in n (not descending into function literals unless
// lits is true) in source order.
func calls(n ast.Node, lits bool) []*ast.CallExpr {
	var out []*ast.CallExpr
	ast.Inspect(n, func(x ast.Node) bool {
		switch t := x.(type) {
		case *ast.FuncLit:
			return lits
		case *ast.CallExpr:
			out = append(out, t)
		}
		return true
	})
	return out
}

// callsTo returns the calls in n whose callee matches one of names (see calleeIs).
func callsTo(f *flow.Func, n ast.Node, lits bool, names ...string) []*ast.CallExpr {
	var out []*ast.CallExpr
	for _, c := range calls(n, lits) {
		if calleeIs(f, c, names...) {
			out = append(out, c)
		}
	}
	return out
}

// ifaceMethodCall reports whether call invokes (dynamically) the method `name` of the named
// interface type pkgRel.iface.
func ifaceMethodCall(f *flow.Func, call *ast.CallExpr, pkgRel, iface, name string) bool {
	sel, ok := ast.Unparen(call.Fun).(*ast.SelectorExpr)
	if !ok || sel.Sel.Name != name {
		return false
	}
	s := f.Info.Selections[sel]
	if s == nil {
		return false
	}
	fnObj, ok := s.Obj().(*types.Func)
	if !ok {
		return false
	}
	recv := fnObj.Type().(*types.Signature).Recv()
	if recv == nil {
		return false
	}
	if !types.IsInterface(recv.Type()) {
		return false
	}
	// the receiver of an interface method is the interface type in which it was declared
	t := recv.Type()
	if n, ok := t.(*types.Named); ok {
		return n.Obj().Pkg() != nil && n.Obj().Pkg().Path() == Mod+pkgRel && n.Obj().Name() == iface
	}
	// method declared in an anonymous/embedded interface: compare by the static type of X
	if tv, ok := f.Info.Types[sel.X]; ok {
		if n, ok := tv.Type.(*types.Named); ok {
			return n.Obj().Pkg() != nil && n.Obj().Pkg().Path() == Mod+pkgRel && n.Obj().Name() == iface
		}
	}
	return false
}

// enclosingLoops returns the for/range statements enclosing node target inside root,
// outermost first.
func enclosingLoops(root ast.Node, target ast.Node) []ast.Stmt {
	var stack []ast.Node
	var out []ast.Stmt
	found := false
	ast.Inspect(root, func(n ast.Node) bool {
		if found {
			return false
		}
		if n == nil {
			stack = stack[:len(stack)-1]
			return true
		}
		stack = append(stack, n)
		if n == target {
			for _, s := range stack {
				switch l := s.(type) {
				case *ast.ForStmt:
					out = append(out, l)
				case *ast.RangeStmt:
					out = append(out, l)
				}
			}
			found = true
			return false
		}
		return true
	})
	return out
}

// parentMap builds child→parent links for a subtree.
func parentMap(root ast.Node) map[ast.Node]ast.Node {
	m := map[ast.Node]ast.Node{}
	var stack []ast.Node
	ast.Inspect(root, func(n ast.Node) bool {
		if n == nil {
			stack = stack[:len(stack)-1]
			return true
		}
		if len(stack) > 0 {
			m[n] = stack[len(stack)-1]
		}
		stack = append(stack, n)
		return true
	})
	return m
}

// contains reports whether node outer spans node inner.
func contains(outer, inner ast.Node) bool {
	return outer != nil && inner != nil && outer.Pos() <= inner.Pos() && inner.End() <= outer.End()
}

// witness renders a state's trace for reports.
func witness(st *flow.State) []string {
	if st == nil {
		return nil
	}
	return st.Trace()
}

// analyze runs the engine and turns failures into checker errors.
func analyze(c *core.Ctx, f *flow.Func, cfg flow.Config) *flow.Result {
	if f == nil {
		return nil
	}
	res, err := flow.Analyze(f, cfg)
	if err != nil {
		c.Errorf("flow engine: %v", err)
		return nil
	}
	c.Count("cfg_blocks", res.Blocks)
	c.Count("abstract_states", res.States)
	return res
}

// namedType looks a named type up in a module package.
func namedType(c *core.Ctx, rel, name string) *types.Named {
	pkg := c.Prog.Pkg(rel)
	if pkg == nil {
		c.Errorf("anchor: package %s not loaded", rel)
		return nil
	}
	o := pkg.Types.Scope().Lookup(name)
	if o == nil {
		c.Errorf("anchor: type %s.%s not found", rel, name)
		return nil
	}
	n, ok := o.Type().(*types.Named)
	if !ok {
		c.Errorf("anchor: %s.%s is not a named type", rel, name)
		return nil
	}
	return n
}

// structField returns the field object of a named struct type.
func structField(c *core.Ctx, rel, typ, field string) *types.Var {
	n := namedType(c, rel, typ)
	if n == nil {
		return nil
	}
	st, ok := n.Underlying().(*types.Struct)
	if !ok {
		c.Errorf("anchor: %s.%s is not a struct", rel, typ)
		return nil
	}
	for i := 0; i < st.NumFields(); i++ {
		if st.Field(i).Name() == field {
			return st.Field(i)
		}
	}
	c.Errorf("anchor: field %s.%s.%s not found", rel, typ, field)
	return nil
}

// eachFunc visits every function declaration with a body in the module packages.
func eachFunc(c *core.Ctx, visit func(pkg *packages.Package, fd *ast.FuncDecl)) {
	for _, pkg := range c.Prog.Module {
		for _, file := range pkg.Syntax {
			for _, d := range file.Decls {
				if fd, ok := d.(*ast.FuncDecl); ok && fd.Body != nil {
					visit(pkg, fd)
				}
			}
		}
	}
}

// relPkg strips the module prefix from a package path.
func relPkg(path string) string { return strings.TrimPrefix(path, Mod) }

// declName renders "pkg/rel.(Recv).Name" for a declaration.
func declName(pkg *packages.Package, fd *ast.FuncDecl) string {
	recv := ""
	if fd.Recv != nil && len(fd.Recv.List) == 1 {
		recv = load.RecvName(fd.Recv.List[0].Type)
	}
	return fname(relPkg(pkg.PkgPath), recv, fd.Name.Name)
}

// sortedKeys returns the sorted keys of a set.
func sortedKeys[V any](m map[string]V) []string {
	out := make([]string, 0, len(m))
	for k := range m {
		out = append(out, k)
	}
	sort.Strings(out)
	return out
}

// isTok reports whether e is a binary expression with the given operator.
func isTok(e ast.Expr, op token.Token) (*ast.BinaryExpr, bool) {
	b, ok := ast.Unparen(e).(*ast.BinaryExpr)
	return b, ok && b.Op == op
}

func sprintf(format string, a ...any) string { return fmt.Sprintf(format, a...) }
