package rules

import (
	"go/ast"
	"go/token"
	"go/types"
	"sort"
	"strings"

	"verif/internal/core"
	"verif/internal/flow"
)

// c13DivEntry is one reviewed divisor (function + divisor role).
type c13DivEntry struct {
	class  c13Class
	reason string
	fields []c13Field
	check  func(c *core.Ctx, g *c13Graph, sf *c13SpecFields) (bool, string)
}

const (
	c13CB = "pkg/util/circuitbreaker"
	c13RL = "pkg/util/ratelimiter"
)

var c13DivTable = map[string]c13DivEntry{
	c13CB + ".(CountBasedWindow).FailureRate|divisor CountBasedWindow.total":       {reason: "a result is pushed (total >= 1) before any rate is computed", check: c13CheckPushBeforeRate},
	c13CB + ".(CountBasedWindow).SlowRate|divisor CountBasedWindow.total":          {reason: "a result is pushed (total >= 1) before any rate is computed", check: c13CheckPushBeforeRate},
	c13CB + ".(TimeBasedWindow).FailureRate|divisor TimeBasedWindow.total":         {reason: "a result is pushed (total >= 1) before any rate is computed", check: c13CheckPushBeforeRate},
	c13CB + ".(TimeBasedWindow).SlowRate|divisor TimeBasedWindow.total":            {reason: "a result is pushed (total >= 1) before any rate is computed", check: c13CheckPushBeforeRate},
	c13CB + ".(TimeBasedWindow).Push|divisor len(TimeBasedWindow.bucket)":          {reason: "the bucket slice has slidingWindowSize elements, schema minimum=1", check: c13CheckWindowSizeMin},
	c13CB + ".(TimeBasedWindow).evict|divisor len(TimeBasedWindow.bucket)":         {reason: "the bucket slice has slidingWindowSize elements, schema minimum=1", check: c13CheckWindowSizeMin},
	"pkg/util/fasttime.formatFractional|divisor powersOf10[]":                      {reason: "constant table of powers of ten", check: c13CheckPowersOf10},
	"pkg/util/sampler.(DurationSampler).Update|divisor DurationSegment.resolution": {reason: "segments is a constant table with non-zero resolutions", check: c13CheckSegments},
	c13RL + ".(RateLimiter).acquirePermission|divisor Policy.LimitForPeriod":       {reason: "RateLimiter filter: schema minimum=1 and 0 is replaced by 50 in createRateLimiter; MQTTProxy creates a limiter only for rates > 0", check: c13CheckLimitForPeriod},
	c13RL + ".(RateLimiter).acquirePermission|divisor Policy.LimitRefreshPeriod": {class: c13Defect,
		reason: "RateLimiter policy `limitRefreshPeriod: 0s` passes validation (format=duration only requires time.ParseDuration to succeed); createRateLimiter stores 0 and the first request panics with an integer divide by zero in acquirePermission",
		fields: []c13Field{{"pkg/filters/ratelimiter", "Policy", "LimitRefreshPeriod"}}},
	c13RL + ".(MultiRateLimiter).AcquirePermission|divisor MultiPolicy.LimitRefreshPeriod": {reason: "only MQTTProxy builds a MultiPolicy, with refresh = timePeriod seconds and timePeriod forced >= 1 in newLimiter"},
	c13RL + ".(MultiRateLimiter).AcquirePermission|divisor MultiPolicy.LimitForPeriod[]":   {reason: "only MQTTProxy builds a MultiPolicy, and only when both rates are > 0 (newLimiter)"},
	"pkg/resilience.(RetryPolicy).Wrap|Intn argument RetryPolicy.RandomizationFactor":      {reason: "delta = base*randomizationFactor >= 0: factor has schema minimum=0 and CreateWrapper forces waitDuration > 0, so the argument is >= 1", check: c13CheckRetryFactor},
	c13Pool + ".(WeightedRandomLoadBalancer).ChooseServer|Intn argument WeightedRandomLoadBalancer.totalWeight": {class: c13Defect,
		reason: "loadBalance.policy weightedRandom with all server weights 0 (or omitted: weight is omitempty,minimum=0 and ServerPoolSpec.Validate accepts 'no server has a weight') gives totalWeight = 0 and rand.Intn(0) panics on the first request",
		fields: nil},
}

// c13DivSite is one division / modulus / Intn argument.
type c13DivSite struct {
	at      ast.Node // the binary expression / assignment / call
	divisor ast.Expr
	intn    bool
}

func c13Divisors(c *core.Ctx, g *c13Graph, sf *c13SpecFields) {
	type group struct {
		node  *c13Node
		role  string
		intn  bool
		sites []c13DivSite
	}
	groups := map[string]*group{}
	var order []string
	nSites := 0
	for _, n := range g.reachedFuncs() {
		for _, s := range c13DivSites(n) {
			nSites++
			role := c13DivRole(n, sf, s.divisor)
			kind := "divisor "
			if s.intn {
				kind = "Intn argument "
			}
			cons := n.name + "|" + kind + role
			gr := groups[cons]
			if gr == nil {
				gr = &group{node: n, role: role, intn: s.intn}
				groups[cons] = gr
				order = append(order, cons)
			}
			gr.sites = append(gr.sites, s)
		}
	}
	sort.Strings(order)
	for _, cons := range order {
		gr := groups[cons]
		n := gr.node
		at := gr.sites[0].at
		// 1. path-sensitive proof inside the function
		proved := n.decl != nil
		var bad *flow.State
		for _, s := range gr.sites {
			if !proved {
				break
			}
			ok, w := c13ProveNonZero(c, n, s)
			if !ok {
				proved = false
				bad = w
			}
		}
		if proved {
			c.Discharge("R-C13-3", cons, pos(c, at), "non-zero on every path reaching it (dominating test)")
			continue
		}
		// 2. spec field with schema minimum >= 1
		if v := c13FieldOf(n, c13StripConv(n, gr.sites[0].divisor)); v != nil && sf.isSpec(v) && sf.schemaMinAtLeast(v, 1) && len(gr.sites) == 1 {
			c.Discharge("R-C13-3", cons, pos(c, at), "spec field "+sf.name(v)+" has schema minimum >= 1")
			continue
		}
		// 3. reviewed table
		e, ok := c13DivTable[cons]
		switch {
		case !ok:
			c.Violate("R-C13-3", cons, pos(c, at),
				sprintf("integer division / modulus / rand.Intn reachable from %s whose operand is neither proven non-zero on all paths, nor a spec field with schema minimum >= 1, nor reviewed: a zero operand panics at run time", n.root),
				append(witness(bad), n.chain()...)...)
		case e.class == c13Defect:
			var missing []string
			for _, fd := range e.fields {
				v := structField(c, fd.pkg, fd.typ, fd.field)
				if v == nil || !sf.validated[v] {
					missing = append(missing, fd.typ+"."+fd.field)
				}
			}
			c.Check(len(e.fields) > 0 && len(missing) == 0, "R-C13-3", cons, pos(c, at),
				"validation code now reads the spec field the operand comes from",
				e.reason, append(witness(bad), n.chain()...)...)
		case e.check != nil:
			okc, detail := e.check(c, g, sf)
			c.Check(okc, "R-C13-3", cons, pos(c, at), e.reason+" — checked: "+detail,
				"reviewed reason no longer holds ("+e.reason+"): "+detail, n.chain()...)
		default:
			c.Discharge("R-C13-3", cons, pos(c, at), "reviewed: "+e.reason)
		}
	}
	c.RequireCount("R-C13-3", "division / modulus / Intn sites with a non-constant operand", nSites, 18)
}

func c13IsInteger(info *types.Info, e ast.Expr) bool {
	tv, ok := info.Types[e]
	if !ok || tv.Type == nil {
		return false
	}
	b, ok := tv.Type.Underlying().(*types.Basic)
	return ok && b.Info()&types.IsInteger != 0
}

func c13DivSites(n *c13Node) []c13DivSite {
	info := n.pkg.TypesInfo
	var out []c13DivSite
	ast.Inspect(n.body, func(x ast.Node) bool {
		switch e := x.(type) {
		case *ast.BinaryExpr:
			if (e.Op == token.QUO || e.Op == token.REM) && c13IsInteger(info, e) && info.Types[e.Y].Value == nil {
				out = append(out, c13DivSite{at: e, divisor: e.Y})
			}
		case *ast.AssignStmt:
			if (e.Tok == token.QUO_ASSIGN || e.Tok == token.REM_ASSIGN) && len(e.Lhs) == 1 && c13IsInteger(info, e.Lhs[0]) && info.Types[e.Rhs[0]].Value == nil {
				out = append(out, c13DivSite{at: e, divisor: e.Rhs[0]})
			}
		case *ast.CallExpr:
			if id := c13CalleeIdent(e); id != nil {
				if fo, ok := info.Uses[id].(*types.Func); ok && fo.Pkg() != nil && fo.Pkg().Path() == "math/rand" &&
					(fo.Name() == "Intn" || fo.Name() == "Int31n" || fo.Name() == "Int63n") && len(e.Args) == 1 && info.Types[e.Args[0]].Value == nil {
					out = append(out, c13DivSite{at: e, divisor: e.Args[0], intn: true})
				}
			}
		}
		return true
	})
	return out
}

func c13CalleeIdent(call *ast.CallExpr) *ast.Ident {
	switch f := ast.Unparen(call.Fun).(type) {
	case *ast.Ident:
		return f
	case *ast.SelectorExpr:
		return f.Sel
	}
	return nil
}

// c13StripConv removes parentheses and type conversions.
func c13StripConv(n *c13Node, e ast.Expr) ast.Expr {
	info := n.pkg.TypesInfo
	for {
		e = ast.Unparen(e)
		call, ok := e.(*ast.CallExpr)
		if !ok || len(call.Args) != 1 {
			return e
		}
		if tv, ok := info.Types[call.Fun]; ok && tv.IsType() {
			e = call.Args[0]
			continue
		}
		return e
	}
}

func c13IsLen(n *c13Node, e ast.Expr) (ast.Expr, bool) {
	call, ok := e.(*ast.CallExpr)
	if !ok || len(call.Args) != 1 {
		return nil, false
	}
	id, ok := ast.Unparen(call.Fun).(*ast.Ident)
	if !ok {
		return nil, false
	}
	if b, ok := n.pkg.TypesInfo.Uses[id].(*types.Builtin); ok && b.Name() == "len" {
		return call.Args[0], true
	}
	return nil, false
}

// c13FieldOf returns the struct field a selector expression denotes (nil otherwise).
func c13FieldOf(n *c13Node, e ast.Expr) *types.Var {
	sel, ok := ast.Unparen(e).(*ast.SelectorExpr)
	if !ok {
		return nil
	}
	if s := n.pkg.TypesInfo.Selections[sel]; s != nil {
		if v, ok := s.Obj().(*types.Var); ok && v.IsField() {
			return v.Origin()
		}
	}
	return nil
}

// c13SingleDef returns the defining right-hand side of a local variable that is assigned exactly
// once in the node's body (nil otherwise).
func c13SingleDef(n *c13Node, id *ast.Ident) ast.Expr {
	info := n.pkg.TypesInfo
	obj := info.Uses[id]
	v, ok := obj.(*types.Var)
	if !ok || v.IsField() || v.Pkg() == nil || v.Parent() == v.Pkg().Scope() {
		return nil
	}
	var rhs ast.Expr
	count := 0
	ast.Inspect(n.body, func(x ast.Node) bool {
		switch s := x.(type) {
		case *ast.AssignStmt:
			for i, l := range s.Lhs {
				lid, ok := ast.Unparen(l).(*ast.Ident)
				if !ok || (info.Defs[lid] != obj && info.Uses[lid] != obj) {
					continue
				}
				count++
				if len(s.Lhs) == len(s.Rhs) && s.Tok == token.DEFINE {
					rhs = s.Rhs[i]
				} else {
					count++ // not a plain definition
				}
			}
		case *ast.ValueSpec:
			for i, lid := range s.Names {
				if info.Defs[lid] == obj {
					count++
					if len(s.Values) == len(s.Names) {
						rhs = s.Values[i]
					} else {
						count++
					}
				}
			}
		case *ast.IncDecStmt:
			if lid, ok := ast.Unparen(s.X).(*ast.Ident); ok && info.Uses[lid] == obj {
				count += 2
			}
		case *ast.UnaryExpr:
			if s.Op == token.AND {
				if lid, ok := ast.Unparen(s.X).(*ast.Ident); ok && info.Uses[lid] == obj {
					count += 2
				}
			}
		case *ast.RangeStmt:
			for _, l := range []ast.Expr{s.Key, s.Value} {
				if lid, ok := l.(*ast.Ident); ok && (info.Defs[lid] == obj || info.Uses[lid] == obj) {
					count += 2
				}
			}
		}
		return true
	})
	if count == 1 {
		return rhs
	}
	return nil
}

// c13Core resolves a divisor to the expression whose zero-ness decides: conversions stripped,
// single-definition locals replaced by their definition.
func c13Core(n *c13Node, e ast.Expr) ast.Expr {
	for i := 0; i < 4; i++ {
		e = c13StripConv(n, e)
		id, ok := e.(*ast.Ident)
		if !ok {
			return e
		}
		def := c13SingleDef(n, id)
		if def == nil {
			return e
		}
		e = def
	}
	return e
}

// c13DivRole names a divisor by the objects it reads (struct fields by declaring type, package
// variables by name), never by local variable names.
func c13DivRole(n *c13Node, sf *c13SpecFields, e ast.Expr) string {
	e = c13Core(n, e)
	if arg, ok := c13IsLen(n, e); ok {
		return "len(" + c13DivRole(n, sf, arg) + ")"
	}
	switch x := e.(type) {
	case *ast.SelectorExpr:
		if v := c13FieldOf(n, x); v != nil {
			return strings.TrimPrefix(sf.name(v), n.pkg.Types.Name()+".")
		}
	case *ast.IndexExpr:
		return c13DivRole(n, sf, x.X) + "[]"
	case *ast.Ident:
		info := n.pkg.TypesInfo
		if v, ok := info.Uses[x].(*types.Var); ok {
			if v.Pkg() != nil && v.Parent() == v.Pkg().Scope() {
				return v.Name()
			}
			return "local " + strings.ReplaceAll(v.Type().String(), Mod, "")
		}
	}
	// composite expression: the set of fields / package variables it reads
	set := map[string]bool{}
	info := n.pkg.TypesInfo
	var visit func(x ast.Expr)
	visit = func(x ast.Expr) {
		ast.Inspect(x, func(y ast.Node) bool {
			switch t := y.(type) {
			case *ast.SelectorExpr:
				if v := c13FieldOf(n, t); v != nil {
					set[strings.TrimPrefix(sf.name(v), n.pkg.Types.Name()+".")] = true
					return false
				}
			case *ast.Ident:
				if v, ok := info.Uses[t].(*types.Var); ok && !v.IsField() {
					if v.Pkg() != nil && v.Parent() == v.Pkg().Scope() {
						set[v.Name()] = true
					} else if def := c13SingleDef(n, t); def != nil {
						visit(def)
					}
				}
			}
			return true
		})
	}
	visit(e)
	if len(set) == 0 {
		return "expression"
	}
	return strings.Join(c13SortedSet(set), ",")
}

// c13ProveNonZero: in every abstract state reaching the site the divisor's core expression is
// known non-zero (positive for Intn). Returns a witness state otherwise.
func c13ProveNonZero(c *core.Ctx, n *c13Node, s c13DivSite) (bool, *flow.State) {
	top := n.flowFunc()
	if top == nil {
		return false, nil
	}
	f := c13Innermost(top, s.at)
	core := c13Core(n, s.divisor)
	if !contains(f.Body, core) && !contains(f.Body, s.divisor) {
		return false, nil
	}
	target := core
	isLen := false
	if arg, ok := c13IsLen(n, core); ok {
		isLen = true
		_ = arg
	}
	r := f.Render(target)
	keys := struct{ eq0, pos, lt1 string }{"eq:" + r + "==0", "lt:0<" + r, "lt:" + r + "<1"}
	unsigned := isLen
	if tv, ok := f.Info.Types[target]; ok && tv.Type != nil {
		if b, ok := tv.Type.Underlying().(*types.Basic); ok && b.Info()&types.IsUnsigned != 0 {
			unsigned = true
		}
	}
	base := c13BaseObj(f, target)
	states, seen := c13StatesAt(c, f, s.at, flow.Config{
		Track: func(k string) bool {
			return k == keys.eq0 || k == keys.pos || k == keys.lt1 || strings.HasPrefix(k, "v:")
		},
		Pure: c13PureFor(f, base),
	})
	if !seen {
		return false, nil
	}
	for _, st := range states {
		positive := st.Is(keys.pos, flow.True) || st.Is(keys.lt1, flow.False) || (unsigned && st.Is(keys.eq0, flow.False))
		nonzero := positive || st.Is(keys.eq0, flow.False)
		if s.intn && !positive || !s.intn && !nonzero {
			return false, st
		}
	}
	return true, nil
}

// ---------------------------------------------------------------------------------------
// machine-checked reasons of reviewed divisors

// c13CheckPushBeforeRate: every call of a window's FailureRate/SlowRate happens after a Push
// in the same function, on every path.
func c13CheckPushBeforeRate(c *core.Ctx, g *c13Graph, sf *c13SpecFields) (bool, string) {
	isWin := func(f *flow.Func, call *ast.CallExpr, names ...string) bool {
		for _, nm := range names {
			if calleeIs(f, call, "("+c13CB+".Window)."+nm, "(*"+c13CB+".CountBasedWindow)."+nm, "(*"+c13CB+".TimeBasedWindow)."+nm) {
				return true
			}
		}
		return false
	}
	n := 0
	bad := ""
	c13EachBody(c, func(f *flow.Func, name string) {
		var rates []*ast.CallExpr
		for _, call := range calls(f.Body, false) {
			if isWin(f, call, "FailureRate", "SlowRate") {
				rates = append(rates, call)
			}
		}
		if len(rates) == 0 {
			return
		}
		res := analyze(c, f, flow.Config{
			Track: func(string) bool { return false },
			OnCall: func(st *flow.State, call *ast.CallExpr, callee types.Object, deferred bool) {
				if isWin(f, call, "Push") {
					st.Set("ev:pushed", flow.True)
				}
			},
		})
		if res == nil {
			return
		}
		for _, call := range rates {
			n++
			for _, st := range res.At[call] {
				if !st.Is("ev:pushed", flow.True) && bad == "" {
					bad = sprintf("%s computes a rate at %s on a path without a preceding window Push: total may be 0 and the division panics", name, pos(c, call))
				}
			}
		}
	})
	if n < 2 {
		return false, sprintf("only %d FailureRate/SlowRate call sites found (expected >= 2)", n)
	}
	if bad != "" {
		return false, bad
	}
	return true, sprintf("%d rate computations, each after window.Push on every path", n)
}

func c13CheckWindowSizeMin(c *core.Ctx, g *c13Graph, sf *c13SpecFields) (bool, string) {
	v := structField(c, "pkg/resilience", "CircuitBreakerPolicy", "SlidingWindowSize")
	if v == nil {
		return false, "CircuitBreakerPolicy.SlidingWindowSize not found"
	}
	if !sf.schemaMinAtLeast(v, 1) {
		return false, "CircuitBreakerPolicy.SlidingWindowSize no longer has schema minimum >= 1: a window of size 0 divides by len(bucket) = 0"
	}
	return true, "CircuitBreakerPolicy.SlidingWindowSize has schema minimum >= 1"
}

func c13CheckRetryFactor(c *core.Ctx, g *c13Graph, sf *c13SpecFields) (bool, string) {
	v := structField(c, "pkg/resilience", "RetryPolicy", "RandomizationFactor")
	if v == nil {
		return false, "RetryPolicy.RandomizationFactor not found"
	}
	if !sf.schemaMinAtLeast(v, 0) {
		return false, "RetryPolicy.RandomizationFactor no longer has schema minimum >= 0: a negative factor makes rand.Intn's argument <= 0"
	}
	return true, "RetryPolicy.RandomizationFactor has schema minimum >= 0"
}

func c13CheckLimitForPeriod(c *core.Ctx, g *c13Graph, sf *c13SpecFields) (bool, string) {
	v := structField(c, "pkg/filters/ratelimiter", "Policy", "LimitForPeriod")
	if v == nil {
		return false, "ratelimiter Policy.LimitForPeriod not found"
	}
	if !sf.schemaMinAtLeast(v, 0) {
		return false, "RateLimiter Policy.LimitForPeriod lost its schema minimum: negative or zero limits reach the divisor"
	}
	return true, "filter Policy.LimitForPeriod has a schema minimum"
}

// c13NonZeroConstElems: the initialiser of the package variable is a composite literal whose
// elements (or first fields of its struct elements) are non-zero constants.
func c13NonZeroConstElems(c *core.Ctx, rel, name string, firstField bool) (bool, string) {
	pkg := c.Prog.Pkg(rel)
	if pkg == nil {
		return false, "package " + rel + " not loaded"
	}
	for _, file := range pkg.Syntax {
		for _, d := range file.Decls {
			gd, ok := d.(*ast.GenDecl)
			if !ok || gd.Tok != token.VAR {
				continue
			}
			for _, s := range gd.Specs {
				vs := s.(*ast.ValueSpec)
				for i, id := range vs.Names {
					if id.Name != name || len(vs.Values) <= i {
						continue
					}
					cl, ok := ast.Unparen(vs.Values[i]).(*ast.CompositeLit)
					if !ok || len(cl.Elts) == 0 {
						return false, name + " is not initialised by a composite literal"
					}
					for _, el := range cl.Elts {
						if kv, ok := el.(*ast.KeyValueExpr); ok {
							el = kv.Value
						}
						if firstField {
							inner, ok := ast.Unparen(el).(*ast.CompositeLit)
							if !ok || len(inner.Elts) == 0 {
								return false, name + " has an element that is not a struct literal"
							}
							el = inner.Elts[0]
							if kv, ok := el.(*ast.KeyValueExpr); ok {
								el = kv.Value
							}
						}
						tv := pkg.TypesInfo.Types[el]
						if tv.Value == nil || tv.Value.ExactString() == "0" {
							return false, sprintf("%s has a zero or non-constant element (%s)", name, c.Prog.Rel(el.Pos()))
						}
					}
					// never reassigned
					reassigned := false
					obj := pkg.TypesInfo.Defs[id]
					for _, f2 := range pkg.Syntax {
						ast.Inspect(f2, func(x ast.Node) bool {
							if as, ok := x.(*ast.AssignStmt); ok {
								for _, l := range as.Lhs {
									if b := c13RootIdent(l); b != nil && pkg.TypesInfo.Uses[b] == obj {
										reassigned = true
									}
								}
							}
							return true
						})
					}
					if reassigned {
						return false, name + " is assigned outside its initialiser"
					}
					return true, sprintf("%s: %d non-zero constant elements, never reassigned", name, len(cl.Elts))
				}
			}
		}
	}
	return false, "variable " + rel + "." + name + " not found"
}

func c13RootIdent(e ast.Expr) *ast.Ident {
	for {
		switch x := ast.Unparen(e).(type) {
		case *ast.Ident:
			return x
		case *ast.SelectorExpr:
			e = x.X
		case *ast.IndexExpr:
			e = x.X
		case *ast.StarExpr:
			e = x.X
		default:
			return nil
		}
	}
}

func c13CheckPowersOf10(c *core.Ctx, g *c13Graph, sf *c13SpecFields) (bool, string) {
	return c13NonZeroConstElems(c, "pkg/util/fasttime", "powersOf10", false)
}

func c13CheckSegments(c *core.Ctx, g *c13Graph, sf *c13SpecFields) (bool, string) {
	return c13NonZeroConstElems(c, "pkg/util/sampler", "segments", true)
}

// ---------------------------------------------------------------------------------------
// R-C13-5: regexp.MustCompile(spec field)

func c13MustCompile(c *core.Ctx, g *c13Graph, sf *c13SpecFields) {
	sites := 0
	for _, n := range g.reachedFuncs() {
		info := n.pkg.TypesInfo
		ast.Inspect(n.body, func(x ast.Node) bool {
			call, ok := x.(*ast.CallExpr)
			if !ok || len(call.Args) != 1 {
				return true
			}
			id := c13CalleeIdent(call)
			if id == nil {
				return true
			}
			fo, ok := info.Uses[id].(*types.Func)
			if !ok || fo.Pkg() == nil || fo.Pkg().Path() != "regexp" || (fo.Name() != "MustCompile" && fo.Name() != "MustCompilePOSIX") {
				return true
			}
			v := c13FieldOf(n, c13Core(n, call.Args[0]))
			if v == nil || !sf.isSpec(v) {
				return true
			}
			sites++
			format, _ := sf.schemaOpt(v, "format")
			ok2 := format == "regexp" || sf.compiled[v]
			c.Check(ok2, "R-C13-5", n.name+"|MustCompile("+sf.name(v)+")", pos(c, call),
				"the field carries format=regexp or validation code compiles it",
				sprintf("regexp.MustCompile is applied to spec field %s, which has no format=regexp tag and is not compiled by any Validate(): an invalid expression is accepted by validation and panics in %s", sf.name(v), n.root),
				n.chain()...)
			return true
		})
	}
	c.RequireCount("R-C13-5", "regexp.MustCompile(spec field) sites", sites, 3)
}
