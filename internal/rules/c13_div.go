package rules

import (
	"go/ast"
	"go/token"
	"go/types"
	"strings"

	"verif/internal/core"
	"verif/internal/flow"
)

// c13DivEntry is one reviewed divisor (function + divisor role).
type c13DivEntry struct {
	max    int
	class  c13Class
	reason string
	fields []c13Field
	check  func(c *core.Ctx, g *c13Graph, sf *c13SpecFields) (bool, string)
}

const (
	c13CB = "pkg/util/circuitbreaker"
	c13RL = "pkg/util/ratelimiter"
)

// The table is keyed by what is divided by (kind + fully qualified role), not by the function
// the division stands in: renaming or splitting that function does not lose the review. max is
// the number of reviewed sites with that operand; more sites than that are unreviewed.
var c13DivTable = map[string]c13DivEntry{
	"divisor circuitbreaker.CountBasedWindow.total":      {max: 2, reason: "a result is pushed (total >= 1) before any rate is computed", check: c13CheckPushBeforeRate},
	"divisor circuitbreaker.TimeBasedWindow.total":       {max: 2, reason: "a result is pushed (total >= 1) before any rate is computed", check: c13CheckPushBeforeRate},
	"divisor len(circuitbreaker.TimeBasedWindow.bucket)": {max: 2, reason: "the bucket slice has slidingWindowSize elements, schema minimum=1", check: c13CheckWindowSizeMin},
	"divisor fasttime.powersOf10[]":                      {max: 1, reason: "constant table of powers of ten", check: c13CheckPowersOf10},
	"divisor sampler.DurationSegment.resolution":         {max: 1, reason: "segments is a constant table with non-zero resolutions", check: c13CheckSegments},
	"divisor ratelimiter.Policy.LimitForPeriod":          {max: 1, reason: "RateLimiter filter: schema minimum=1 and 0 is replaced by 50 when the limiter is created; MQTTProxy creates a limiter only for rates > 0", check: c13CheckLimitForPeriod},
	"divisor ratelimiter.Policy.LimitRefreshPeriod": {max: 2,
		reason: "every value that reaches Policy.LimitRefreshPeriod is positive: the RateLimiter filter parses a spec field that its Spec.Validate requires to be positive (or uses 10ms), MQTTProxy passes timePeriod seconds with timePeriod forced >= 1",
		check:  c13CheckPeriodPositive(c13RL, "Policy")},
	"divisor ratelimiter.MultiPolicy.LimitRefreshPeriod": {max: 2,
		reason: "every value that reaches MultiPolicy.LimitRefreshPeriod is positive: only MQTTProxy builds a MultiPolicy, with refresh = timePeriod seconds and timePeriod forced >= 1",
		check:  c13CheckPeriodPositive(c13RL, "MultiPolicy")},
	"divisor ratelimiter.MultiPolicy.LimitForPeriod[]":         {max: 1, reason: "only MQTTProxy builds a MultiPolicy, and only when both rates are > 0 (newLimiter)"},
	"Intn argument resilience.RetryPolicy.RandomizationFactor": {max: 1, reason: "delta = base*randomizationFactor >= 0: factor has schema minimum=0 and CreateWrapper forces waitDuration > 0, so the argument is >= 1", check: c13CheckRetryFactor},
	"Intn argument proxy.WeightedRandomLoadBalancer.totalWeight": {max: 1, class: c13Defect,
		reason: "loadBalance.policy weightedRandom with all server weights 0 (or omitted: weight is omitempty,minimum=0 and ServerPoolSpec.Validate accepts 'no server has a weight') gives totalWeight = 0 and rand.Intn(0) panics on the first request",
		fields: nil},
}

// c13DivSite is one division / modulus / Intn argument.
type c13DivSite struct {
	node    *c13Node // the function the operand is judged in (the caller, for a parameter)
	at      ast.Node // the binary expression / assignment / call (the call site, for a parameter)
	divisor ast.Expr
	intn    bool
	lenOf   bool // the operand is len(divisor): len(p) of a slice parameter p, judged at the call site
	// the operand reads the receiver / a parameter of callee (`len(blb.Servers)` in a helper
	// method): the division stays where it is (at, divisor belong to callee) and is judged in
	// node, a caller, with the callee interpreted in place
	callee *c13Node
}

func c13Divisors(c *core.Ctx, g *c13Graph, sf *c13SpecFields) {
	type group struct {
		node  *c13Node
		key   string
		sites []c13DivSite
	}
	groups := map[string]*group{}
	perKey := map[string]int{}
	countedAt := map[ast.Node]bool{}
	nSites := 0
	for _, n := range g.reachedFuncs() {
		for _, s0 := range c13DivSites(n) {
			nSites++
			s0.node = n
			for _, s := range c13EffectiveSites(g, s0, 0) {
				if s.callee != nil {
					// judged in the callers only if that is needed: not when the operand is reviewed
					// by role or proven where it stands
					k := "divisor "
					if s0.intn {
						k = "Intn argument "
					}
					if _, reviewed := c13DivTable[k+c13DivRole(n, sf, s0.divisor, true)]; reviewed {
						s = s0
					} else if ok, _ := c13ProveNonZero(c, n, s0); ok {
						s = s0
					}
				}
				m := s.node
				kind := "divisor "
				if s.intn {
					kind = "Intn argument "
				}
				rn := m
				if s.callee != nil {
					rn = s.callee
				}
				role, full := c13DivRole(rn, sf, s.divisor, false), c13DivRole(rn, sf, s.divisor, true)
				if s.lenOf {
					role, full = "len("+role+")", "len("+full+")"
				}
				cons := g.owner(m).name + "|" + kind + role
				gr := groups[cons]
				if gr == nil {
					gr = &group{node: m, key: kind + full}
					groups[cons] = gr
				}
				dup := false
				for _, have := range gr.sites {
					if have.at == s.at && have.node == s.node {
						dup = true
					}
				}
				if !dup {
					gr.sites = append(gr.sites, s)
				}
			}
		}
	}
	for _, cons := range sortedKeys(groups) {
		gr := groups[cons]
		n := gr.node
		at := gr.sites[0].at
		// 1. path-sensitive proof inside the function
		proved := true
		var bad *flow.State
		for _, s := range gr.sites {
			if !proved {
				break
			}
			ok, w := c13ProveNonZero(c, s.node, s)
			if !ok {
				proved = false
				bad = w
			}
		}
		if proved {
			c.Discharge("R-C13-3", cons, pos(c, at), "non-zero on every path reaching it (dominating test)")
			continue
		}
		// 2. spec field with schema minimum >= 1
		if v := c13FieldOf(n, c13Core(n, gr.sites[0].divisor)); gr.sites[0].callee == nil && v != nil && sf.isSpec(v) && sf.schemaMinAtLeast(v, 1) && len(gr.sites) == 1 && !gr.sites[0].lenOf {
			c.Discharge("R-C13-3", cons, pos(c, at), "spec field "+sf.name(v)+" has schema minimum >= 1")
			continue
		}
		// 3. len(F) of a sized buffer F in a function whose indexing of F is already reviewed by
		// R-C13-7: "the buffer is not empty here" is the same obligation (a ring index advanced with
		// `% len(bucket)` instead of a compare-and-reset)
		if okBuf, detail, found := c13SizedBufferReason(c, g, sf, n, gr.sites[0]); found {
			c.Check(okBuf, "R-C13-3", cons, pos(c, at), "len of a sized buffer that R-C13-7 shows non-empty in this function — checked: "+detail,
				"the operand is the length of a sized buffer and the reason why it is not empty no longer holds: "+detail, n.chain()...)
			continue
		}
		// 4. reviewed table (by operand)
		e, ok := c13DivTable[gr.key]
		if !ok {
			// the counter of a circuit breaker window under another name (fields moved into a
			// `counters` struct): same review as `window.total`
			if alt, is := c13WindowTotalRole(c, g, n, gr.sites); is {
				gr.key = alt
				e, ok = c13DivTable[alt]
			}
		}
		// distinct division sites (a site judged in several callers counts once)
		for _, st := range gr.sites {
			if !countedAt[st.at] {
				countedAt[st.at] = true
				perKey[gr.key]++
			}
		}
		switch {
		case !ok:
			c.Violate("R-C13-3", cons, pos(c, at),
				sprintf("integer division / modulus / rand.Intn reachable from %s whose operand (%s) is neither proven non-zero on all paths, nor a spec field with schema minimum >= 1, nor reviewed: a zero operand panics at run time", n.root, gr.key),
				append(witness(bad), n.chain()...)...)
		case perKey[gr.key] > e.max:
			c.Violate("R-C13-3", cons, pos(c, at),
				sprintf("%d sites use the operand %s, only %d were reviewed (%s): a new division / modulus / rand.Intn reachable from %s without a dominating non-zero test", perKey[gr.key], gr.key, e.max, e.reason, n.root),
				append(witness(bad), n.chain()...)...)
		case e.class == c13Defect:
			var missing []string
			for _, fd := range e.fields {
				v := structField(c, fd.pkg, fd.typ, fd.field)
				if v == nil || !sf.validated[v] {
					missing = append(missing, fd.typ+"."+fd.field)
				}
			}
			c.Check(len(e.fields) > 0 && len(missing) == 0, "R-C13-3", cons, pos(c, at),
				"validation code now reads the spec field the operand comes from",
				e.reason, append(witness(bad), n.chain()...)...)
		case e.check != nil:
			okc, detail := e.check(c, g, sf)
			c.Check(okc, "R-C13-3", cons, pos(c, at), e.reason+" — checked: "+detail,
				"reviewed reason no longer holds ("+e.reason+"): "+detail, n.chain()...)
		default:
			c.Discharge("R-C13-3", cons, pos(c, at), "reviewed: "+e.reason)
		}
	}
	c.RequireCount("R-C13-3", "division / modulus / Intn sites with a non-constant operand", nSites, 18)
}

// c13ParamIndex: the identifier is a parameter of n's declaration that the body never assigns.
func c13ParamIndex(n *c13Node, id *ast.Ident) int {
	if n.decl == nil {
		return -1
	}
	info := n.pkg.TypesInfo
	obj := info.Uses[id]
	idx, found := 0, -1
	for _, p := range n.decl.Type.Params.List {
		for _, nm := range p.Names {
			if info.Defs[nm] == obj && obj != nil {
				found = idx
			}
			idx++
		}
		if len(p.Names) == 0 {
			idx++
		}
	}
	if found < 0 {
		return -1
	}
	assigned := false
	ast.Inspect(n.body, func(x ast.Node) bool {
		switch st := x.(type) {
		case *ast.AssignStmt:
			for _, l := range st.Lhs {
				if lid, ok := ast.Unparen(l).(*ast.Ident); ok && info.Uses[lid] == obj {
					assigned = true
				}
			}
		case *ast.IncDecStmt:
			if lid, ok := ast.Unparen(st.X).(*ast.Ident); ok && info.Uses[lid] == obj {
				assigned = true
			}
		case *ast.UnaryExpr:
			if lid, ok := ast.Unparen(st.X).(*ast.Ident); ok && st.Op == token.AND && info.Uses[lid] == obj {
				assigned = true
			}
		}
		return true
	})
	if assigned {
		return -1
	}
	return found
}

// c13EffectiveSites: an operand that is a parameter of an (unexported or not) function is judged
// at the call sites of that function, with the argument as the operand (two levels).
func c13EffectiveSites(g *c13Graph, s c13DivSite, depth int) []c13DivSite {
	n := s.node
	core := c13Core(n, s.divisor)
	lenOf := s.lenOf
	if arg, isLen := c13IsLen(n, core); isLen && !lenOf {
		core, lenOf = c13Core(n, arg), true
	}
	id, ok := core.(*ast.Ident)
	if !ok && depth < 2 && s.callee == nil {
		// a path on the receiver or on a parameter of a method / function that is called from the
		// same package: judged in those callers
		if sel, isSel := core.(*ast.SelectorExpr); isSel && n.decl != nil {
			if root := c13RootIdent(sel); root != nil && c13IsRecvOrParam(n, root) {
				var out []c13DivSite
				for _, cs := range g.callSites(n) {
					if cs.caller.pkg == n.pkg && cs.caller.decl != nil && cs.caller != n {
						out = append(out, c13DivSite{node: cs.caller, at: s.at, divisor: s.divisor, intn: s.intn, lenOf: s.lenOf, callee: n})
					}
				}
				if len(out) > 0 && len(out) == len(g.callSites(n)) {
					return out
				}
			}
		}
	}
	if !ok || depth >= 2 {
		return []c13DivSite{s}
	}
	pi := c13ParamIndex(n, id)
	if pi < 0 {
		return []c13DivSite{s}
	}
	sig, _ := n.obj.Type().(*types.Signature)
	if sig == nil || sig.Variadic() {
		return []c13DivSite{s}
	}
	var out []c13DivSite
	for _, cs := range g.callSites(n) {
		if len(cs.call.Args) <= pi {
			return []c13DivSite{s}
		}
		out = append(out, c13EffectiveSites(g, c13DivSite{node: cs.caller, at: cs.call, divisor: cs.call.Args[pi], intn: s.intn, lenOf: lenOf}, depth+1)...)
	}
	if len(out) == 0 {
		return []c13DivSite{s}
	}
	return out
}

func c13IsInteger(info *types.Info, e ast.Expr) bool {
	tv, ok := info.Types[e]
	if !ok || tv.Type == nil {
		return false
	}
	b, ok := tv.Type.Underlying().(*types.Basic)
	return ok && b.Info()&types.IsInteger != 0
}

func c13DivSites(n *c13Node) []c13DivSite {
	info := n.pkg.TypesInfo
	var out []c13DivSite
	ast.Inspect(n.body, func(x ast.Node) bool {
		switch e := x.(type) {
		case *ast.BinaryExpr:
			if (e.Op == token.QUO || e.Op == token.REM) && c13IsInteger(info, e) && info.Types[e.Y].Value == nil {
				out = append(out, c13DivSite{at: e, divisor: e.Y})
			}
		case *ast.AssignStmt:
			if (e.Tok == token.QUO_ASSIGN || e.Tok == token.REM_ASSIGN) && len(e.Lhs) == 1 && c13IsInteger(info, e.Lhs[0]) && info.Types[e.Rhs[0]].Value == nil {
				out = append(out, c13DivSite{at: e, divisor: e.Rhs[0]})
			}
		case *ast.CallExpr:
			if id := c13CalleeIdent(e); id != nil {
				if fo, ok := info.Uses[id].(*types.Func); ok && fo.Pkg() != nil && fo.Pkg().Path() == "math/rand" &&
					(fo.Name() == "Intn" || fo.Name() == "Int31n" || fo.Name() == "Int63n") && len(e.Args) == 1 && info.Types[e.Args[0]].Value == nil {
					out = append(out, c13DivSite{at: e, divisor: e.Args[0], intn: true})
				}
			}
		}
		return true
	})
	return out
}

func c13CalleeIdent(call *ast.CallExpr) *ast.Ident {
	switch f := ast.Unparen(call.Fun).(type) {
	case *ast.Ident:
		return f
	case *ast.SelectorExpr:
		return f.Sel
	}
	return nil
}

// c13StripConv removes parentheses and type conversions.
func c13StripConv(n *c13Node, e ast.Expr) ast.Expr {
	info := n.pkg.TypesInfo
	for {
		e = ast.Unparen(e)
		call, ok := e.(*ast.CallExpr)
		if !ok || len(call.Args) != 1 {
			return e
		}
		if tv, ok := info.Types[call.Fun]; ok && tv.IsType() {
			e = call.Args[0]
			continue
		}
		return e
	}
}

func c13IsLen(n *c13Node, e ast.Expr) (ast.Expr, bool) {
	call, ok := e.(*ast.CallExpr)
	if !ok || len(call.Args) != 1 {
		return nil, false
	}
	id, ok := ast.Unparen(call.Fun).(*ast.Ident)
	if !ok {
		return nil, false
	}
	if b, ok := n.pkg.TypesInfo.Uses[id].(*types.Builtin); ok && b.Name() == "len" {
		return call.Args[0], true
	}
	return nil, false
}

// c13FieldOf returns the struct field a selector expression denotes (nil otherwise).
func c13FieldOf(n *c13Node, e ast.Expr) *types.Var {
	sel, ok := ast.Unparen(e).(*ast.SelectorExpr)
	if !ok {
		return nil
	}
	if s := n.pkg.TypesInfo.Selections[sel]; s != nil {
		if v, ok := s.Obj().(*types.Var); ok && v.IsField() {
			return v.Origin()
		}
	}
	return nil
}

// c13SingleDef returns the defining right-hand side of a local variable that is assigned exactly
// once in the node's body (nil otherwise).
func c13SingleDef(n *c13Node, id *ast.Ident) ast.Expr {
	info := n.pkg.TypesInfo
	obj := info.Uses[id]
	v, ok := obj.(*types.Var)
	if !ok || v.IsField() || v.Pkg() == nil || v.Parent() == v.Pkg().Scope() {
		return nil
	}
	var rhs ast.Expr
	count := 0
	ast.Inspect(n.body, func(x ast.Node) bool {
		switch s := x.(type) {
		case *ast.AssignStmt:
			for i, l := range s.Lhs {
				lid, ok := ast.Unparen(l).(*ast.Ident)
				if !ok || (info.Defs[lid] != obj && info.Uses[lid] != obj) {
					continue
				}
				count++
				if len(s.Lhs) == len(s.Rhs) && s.Tok == token.DEFINE {
					rhs = s.Rhs[i]
				} else {
					count++ // not a plain definition
				}
			}
		case *ast.ValueSpec:
			for i, lid := range s.Names {
				if info.Defs[lid] == obj {
					count++
					if len(s.Values) == len(s.Names) {
						rhs = s.Values[i]
					} else {
						count++
					}
				}
			}
		case *ast.IncDecStmt:
			if lid, ok := ast.Unparen(s.X).(*ast.Ident); ok && info.Uses[lid] == obj {
				count += 2
			}
		case *ast.UnaryExpr:
			if s.Op == token.AND {
				if lid, ok := ast.Unparen(s.X).(*ast.Ident); ok && info.Uses[lid] == obj {
					count += 2
				}
			}
		case *ast.RangeStmt:
			for _, l := range []ast.Expr{s.Key, s.Value} {
				if lid, ok := l.(*ast.Ident); ok && (info.Defs[lid] == obj || info.Uses[lid] == obj) {
					count += 2
				}
			}
		}
		return true
	})
	if count == 1 {
		return rhs
	}
	return nil
}

// c13Core resolves a divisor to the expression whose zero-ness decides: conversions stripped,
// single-definition locals replaced by their definition.
func c13Core(n *c13Node, e ast.Expr) ast.Expr {
	for i := 0; i < 4; i++ {
		e = c13StripConv(n, e)
		id, ok := e.(*ast.Ident)
		if !ok {
			return e
		}
		def := c13SingleDef(n, id)
		if def == nil {
			return e
		}
		e = def
	}
	return e
}

// c13DivRole names a divisor by the objects it reads (struct fields by declaring type, package
// variables by name), never by local variable names.
func c13DivRole(n *c13Node, sf *c13SpecFields, e ast.Expr, full bool) string {
	trim := func(name string) string {
		if full {
			return name
		}
		return strings.TrimPrefix(name, n.pkg.Types.Name()+".")
	}
	e = c13Core(n, e)
	if arg, ok := c13IsLen(n, e); ok {
		return "len(" + c13DivRole(n, sf, arg, full) + ")"
	}
	switch x := e.(type) {
	case *ast.SelectorExpr:
		if v := c13FieldOf(n, x); v != nil {
			return trim(sf.name(v))
		}
	case *ast.IndexExpr:
		return c13DivRole(n, sf, x.X, full) + "[]"
	case *ast.Ident:
		info := n.pkg.TypesInfo
		if v, ok := info.Uses[x].(*types.Var); ok {
			if v.Pkg() != nil && v.Parent() == v.Pkg().Scope() {
				return trim(v.Pkg().Name() + "." + v.Name())
			}
			return "local " + strings.ReplaceAll(v.Type().String(), Mod, "")
		}
	}
	// composite expression: the set of fields / package variables it reads
	set := map[string]bool{}
	info := n.pkg.TypesInfo
	var visit func(x ast.Expr)
	visit = func(x ast.Expr) {
		ast.Inspect(x, func(y ast.Node) bool {
			switch t := y.(type) {
			case *ast.SelectorExpr:
				if v := c13FieldOf(n, t); v != nil {
					set[trim(sf.name(v))] = true
					return false
				}
			case *ast.Ident:
				if v, ok := info.Uses[t].(*types.Var); ok && !v.IsField() {
					if v.Pkg() != nil && v.Parent() == v.Pkg().Scope() {
						set[trim(v.Pkg().Name()+"."+v.Name())] = true
					} else if def := c13SingleDef(n, t); def != nil {
						visit(def)
					}
				}
			}
			return true
		})
	}
	visit(e)
	if len(set) == 0 {
		return "expression"
	}
	return strings.Join(c13SortedSet(set), ",")
}

// c13ProveNonZero: in every abstract state reaching the site the divisor's core expression is
// known non-zero (positive for Intn). Returns a witness state otherwise.
func c13ProveNonZero(c *core.Ctx, n *c13Node, s c13DivSite) (bool, *flow.State) {
	top := n.flowFunc()
	if top == nil {
		return false, nil
	}
	f := c13Innermost(top, s.at)
	en, ef := n, f // where the expression lives
	if s.callee != nil {
		en = s.callee
		ef = c13Innermost(s.callee.flowFunc(), s.at)
		f = top
	}
	chain := c13CoreChain(en, s.divisor)
	core := chain[len(chain)-1]
	names := c13AliasNames(en, ef, chain, s.lenOf)
	names = c13ParamVocab(ef, names)
	_, isLen := c13IsLen(en, core)
	isLen = isLen || s.lenOf
	unsigned := isLen
	if tv, ok := f.Info.Types[core]; ok && tv.Type != nil {
		if b, ok := tv.Type.Underlying().(*types.Basic); ok && b.Info()&types.IsUnsigned != 0 {
			unsigned = true
		}
	}
	base := c13BaseObj(f, core)
	good := func(st *flow.State) bool {
		positive, nonzero := false, false
		for _, r := range names {
			if st.Is("lt:0<"+r, flow.True) || st.Is("lt:"+r+"<1", flow.False) || (unsigned && st.Is("eq:"+r+"==0", flow.False)) {
				positive = true
			}
			if st.Is("eq:"+r+"==0", flow.False) {
				nonzero = true
			}
		}
		nonzero = nonzero || positive
		return s.intn && positive || !s.intn && nonzero
	}
	states, seen := c13StatesAt(c, f, s.at, flow.Config{
		Track: func(k string) bool {
			for _, r := range names {
				if k == "eq:"+r+"==0" || k == "lt:0<"+r || k == "lt:"+r+"<1" {
					return true
				}
			}
			return strings.HasPrefix(k, "v:")
		},
		Pure: c13PureFor(f, base),
	}, good)
	if !seen {
		return false, nil
	}
	for _, st := range states {
		if !good(st) {
			return false, st
		}
	}
	return true, nil
}

// c13CoreChain returns the expression and every intermediate of its resolution through
// conversions and single-definition locals (last element = c13Core).
func c13CoreChain(n *c13Node, e ast.Expr) []ast.Expr {
	var out []ast.Expr
	for i := 0; i < 4; i++ {
		e = c13StripConv(n, e)
		out = append(out, e)
		id, ok := e.(*ast.Ident)
		if !ok {
			return out
		}
		def := c13SingleDef(n, id)
		if def == nil {
			return out
		}
		e = def
	}
	return out
}

// c13AliasNames renders the chain and every other local of f that is defined once as one of
// its members: a test of any of them is a test of the operand (`n := len(xs); if n == 0`).
func c13AliasNames(n *c13Node, f *flow.Func, chain []ast.Expr, lenOf bool) []string {
	set := map[string]bool{}
	var names []string
	for _, e := range chain {
		r := f.Render(e)
		if lenOf {
			r = "len(" + r + ")"
		}
		if !set[r] {
			set[r] = true
			names = append(names, r)
		}
	}
	// single-definition locals INSIDE the expression are spelled out too:
	// `servers := lb.base.Servers; ... % len(servers)` is also `len(lb.base.Servers)`
	for round := 0; round < 3; round++ {
		added := false
		for _, e := range chain {
			ast.Inspect(e, func(x ast.Node) bool {
				id, ok := x.(*ast.Ident)
				if !ok {
					return true
				}
				def := c13SingleDef(n, id)
				if def == nil {
					return true
				}
				from, to := f.Render(id), f.Render(c13StripConv(n, def))
				for _, nm := range append([]string{}, names...) {
					if strings.Contains(nm, from) {
						if nn := strings.ReplaceAll(nm, from, to); !set[nn] {
							set[nn] = true
							names = append(names, nn)
							added = true
						}
					}
				}
				return true
			})
		}
		if !added {
			break
		}
	}
	seen := map[types.Object]bool{}
	ast.Inspect(f.Body, func(x ast.Node) bool {
		id, ok := x.(*ast.Ident)
		if !ok {
			return true
		}
		o := f.Info.Uses[id]
		if o == nil || seen[o] {
			return true
		}
		seen[o] = true
		if def := c13SingleDef(n, id); def != nil && set[f.Render(c13StripConv(n, def))] {
			if r := f.Render(id); !set[r] {
				set[r] = true
				names = append(names, r)
			}
		}
		return true
	})
	return names
}

// ---------------------------------------------------------------------------------------
// machine-checked reasons of reviewed divisors

// c13CheckPushBeforeRate: every call of a window's FailureRate/SlowRate happens after a Push
// in the same function, on every path.
func c13CheckPushBeforeRate(c *core.Ctx, g *c13Graph, sf *c13SpecFields) (bool, string) {
	return c13Memo(c, "push-before-rate", func() (bool, string) { return c13PushBeforeRate(c) })
}

var c13MemoTab = map[*core.Ctx]map[string][2]any{}

// c13Memo caches the verdict of a shared reason check for one run.
func c13Memo(c *core.Ctx, key string, f func() (bool, string)) (bool, string) {
	m := c13MemoTab[c]
	if m == nil {
		m = map[string][2]any{}
		c13MemoTab[c] = m
	}
	if v, ok := m[key]; ok {
		return v[0].(bool), v[1].(string)
	}
	ok, d := f()
	m[key] = [2]any{ok, d}
	return ok, d
}

// c13PushBeforeRate: every FailureRate / SlowRate call of the package is preceded by a window Push
// on every path. A call is judged in its own function; if that function does not push itself,
// in each same-package caller with the callee interpreted in place, and so on upwards (the Push
// may sit in the caller and the rate computation in a helper, or both in a helper of the public
// method). A call that cannot be followed (reached only through a function value) is a checker
// error, not a violation.
func c13PushBeforeRate(c *core.Ctx) (bool, string) {
	isWin := func(f *flow.Func, call *ast.CallExpr, names ...string) bool {
		for _, nm := range names {
			if calleeIs(f, call, "("+c13CB+".Window)."+nm, "(*"+c13CB+".CountBasedWindow)."+nm, "(*"+c13CB+".TimeBasedWindow)."+nm) {
				return true
			}
		}
		return false
	}
	pkg := c.Prog.Pkg(c13CB)
	if pkg == nil {
		return false, "package " + c13CB + " not loaded"
	}
	var funcs []*flow.Func
	callers := map[types.Object][]*flow.Func{}
	for _, file := range pkg.Syntax {
		for _, d := range file.Decls {
			fd, ok := d.(*ast.FuncDecl)
			if !ok || fd.Body == nil {
				continue
			}
			f := flow.NewFunc(pkg, fd)
			funcs = append(funcs, f)
			seen := map[types.Object]bool{}
			for _, call := range calls(fd.Body, true) {
				if fo, ok := f.Callee(call).(*types.Func); ok && fo.Pkg() == pkg.Types && declOf(pkg, fo) != nil && declOf(pkg, fo) != fd && !seen[fo.Origin()] {
					seen[fo.Origin()] = true
					callers[fo.Origin()] = append(callers[fo.Origin()], f)
				}
			}
		}
	}
	results := map[*flow.Func]*flow.Result{}
	analysis := func(f *flow.Func) *flow.Result {
		if r, ok := results[f]; ok {
			return r
		}
		r := analyze(c, f, flow.Config{
			Inline:         inlineSamePkg(f),
			InlineClosures: true,
			Track:          func(string) bool { return false },
			OnCall: func(st *flow.State, call *ast.CallExpr, callee types.Object, deferred bool) {
				if isWin(f, call, "Push") {
					st.Set("ev:pushed", flow.True)
				}
			},
		})
		results[f] = r
		return r
	}
	// verdict: 1 proved, 0 refuted (a path without Push), -1 cannot follow
	var judge func(f *flow.Func, call *ast.CallExpr, depth int) (int, string)
	judge = func(f *flow.Func, call *ast.CallExpr, depth int) (int, string) {
		res := analysis(f)
		if res == nil {
			return -1, f.Name + " could not be analysed"
		}
		states := res.At[call]
		if len(states) > 0 {
			all := true
			for _, st := range states {
				if !st.Is("ev:pushed", flow.True) {
					all = false
				}
			}
			if all {
				return 1, ""
			}
		}
		fd, _ := f.Node.(*ast.FuncDecl)
		var up []*flow.Func
		if fd != nil {
			up = callers[pkg.TypesInfo.Defs[fd.Name]]
		}
		if len(up) == 0 || depth >= 4 {
			if len(states) == 0 {
				return -1, "the call is not interpreted from " + f.Name
			}
			return 0, f.Name
		}
		for _, cf := range up {
			if v, why := judge(cf, call, depth+1); v != 1 {
				return v, why
			}
		}
		return 1, ""
	}
	n := 0
	for _, f := range funcs {
		for _, call := range calls(f.Body, false) {
			if !isWin(f, call, "FailureRate", "SlowRate") {
				continue
			}
			n++
			switch v, why := judge(f, call, 0); v {
			case 0:
				return false, sprintf("%s computes a rate at %s on a path (entered through %s) without a preceding window Push: total may be 0 and the division panics", f.Name, pos(c, call), why)
			case -1:
				c.Errorf("R-C13-3: push-before-rate: cannot follow the rate computation at %s: %s", pos(c, call), why)
				return true, "cannot follow (checker error recorded)"
			}
		}
	}
	if n < 2 {
		c.Errorf("R-C13-3: push-before-rate: only %d FailureRate/SlowRate call sites found (expected >= 2)", n)
		return true, "anchor lost (checker error recorded)"
	}
	return true, sprintf("%d rate computations, each after window.Push on every path", n)
}

func c13CheckWindowSizeMin(c *core.Ctx, g *c13Graph, sf *c13SpecFields) (bool, string) {
	v := structField(c, "pkg/resilience", "CircuitBreakerPolicy", "SlidingWindowSize")
	if v == nil {
		return false, "CircuitBreakerPolicy.SlidingWindowSize not found"
	}
	if !sf.schemaMinAtLeast(v, 1) {
		return false, "CircuitBreakerPolicy.SlidingWindowSize no longer has schema minimum >= 1: a window of size 0 divides by len(bucket) = 0"
	}
	return true, "CircuitBreakerPolicy.SlidingWindowSize has schema minimum >= 1"
}

func c13CheckRetryFactor(c *core.Ctx, g *c13Graph, sf *c13SpecFields) (bool, string) {
	v := structField(c, "pkg/resilience", "RetryPolicy", "RandomizationFactor")
	if v == nil {
		return false, "RetryPolicy.RandomizationFactor not found"
	}
	if !sf.schemaMinAtLeast(v, 0) {
		return false, "RetryPolicy.RandomizationFactor no longer has schema minimum >= 0: a negative factor makes rand.Intn's argument <= 0"
	}
	return true, "RetryPolicy.RandomizationFactor has schema minimum >= 0"
}

func c13CheckLimitForPeriod(c *core.Ctx, g *c13Graph, sf *c13SpecFields) (bool, string) {
	v := structField(c, "pkg/filters/ratelimiter", "Policy", "LimitForPeriod")
	if v == nil {
		return false, "ratelimiter Policy.LimitForPeriod not found"
	}
	if !sf.schemaMinAtLeast(v, 0) {
		return false, "RateLimiter Policy.LimitForPeriod lost its schema minimum: negative or zero limits reach the divisor"
	}
	return true, "filter Policy.LimitForPeriod has a schema minimum"
}

// c13NonZeroConstElems: the initialiser of the package variable is a composite literal whose
// elements (or first fields of its struct elements) are non-zero constants.
func c13NonZeroConstElems(c *core.Ctx, rel, name string, firstField bool) (bool, string) {
	pkg := c.Prog.Pkg(rel)
	if pkg == nil {
		return false, "package " + rel + " not loaded"
	}
	for _, file := range pkg.Syntax {
		for _, d := range file.Decls {
			gd, ok := d.(*ast.GenDecl)
			if !ok || gd.Tok != token.VAR {
				continue
			}
			for _, s := range gd.Specs {
				vs := s.(*ast.ValueSpec)
				for i, id := range vs.Names {
					if id.Name != name || len(vs.Values) <= i {
						continue
					}
					cl, ok := ast.Unparen(vs.Values[i]).(*ast.CompositeLit)
					if !ok || len(cl.Elts) == 0 {
						return false, name + " is not initialised by a composite literal"
					}
					for _, el := range cl.Elts {
						if kv, ok := el.(*ast.KeyValueExpr); ok {
							el = kv.Value
						}
						if firstField {
							inner, ok := ast.Unparen(el).(*ast.CompositeLit)
							if !ok || len(inner.Elts) == 0 {
								return false, name + " has an element that is not a struct literal"
							}
							el = inner.Elts[0]
							if kv, ok := el.(*ast.KeyValueExpr); ok {
								el = kv.Value
							}
						}
						tv := pkg.TypesInfo.Types[el]
						if tv.Value == nil || tv.Value.ExactString() == "0" {
							return false, sprintf("%s has a zero or non-constant element (%s)", name, c.Prog.Rel(el.Pos()))
						}
					}
					// never reassigned
					reassigned := false
					obj := pkg.TypesInfo.Defs[id]
					for _, f2 := range pkg.Syntax {
						ast.Inspect(f2, func(x ast.Node) bool {
							if as, ok := x.(*ast.AssignStmt); ok {
								for _, l := range as.Lhs {
									if b := c13RootIdent(l); b != nil && pkg.TypesInfo.Uses[b] == obj {
										reassigned = true
									}
								}
							}
							return true
						})
					}
					if reassigned {
						return false, name + " is assigned outside its initialiser"
					}
					return true, sprintf("%s: %d non-zero constant elements, never reassigned", name, len(cl.Elts))
				}
			}
		}
	}
	return false, "variable " + rel + "." + name + " not found"
}

func c13RootIdent(e ast.Expr) *ast.Ident {
	for {
		switch x := ast.Unparen(e).(type) {
		case *ast.Ident:
			return x
		case *ast.SelectorExpr:
			e = x.X
		case *ast.IndexExpr:
			e = x.X
		case *ast.StarExpr:
			e = x.X
		default:
			return nil
		}
	}
}

func c13CheckPowersOf10(c *core.Ctx, g *c13Graph, sf *c13SpecFields) (bool, string) {
	return c13NonZeroConstElems(c, "pkg/util/fasttime", "powersOf10", false)
}

func c13CheckSegments(c *core.Ctx, g *c13Graph, sf *c13SpecFields) (bool, string) {
	return c13NonZeroConstElems(c, "pkg/util/sampler", "segments", true)
}

// ---------------------------------------------------------------------------------------
// R-C13-5: regexp.MustCompile(spec field)

func c13MustCompile(c *core.Ctx, g *c13Graph, sf *c13SpecFields) {
	sites := 0
	for _, n := range g.reachedFuncs() {
		info := n.pkg.TypesInfo
		ast.Inspect(n.body, func(x ast.Node) bool {
			call, ok := x.(*ast.CallExpr)
			if !ok || len(call.Args) != 1 {
				return true
			}
			id := c13CalleeIdent(call)
			if id == nil {
				return true
			}
			fo, ok := info.Uses[id].(*types.Func)
			if !ok || fo.Pkg() == nil || fo.Pkg().Path() != "regexp" || (fo.Name() != "MustCompile" && fo.Name() != "MustCompilePOSIX") {
				return true
			}
			v := c13FieldOf(n, c13Core(n, call.Args[0]))
			if v == nil || !sf.isSpec(v) {
				return true
			}
			sites++
			format, _ := sf.schemaOpt(v, "format")
			ok2 := format == "regexp" || sf.compiled[v]
			c.Check(ok2, "R-C13-5", n.name+"|MustCompile("+sf.name(v)+")", pos(c, call),
				"the field carries format=regexp or validation code compiles it",
				sprintf("regexp.MustCompile is applied to spec field %s, which has no format=regexp tag and is not compiled by any Validate(): an invalid expression is accepted by validation and panics in %s", sf.name(v), n.root),
				n.chain()...)
			return true
		})
	}
	c.RequireCount("R-C13-5", "regexp.MustCompile(spec field) sites", sites, 3)
}

// c13SizedBufferReason: the operand is len(x.F) with F a sized buffer (R-C13-7) and the owner of
// the function has a reviewed R-C13-7 entry for F: that entry's check decides.
func c13SizedBufferReason(c *core.Ctx, g *c13Graph, sf *c13SpecFields, n *c13Node, s c13DivSite) (ok bool, detail string, found bool) {
	core := c13Core(n, s.divisor)
	arg, isLen := c13IsLen(n, core)
	if s.lenOf {
		arg, isLen = core, true
	}
	if !isLen {
		return false, "", false
	}
	field := c13FieldOf(n, c13Core(n, arg))
	if field == nil || len(c13SizedFields(g)[field]) == 0 {
		return false, "", false
	}
	suffix := "|index into sized buffer " + strings.TrimPrefix(sf.name(field), n.pkg.Types.Name()+".")
	for _, m := range g.ownerChain(n) {
		if e, has := c13BufTable[m.name+suffix]; has && e.check != nil {
			okc, d := e.check(c, g, sf, field)
			return okc, d, true
		}
	}
	return false, "", false
}

// c13IsRecvOrParam: the identifier is the receiver or a parameter of n's declaration and is
// never assigned in its body.
func c13IsRecvOrParam(n *c13Node, id *ast.Ident) bool {
	if c13ParamIndex(n, id) >= 0 {
		return true
	}
	if n.decl == nil || n.decl.Recv == nil || len(n.decl.Recv.List) != 1 || len(n.decl.Recv.List[0].Names) != 1 {
		return false
	}
	info := n.pkg.TypesInfo
	obj := info.Defs[n.decl.Recv.List[0].Names[0]]
	if obj == nil || info.Uses[id] != obj {
		return false
	}
	assigned := false
	ast.Inspect(n.body, func(x ast.Node) bool {
		if as, ok := x.(*ast.AssignStmt); ok {
			for _, l := range as.Lhs {
				if lid, ok := ast.Unparen(l).(*ast.Ident); ok && info.Uses[lid] == obj {
					assigned = true
				}
			}
		}
		return true
	})
	return !assigned
}

// c13WindowTotalRole recognises "the number of results a circuit breaker window holds" by role,
// whatever the field is called and wherever it lives: an unsigned field that the Push method of
// every Window implementation increments (in its same-package reach), divided by in code that is
// only reached — through same-package calls — from the FailureRate / SlowRate methods of the
// Window implementations. Such a site is covered by the reviewed reason "a result is pushed
// before any rate is computed" (checked at the call sites of those methods).
func c13WindowTotalRole(c *core.Ctx, g *c13Graph, n *c13Node, sites []c13DivSite) (string, bool) {
	if relPkg(n.pkg.PkgPath) != c13CB {
		return "", false
	}
	winT := namedType(c, c13CB, "Window")
	if winT == nil {
		return "", false
	}
	iface, _ := winT.Underlying().(*types.Interface)
	if iface == nil {
		return "", false
	}
	var pushes []*c13Node
	entry := map[*c13Node]bool{}
	for _, nt := range g.named {
		if !types.Implements(types.NewPointer(nt), iface) {
			continue
		}
		if p := g.method(nt, "Push"); p != nil {
			pushes = append(pushes, p)
		}
		for _, m := range []string{"FailureRate", "SlowRate"} {
			if r := g.method(nt, m); r != nil {
				entry[r] = true
			}
		}
	}
	if len(pushes) == 0 || len(entry) == 0 {
		return "", false
	}
	alt := ""
	for _, s := range sites {
		if s.intn || s.lenOf {
			return "", false
		}
		sn := n
		if s.callee != nil {
			sn = s.callee
		}
		field := c13FieldOf(sn, c13Core(sn, s.divisor))
		if field == nil {
			return "", false
		}
		if b, ok := field.Type().Underlying().(*types.Basic); !ok || b.Info()&types.IsUnsigned == 0 {
			return "", false
		}
		// only reached from the rate methods
		var up func(m *c13Node, depth int) bool
		up = func(m *c13Node, depth int) bool {
			if entry[m] {
				return true
			}
			callers := g.callSites(m)
			if len(callers) == 0 || depth > 3 {
				return false
			}
			for _, cs := range callers {
				if cs.caller.pkg != m.pkg || !up(cs.caller, depth+1) {
					return false
				}
			}
			return true
		}
		if !up(sn, 0) {
			return "", false
		}
		// incremented by every Push
		for _, p := range pushes {
			inc := false
			if p.decl == nil {
				return "", false
			}
			for _, h := range reach(flow.NewFunc(p.pkg, p.decl), 3) {
				ast.Inspect(h.Body, func(x ast.Node) bool {
					if st, ok := x.(*ast.IncDecStmt); ok && st.Tok == token.INC {
						if sel, ok := ast.Unparen(st.X).(*ast.SelectorExpr); ok {
							if sl := h.Info.Selections[sel]; sl != nil && sl.Obj() == types.Object(field) {
								inc = true
							}
						}
					}
					return true
				})
			}
			if !inc {
				return "", false
			}
		}
		alt = "divisor circuitbreaker.CountBasedWindow.total"
	}
	return alt, alt != ""
}
