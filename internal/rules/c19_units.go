package rules

import (
	"go/ast"
	"go/token"
	"go/types"
	"sort"
	"strings"

	"verif/internal/core"
	"verif/internal/flow"
)

// Subjects of R-C19-1 resolved so that they survive "extract function / method", a struct that
// bundles run's state, renames and moves to another file:
//
//   - a *cell* is a local variable, a parameter or a struct field (identified by its object; a
//     field stands for that field of the single state struct of a running sync);
//   - the delivery callback is run's func-typed parameter and every cell it is stored in;
//   - a *unit* is the function literal or declared function that calls the callback;
//   - the pull is searched breadth-first in the unit and the same-package functions it calls;
//   - the unit is interpreted with those helpers inlined (flow.Config.Inline), the pull and the
//     comparison staying opaque; which cell holds the new / the previously delivered snapshot is
//     tracked across parameter binding and returned values.

// c19cellOf resolves an identifier or field selector to its variable object.
func c19cellOf(f *flow.Func, e ast.Expr) types.Object {
	if e == nil {
		return nil
	}
	switch x := ast.Unparen(e).(type) {
	case *ast.Ident:
		if o, ok := c19obj(f, x).(*types.Var); ok {
			return o
		}
	case *ast.SelectorExpr:
		if s := f.Info.Selections[x]; s != nil && s.Kind() == types.FieldVal {
			return s.Obj()
		}
	}
	return nil
}

// c19isRunLike: a method with (string, bool, func(map snapshot)) parameters.
func c19isRunLike(g *flow.Func, fd *ast.FuncDecl) bool {
	if fd.Recv == nil {
		return false
	}
	var s, b, fn int
	for _, v := range c19params(g, fd.Type) {
		switch {
		case c19isString(v.Type()):
			s++
		case c19isBool(v.Type()) || c19isEnum(v.Type()):
			b++
		case c19targetFields(v.Type()) != nil:
			s++
			b++
		default:
			if sig, ok := v.Type().Underlying().(*types.Signature); ok && sig.Params().Len() == 1 && sig.Results().Len() == 0 {
				if _, ok := sig.Params().At(0).Type().Underlying().(*types.Map); ok {
					fn++
				}
			}
		}
	}
	return s == 1 && b == 1 && fn == 1
}

// c19isEnum: a named integer type declared in the module (an enum-like scope / mode type).
func c19isEnum(t types.Type) bool {
	n, ok := t.(*types.Named)
	if !ok || n.Obj().Pkg() == nil || !strings.HasPrefix(n.Obj().Pkg().Path()+"/", Mod) {
		return false
	}
	b, ok := n.Underlying().(*types.Basic)
	return ok && b.Info()&types.IsInteger != 0
}

// c19targetFields: a struct (or pointer to struct) with exactly one string and one bool field —
// a parameter object for (key, prefix); returns [key field, prefix field].
func c19targetFields(t types.Type) []*types.Var {
	if p, ok := t.Underlying().(*types.Pointer); ok {
		t = p.Elem()
	}
	st, ok := t.Underlying().(*types.Struct)
	if !ok {
		return nil
	}
	var k, b []*types.Var
	for i := 0; i < st.NumFields(); i++ {
		switch {
		case c19isString(st.Field(i).Type()):
			k = append(k, st.Field(i))
		case c19isBool(st.Field(i).Type()):
			b = append(b, st.Field(i))
		}
	}
	if len(k) != 1 || len(b) != 1 {
		return nil
	}
	return []*types.Var{k[0], b[0]}
}

func c19Run(c *core.Ctx) *c19run {
	f := fnOpt(c, c19pkg, "syncer", "run")
	if f == nil {
		cands := funcsByRole(c, c19pkg, c19isRunLike)
		if len(cands) != 1 {
			c.Errorf("R-C19: anchor: method %s.(syncer).run not found, and %d methods have the (key string, prefix bool, deliver func(map)) shape", c19pkg, len(cands))
			return nil
		}
		f = cands[0]
		c.Count("functions_analysed", 1)
	}
	fd := f.Node.(*ast.FuncDecl)
	r := &c19run{f: f, cons: declName(f.Pkg, fd), pm: parentMap(f.Body)}
	r.runObj, _ = f.Info.Defs[fd.Name].(*types.Func)
	for _, v := range c19params(f, f.Type) {
		switch {
		case c19isString(v.Type()) && r.keyObj == nil:
			r.keyObj = v
		case (c19isBool(v.Type()) || c19isEnum(v.Type())) && r.prefObj == nil:
			// the key/prefix choice: a bool, or an enum-like integer type of the module
			r.prefObj = v
			r.prefEnum = c19isEnum(v.Type())
		case c19targetFields(v.Type()) != nil && r.targetObj == nil && r.keyObj == nil && r.prefObj == nil:
			// (key, prefix) travel as one parameter object: its fields play the two roles
			tf := c19targetFields(v.Type())
			r.targetObj, r.keyObj, r.prefObj = v, tf[0], tf[1]
		default:
			if _, ok := v.Type().Underlying().(*types.Signature); ok && r.sendObj == nil {
				r.sendObj = v
			}
		}
	}
	if r.sendObj == nil || r.keyObj == nil || r.prefObj == nil {
		c.Errorf("R-C19: anchor: %s does not have (string key, bool prefix, func delivery callback) parameters", r.cons)
		return nil
	}
	sig := r.sendObj.Type().Underlying().(*types.Signature)
	if sig.Params().Len() != 1 {
		c.Errorf("R-C19: anchor: delivery callback of %s does not take exactly one snapshot", r.cons)
		return nil
	}
	r.snapT = sig.Params().At(0).Type()
	if _, ok := r.snapT.Underlying().(*types.Map); !ok {
		c.Errorf("R-C19: anchor: delivery callback of %s does not take a map snapshot", r.cons)
		return nil
	}
	r.funcs = reach(f, 3)
	r.pms = map[*flow.Func]map[ast.Node]ast.Node{}
	for _, g := range r.funcs {
		if g == f {
			r.pms[g] = r.pm
		} else {
			r.pms[g] = parentMap(g.Body)
		}
	}
	// the callback and the cells it is stored in
	r.cb = map[types.Object]bool{r.sendObj: true}
	for iter := 0; iter < 3; iter++ {
		for _, g := range r.funcs {
			ast.Inspect(g.Body, func(n ast.Node) bool {
				switch s := n.(type) {
				case *ast.KeyValueExpr:
					if o := c19cellOf(g, s.Value); o != nil && r.cb[o] {
						if k, ok := s.Key.(*ast.Ident); ok {
							if fld, ok := g.Info.Uses[k].(*types.Var); ok && fld.IsField() {
								r.cb[fld] = true
							}
						}
					}
				case *ast.AssignStmt:
					if len(s.Lhs) == len(s.Rhs) {
						for i := range s.Lhs {
							if o := c19cellOf(g, s.Rhs[i]); o != nil && r.cb[o] {
								if l := c19cellOf(g, s.Lhs[i]); l != nil {
									r.cb[l] = true
								}
							}
						}
					}
				case *ast.CallExpr:
					// handed to a same-package helper: the helper's parameter is the callback too
					for i, a := range s.Args {
						if o := c19cellOf(g, a); o != nil && r.cb[o] {
							if p := r.helperParam(g, s, i); p != nil {
								r.cb[p] = true
							}
						}
					}
				}
				return true
			})
		}
	}
	// every use of a callback cell is a call of it or a store into another callback cell
	type site struct {
		g    *flow.Func
		call *ast.CallExpr
	}
	var sends []site
	var escaped ast.Node
	for _, g := range r.funcs {
		pm := r.pms[g]
		ast.Inspect(g.Body, func(n ast.Node) bool {
			id, ok := n.(*ast.Ident)
			if !ok {
				return true
			}
			o := g.Info.Uses[id]
			if o == nil || !r.cb[o] {
				return true
			}
			var e ast.Expr = id
			if sel, ok := pm[id].(*ast.SelectorExpr); ok && sel.Sel == id {
				e = sel
			}
			p := pm[e]
			for {
				if pe, ok := p.(*ast.ParenExpr); ok {
					e, p = pe, pm[pe]
					continue
				}
				break
			}
			switch pp := p.(type) {
			case *ast.CallExpr:
				if pp.Fun == e {
					sends = append(sends, site{g, pp})
					return true
				}
				for i, a := range pp.Args {
					if a == e && r.helperParam(g, pp, i) != nil {
						return true
					}
				}
			case *ast.KeyValueExpr:
				if pp.Key == e {
					return true
				}
				if k, ok := pp.Key.(*ast.Ident); ok && r.cb[g.Info.Uses[k]] {
					return true
				}
			case *ast.AssignStmt:
				for i, l := range pp.Lhs {
					if l == e {
						return true
					}
					if len(pp.Lhs) == len(pp.Rhs) && pp.Rhs[i] == e && r.cb[c19cellOf(g, l)] {
						return true
					}
				}
			}
			escaped = id
			return true
		})
	}
	if escaped != nil {
		c.Undecide("R-C19-1", r.cons+"|delivery callback", pos(c, escaped), "the delivery callback is used other than by calling it or keeping it in a field/variable (passed on to another function): cannot follow it")
		return nil
	}
	if !c.RequireCount("R-C19-1", "delivery callback call sites below run", len(sends), 1) {
		return nil
	}
	// variables of run that can remember a snapshot across units
	c19inspect(f.Body, func(n ast.Node) bool {
		if id, ok := n.(*ast.Ident); ok {
			if v, ok := f.Info.Defs[id].(*types.Var); ok && types.Identical(v.Type(), r.snapT) {
				r.last = append(r.last, v)
			}
		}
		return true
	})
	// units: the functions invoked from run's own body (a closure bound to a local variable, or
	// a same-package function / method) below which the callback is called
	litOf := map[types.Object]*ast.FuncLit{}
	litEncl := map[types.Object]*flow.Func{}
	for _, g := range r.funcs {
		g := g
		c19inspect(g.Body, func(n ast.Node) bool {
			switch s := n.(type) {
			case *ast.AssignStmt:
				if len(s.Lhs) == len(s.Rhs) {
					for i, rhs := range s.Rhs {
						if lit, ok := ast.Unparen(rhs).(*ast.FuncLit); ok {
							if o := c19obj(g, s.Lhs[i]); o != nil {
								litOf[o], litEncl[o] = lit, g
							}
						}
					}
				}
			case *ast.ValueSpec:
				for i, rhs := range s.Values {
					if lit, ok := ast.Unparen(rhs).(*ast.FuncLit); ok && i < len(s.Names) {
						o := g.Info.Defs[s.Names[i]]
						litOf[o], litEncl[o] = lit, g
					}
				}
			}
			return true
		})
	}
	// candidates: closures of run bound to a local, and the same-package functions below run; a
	// candidate below which the callback is called is a unit unless it is itself code of another
	// such candidate (a helper of the unit). Being invoked from run's own body is not required:
	// the closure may only be handed to the function that holds the loop.
	inUnit := map[*ast.CallExpr]bool{}
	type cand struct {
		u      *c19unit
		bodies map[*ast.BlockStmt]bool
		sends  []*ast.CallExpr
	}
	var cands []*cand
	addCand := func(u *c19unit) {
		cd := &cand{u: u, bodies: map[*ast.BlockStmt]bool{}}
		for i, g := range reach(u.f, 3) {
			var root ast.Node = g.Body
			if i == 0 {
				root = u.body
			}
			cd.bodies[g.Body] = true
			for _, s := range sends {
				if contains(root, s.call) {
					cd.sends = append(cd.sends, s.call)
				}
			}
		}
		if len(cd.sends) > 0 {
			cands = append(cands, cd)
		}
	}
	var litVars []types.Object
	for o := range litOf {
		litVars = append(litVars, o)
	}
	sort.Slice(litVars, func(i, j int) bool { return litVars[i].Pos() < litVars[j].Pos() })
	for _, o := range litVars {
		lit, g := litOf[o], litEncl[o]
		addCand(&c19unit{lit: lit, f: g.Lit(lit), body: lit, v: o, encl: g, name: declName(g.Pkg, g.Node.(*ast.FuncDecl)) + "$" + o.Name()})
	}
	for _, g := range r.funcs[1:] {
		hfd, ok := g.Node.(*ast.FuncDecl)
		if !ok {
			continue
		}
		addCand(&c19unit{decl: hfd, f: g, body: hfd.Body, v: g.Info.Defs[hfd.Name], name: declName(g.Pkg, hfd)})
	}
	for _, cd := range cands {
		nested := false
		if cd.u.decl != nil {
			// a function that merely contains the delivering closure (setup + loop) is not the unit
			for _, other := range cands {
				if other.u.lit != nil && contains(cd.u.decl.Body, other.u.lit) {
					nested = true
				}
			}
		}
		for _, other := range cands {
			if other != cd && other.bodies[cd.u.f.Body] && !cd.bodies[other.u.f.Body] {
				nested = true
			}
		}
		if nested {
			continue
		}
		for _, sc := range cd.sends {
			if !inUnit[sc] {
				inUnit[sc] = true
				cd.u.sends = append(cd.u.sends, sc)
			}
		}
		if len(cd.u.sends) > 0 {
			r.units = append(r.units, cd.u)
		}
	}
	for _, s := range sends {
		if inUnit[s.call] {
			continue
		}
		direct := s.g == f
		for p := r.pms[s.g][s.call]; p != nil && direct; p = r.pms[s.g][p] {
			if _, ok := p.(*ast.FuncLit); ok {
				direct = false
			}
		}
		if direct && len(c19pullAssigns(f, f.Body, r.snapT)) == 0 {
			// delivery directly in run's body: without a pull in that body the verdict is clear
			c.Violate("R-C19-1", r.cons+"|direct delivery only after a successful pull", pos(c, s.call),
				"run delivers a map directly (outside the pull-compare-send closure) that was not obtained from a pull: what is delivered (e.g. assembled from watch events) is not a freshly read store state and bypasses the comparison with the last snapshot")
			continue
		}
		c.Undecide("R-C19-1", r.cons+"|delivery outside a pull-compare-send function", pos(c, s.call), "the delivery callback is called in code that is not below a closure or function invoked from run's body: shape not supported")
		return nil
	}
	return r
}

// helperParam: argument i of call (in g) is bound to this parameter of a same-package function.
func (r *c19run) helperParam(g *flow.Func, call *ast.CallExpr, i int) *types.Var {
	fo, ok := g.Callee(call).(*types.Func)
	if !ok || fo.Pkg() != g.Pkg.Types {
		return nil
	}
	hfd := declOf(g.Pkg, fo)
	if hfd == nil {
		return nil
	}
	ps := c19params(g, hfd.Type)
	if len(ps) != len(call.Args) || i >= len(ps) {
		return nil
	}
	return ps[i]
}

// isUnitCall: the call invokes a unit (through the closure variable, through a parameter of a
// helper that is bound to the closure, or statically).
func (r *c19run) isUnitCall(f *flow.Func, call *ast.CallExpr) *c19unit {
	if r.unitAlias == nil {
		r.unitAlias = map[types.Object]*c19unit{}
		for iter := 0; iter < 2; iter++ {
			for _, g := range r.funcs {
				for _, hc := range calls(g.Body, true) {
					for i, a := range hc.Args {
						o := c19obj(g, a)
						if o == nil {
							continue
						}
						var u *c19unit
						for _, cand := range r.units {
							if cand.v == o {
								u = cand
							}
						}
						if u == nil {
							u = r.unitAlias[o]
						}
						if u == nil {
							continue
						}
						if p := r.helperParam(g, hc, i); p != nil {
							r.unitAlias[p] = u
						}
					}
				}
			}
		}
	}
	o := c19obj(f, call.Fun)
	callee := f.Callee(call)
	for _, u := range r.units {
		if (o != nil && o == u.v) || (callee != nil && callee == u.v) {
			return u
		}
	}
	if o != nil {
		return r.unitAlias[o]
	}
	return nil
}

// fromRunParam: the expression (in function g) denotes run's parameter `param`: the parameter
// itself, a struct field that is only ever set from it, or a parameter of a helper that every
// caller below run binds to it.
func (r *c19run) fromRunParam(g *flow.Func, e ast.Expr, param *types.Var, depth int) bool {
	cell := c19cellOf(g, e)
	if cell == nil || depth > 3 {
		return false
	}
	if cell == types.Object(param) {
		return true
	}
	v := cell.(*types.Var)
	funcs := r.funcs
	if v.IsField() {
		stores, ok := 0, true
		for _, h := range funcs {
			ast.Inspect(h.Body, func(n ast.Node) bool {
				switch s := n.(type) {
				case *ast.KeyValueExpr:
					if k, isID := s.Key.(*ast.Ident); isID && h.Info.Uses[k] == cell {
						stores++
						ok = ok && r.fromRunParam(h, s.Value, param, depth+1)
					}
				case *ast.AssignStmt:
					for i, l := range s.Lhs {
						if c19cellOf(h, l) == cell {
							stores++
							ok = ok && len(s.Lhs) == len(s.Rhs) && r.fromRunParam(h, s.Rhs[i], param, depth+1)
						}
					}
				}
				return true
			})
		}
		return ok && stores > 0
	}
	// a parameter of a helper (possibly captured by the closure the expression sits in)?
	if owner := r.funcAt(v.Pos()); owner != nil {
		g = owner
	}
	gfd, isDecl := g.Node.(*ast.FuncDecl)
	if !isDecl || g == r.f {
		return false
	}
	idx := -1
	for i, p := range c19params(g, gfd.Type) {
		if types.Object(p) == cell {
			idx = i
		}
	}
	if idx < 0 {
		return false
	}
	gobj := g.Info.Defs[gfd.Name]
	n, ok := 0, true
	for _, h := range funcs {
		for _, call := range calls(h.Body, true) {
			if h.Callee(call) == gobj && idx < len(call.Args) {
				n++
				ok = ok && r.fromRunParam(h, call.Args[idx], param, depth+1)
			}
		}
	}
	return ok && n > 0
}

// ---------------------------------------------------------------------------------------
// R-C19-1

const (
	c19evDiff    = "ev:differs" // the comparison of last and new reported a difference
	c19evSent    = "ev:sent"    // delivery callback called
	c19evSent2   = "ev:sent2"   // ... more than once
	c19evTouched = "ev:lasttouched"
	c19evPullOK  = "ev:pullok" // the pull's error is known nil
)

// c19pullAssigns finds `new, err := <call returning (snapshot, error)>` in root (nested
// function literals excluded).
func c19pullAssigns(f *flow.Func, root ast.Node, snapT types.Type) []*ast.AssignStmt {
	var pulls []*ast.AssignStmt
	c19inspect(root, func(n ast.Node) bool {
		as, ok := n.(*ast.AssignStmt)
		if !ok || len(as.Rhs) != 1 {
			return true
		}
		call, ok := ast.Unparen(as.Rhs[0]).(*ast.CallExpr)
		if !ok {
			return true
		}
		if tup, ok := f.Info.TypeOf(call).(*types.Tuple); ok && len(as.Lhs) == 2 && tup.Len() == 2 &&
			types.Identical(tup.At(0).Type(), snapT) && c19isErr(tup.At(1).Type()) {
			pulls = append(pulls, as)
		}
		// positional results replaced by a small result struct {snapshot, error}
		if len(as.Lhs) == 1 && c19resultStruct(f.Info.TypeOf(call), snapT) != nil {
			pulls = append(pulls, as)
		}
		return true
	})
	return pulls
}

// c19resultStruct: a struct (same module) with exactly one snapshot field and one error field;
// returns [snapshot field, error field].
func c19resultStruct(t types.Type, snapT types.Type) []*types.Var {
	if t == nil {
		return nil
	}
	if p, ok := t.Underlying().(*types.Pointer); ok {
		t = p.Elem()
	}
	st, ok := t.Underlying().(*types.Struct)
	if !ok {
		return nil
	}
	var d, e []*types.Var
	for i := 0; i < st.NumFields(); i++ {
		switch {
		case types.Identical(st.Field(i).Type(), snapT):
			d = append(d, st.Field(i))
		case c19isErr(st.Field(i).Type()):
			e = append(e, st.Field(i))
		}
	}
	if len(d) != 1 || len(e) != 1 {
		return nil
	}
	return []*types.Var{d[0], e[0]}
}

// c19levels: the unit (level 0) and the same-package functions it calls, breadth first.
func c19levels(u *c19unit, depth int, stop map[types.Object]bool) [][]*flow.Func {
	out := [][]*flow.Func{{u.f}}
	seen := map[*ast.BlockStmt]bool{u.f.Body: true}
	for d := 0; d < depth; d++ {
		var next []*flow.Func
		for _, g := range out[d] {
			for _, call := range calls(g.Body, true) {
				fo, ok := g.Callee(call).(*types.Func)
				if !ok || fo.Pkg() != g.Pkg.Types || stop[types.Object(fo)] {
					continue
				}
				fd := declOf(g.Pkg, fo)
				if fd == nil || seen[fd.Body] {
					continue
				}
				seen[fd.Body] = true
				next = append(next, flow.NewFunc(g.Pkg, fd))
			}
		}
		if len(next) == 0 {
			break
		}
		out = append(out, next)
	}
	return out
}

func c19Units(c *core.Ctx, r *c19run) {
	for _, u := range r.units {
		c19Unit(c, r, u)
	}
}

func c19Unit(c *core.Ctx, r *c19run, u *c19unit) {
	uf := u.f
	// the pull: `new, err := <call returning (snapshot, error)>`, in the unit or the nearest helpers
	levels := c19levels(u, 3, map[types.Object]bool{})
	var pull *ast.AssignStmt
	var allPulls []*ast.AssignStmt // pull and its alternatives (same variables, exclusive branches)
	var pullFn *flow.Func
	var F []*flow.Func // the unit and its helpers, not descending into the pull
	for lv, fs := range levels {
		var found []*ast.AssignStmt
		var in []*flow.Func
		for _, g := range fs {
			var root ast.Node = g.Body
			if lv == 0 {
				root = u.body
			}
			for _, as := range c19pullAssigns(g, root, r.snapT) {
				found = append(found, as)
				in = append(in, g)
			}
		}
		if len(found) > 1 {
			// alternative pulls into the same variables (`if prefix { new, err = pullPrefix(..) }
			// else { new, err = pullKey(..) }`) are one pull with the choice made by the caller
			same := true
			for i, as := range found {
				if len(as.Lhs) != 2 || len(found[0].Lhs) != 2 || in[i] != in[0] ||
					c19cellOf(in[i], as.Lhs[0]) == nil || c19cellOf(in[i], as.Lhs[0]) != c19cellOf(in[0], found[0].Lhs[0]) ||
					c19obj(in[i], as.Lhs[1]) == nil || c19obj(in[i], as.Lhs[1]) != c19obj(in[0], found[0].Lhs[1]) {
					same = false
				}
			}
			if !same {
				c.Undecide("R-C19-1", u.name+"|send only after a successful pull", pos(c, found[1]), "more than one pull (into different variables) in the delivering function / its helpers: shape not supported")
				return
			}
		}
		if len(found) >= 1 {
			pull, pullFn = found[0], in[0]
			allPulls = found
			break
		}
	}
	if pull == nil {
		// a store read of a shape that is not recognised is not a missing pull
		rd := &c19reads{c: c, may: map[*types.Func]int{}, sums: map[ast.Node]*c19sum{}, decls: map[*types.Func]*c19decl{}}
		if rd.mayReadNode(uf.Info, u.body) {
			c.Undecide("R-C19-1", u.name+"|send only after a successful pull", pos(c, u.sends[0]), "the delivering function reads the store, but not through a call returning (snapshot, error) or a {snapshot, error} struct: shape not supported")
			return
		}
		c.Violate("R-C19-1", u.name+"|send only after a successful pull", pos(c, u.sends[0]),
			"the function that delivers snapshots does not obtain (snapshot, error) from a pull: what is delivered is not a freshly read store state")
		return
	}
	pullCall := ast.Unparen(pull.Rhs[0]).(*ast.CallExpr)
	isPull := map[*ast.AssignStmt]bool{}
	stop := map[types.Object]bool{}
	for _, as := range allPulls {
		isPull[as] = true
		if po := pullFn.Callee(ast.Unparen(as.Rhs[0]).(*ast.CallExpr)); po != nil {
			stop[po] = true
		}
	}
	for _, fs := range c19levels(u, 3, stop) {
		F = append(F, fs...)
	}
	var newObj, errObj types.Object
	var errExpr ast.Expr
	if len(pull.Lhs) == 2 {
		newObj = c19cellOf(pullFn, pull.Lhs[0])
		errObj = c19obj(pullFn, pull.Lhs[1])
		errExpr = pull.Lhs[1]
	} else {
		// res := pull(..): the snapshot is res.<data field>, the error res.<error field>
		rs := c19resultStruct(pullFn.Info.TypeOf(pullCall), r.snapT)
		resVar := c19obj(pullFn, pull.Lhs[0])
		if rs != nil && resVar != nil {
			newObj = rs[0]
			for _, g := range F {
				ast.Inspect(g.Body, func(n ast.Node) bool {
					if sel, ok := n.(*ast.SelectorExpr); ok && errExpr == nil && c19obj(g, sel.X) == resVar {
						if sl := g.Info.Selections[sel]; sl != nil && sl.Obj() == types.Object(rs[1]) {
							errExpr, errObj = sel, rs[1]
						}
					}
					return true
				})
			}
		}
	}
	if errObj == nil {
		c.Violate("R-C19-1", u.name+"|send only after a successful pull", pos(c, pull),
			"the error of the pull is discarded: after a failed read (etcd down, timeout) the empty/partial result is delivered as if it were the store's content")
		return
	}
	if newObj == nil {
		c.Violate("R-C19-1", u.name+"|send delivers the pulled snapshot", pos(c, pull), "the pulled snapshot is discarded")
		return
	}
	errKey := uf.NilKey(errExpr)

	isSnap := func(o types.Object) bool {
		v, ok := o.(*types.Var)
		return ok && types.Identical(v.Type(), r.snapT)
	}
	// last: the cell outliving one invocation of the unit that the unit refers to — a
	// snapshot-typed variable of run outside the closure, or a snapshot-typed struct field
	outlives := func(o types.Object) bool {
		if v, ok := o.(*types.Var); ok && v.IsField() && isSnap(o) {
			return true
		}
		for _, cand := range r.last {
			if types.Object(cand) == o {
				return true
			}
		}
		// a variable or parameter of the function enclosing the closure, declared outside it
		if u.lit != nil && u.encl != nil && isSnap(o) {
			if v, ok := o.(*types.Var); ok && !v.IsField() && contains(u.encl.Node, c19posNode(o.Pos())) && !contains(u.lit, c19posNode(o.Pos())) {
				return true
			}
		}
		return false
	}
	lastSet := map[types.Object]bool{}
	for i, g := range F {
		var root ast.Node = g.Body
		if i == 0 {
			root = u.body
		}
		ast.Inspect(root, func(n ast.Node) bool {
			if e, ok := n.(ast.Expr); ok {
				if o := c19cellOf(g, e); o != nil && outlives(o) && o != newObj {
					lastSet[o] = true
				}
			}
			return true
		})
	}
	if len(lastSet) > 1 {
		c.Undecide("R-C19-1", u.name+"|last snapshot", pos(c, u.body), "more than one snapshot-typed variable/field outliving a pull is used by the delivering function: cannot tell which one remembers the last delivery")
		return
	}
	var lastObj types.Object
	for o := range lastSet {
		lastObj = o
	}
	if lastObj == nil {
		c.Violate("R-C19-1", u.name+"|send only when the snapshot differs from the last one", pos(c, u.sends[0]),
			"no variable or field outliving one pull remembers the last delivered snapshot: every pull (every tick, every watch event) delivers again, consecutive snapshots are equal")
		return
	}
	ok, why, decided := r.lifetime(lastObj, 0)
	if ok && decided {
		// nothing but the unit writes it: a reset elsewhere (e.g. when the watcher is re-created)
		// forgets the last delivery just as well
		inUnitCode := func(n ast.Node) bool {
			for i, g := range F {
				var root ast.Node = g.Body
				if i == 0 {
					root = u.body
				}
				if contains(root, n) {
					return true
				}
			}
			return false
		}
		for _, g := range r.funcs {
			ast.Inspect(g.Body, func(n ast.Node) bool {
				as, isAs := n.(*ast.AssignStmt)
				if !isAs || !ok || inUnitCode(as) {
					return true
				}
				for i, l := range as.Lhs {
					if c19cellOf(g, l) != lastObj || g.Info.Defs[c19identOf(l)] == lastObj {
						continue
					}
					// handed through a helper and back: `last, x = h(.., last)`
					j := i
					if len(as.Rhs) == 1 {
						j = 0
					}
					if call, isCall := ast.Unparen(as.Rhs[j]).(*ast.CallExpr); isCall {
						back := false
						for _, a := range call.Args {
							if c19cellOf(g, a) == lastObj {
								back = true
							}
						}
						if back {
							continue
						}
					}
					ok, why = false, "it is overwritten outside the pull-compare-send code at "+g.Pos(as.Pos())+" (a reset, e.g. when the watcher is re-created)"
				}
				return true
			})
		}
	}
	if !decided {
		c.Undecide("R-C19-1", u.name+"|last snapshot outlives the whole sync loop", pos(c, u.body), why)
	} else {
		c.Check(ok, "R-C19-1", u.name+"|last snapshot outlives the whole sync loop", pos(c, u.body),
			"the memory of the last delivered snapshot is created once per run: outside every loop, and handed through helpers and back",
			"the memory of the last delivered snapshot does not outlive the sync loop: "+why+" — after every such iteration (e.g. every watcher restart) the comparison starts from an empty `last` again and the unchanged content is delivered once more: consecutive snapshots are equal")
	}
	// What a snapshot cell holds: True = the snapshot just pulled, False = the previously
	// delivered snapshot, unknown = something else. `last` holds the previous one until written.
	valKey := func(o types.Object) string { return sprintf("ev:holdsnew:%s@%d", o.Name(), o.Pos()) }
	status := func(st *flow.State, o types.Object) flow.Val {
		if o == nil {
			return flow.Unknown
		}
		v := st.Get(valKey(o))
		if v == flow.Unknown && o == lastObj && !st.Is(c19evTouched, flow.True) {
			return flow.False
		}
		return v
	}
	setStatus := func(st *flow.State, o types.Object, v flow.Val) {
		if o == lastObj {
			st.Set(c19evTouched, flow.True)
		}
		st.Set(valKey(o), v)
	}
	// candidate comparisons: bool calls over two snapshot cells, in the unit or its helpers
	var eqCalls []*ast.CallExpr
	except := []types.Object{}
	for po := range stop {
		except = append(except, po)
	}
	pmAll := map[ast.Node]ast.Node{}
	retOwner := map[*ast.ReturnStmt]*flow.Func{}
	for i, g := range F {
		var root ast.Node = g.Body
		if i == 0 {
			root = u.body
		}
		for k, v := range parentMap(root) {
			pmAll[k] = v
		}
		if i > 0 {
			c19inspect(g.Body, func(n ast.Node) bool {
				if rs, ok := n.(*ast.ReturnStmt); ok {
					retOwner[rs] = g
				}
				return true
			})
		}
		for _, call := range calls(g.Body, false) {
			if len(call.Args) != 2 || !c19isBool(g.Info.TypeOf(call)) {
				continue
			}
			a, b := c19cellOf(g, call.Args[0]), c19cellOf(g, call.Args[1])
			if a != nil && b != nil && a != b && isSnap(a) && isSnap(b) {
				eqCalls = append(eqCalls, call)
				if eo := g.Callee(call); eo != nil {
					except = append(except, eo)
				}
			}
		}
	}
	cmpKey := func(call *ast.CallExpr) string { return sprintf("ev:cmpok@%d", call.Pos()) }
	validCmp := map[*ast.CallExpr]bool{}
	isSend := map[*ast.CallExpr]bool{}
	for _, s := range u.sends {
		isSend[s] = true
	}
	isEq := map[*ast.CallExpr]bool{}
	for _, e := range eqCalls {
		isEq[e] = true
	}
	isExcept := map[types.Object]bool{}
	for _, o := range except {
		isExcept[o] = true
	}
	// a comparison counts if, when it was evaluated, it compared the previous with the new snapshot
	sync := func(st *flow.State) {
		switch st.Get(errKey) {
		case flow.True:
			st.Set(c19evPullOK, flow.True)
		case flow.False:
			st.Set(c19evPullOK, flow.False)
		}
		for _, e := range eqCalls {
			if !st.Is(cmpKey(e), flow.True) {
				continue
			}
			switch st.Get(uf.CallKey(e)) {
			case flow.True:
				st.Set(c19evDiff, flow.False)
			case flow.False:
				st.Set(c19evDiff, flow.True)
			}
		}
	}
	latest := map[types.Object]*ast.CallExpr{} // helper → the call of it being interpreted in place
	// helperOf: the declaration of the same-package helper a call is interpreted in place for
	helperOf := func(call *ast.CallExpr) *ast.FuncDecl {
		fo, ok := uf.Callee(call).(*types.Func)
		if !ok || isExcept[fo] || fo.Pkg() != uf.Pkg.Types {
			return nil
		}
		return declOf(uf.Pkg, fo)
	}
	// lhsOf: the expressions the results of call are assigned to (nil if it is not the right-hand
	// side of an assignment)
	lhsOf := func(call *ast.CallExpr) []ast.Expr {
		var p ast.Node = call
		for {
			if pe, ok := pmAll[p].(*ast.ParenExpr); ok {
				p = pe
				continue
			}
			break
		}
		as, ok := pmAll[p].(*ast.AssignStmt)
		if !ok {
			return nil
		}
		if len(as.Rhs) == 1 {
			return as.Lhs
		}
		for i, rhs := range as.Rhs {
			if rhs == p && i < len(as.Lhs) {
				return as.Lhs[i : i+1]
			}
		}
		return nil
	}
	res := analyze(c, uf, flow.Config{
		Inline: inlineSamePkg(uf, except...),
		OnNode: func(st *flow.State, n ast.Node) {
			sync(st)
			switch s := n.(type) {
			case *ast.AssignStmt:
				if isPull[s] {
					for _, e := range eqCalls {
						st.Set(cmpKey(e), flow.Unknown)
					}
					st.Set(c19evDiff, flow.Unknown)
					st.Set(c19evPullOK, flow.Unknown)
					setStatus(st, newObj, flow.True)
					return
				}
				parallel := len(s.Lhs) == len(s.Rhs) && (s.Tok == token.ASSIGN || s.Tok == token.DEFINE)
				vals := make([]flow.Val, len(s.Lhs))
				later := make([]bool, len(s.Lhs)) // assigned from a helper interpreted in place: see OnCall / ReturnStmt
				for i := range s.Lhs {
					j := i
					if len(s.Rhs) == 1 {
						j = 0
					}
					if j < len(s.Rhs) {
						if call, ok := ast.Unparen(s.Rhs[j]).(*ast.CallExpr); ok && helperOf(call) != nil {
							later[i] = true
						}
					}
					if parallel {
						if ro := c19cellOf(uf, s.Rhs[i]); ro != nil && isSnap(ro) {
							vals[i] = status(st, ro)
						}
					}
				}
				for i, l := range s.Lhs {
					if lo := c19cellOf(uf, l); lo != nil && isSnap(lo) && !later[i] {
						setStatus(st, lo, vals[i])
					}
				}
			case *ast.ReturnStmt:
				// a helper interpreted in place returns: hand what its results hold to the
				// variables the caller assigns them to
				g := retOwner[s]
				if g == nil {
					return
				}
				gfd := g.Node.(*ast.FuncDecl)
				call := latest[g.Info.Defs[gfd.Name]]
				if call == nil {
					return
				}
				lhs := lhsOf(call)
				if lhs == nil {
					return
				}
				results := s.Results
				if len(results) == 0 && gfd.Type.Results != nil {
					for _, fld := range gfd.Type.Results.List {
						for _, nm := range fld.Names {
							results = append(results, nm)
						}
					}
				}
				if len(results) != len(lhs) {
					return
				}
				for i, l := range lhs {
					if lo := c19cellOf(uf, l); lo != nil && isSnap(lo) {
						v := flow.Unknown
						if ro := c19cellOf(uf, results[i]); ro != nil && isSnap(ro) {
							v = status(st, ro)
						}
						setStatus(st, lo, v)
					}
				}
			}
		},
		AfterAssume: func(st *flow.State, cond ast.Expr, outcome bool) { sync(st) },
		OnCall: func(st *flow.State, call *ast.CallExpr, callee types.Object, deferred bool) {
			switch {
			case isEq[call]:
				a, b := status(st, c19cellOf(uf, call.Args[0])), status(st, c19cellOf(uf, call.Args[1]))
				if (a == flow.True && b == flow.False) || (a == flow.False && b == flow.True) {
					st.Set(cmpKey(call), flow.True)
					validCmp[call] = true
				} else {
					st.Set(cmpKey(call), flow.False)
				}
				return
			case isSend[call]:
				if st.Is(c19evSent, flow.True) {
					st.Set(c19evSent2, flow.True)
				}
				st.Set(c19evSent, flow.True)
				return
			}
			// a same-package helper (interpreted in place): bind what its snapshot parameters
			// hold; what it returns reaches the assigned variables at its return statements
			hfd := helperOf(call)
			if hfd == nil {
				return
			}
			latest[uf.Info.Defs[hfd.Name]] = call
			ps := c19params(uf, hfd.Type)
			vals := make([]flow.Val, len(ps))
			for i, p := range ps {
				if len(ps) == len(call.Args) && isSnap(p) {
					vals[i] = status(st, c19cellOf(uf, call.Args[i]))
				}
			}
			for _, l := range lhsOf(call) {
				if lo := c19cellOf(uf, l); lo != nil && isSnap(lo) {
					setStatus(st, lo, flow.Unknown)
				}
			}
			for i, p := range ps {
				if isSnap(p) {
					setStatus(st, p, vals[i])
				}
			}
		},
	})
	if res == nil {
		return
	}
	for _, as := range allPulls {
		pc := ast.Unparen(as.Rhs[0]).(*ast.CallExpr)
		r.pulls = append(r.pulls, c19pullSite{u: u, call: pc, f: pullFn, states: res.At[pc]})
	}
	for _, e := range eqCalls {
		if fo, ok := uf.Callee(e).(*types.Func); ok && validCmp[e] {
			dup := false
			for _, x := range r.eqFns {
				if x == fo {
					dup = true
				}
			}
			if !dup {
				r.eqFns = append(r.eqFns, fo)
			}
		}
	}
	inl := ""
	if len(res.Inlined) > 0 {
		inl = sprintf(" (helpers interpreted in place: %v)", res.Inlined)
	}
	for i, s := range u.sends {
		role := "send"
		if len(u.sends) > 1 {
			role = sprintf("send#%d", i+1)
		}
		sts := res.At[s]
		if len(sts) == 0 {
			c.Violate("R-C19-1", u.name+"|"+role+" only after a successful pull", pos(c, s), "the delivery is unreachable: no snapshot is ever delivered")
			continue
		}
		var bad *flow.State
		for _, st := range sts {
			if !st.Is(c19evPullOK, flow.True) {
				bad = st
				break
			}
		}
		c.Check(bad == nil, "R-C19-1", u.name+"|"+role+" only after a successful pull", pos(c, s),
			sprintf("%d state(s) reach the delivery, all with the pull's error == nil%s", len(sts), inl),
			"the delivery is reachable although the pull may have failed: after a failed read (etcd down, timeout) an empty or partial map is delivered as a snapshot — a content the store never had", witness(bad)...)

		if len(eqCalls) == 0 {
			c.Violate("R-C19-1", u.name+"|"+role+" only when the snapshot differs from the last one", pos(c, s),
				"the delivering function never compares the last delivered snapshot with the pulled one: every pull (every tick, every watch event, writes outside the content) delivers again, consecutive snapshots are equal")
		} else {
			bad = nil
			for _, st := range sts {
				if !st.Is(c19evDiff, flow.True) {
					bad = st
					break
				}
			}
			c.Check(bad == nil, "R-C19-1", u.name+"|"+role+" only when the snapshot differs from the last one", pos(c, s),
				sprintf("%d state(s) reach the delivery, all after the comparison of the previous and the new snapshot returned false", len(sts)),
				"the delivery is reachable without a comparison of the previously delivered snapshot with the pulled one having reported a difference (comparison missing on the path, its result ignored, or `last` overwritten before it is compared): equal consecutive snapshots are delivered, or changes are missed", witness(bad)...)
		}

		var ao types.Object
		if len(s.Args) == 1 {
			ao = c19cellOf(uf, s.Args[0])
		}
		if ao == nil || !isSnap(ao) {
			c.Violate("R-C19-1", u.name+"|"+role+" delivers the pulled snapshot", pos(c, s),
				"what is delivered is not a variable holding the pulled snapshot: the consumer does not receive the content that was read from the store")
			continue
		}
		bad = nil
		for _, st := range sts {
			if status(st, ao) != flow.True {
				bad = st
				break
			}
		}
		c.Check(bad == nil, "R-C19-1", u.name+"|"+role+" delivers the pulled snapshot", pos(c, s),
			"on every path to the delivery the argument holds the snapshot returned by the pull",
			"the variable delivered does not (yet) hold the pulled snapshot on some path: the consumer receives the previous content again (or something else) instead of the content just read", witness(bad)...)
	}
	// exits of the unit
	var stale, swallowed, twice *flow.State
	exits := 0
	for _, ex := range res.Exits {
		if ex.Kind != flow.ExitReturn || c19phantom(ex) {
			continue
		}
		exits++
		st := ex.State
		sent := st.Is(c19evSent, flow.True)
		if sent && status(st, lastObj) != flow.True {
			stale = st
		}
		if !sent && st.Is(c19evPullOK, flow.True) && !st.Is(c19evDiff, flow.False) && (st.Is(c19evDiff, flow.True) || status(st, lastObj) != flow.False) {
			swallowed = st
		}
		if st.Is(c19evSent2, flow.True) {
			twice = st
		}
	}
	c.RequireCount("R-C19-1", "exits of "+u.name, exits, 1)
	c.Check(stale == nil, "R-C19-1", u.name+"|last is updated with every delivery", pos(c, u.body),
		sprintf("%d exit(s): on every path that delivered, `last` holds the delivered snapshot at exit", exits),
		"a path delivers a snapshot without recording it as `last`: the next pull compares against a stale snapshot — the same content is delivered again on every tick, and a change back to the stale content is never delivered", witness(stale)...)
	c.Check(swallowed == nil, "R-C19-1", u.name+"|a detected difference is delivered", pos(c, u.body),
		sprintf("%d exit(s): every path that found a difference (or overwrote `last` without knowing it equal) delivered", exits),
		"a path detects a changed snapshot (or overwrites `last`) without delivering it: that content is never delivered unless the store changes again — no convergence to the final state", witness(swallowed)...)
	c.Check(twice == nil, "R-C19-1", u.name+"|one delivery per pull", pos(c, u.body),
		"no path delivers twice", "a path delivers the same pull twice: consecutive snapshots are equal", witness(twice)...)
}

func c19identOf(e ast.Expr) *ast.Ident {
	id, _ := ast.Unparen(e).(*ast.Ident)
	return id
}

// c19posNode is a zero-width node at a position (for contains).
type c19posNode token.Pos

func (p c19posNode) Pos() token.Pos { return token.Pos(p) }
func (p c19posNode) End() token.Pos { return token.Pos(p) }

// funcAt returns the function of run's reach whose declaration spans pos.
func (r *c19run) funcAt(p token.Pos) *flow.Func {
	for _, g := range r.funcs {
		if contains(g.Node, c19posNode(p)) {
			return g
		}
	}
	return nil
}

// onceSite: the node (a declaration, a struct literal, a call) in function h is evaluated once per
// run: it is not inside a loop, and neither is any call on the chain from run to h.
func (r *c19run) onceSite(h *flow.Func, n ast.Node, depth int) (ok bool, why string) {
	if h == nil || depth > 4 {
		return true, ""
	}
	pm := r.pms[h]
	for p := pm[n]; p != nil; p = pm[p] {
		switch p.(type) {
		case *ast.ForStmt, *ast.RangeStmt:
			return false, "it is (re-)created at " + h.Pos(n.Pos()) + " inside the loop at " + h.Pos(p.Pos())
		}
	}
	if h == r.f {
		return true, ""
	}
	hfd, isDecl := h.Node.(*ast.FuncDecl)
	if !isDecl {
		return true, ""
	}
	hobj := h.Info.Defs[hfd.Name]
	for _, g := range r.funcs {
		for _, call := range calls(g.Body, true) {
			if g.Callee(call) != hobj {
				continue
			}
			if ok, why := r.onceSite(g, call, depth+1); !ok {
				return false, "it lives in " + hfd.Name.Name + ", and " + hfd.Name.Name + " is called again and again: " + why
			}
		}
	}
	return true, ""
}

// lifetime decides whether the cell that remembers the last delivered snapshot is created once
// per run. decided=false: the shape cannot be followed.
func (r *c19run) lifetime(cell types.Object, depth int) (ok bool, why string, decided bool) {
	v, isVar := cell.(*types.Var)
	if !isVar || depth > 3 {
		return true, "cannot follow the variable that remembers the last snapshot", false
	}
	if v.IsField() {
		// every place where the struct holding it is built
		for _, h := range r.funcs {
			bad := ""
			ast.Inspect(h.Body, func(n ast.Node) bool {
				cl, isLit := n.(*ast.CompositeLit)
				if !isLit || bad != "" {
					return true
				}
				t := h.Info.TypeOf(cl)
				if t == nil {
					return true
				}
				if st, isStruct := t.Underlying().(*types.Struct); isStruct {
					for i := 0; i < st.NumFields(); i++ {
						if st.Field(i) == v {
							if ok, w := r.onceSite(h, cl, 0); !ok {
								bad = "the struct holding it: " + w
							}
						}
					}
				}
				return true
			})
			if bad != "" {
				return false, bad, true
			}
		}
		return true, "", true
	}
	g := r.funcAt(v.Pos())
	if g == nil {
		return true, "the variable that remembers the last snapshot is declared outside run's reach", false
	}
	if !c19isParamVar(g, v) {
		id := c19defIdent(g, g.Node, v)
		if id == nil {
			return true, "cannot find the declaration of the variable that remembers the last snapshot", false
		}
		if ok, why := r.onceSite(g, id, 0); !ok {
			return false, why, true
		}
		return true, "", true
	}
	// a parameter of helper g: every caller passes a cell that lives long enough and gets the
	// updated snapshot back
	gfd, isDecl := g.Node.(*ast.FuncDecl)
	if !isDecl || g == r.f {
		return true, "", true
	}
	idx := -1
	ps := c19params(g, gfd.Type)
	for i, p := range ps {
		if p == v {
			idx = i
		}
	}
	if idx < 0 {
		return true, "", true // receiver or named result
	}
	// result position at which g returns the parameter on every return
	ret := -1
	okRet := true
	c19inspect(gfd.Body, func(n ast.Node) bool {
		rs, isRet := n.(*ast.ReturnStmt)
		if !isRet {
			return true
		}
		j := -1
		for k, e := range rs.Results {
			if c19obj(g, e) == cell {
				j = k
			}
		}
		if j < 0 || (ret >= 0 && ret != j) {
			okRet = false
		}
		ret = j
		return true
	})
	gobj := g.Info.Defs[gfd.Name]
	nCalls := 0
	for _, h := range r.funcs {
		pm := r.pms[h]
		for _, call := range calls(h.Body, true) {
			if h.Callee(call) != gobj || idx >= len(call.Args) {
				continue
			}
			nCalls++
			arg := c19cellOf(h, call.Args[idx])
			if arg == nil {
				return true, "the last snapshot is handed to " + gfd.Name.Name + " as an expression that is not a variable or field", false
			}
			if ok, why, dec := r.lifetime(arg, depth+1); !dec || !ok {
				return ok, why, dec
			}
			back := false
			if okRet && ret >= 0 {
				if as, isAs := pm[call].(*ast.AssignStmt); isAs && len(as.Rhs) == 1 && ret < len(as.Lhs) && c19cellOf(h, as.Lhs[ret]) == arg {
					back = true
				}
			}
			if !back {
				return false, "it is the parameter `" + v.Name() + "` of " + gfd.Name.Name + ", and the snapshot recorded there is not handed back into the caller's variable (" + h.Pos(call.Pos()) + ")", true
			}
		}
	}
	return true, "", nCalls > 0
}
