package rules

import (
	"go/ast"
	"go/constant"
	"go/token"
	"go/types"
	"reflect"
	"sort"
	"strconv"
	"strings"

	"verif/internal/core"
	"verif/internal/flow"
)

// c13SpecFields knows which struct fields are configuration (carry a yaml tag) and which of
// them validation code reads.
type c13SpecFields struct {
	tag   map[*types.Var]reflect.StructTag // yaml/jsonschema tags of module struct fields
	owner map[*types.Var]string            // "pkgname.Type" of the declaring struct
	// read by a Validate() method or by code reachable from one
	validated map[*types.Var]bool
	// handed to regexp.Compile* by validation code
	compiled map[*types.Var]bool
	// handed to time.ParseDuration by validation code
	parsedDur map[*types.Var]bool
	nValidate int
}

func (sf *c13SpecFields) isSpec(v *types.Var) bool {
	t, ok := sf.tag[v]
	if !ok {
		return false
	}
	_, has := t.Lookup("yaml")
	return has
}

func (sf *c13SpecFields) name(v *types.Var) string {
	if o := sf.owner[v]; o != "" {
		return o + "." + v.Name()
	}
	return v.Name()
}

// schemaOpt returns the value of a jsonschema tag option (e.g. "minimum") of field v.
func (sf *c13SpecFields) schemaOpt(v *types.Var, opt string) (string, bool) {
	for _, part := range strings.Split(sf.tag[v].Get("jsonschema"), ",") {
		kv := strings.SplitN(part, "=", 2)
		if len(kv) == 2 && kv[0] == opt {
			return kv[1], true
		}
	}
	return "", false
}

func (sf *c13SpecFields) schemaMinAtLeast(v *types.Var, min float64) bool {
	s, ok := sf.schemaOpt(v, "minimum")
	if !ok {
		return false
	}
	f, err := strconv.ParseFloat(s, 64)
	return err == nil && f >= min
}

func c13CollectSpecFields(c *core.Ctx, g *c13Graph) *c13SpecFields {
	sf := &c13SpecFields{tag: map[*types.Var]reflect.StructTag{}, owner: map[*types.Var]string{}, validated: map[*types.Var]bool{}, compiled: map[*types.Var]bool{}, parsedDur: map[*types.Var]bool{}}
	var walk func(t types.Type, owner string, depth int)
	walk = func(t types.Type, owner string, depth int) {
		st, ok := t.(*types.Struct)
		if !ok || depth > 4 {
			return
		}
		for i := 0; i < st.NumFields(); i++ {
			f := st.Field(i)
			sf.tag[f] = reflect.StructTag(st.Tag(i))
			sf.owner[f] = owner
			// anonymous struct types nested in the field
			ft := f.Type()
			for {
				switch u := ft.(type) {
				case *types.Pointer:
					ft = u.Elem()
					continue
				case *types.Slice:
					ft = u.Elem()
					continue
				}
				break
			}
			if _, named := ft.(*types.Named); !named {
				walk(ft, owner+"."+f.Name(), depth+1)
			}
		}
	}
	for _, nt := range g.named {
		walk(nt.Underlying(), nt.Obj().Pkg().Name()+"."+nt.Obj().Name(), 0)
	}
	// validation code: every `Validate() error` method of a module type + what it reaches
	errT := types.Universe.Lookup("error").Type()
	var queue []*c13Node
	seen := map[*c13Node]bool{}
	for _, n := range g.nodes {
		fn, ok := n.obj.(*types.Func)
		if !ok || fn.Name() != "Validate" {
			continue
		}
		sig := fn.Type().(*types.Signature)
		if sig.Recv() == nil || sig.Params().Len() != 0 || sig.Results().Len() != 1 || !types.Identical(sig.Results().At(0).Type(), errT) {
			continue
		}
		sf.nValidate++
		seen[n] = true
		queue = append(queue, n)
	}
	for len(queue) > 0 {
		n := queue[0]
		queue = queue[1:]
		info := n.pkg.TypesInfo
		ast.Inspect(n.body, func(x ast.Node) bool {
			switch e := x.(type) {
			case *ast.SelectorExpr:
				if s := info.Selections[e]; s != nil {
					if v, ok := s.Obj().(*types.Var); ok && v.IsField() {
						sf.validated[v.Origin()] = true
					}
				}
			case *ast.CallExpr:
				if id := c13CalleeIdent(e); id != nil && len(e.Args) == 1 {
					if fo, ok := info.Uses[id].(*types.Func); ok && fo.Pkg() != nil && fo.Pkg().Path() == "regexp" && strings.Contains(fo.Name(), "Compile") {
						if v := c13FieldOf(n, c13StripConv(n, e.Args[0])); v != nil {
							sf.compiled[v] = true
						}
					}
					if fo, ok := info.Uses[id].(*types.Func); ok && fo.Pkg() != nil && fo.Pkg().Path() == "time" && fo.Name() == "ParseDuration" {
						if v := c13FieldOf(n, c13Core(n, e.Args[0])); v != nil {
							sf.parsedDur[v] = true
						}
					}
				}
			}
			return true
		})
		for _, m := range n.out {
			if !seen[m] {
				seen[m] = true
				queue = append(queue, m)
			}
		}
	}
	c.RequireCount("R-C13-1", "Validate() methods", sf.nValidate, 20)
	return sf
}

// ---------------------------------------------------------------------------------------
// reviewed table

type c13Class int

const (
	c13OK     c13Class = iota // guarded by validation or unreachable by construction
	c13Env                    // depends on the environment, not on the configuration
	c13Defect                 // accepted configurations reach it
)

type c13Field struct{ pkg, typ, field string }

// c13PanicEntry is one reviewed function: at most n explicit panic sites whose guard is not a
// pure spec-field condition.
type c13PanicEntry struct {
	n      int
	class  c13Class
	rule   string // default R-C13-1
	reason string
	// defect: discharged once validation code reads all these spec fields
	fields []c13Field
	// ok: optional machine-checked protective condition
	check func(c *core.Ctx, g *c13Graph) (bool, string)
}

const (
	c13Pool = "pkg/filters/proxy"
	c13MQ   = "pkg/object/mqttproxy"
)

var c13PanicTable = map[string]c13PanicEntry{
	"pkg/api.HandleAPIError": {n: 1, reason: "yaml.Marshal of the plain struct api.Err{int,string} cannot fail; reached only as a callback of MQTTProxy's admin API handler"},
	"pkg/filters/builder.toFloat64": {n: 3, reason: "template function: text/template turns panics of FuncMap functions into Execute errors, and the Builder Handle methods run under a deferred recover that maps them to resultBuildErr",
		check: c13CheckBuilderRecover},
	"pkg/filters/builder.var extraFuncs":    {n: 1, reason: "template function (divf): same as toFloat64", check: c13CheckBuilderRecover},
	"pkg/filters/kafka.(Kafka).setProducer": {n: 1, class: c13Env, reason: "sarama.NewAsyncProducer fails when the Kafka brokers are unreachable: environment, not configuration"},
	"pkg/filters/kafkabackend.(Kafka).Init": {n: 1, class: c13Env, reason: "sarama.NewAsyncProducer fails when the Kafka brokers are unreachable: environment, not configuration"},
	"pkg/filters/kafkabackend.(Kafka).setHeader": {n: 1, class: c13Defect,
		reason: "Kafka filter (pkg/filters/kafkabackend) Init panics (\"empty header\") for `topic: {dynamic: {}}` / `dynamic: {header: \"\"}`, which the schema accepts (header is omitempty, no Validate())",
		fields: []c13Field{{"pkg/filters/kafkabackend", "Dynamic", "Header"}}},
	"pkg/filters/proxy.(ServerPool).InjectResiliencePolicy": {n: 4, class: c13Defect, rule: "R-C13-4",
		reason: "a retryPolicy / circuitBreakerPolicy name that is not defined in the pipeline's resilience section (or names a policy of the other kind) is accepted by validation and panics in Pipeline.reload (under the supervisor's recover, leaving a half-built pipeline) instead of being rejected: nothing in validation reads these fields",
		fields: []c13Field{{c13Pool, "ServerPoolSpec", "RetryPolicy"}, {c13Pool, "ServerPoolSpec", "CircuitBreakerPolicy"}}},
	"pkg/filters/proxy.(ServerPool).handle": {n: 1, reason: "\"should not reach here\": the handler chain returns nil, resilience.ErrShortCircuited or a serverPoolError (doHandle converts every failure); the two cases are handled before",
		check: c13CheckWrapperOrigins},
	"pkg/filters/proxy.(WeightedRandomLoadBalancer).ChooseServer": {n: 1, reason: "\"BUG: should not run to here\": with totalWeight = sum of non-negative weights (schema minimum=0) and 0 <= randomWeight < totalWeight the loop returns; totalWeight = 0 is R-C13-3's subject"},
	"pkg/filters/topicmapper.(TopicMapper).Init":                  {n: 1, reason: "getTopicMapFunc returns nil only for a nil spec; CreateInstance always stores the spec"},
	"pkg/object/globalfilter.(GlobalFilter).reload": {n: 2, reason: "supervisor.NewSpec of the before/after pipeline fails only if pipeline.Spec validation fails, and GlobalFilter's Spec.Validate runs the same validation on both pipelines",
		check: c13CheckGlobalFilterValidate},
	"pkg/object/mqttproxy.(MQTTProxy).Init": {n: 1, class: c13Defect,
		reason: "MQTTProxy has no Validate(): `useTLS: true` without (valid) certificates is accepted and makes setListener fail, newBroker return nil and Init panic (\"broker start failed\") (a busy port has the same effect but is environment)",
		fields: []c13Field{{c13MQ, "Spec", "UseTLS"}, {c13MQ, "Spec", "Certificate"}}},
	"pkg/object/mqttproxy.newBroker": {n: 1, class: c13Defect,
		reason: "MQTTProxy has no Validate(): a rule with an unknown or duplicated when.packetType is accepted and panics in newBroker (\"create pipeline map failed\")",
		fields: []c13Field{{c13MQ, "When", "PacketType"}}},
	"pkg/object/pipeline.(Pipeline).reload": {n: 3, reason: "resilience.NewPolicy / filters.NewSpec / kind lookup fail only for specs that Spec.Validate rejects with the same constructors",
		check: c13CheckPipelineValidate},
	"pkg/protocols/httpprot.(Request).RawPayload":         {n: 1, reason: "stream payload: every caller is covered by R-C13-2"},
	"pkg/protocols/httpprot.(Response).RawPayload":        {n: 1, reason: "stream payload: every caller is covered by R-C13-2"},
	"pkg/protocols/httpprot.(Request).SetPayload":         {n: 1, reason: "unknown payload type: every call site passes nil, []byte, string or an io.Reader", check: c13CheckSetPayloadArgs},
	"pkg/protocols/httpprot.(Response).SetPayload":        {n: 1, reason: "unknown payload type: every call site passes nil, []byte, string or an io.Reader", check: c13CheckSetPayloadArgs},
	"pkg/protocols/mqttprot.(Request).SetPayload":         {n: 1, reason: "payload is not a byte slice: call sites through the protocols interface pass []byte", check: c13CheckSetPayloadArgs},
	"pkg/supervisor.(Supervisor).MustGetSystemController": {n: 1, reason: "reached with serviceregistry.Kind only; system controllers are created by the supervisor at start-up before any pipeline"},
	"pkg/util/fasttime.Format":                            {n: 1, reason: "unknown layout: every call site passes one of the Layout constants handled by the switch", check: c13CheckFasttimeLayouts},
	"pkg/util/signer.(Signer).Verify": {n: 1, class: c13Defect,
		reason: "a Validator with `signature:` but without `accessKeys` (accepted: all fields omitempty) builds a Signer without access key store and Verify panics on every request (\"access key store must be set before calling Verify\")",
		fields: []c13Field{{"pkg/util/signer", "Spec", "AccessKeys"}}},
	"pkg/util/yamltool.Marshal": {n: 1, reason: "yaml.Marshal of spec structs that were themselves unmarshalled from YAML cannot fail"},
}

// ---------------------------------------------------------------------------------------

type c13PanicSite struct {
	call   *ast.CallExpr
	fields []*types.Var // spec fields read by the guard (pure spec guard) or nil
	pure   bool
}

func c13Panics(c *core.Ctx, g *c13Graph, sf *c13SpecFields) {
	nFuncs, nSites := 0, 0
	// sites are attributed to the owner of the function they stand in (see c13Graph.owner): a
	// panicking block moved into a same-package helper keeps its obligation
	byOwner := map[*c13Node][]c13PanicSite{}
	var owners []*c13Node
	for _, n := range g.reachedFuncs() {
		sites := c13PanicSites(n, sf)
		if len(sites) == 0 {
			continue
		}
		// reviewed sites: the nearest function of the owner chain that has a table entry;
		// spec-guarded and unreviewed sites: the last owner
		chain := g.ownerChain(n)
		last := chain[len(chain)-1]
		tabled := last
		for _, m := range chain {
			if _, ok := c13PanicTable[m.name]; ok {
				tabled = m
				break
			}
		}
		for _, s := range sites {
			o := tabled
			if s.pure {
				o = last
			}
			if byOwner[o] == nil {
				owners = append(owners, o)
			}
			byOwner[o] = append(byOwner[o], s)
		}
	}
	sort.Slice(owners, func(i, j int) bool { return owners[i].name < owners[j].name })
	for _, n := range owners {
		sites := byOwner[n]
		nFuncs++
		nSites += len(sites)
		// (a) pure spec-field guards: decided automatically, one obligation per field set
		bySet := map[string][]c13PanicSite{}
		rest := 0
		var restPos *ast.CallExpr
		for _, s := range sites {
			if !s.pure {
				rest++
				if restPos == nil {
					restPos = s.call
				}
				continue
			}
			var names []string
			for _, v := range s.fields {
				names = append(names, sf.name(v))
			}
			sort.Strings(names)
			k := c13Join(names)
			bySet[k] = append(bySet[k], s)
		}
		for _, k := range sortedKeys(bySet) {
			ss := bySet[k]
			cons := n.name + "|panic guarded by " + k
			var missing []string
			for _, v := range ss[0].fields {
				if sf.validated[v] {
					continue
				}
				if len(ss[0].fields) == 1 {
					if _, ok := sf.schemaOpt(v, "enum"); ok {
						continue
					}
				}
				missing = append(missing, sf.name(v))
			}
			c.Check(len(missing) == 0, "R-C13-1", cons, pos(c, ss[0].call),
				"the guard reads only spec fields and validation code reads all of them",
				sprintf("%d explicit panic(s) whose condition depends only on spec fields %s, but no Validate() method (nor code it reaches) reads %s and the schema tag does not restrict it: values the schema accepts make %s panic after the configuration was accepted", len(ss), k, c13Join(missing), n.root),
				n.chain()...)
		}
		if rest == 0 {
			continue
		}
		// (b) reviewed table
		cons := n.name + "|explicit panic"
		e, ok := c13PanicTable[n.name]
		rule := "R-C13-1"
		if e.rule != "" {
			rule = e.rule
		}
		if ok && rest > e.n {
			// its own obligation, so that it is not absorbed by a known finding on the reviewed sites
			c.Violate(rule, n.name+"|explicit panic beyond the reviewed count", pos(c, restPos),
				sprintf("%d explicit panic sites, only %d reviewed (%s): a new panic site reachable from %s", rest, e.n, e.reason, n.root),
				n.chain()...)
		}
		switch {
		case !ok:
			c.Violate(rule, cons, pos(c, restPos),
				sprintf("%d explicit panic site(s) reachable from %s are not in the reviewed table: decide whether validation keeps accepted configurations away from them (guard + Validate, or reason) and record it", rest, n.root),
				n.chain()...)
		case e.class == c13Defect:
			var missing []string
			for _, fd := range e.fields {
				v := structField(c, fd.pkg, fd.typ, fd.field)
				if v == nil {
					missing = append(missing, fd.typ+"."+fd.field+"(unresolved)")
					continue
				}
				if !sf.validated[v] {
					missing = append(missing, sf.name(v))
				}
			}
			c.Check(len(missing) == 0 && len(e.fields) > 0, rule, cons, pos(c, restPos),
				"validation code now reads the spec fields the panic depends on",
				e.reason+sprintf(" [not read by any validation code: %s]", c13Join(missing)), n.chain()...)
		case e.check != nil:
			okc, detail := e.check(c, g)
			c.Check(okc, rule, cons, pos(c, restPos), e.reason+" — checked: "+detail,
				"reviewed reason no longer holds ("+e.reason+"): "+detail, n.chain()...)
		default:
			tag := "reviewed: "
			if e.class == c13Env {
				tag = "reviewed (environment): "
			}
			c.Discharge(rule, cons, pos(c, restPos), tag+e.reason)
		}
	}
	c.RequireCount("R-C13-1", "functions with reachable explicit panics", nFuncs, 15)
	c.Count("R-C13-1:reachable panic sites", nSites)
	c.Count("R-C13-1:reachable functions", len(g.reachedFuncs()))
}

// c13PanicSites lists the explicit panic calls of a reached node that no barrier of the node
// itself recovers, with the spec fields their guards read.
func c13PanicSites(n *c13Node, sf *c13SpecFields) []c13PanicSite {
	info := n.pkg.TypesInfo
	var out []c13PanicSite
	var stack []ast.Node
	ast.Inspect(n.body, func(x ast.Node) bool {
		if x == nil {
			stack = stack[:len(stack)-1]
			return true
		}
		stack = append(stack, x)
		call, ok := x.(*ast.CallExpr)
		if !ok {
			return true
		}
		id, ok := ast.Unparen(call.Fun).(*ast.Ident)
		if !ok {
			return true
		}
		if b, ok := info.Uses[id].(*types.Builtin); !ok || b.Name() != "panic" {
			return true
		}
		if n.barrier != token.NoPos && call.Pos() > n.barrier {
			return true
		}
		// a literal with its own barrier
		for i := len(stack) - 1; i >= 0; i-- {
			if lit, ok := stack[i].(*ast.FuncLit); ok {
				if b := c13Barrier(n.pkg, lit.Body); b != token.NoPos && call.Pos() > b {
					return true
				}
			}
		}
		s := c13PanicSite{call: call}
		s.fields, s.pure = c13GuardFields(n, sf, stack)
		out = append(out, s)
		return true
	})
	return out
}

// c13GuardFields inspects the conditions enclosing the innermost node of stack (up to the
// function boundary): pure = they mention nothing but spec fields, constants, len and nil.
func c13GuardFields(n *c13Node, sf *c13SpecFields, stack []ast.Node) ([]*types.Var, bool) {
	info := n.pkg.TypesInfo
	var conds []ast.Expr
	for i := len(stack) - 2; i >= 0; i-- {
		child := stack[i+1]
		switch p := stack[i].(type) {
		case *ast.FuncLit:
			i = -1
		case *ast.IfStmt:
			if child == p.Body || child == p.Else {
				conds = append(conds, p.Cond)
			}
		case *ast.CaseClause:
			for _, e := range p.List {
				conds = append(conds, e)
			}
		case *ast.SwitchStmt:
			if p.Tag != nil {
				conds = append(conds, p.Tag)
			}
			// `switch spec := ra.spec; { case spec.X != "": panic }`: the init statement only
			// names a value; the locals it defines are resolved like any single-definition local
			if p.Init != nil {
				if as, ok := p.Init.(*ast.AssignStmt); !ok || as.Tok != token.DEFINE {
					return nil, false
				}
			}
		case *ast.TypeSwitchStmt, *ast.ForStmt, *ast.RangeStmt, *ast.SelectStmt:
			return nil, false
		}
	}
	if len(conds) == 0 {
		return nil, false
	}
	set := map[*types.Var]bool{}
	pure := true
	for _, cnd := range conds {
		ast.Inspect(cnd, func(x ast.Node) bool {
			if !pure {
				return false
			}
			switch e := x.(type) {
			case *ast.SelectorExpr:
				if s := info.Selections[e]; s != nil {
					if _, isMethod := s.Obj().(*types.Func); isMethod {
						// the method of an accepted predicate call: the spec fields it reads through its
						// receiver were collected by c13IsPurePredicate, the receiver path itself is irrelevant
						return false
					}
					v, ok := s.Obj().(*types.Var)
					if !ok || !v.IsField() {
						pure = false
						return false
					}
					if sf.isSpec(v.Origin()) {
						set[v.Origin()] = true
						return false // the base (receiver chain) is irrelevant
					}
					// intermediate field (x.spec.Field is handled above as a whole): a non-spec
					// leaf makes the guard impure
					pure = false
					return false
				}
				// qualified identifier pkg.Const
				if tv, ok := info.Types[e]; ok && tv.Value != nil {
					return false
				}
				pure = false
				return false
			case *ast.Ident:
				switch o := info.Uses[e].(type) {
				case *types.Const, *types.Nil, *types.TypeName, *types.Func:
				case *types.Builtin:
					if o.Name() != "len" {
						pure = false
					}
				case *types.Var:
					// a local defined once from a spec field stands for that field
					ok := false
					if def := c13SingleDef(n, e); def != nil {
						if v := c13FieldOf(n, c13StripConv(n, def)); v != nil && sf.isSpec(v) {
							set[v] = true
							ok = true
						}
					}
					if !ok {
						pure = false
					}
				default:
					pure = false
				}
			case *ast.CallExpr:
				if id, ok := ast.Unparen(e.Fun).(*ast.Ident); ok {
					if b, ok := info.Uses[id].(*types.Builtin); ok && b.Name() == "len" {
						return true
					}
				}
				if tv, ok := info.Types[e.Fun]; ok && tv.IsType() {
					return true
				}
				// a same-package predicate over its parameters (`!isSupportedCodec(spec.Compress)`,
				// `spec.wantsBoth()`): its arguments / receiver are inspected like the condition itself
				if c13IsPurePredicate(n, sf, e, set, 0) {
					return true // the arguments (and a receiver path) are visited below
				}
				pure = false
				return false
			case *ast.FuncLit:
				pure = false
				return false
			}
			return true
		})
	}
	if !pure || len(set) == 0 {
		return nil, false
	}
	var out []*types.Var
	for v := range set {
		out = append(out, v)
	}
	sort.Slice(out, func(i, j int) bool { return sf.name(out[i]) < sf.name(out[j]) })
	return out, true
}

// ---------------------------------------------------------------------------------------
// machine-checked protective conditions of reviewed entries

// c13CallsIn reports which of the wanted callees (full names without module prefix) are
// called in the body of the named function.
func c13CallsIn(c *core.Ctx, rel, recv, name string, wanted ...string) (map[string]bool, bool) {
	f := fn(c, rel, recv, name)
	if f == nil {
		return nil, false
	}
	got := map[string]bool{}
	// the function together with the same-package helpers it calls
	for _, h := range reach(f, 3) {
		for _, call := range calls(h.Body, true) {
			for _, w := range wanted {
				if calleeIs(h, call, w) {
					got[w] = true
				}
			}
		}
	}
	return got, true
}

func c13CheckPipelineValidate(c *core.Ctx, g *c13Graph) (bool, string) {
	want := []string{"pkg/filters.NewSpec", "pkg/resilience.NewPolicy"}
	got, ok := c13CallsIn(c, "pkg/object/pipeline", "Spec", "Validate", want...)
	if !ok {
		return false, "pipeline Spec.Validate not found"
	}
	for _, w := range want {
		if !got[w] {
			return false, "pipeline Spec.Validate no longer calls " + w + ": a spec it accepts makes the same constructor fail (and Pipeline.reload panic) at Init"
		}
	}
	return true, "Spec.Validate calls filters.NewSpec and resilience.NewPolicy"
}

func c13CheckGlobalFilterValidate(c *core.Ctx, g *c13Graph) (bool, string) {
	f := fn(c, "pkg/object/globalfilter", "Spec", "Validate")
	if f == nil {
		return false, "globalfilter Spec.Validate not found"
	}
	before := structField(c, "pkg/object/globalfilter", "Spec", "BeforePipeline")
	after := structField(c, "pkg/object/globalfilter", "Spec", "AfterPipeline")
	seen := map[*types.Var]bool{}
	fieldOf := func(h *flow.Func, e ast.Expr) *types.Var {
		e = ast.Unparen(e)
		if u, ok := e.(*ast.UnaryExpr); ok && u.Op == token.AND {
			e = ast.Unparen(u.X)
		}
		if inner, ok := e.(*ast.SelectorExpr); ok {
			if s := h.Info.Selections[inner]; s != nil {
				if v, ok := s.Obj().(*types.Var); ok {
					return v
				}
			}
		}
		return nil
	}
	// direct: s.BeforePipeline.Validate(); through a helper: validate(&s.BeforePipeline) where the
	// helper (same package) calls pipeline.Spec.Validate on its parameter
	helpers := map[types.Object]bool{}
	rs := reach(f, 3)
	for _, h := range rs {
		for _, call := range calls(h.Body, true) {
			if !calleeIs(h, call, "(*pkg/object/pipeline.Spec).Validate") {
				continue
			}
			if sel, ok := ast.Unparen(call.Fun).(*ast.SelectorExpr); ok {
				if v := fieldOf(h, sel.X); v != nil {
					seen[v] = true
				} else if fd, ok := h.Node.(*ast.FuncDecl); ok && h != rs[0] {
					helpers[h.Info.Defs[fd.Name]] = true
				}
			}
		}
	}
	for _, h := range rs {
		for _, call := range calls(h.Body, true) {
			if !helpers[h.Callee(call)] {
				continue
			}
			for _, a := range call.Args {
				if v := fieldOf(h, a); v != nil {
					seen[v] = true
				}
			}
		}
	}
	if before == nil || after == nil || !seen[before] || !seen[after] {
		return false, "globalfilter Spec.Validate does not validate both BeforePipeline and AfterPipeline with pipeline.Spec.Validate"
	}
	return true, "Spec.Validate calls pipeline.Spec.Validate on BeforePipeline and AfterPipeline"
}

// c13CheckBuilderRecover: every Handle method in pkg/filters/builder is a recover barrier.
func c13CheckBuilderRecover(c *core.Ctx, g *c13Graph) (bool, string) {
	n := 0
	for _, node := range g.nodes {
		if node.decl == nil || relPkg(node.pkg.PkgPath) != "pkg/filters/builder" || node.decl.Name.Name != "Handle" || node.decl.Recv == nil {
			continue
		}
		n++
		if node.barrier == token.NoPos {
			return false, node.name + " has no deferred recover(): a panicking template function would propagate"
		}
	}
	if n == 0 {
		return false, "no Handle method found in pkg/filters/builder"
	}
	return true, sprintf("%d builder Handle methods recover", n)
}

// c13CheckSetPayloadArgs: static types of all SetPayload arguments.
func c13CheckSetPayloadArgs(c *core.Ctx, g *c13Graph) (bool, string) {
	var readerI *types.Interface
	if p := c.Prog.All["io"]; p != nil {
		if o := p.Types.Scope().Lookup("Reader"); o != nil {
			readerI, _ = o.Type().Underlying().(*types.Interface)
		}
	}
	if readerI == nil {
		return false, "io.Reader not resolved"
	}
	bad := ""
	n := 0
	c13EachBody(c, func(f *flow.Func, name string) {
		for _, call := range calls(f.Body, true) {
			sel, ok := ast.Unparen(call.Fun).(*ast.SelectorExpr)
			if !ok || sel.Sel.Name != "SetPayload" || len(call.Args) != 1 {
				continue
			}
			full := strings.ReplaceAll(calleeFull(f, call), Mod, "")
			httpRecv := full == "(*"+c13HTTP+".Request).SetPayload" || full == "(*"+c13HTTP+".Response).SetPayload"
			anyRecv := full == "("+c13Proto+".Request).SetPayload" || full == "("+c13Proto+".Response).SetPayload" ||
				strings.HasPrefix(full, "(*pkg/protocols/mqttprot.")
			if !httpRecv && !anyRecv {
				continue
			}
			n++
			okType := func(e ast.Expr) (bool, types.Type) {
				tv := f.Info.Types[e]
				t := tv.Type
				switch {
				case t == nil:
				case tv.IsNil():
					return httpRecv, t
				case c13IsByteSlice(t):
					return true, t
				case httpRecv && c13IsString(t):
					return true, t
				case httpRecv && !c13IsEmptyInterface(t) && types.Implements(t, readerI):
					return true, t
				}
				return false, t
			}
			okArg, t := okType(call.Args[0])
			// a local of interface type that collects the payload (`var payload interface{} = zr;
			// ...; payload = data; x.SetPayload(payload)`): every value assigned to it must qualify
			if id, isID := ast.Unparen(call.Args[0]).(*ast.Ident); !okArg && isID && t != nil && types.IsInterface(t) {
				if v, isVar := f.Info.Uses[id].(*types.Var); isVar && !v.IsField() && v.Pkg() != nil && v.Parent() != v.Pkg().Scope() {
					nAssign, allOK := 0, true
					ast.Inspect(f.Body, func(x ast.Node) bool {
						switch st := x.(type) {
						case *ast.AssignStmt:
							for i, l := range st.Lhs {
								lid, ok := ast.Unparen(l).(*ast.Ident)
								if !ok || (f.Info.Defs[lid] != v && f.Info.Uses[lid] != v) {
									continue
								}
								nAssign++
								if len(st.Lhs) != len(st.Rhs) {
									allOK = false
								} else if ok2, _ := okType(st.Rhs[i]); !ok2 {
									allOK = false
								}
							}
						case *ast.ValueSpec:
							for i, nm := range st.Names {
								if f.Info.Defs[nm] != v {
									continue
								}
								nAssign++
								if len(st.Values) != len(st.Names) {
									allOK = false // zero value of an interface: nil, only valid for HTTP
									if len(st.Values) == 0 && httpRecv {
										allOK = true
									}
								} else if ok2, _ := okType(st.Values[i]); !ok2 {
									allOK = false
								}
							}
						case *ast.UnaryExpr:
							if aid, ok := ast.Unparen(st.X).(*ast.Ident); ok && st.Op == token.AND && f.Info.Uses[aid] == v {
								allOK = false
							}
						}
						return true
					})
					okArg = nAssign > 0 && allOK
				}
			}
			if !okArg && bad == "" {
				bad = sprintf("%s passes a %s to %s (%s)", name, t, full, pos(c, call))
			}
		}
	})
	if n < 10 {
		return false, sprintf("only %d SetPayload call sites found (expected >= 10)", n)
	}
	if bad != "" {
		return false, bad + ": the type switch in SetPayload panics on it"
	}
	return true, sprintf("%d SetPayload call sites pass nil, []byte, string or an io.Reader (only []byte through the protocols interface)", n)
}

func c13IsByteSlice(t types.Type) bool {
	s, ok := t.Underlying().(*types.Slice)
	if !ok {
		return false
	}
	b, ok := s.Elem().Underlying().(*types.Basic)
	return ok && b.Kind() == types.Byte
}

func c13IsString(t types.Type) bool {
	b, ok := t.Underlying().(*types.Basic)
	return ok && b.Info()&types.IsString != 0
}

func c13IsEmptyInterface(t types.Type) bool {
	i, ok := t.Underlying().(*types.Interface)
	return ok && i.NumMethods() == 0
}

// c13CheckFasttimeLayouts: every call of fasttime.Format passes a constant handled by the switch.
func c13CheckFasttimeLayouts(c *core.Ctx, g *c13Graph) (bool, string) {
	f := fn(c, "pkg/util/fasttime", "", "Format")
	if f == nil {
		return false, "fasttime.Format not found"
	}
	handled := map[string]bool{}
	ast.Inspect(f.Body, func(x ast.Node) bool {
		if cc, ok := x.(*ast.CaseClause); ok {
			for _, e := range cc.List {
				if tv, ok := f.Info.Types[e]; ok && tv.Value != nil && tv.Value.Kind() == constant.Int {
					handled[tv.Value.ExactString()] = true
				}
			}
		}
		return true
	})
	n := 0
	bad := ""
	c13EachBody(c, func(cf *flow.Func, name string) {
		for _, call := range calls(cf.Body, true) {
			if !calleeIs(cf, call, "pkg/util/fasttime.Format") || len(call.Args) != 2 {
				continue
			}
			n++
			tv := cf.Info.Types[call.Args[1]]
			if (tv.Value == nil || !handled[tv.Value.ExactString()]) && bad == "" {
				bad = sprintf("%s calls fasttime.Format with a layout that is not a handled constant (%s)", name, pos(c, call))
			}
		}
	})
	if n == 0 {
		return false, "no call site of fasttime.Format found"
	}
	if bad != "" {
		return false, bad
	}
	return true, sprintf("%d call sites pass a Layout constant handled by the switch", n)
}

// c13IsPurePredicate: the call goes to a function of the same package whose body computes its
// result from its parameters, constants, len() and other such predicates only; spec fields it
// reads through its receiver are added to set. (The caller visits the arguments.)
func c13IsPurePredicate(n *c13Node, sf *c13SpecFields, call *ast.CallExpr, set map[*types.Var]bool, depth int) bool {
	info := n.pkg.TypesInfo
	id := c13CalleeIdent(call)
	if id == nil || depth > 2 {
		return false
	}
	fo, ok := info.Uses[id].(*types.Func)
	if !ok || fo.Pkg() != n.pkg.Types {
		return false
	}
	fd := declOf(n.pkg, fo)
	if fd == nil || fd.Type.Results == nil {
		return false
	}
	params := map[types.Object]bool{}
	for _, fl := range fd.Type.Params.List {
		for _, nm := range fl.Names {
			params[info.Defs[nm]] = true
		}
	}
	var recv types.Object
	if fd.Recv != nil && len(fd.Recv.List) == 1 && len(fd.Recv.List[0].Names) == 1 {
		recv = info.Defs[fd.Recv.List[0].Names[0]]
	}
	callee := &c13Node{pkg: n.pkg, decl: fd, body: fd.Body}
	pure := true
	ast.Inspect(fd.Body, func(x ast.Node) bool {
		if !pure {
			return false
		}
		switch e := x.(type) {
		case *ast.AssignStmt, *ast.IncDecStmt, *ast.GoStmt, *ast.DeferStmt, *ast.SendStmt, *ast.FuncLit, *ast.RangeStmt, *ast.ForStmt:
			pure = false
			return false
		case *ast.SelectorExpr:
			if s := info.Selections[e]; s != nil {
				v, ok := s.Obj().(*types.Var)
				if ok && v.IsField() && sf.isSpec(v.Origin()) {
					// a spec field reached from the receiver or a parameter
					if b := c13RootIdent(e); b != nil && (info.Uses[b] == recv || params[info.Uses[b]]) {
						set[v.Origin()] = true
						return false
					}
				}
				pure = false
				return false
			}
			if tv, ok := info.Types[e]; ok && tv.Value != nil {
				return false
			}
			pure = false
			return false
		case *ast.Ident:
			switch o := info.Uses[e].(type) {
			case nil:
			case *types.Const, *types.Nil, *types.TypeName:
			case *types.Builtin:
				if o.Name() != "len" {
					pure = false
				}
			case *types.Var:
				if !params[o] && o != recv {
					pure = false
				}
			case *types.Func:
				// judged at the call expression
			default:
				pure = false
			}
		case *ast.CallExpr:
			if cid, ok := ast.Unparen(e.Fun).(*ast.Ident); ok {
				if b, ok := info.Uses[cid].(*types.Builtin); ok && b.Name() == "len" {
					return true
				}
			}
			if tv, ok := info.Types[e.Fun]; ok && tv.IsType() {
				return true
			}
			if !c13IsPurePredicate(callee, sf, e, set, depth+1) {
				pure = false
				return false
			}
		}
		return true
	})
	return pure
}
