package rules

import (
	"go/ast"
	"go/token"
	"go/types"

	"golang.org/x/tools/go/cfg"

	"verif/internal/core"
	"verif/internal/flow"
)

// c20SkipLits walks root without descending into function literals.
func c20SkipLits(root ast.Node, visit func(n ast.Node) bool) {
	ast.Inspect(root, func(n ast.Node) bool {
		if n == nil {
			return true
		}
		if _, ok := n.(*ast.FuncLit); ok && n != root {
			return false
		}
		return visit(n)
	})
}

// c20IndexStores returns (map expression, key, value) of every `m[k] = v` in an assignment.
func c20IndexStores(as *ast.AssignStmt) [][3]ast.Expr {
	var out [][3]ast.Expr
	if as.Tok != token.ASSIGN && as.Tok != token.DEFINE {
		return nil
	}
	for i, l := range as.Lhs {
		ix, ok := ast.Unparen(l).(*ast.IndexExpr)
		if !ok {
			continue
		}
		var v ast.Expr
		if len(as.Lhs) == len(as.Rhs) {
			v = as.Rhs[i]
		}
		out = append(out, [3]ast.Expr{ix.X, ix.Index, v})
	}
	return out
}

// c20KindOf: e denotes "the kind of <root>" — a call of a method named Kind declared in the
// supervisor package ((*Spec).Kind, Object.Kind) on a chain rooted at a variable, or a local
// variable defined once from such an expression. Returns the (origin of the) root variable.
func c20KindOf(f *flow.Func, e ast.Expr, depth int) *types.Var {
	e = ast.Unparen(e)
	if call, ok := e.(*ast.CallExpr); ok {
		sel, ok := ast.Unparen(call.Fun).(*ast.SelectorExpr)
		if !ok || sel.Sel.Name != "Kind" {
			return nil
		}
		fnObj, ok := f.Callee(call).(*types.Func)
		if !ok || fnObj.Pkg() == nil || fnObj.Pkg().Path() != Mod+c20sv {
			return nil
		}
		return c20DerivRoot(f, sel.X)
	}
	if sel, ok := e.(*ast.SelectorExpr); ok && sel.Sel.Name == "Kind" {
		// MetaSpec.Kind field
		if fld := c20FieldOf(f, sel); fld != nil && fld.Pkg() != nil && fld.Pkg().Path() == Mod+c20sv {
			return c20DerivRoot(f, sel.X)
		}
		return nil
	}
	if v := c20Var(f, e); v != nil && depth < 3 {
		defs := c20Defs(f, c20DeclNodeOf(f, v), v)
		if len(defs) == 1 && defs[0].rhs != nil {
			return c20KindOf(f, defs[0].rhs, depth+1)
		}
	}
	return nil
}

type c20Atom struct {
	key string
	neg bool
}

func c20Diff(c *core.Ctx) {
	f := fn(c, c20sv, "ObjectRegistry", "applyConfig")
	if f == nil {
		return
	}
	cons := fname(c20sv, "ObjectRegistry", "applyConfig")
	entF := c20EntitiesField(c, "ObjectRegistry")
	evF := map[string]*types.Var{
		"deleted": structField(c, c20sv, "ObjectEntityWatcherEvent", "Delete"),
		"created": structField(c, c20sv, "ObjectEntityWatcherEvent", "Create"),
		"updated": structField(c, c20sv, "ObjectEntityWatcherEvent", "Update"),
	}
	wEntF := c20EntitiesField(c, "ObjectEntityWatcher")
	chanF := c20EventChanField(c)
	if entF == nil || evF["deleted"] == nil || evF["created"] == nil || evF["updated"] == nil || wEntF == nil || chanF == nil {
		return
	}
	// the function that computes the diff: applyConfig itself or a same-package function it calls,
	// recognised by ranging over ObjectRegistry.entities and over one of its own map parameters
	entry := f
	for _, g := range reach(entry, 2) {
		hasEnt, hasParam := false, false
		gfd, _ := g.Node.(*ast.FuncDecl)
		c20SkipLits(g.Body, func(n ast.Node) bool {
			if rs, ok := n.(*ast.RangeStmt); ok {
				if c20FieldVia(g, rs.X) == entF {
					hasEnt = true
				}
				if v := c20Var(g, rs.X); v != nil && c20ParamIndex(g, gfd, v) >= 0 {
					if _, isMap := v.Type().Underlying().(*types.Map); isMap {
						hasParam = true
					}
				}
			}
			return true
		})
		if hasEnt && hasParam {
			f = g
			break
		}
	}
	// the new configuration: the map parameter
	var cfgVar *types.Var
	if f.Type.Params != nil {
		for _, fld := range f.Type.Params.List {
			for _, id := range fld.Names {
				if v, ok := f.Info.Defs[id].(*types.Var); ok {
					if _, isMap := v.Type().Underlying().(*types.Map); isMap {
						cfgVar = v
					}
				}
			}
		}
	}
	if cfgVar == nil {
		c.Errorf("R-C20-2: anchor: %s has no map parameter (the new configuration)", cons)
		return
	}

	// the three classification buckets, by role: the local maps whose entries are copied into
	// event.Delete / event.Create / event.Update
	// (the copy loops may sit in applyConfig itself, in a closure of it, or in a same-package
	// function/method applyConfig hands the three maps to — then the bucket is the argument)
	buckets := map[string]*types.Var{}
	notifyLoops := map[string]*ast.RangeStmt{}
	notifyHost := f
	for _, g := range reach(entry, 3) {
		g := g
		gfd, _ := g.Node.(*ast.FuncDecl)
		ast.Inspect(g.Body, func(n ast.Node) bool {
			rs, ok := n.(*ast.RangeStmt)
			if !ok {
				return true
			}
			if tv, ok := g.Info.Types[rs.X]; !ok || tv.Type == nil || !c20IsEntityMap(tv.Type) {
				return true
			}
			bv := c20Var(g, rs.X)
			isField := false
			if bv == nil {
				// a field of a struct that carries the three maps from the diff to the notification
				if fv := c20FieldOf(g, rs.X); fv != nil && fv != entF && fv != wEntF {
					bv, isField = fv, true
				}
			}
			if bv == nil {
				return true
			}
			role := ""
			ast.Inspect(rs.Body, func(m ast.Node) bool {
				if as, ok := m.(*ast.AssignStmt); ok {
					for _, s := range c20IndexStores(as) {
						fld := c20FieldOf(g, s[0])
						for r, ef := range evF {
							if fld != nil && fld == ef {
								role = r
							}
						}
					}
				}
				return true
			})
			if role == "" {
				return true
			}
			if isField {
				notifyHost = g
			} else if g.Body != f.Body {
				// the ranged map must be a parameter; the bucket is what applyConfig passes for it
				idx := c20ParamIndex(g, gfd, bv)
				gObj, _ := g.Info.Defs[gfd.Name].(*types.Func)
				bv = nil
				if idx >= 0 && gObj != nil {
					for _, h := range reach(entry, 3) {
						for _, call := range calls(h.Body, true) {
							if fo, ok := h.Callee(call).(*types.Func); ok && fo == gObj && idx < len(call.Args) {
								if av := c20Var(h, call.Args[idx]); av != nil {
									bv = c20ThroughResult(f, h, av)
								}
							}
						}
					}
				}
				if bv == nil {
					return true
				}
				notifyHost = g
			}
			buckets[role] = bv
			notifyLoops[role] = rs
			return true
		})
	}
	// callback-iterator form: watcher.forEachWanted(deleted, func(name, entity) { event.Delete[name] = … })
	cbCalls := map[string]*ast.CallExpr{}
	cbLits := map[string]*ast.FuncLit{}
	var cbHost *flow.Func
	for _, g := range reach(entry, 3) {
		g := g
		ast.Inspect(g.Body, func(n ast.Node) bool {
			call, ok := n.(*ast.CallExpr)
			if !ok {
				return true
			}
			var lit *ast.FuncLit
			var bv *types.Var
			for _, a := range call.Args {
				if l, ok := ast.Unparen(a).(*ast.FuncLit); ok {
					lit = l
				} else if tv, ok := g.Info.Types[a]; ok && tv.Type != nil && c20IsEntityMap(tv.Type) {
					if b := c20Bucket(g, a); b != nil && b != entF && b != wEntF {
						bv = b
					}
				}
			}
			if lit == nil || bv == nil {
				return true
			}
			role := ""
			ast.Inspect(lit.Body, func(m ast.Node) bool {
				if as, ok := m.(*ast.AssignStmt); ok {
					for _, st := range c20IndexStores(as) {
						fld := c20FieldOf(g, st[0])
						for r, ef := range evF {
							if fld != nil && fld == ef {
								role = r
							}
						}
					}
				}
				return true
			})
			if role != "" && buckets[role] == nil {
				buckets[role] = bv
				cbCalls[role], cbLits[role] = call, lit
				cbHost = g
			}
			return true
		})
	}
	for _, role := range []string{"deleted", "created", "updated"} {
		if buckets[role] == nil {
			c.Errorf("R-C20-2: anchor: in %s no local map is copied into the watcher event's %s entries", cons, evF[role].Name())
			return
		}
	}
	roleOfVar := func(v *types.Var) string {
		for role, bv := range buckets {
			if v != nil && bv == v {
				return role
			}
		}
		return ""
	}

	// the two classification loops (top level of applyConfig, not in literals)
	var delLoop, cfgLoop *ast.RangeStmt
	c20SkipLits(f.Body, func(n ast.Node) bool {
		rs, ok := n.(*ast.RangeStmt)
		if !ok {
			return true
		}
		if c20FieldVia(f, rs.X) == entF && delLoop == nil {
			delLoop = rs
		}
		if c20Var(f, rs.X) == cfgVar && cfgLoop == nil {
			cfgLoop = rs
		}
		return true
	})
	if delLoop == nil || cfgLoop == nil {
		c.Errorf("R-C20-2: anchor: %s: loop over the registered entities (%v) or over the new configuration (%v) not found", cons, delLoop != nil, cfgLoop != nil)
		return
	}
	delKey, delVal := c20Var(f, delLoop.Key), c20Var(f, delLoop.Value)
	cfgKey := c20Var(f, cfgLoop.Key)
	if delKey == nil || cfgKey == nil {
		c.Errorf("R-C20-2: anchor: %s: classification loops do not bind the object name", cons)
		return
	}

	// --- roles inside the deletion loop
	var memb *c20Lookup // `_, ok := config[name]`
	for _, l := range c20Lookups(f, delLoop.Body) {
		if l.mVar == cfgVar && c20Var(f, l.key) == delKey && l.ok != nil {
			memb = l
		}
	}
	membKey := ""
	if memb != nil {
		membKey = f.VarKey(memb.okID)
	}

	// --- roles inside the configuration loop
	var prevL *c20Lookup // `prev, ok := or.entities[name]`
	for _, l := range c20Lookups(f, cfgLoop.Body) {
		if (l.mField == entF || c20FieldVia(f, l.m) == entF) && c20Var(f, l.key) == cfgKey && prevL == nil {
			prevL = l
		}
	}
	var entVar *types.Var
	var errID *ast.Ident
	var entDef *ast.AssignStmt
	c20SkipLits(cfgLoop.Body, func(n ast.Node) bool {
		as, ok := n.(*ast.AssignStmt)
		if !ok || len(as.Lhs) != 2 || len(as.Rhs) != 1 || entVar != nil {
			return true
		}
		call, ok := ast.Unparen(as.Rhs[0]).(*ast.CallExpr)
		if !ok {
			return true
		}
		tup, ok := f.Info.Types[call].Type.(*types.Tuple)
		if !ok || tup.Len() != 2 || !types.Identical(tup.At(1).Type(), types.Universe.Lookup("error").Type()) {
			return true
		}
		p, ok := tup.At(0).Type().(*types.Pointer)
		if !ok {
			return true
		}
		if n, ok := p.Elem().(*types.Named); !ok || n.Obj().Name() != "ObjectEntity" || n.Obj().Pkg().Path() != Mod+c20sv {
			return true
		}
		entVar = c20Var(f, as.Lhs[0])
		errID, _ = ast.Unparen(as.Lhs[1]).(*ast.Ident)
		entDef = as
		return true
	})
	if entVar == nil {
		c.Errorf("R-C20-2: anchor: %s: construction of the new *ObjectEntity from the configuration text not found in the loop over the configuration", cons)
		return
	}
	errKey := ""
	if errID != nil && errID.Name != "_" {
		errKey = f.NilKey(errID)
	}
	var prevVar *types.Var
	exKey, prevKey := "", ""
	if prevL != nil {
		prevVar = prevL.val
		if prevL.okID != nil && prevL.ok != nil {
			exKey = f.VarKey(prevL.okID)
		}
		if prevL.valID != nil && prevL.val != nil {
			prevKey = f.NilKey(prevL.valID)
		}
		// the outcome variables must not be re-assigned elsewhere (the rule reads their facts)
		for _, v := range []*types.Var{prevL.val, prevL.ok} {
			if v != nil && len(c20Defs(f, cfgLoop.Body, v)) != 1 {
				c.Undecide("R-C20-2", cons+"|updated iff predecessor, created otherwise", pos(c, prevL.stmt), "the result variables of the predecessor lookup are assigned more than once in the loop")
				return
			}
		}
	}
	// Equals(prev.Spec(), new.Spec()) in either direction
	var eqKeys []string
	var kindAtoms []c20Atom
	// collect reads the comparisons in body; mp maps a root variable to the role variable it stands for
	collect := func(body ast.Node, mp func(*types.Var) *types.Var) {
		c20SkipLits(body, func(n ast.Node) bool {
			switch x := n.(type) {
			case *ast.CallExpr:
				if calleeIs(f, x, "(*"+c20sv+".Spec).Equals") && len(x.Args) == 1 && prevVar != nil {
					if sel, ok := ast.Unparen(x.Fun).(*ast.SelectorExpr); ok {
						a, b := mp(c20DerivRoot(f, sel.X)), mp(c20DerivRoot(f, x.Args[0]))
						if (a == prevVar && b == entVar) || (a == entVar && b == prevVar) {
							eqKeys = append(eqKeys, f.CallKey(x))
						}
					}
				}
			case *ast.BinaryExpr:
				if (x.Op == token.EQL || x.Op == token.NEQ) && prevVar != nil {
					a, b := mp(c20KindOf(f, x.X, 0)), mp(c20KindOf(f, x.Y, 0))
					if (a == prevVar && b == entVar) || (a == entVar && b == prevVar) {
						// the key is the positive fact "kinds are equal" whatever the operator
						k, _ := f.Atom(x)
						kindAtoms = append(kindAtoms, c20Atom{k, false})
					}
				}
			}
			return true
		})
	}
	collect(cfgLoop.Body, func(v *types.Var) *types.Var { return v })
	// predicates: a same-package function called in the loop with the predecessor and the new entity
	// (kindChanged(prev, entity), unchanged(prev, entity)) is read with its parameters standing for
	// the arguments and interpreted in place by the engine (facts in the parameters' vocabulary)
	predicates := map[*types.Func]bool{}
	closures := false // a predicate closure must be interpreted in place
	unreadable := 0   // calls taking both entities that the rule cannot read as a comparison
	c20SkipLits(cfgLoop.Body, func(n ast.Node) bool {
		call, ok := n.(*ast.CallExpr)
		if !ok || prevVar == nil {
			return true
		}
		// does the call take both the predecessor and the new entity?
		both := map[*types.Var]bool{}
		for _, a := range call.Args {
			both[c20DerivRoot(f, a)] = true
		}
		if sel, ok := ast.Unparen(call.Fun).(*ast.SelectorExpr); ok {
			both[c20DerivRoot(f, sel.X)] = true
		}
		if !both[prevVar] || !both[entVar] || calleeIs(f, call, "(*"+c20sv+".Spec).Equals") {
			return true
		}
		// a closure held in a single-assignment local
		if lit, ok := f.FuncValue(call.Fun).(*ast.FuncLit); ok && lit.Type.Params != nil {
			bind := map[*types.Var]*types.Var{}
			j := 0
			for _, fld := range lit.Type.Params.List {
				for _, id := range fld.Names {
					if j < len(call.Args) {
						if r := c20DerivRoot(f, call.Args[j]); r == prevVar || r == entVar {
							if pv, ok := f.Info.Defs[id].(*types.Var); ok {
								bind[pv] = r
							}
						}
					}
					j++
				}
			}
			before := len(eqKeys) + len(kindAtoms)
			collect(lit.Body, func(v *types.Var) *types.Var { return bind[v] })
			if len(eqKeys)+len(kindAtoms) > before {
				closures = true
			} else {
				unreadable++
			}
			return true
		}
		fo, ok := f.Callee(call).(*types.Func)
		if !ok || fo.Pkg() != f.Pkg.Types {
			unreadable++
			return true
		}
		gfd := declOf(f.Pkg, fo)
		if gfd == nil {
			unreadable++
			return true
		}
		g := flow.NewFunc(f.Pkg, gfd)
		bind := map[*types.Var]*types.Var{}
		for i, a := range call.Args {
			r := c20DerivRoot(f, a)
			if r != prevVar && r != entVar {
				continue
			}
			j := 0
			if gfd.Type.Params != nil {
				for _, fld := range gfd.Type.Params.List {
					for _, id := range fld.Names {
						if j == i {
							if pv, ok := g.Info.Defs[id].(*types.Var); ok {
								bind[pv] = r
							}
						}
						j++
					}
				}
			}
		}
		if sel, ok := ast.Unparen(call.Fun).(*ast.SelectorExpr); ok && gfd.Recv != nil && len(gfd.Recv.List) == 1 && len(gfd.Recv.List[0].Names) == 1 {
			if r := c20DerivRoot(f, sel.X); r == prevVar || r == entVar {
				if pv, ok := g.Info.Defs[gfd.Recv.List[0].Names[0]].(*types.Var); ok {
					bind[pv] = r
				}
			}
		}
		if len(bind) < 2 {
			return true
		}
		before := len(eqKeys) + len(kindAtoms)
		collect(gfd.Body, func(v *types.Var) *types.Var { return bind[v] })
		if len(eqKeys)+len(kindAtoms) > before {
			predicates[fo] = true
		} else {
			unreadable++
		}
		return true
	})
	c.Count("R-C20-2:Equals guards between predecessor and new spec", len(eqKeys))
	c.Count("R-C20-3:kind comparisons between predecessor and new entity", len(kindAtoms))

	// --- static well-formedness of the stores (right key, right value)
	var static c20Finding
	checkStore := func(as *ast.AssignStmt, what string, k, v ast.Expr, wantK, wantV *types.Var, breaks string) {
		static.n++
		if c20Var(f, k) != wantK {
			static.fail(nil, as, what+" is stored under a key that is not the name being classified: "+breaks)
		} else if wantV != nil && (v == nil || c20Var(f, v) != wantV) {
			static.fail(nil, as, what+" stores a value that is not the "+wantV.Name()+" of this iteration: "+breaks)
		}
	}

	// --- the path-sensitive run
	const (
		evInD, evInC = "ev:in:del", "ev:in:cfg"
		evDel, evEDl = "ev:deleted", "ev:entities-removed"
		evCre, evUpd = "ev:created", "ev:updated"
		evEnt, evDlp = "ev:entities-set", "ev:deleted-prev"
	)
	var fDel, fBuild, fSame, fClass, fReg, fDrop, fKind c20Finding
	tri := func(st *flow.State, keys []string) flow.Val {
		for _, k := range keys {
			if v := st.Get(k); v != flow.Unknown {
				return v
			}
		}
		return flow.Unknown
	}
	kindSame := func(st *flow.State) flow.Val {
		for _, a := range kindAtoms {
			if v := c20Tri(st, a.key, a.neg); v != flow.Unknown {
				return v
			}
		}
		return flow.Unknown
	}
	// predecessor status: pointer nil-ness is the more specific fact, then the comma-ok flag
	hasPrev := func(st *flow.State) flow.Val {
		if prevKey != "" {
			switch st.Get(prevKey) {
			case flow.True:
				return flow.False
			case flow.False:
				return flow.True
			}
		}
		if exKey != "" {
			return st.Get(exKey)
		}
		return flow.Unknown
	}
	endDel := func(st *flow.State) {
		fDel.n++
		absent := flow.Unknown
		if membKey != "" {
			absent = c20Tri(st, membKey, true)
		}
		del, rem := st.Is(evDel, flow.True), st.Is(evEDl, flow.True)
		switch {
		case (del || rem) && absent != flow.True:
			fDel.fail(st, delLoop, "a registered object is filed under 'deleted' / removed from entities without its name having been found absent from the new configuration: objects that are still configured get closed")
		case absent == flow.True && !del:
			fDel.fail(st, delLoop, "a name that disappeared from the configuration is not filed under 'deleted': its object is never closed (listeners, goroutines and ports leak)")
		case absent == flow.True && !rem:
			fDel.fail(st, delLoop, "a name that disappeared from the configuration stays in ObjectRegistry.entities: it is reported deleted again on every sync and a later re-appearance is classified 'updated' with a closed predecessor")
		case absent == flow.Unknown:
			fDel.fail(st, delLoop, "an iteration over the registered objects ends without having tested whether the name is still in the new configuration")
		}
	}
	endCfg := func(st *flow.State) {
		if st.Is("ev:infeasible", flow.True) {
			return
		}
		fBuild.n++
		cre, upd := st.Is(evCre, flow.True), st.Is(evUpd, flow.True)
		ent, dlp := st.Is(evEnt, flow.True), st.Is(evDlp, flow.True)
		any := cre || upd || ent || dlp
		built := flow.Unknown
		if errKey != "" {
			built = st.Get(errKey)
		}
		prev := hasPrev(st)
		same := tri(st, eqKeys)
		// a. failed build touches nothing
		if any && built != flow.True {
			fBuild.fail(st, entDef, "the registry is modified although the spec has not been established to build (err == nil): a nil/half-built entity is registered and handed to the watchers instead of leaving the live entry untouched")
		}
		// b. unchanged spec touches nothing
		if any && prev == flow.True && same != flow.False {
			fSame.fail(st, cfgLoop, "an object whose predecessor exists is re-classified without Spec.Equals(previous, new) having returned false: unchanged objects are inherited again on every sync (once a minute) instead of being left untouched")
		}
		// c/d/e. classification by predecessor
		switch {
		case upd && prev != flow.True:
			fClass.fail(st, cfgLoop, "a name is filed under 'updated' without an established predecessor: handleEvent logs 'update not found' and the new object is never initialised")
		case cre && prev == flow.Unknown:
			fClass.fail(st, cfgLoop, "a name is filed under 'created' on a path that never looked at the predecessor")
		case cre && prev == flow.True && !(dlp && kindSame(st) == flow.False):
			fClass.fail(st, cfgLoop, "a name that has a live predecessor is filed under 'created' (and not as a kind change with the predecessor under 'deleted'): the handlers refuse it as 'already existed' / overwrite the live object without Inherit or Close")
		case dlp && !(cre && prev == flow.True):
			fClass.fail(st, cfgLoop, "the predecessor is filed under 'deleted' without the new entity being filed under 'created': the name disappears although it is configured")
		case cre && upd:
			fClass.fail(st, cfgLoop, "a name is filed under both 'created' and 'updated': it is initialised and then inherited from itself")
		}
		// f. registered ⇔ classified
		if ent != (cre || upd) {
			if ent {
				fReg.fail(st, cfgLoop, "entities[name] is replaced without the name being filed under 'created' or 'updated': no watcher ever learns of the new generation, the live object keeps the old spec forever")
			} else {
				fReg.fail(st, cfgLoop, "a name is filed under 'created'/'updated' but entities[name] keeps the old entity: the next sync compares against the stale spec and re-applies (or misses) the change")
			}
		}
		// g. nothing dropped
		if !any && !(built == flow.False || (prev == flow.True && same == flow.True)) {
			fDrop.fail(st, cfgLoop, "an iteration ends without classifying a name although neither the build failed nor the spec was found unchanged: a new or changed object is silently dropped")
		}
		// R-C20-3
		if upd {
			fKind.n++
			if kindSame(st) != flow.True {
				fKind.fail(st, cfgLoop, "a name is filed under 'updated' without the previous and the new kind having been compared equal: when the kind of a name changes, the new object's Inherit type-asserts the old instance to its own type and panics (recovered by InheritWithRecovery), an uninitialised object is registered as live and the old object is never closed; if the category changes too, the two handlers disagree about the name")
			}
		}
	}

	res := analyze(c, f, flow.Config{
		Inline:         inlineIf(f, func(callee *types.Func, g *flow.Func) bool { return predicates[callee] }),
		InlineClosures: closures,
		OnBlock: func(st *flow.State, b *cfg.Block) {
			switch b.Stmt {
			case ast.Stmt(delLoop):
				switch b.Kind {
				case cfg.KindRangeBody:
					st.Set(evInD, flow.True)
					st.Set(evDel, flow.False)
					st.Set(evEDl, flow.False)
					if membKey != "" {
						st.Set(membKey, flow.Unknown)
					}
				case cfg.KindRangeLoop:
					if st.Is(evInD, flow.True) {
						endDel(st)
					}
					st.Set(evInD, flow.Unknown)
					st.Set(evDel, flow.Unknown)
					st.Set(evEDl, flow.Unknown)
				}
			case ast.Stmt(cfgLoop):
				switch b.Kind {
				case cfg.KindRangeBody:
					st.Set(evInC, flow.True)
					for _, k := range []string{evCre, evUpd, evEnt, evDlp} {
						st.Set(k, flow.False)
					}
					st.Set("ev:infeasible", flow.Unknown)
					for _, k := range append([]string{errKey, exKey, prevKey}, eqKeys...) {
						if k != "" {
							st.Set(k, flow.Unknown)
						}
					}
					for _, a := range kindAtoms {
						st.Set(a.key, flow.Unknown)
					}
				case cfg.KindRangeLoop:
					if st.Is(evInC, flow.True) {
						endCfg(st)
					}
					for _, k := range []string{evInC, evCre, evUpd, evEnt, evDlp, "ev:infeasible"} {
						st.Set(k, flow.Unknown)
					}
				}
			}
		},
		OnNode: func(st *flow.State, n ast.Node) {
			as, ok := n.(*ast.AssignStmt)
			if !ok {
				return
			}
			if prevL != nil && as == prevL.stmt {
				for _, k := range []string{exKey, prevKey} {
					if k != "" {
						st.Set(k, flow.Unknown)
					}
				}
			}
			inDel, inCfg := contains(delLoop.Body, as), contains(cfgLoop.Body, as)
			for _, s := range c20IndexStores(as) {
				if c20FieldVia(f, s[0]) == entF && inCfg {
					st.Set(evEnt, flow.True)
				}
				switch roleOfVar(c20Bucket(f, s[0])) {
				case "deleted":
					if inDel {
						st.Set(evDel, flow.True)
					}
					if inCfg {
						st.Set(evDlp, flow.True)
					}
				case "created":
					if inCfg {
						st.Set(evCre, flow.True)
					}
				case "updated":
					if inCfg {
						st.Set(evUpd, flow.True)
					}
				}
			}
		},
		OnCall: func(st *flow.State, call *ast.CallExpr, callee types.Object, deferred bool) {
			if b, ok := callee.(*types.Builtin); ok && b.Name() == "delete" && len(call.Args) == 2 {
				if c20FieldVia(f, call.Args[0]) == entF && contains(delLoop.Body, call) {
					st.Set(evEDl, flow.True)
				}
			}
		},
		AfterAssume: func(st *flow.State, cond ast.Expr, outcome bool) {
			// language fact about `v, ok := m[k]`: !ok ⇒ v == nil (zero value)
			if exKey == "" || prevKey == "" {
				return
			}
			ex, pn := st.Get(exKey), st.Get(prevKey)
			switch {
			case ex == flow.False && pn == flow.Unknown:
				st.Set(prevKey, flow.True)
			case pn == flow.False && ex == flow.Unknown:
				st.Set(exKey, flow.True)
			case ex == flow.False && pn == flow.False:
				st.Set("ev:infeasible", flow.True)
			}
		},
	})
	if res == nil {
		return
	}

	// static store checks (all stores in both loops) + stores outside the loops
	c20SkipLits(f.Body, func(n ast.Node) bool {
		switch x := n.(type) {
		case *ast.AssignStmt:
			inDel, inCfg := contains(delLoop.Body, x), contains(cfgLoop.Body, x)
			for _, s := range c20IndexStores(x) {
				role := roleOfVar(c20Bucket(f, s[0]))
				isEnt := c20FieldVia(f, s[0]) == entF
				switch {
				case role == "" && !isEnt:
				case inDel && role == "deleted":
					checkStore(x, "the 'deleted' entry", s[1], s[2], delKey, delVal, "the handlers close the wrong object (or look the name up in vain)")
				case inCfg && role == "deleted":
					checkStore(x, "the 'deleted' entry of a kind change", s[1], s[2], cfgKey, prevVar, "the old object of the changed kind is not the one that gets closed")
				case inCfg && (role == "created" || role == "updated"):
					checkStore(x, "the '"+role+"' entry", s[1], s[2], cfgKey, entVar, "the watchers receive the previous generation instead of the new one (Inherit(prev, prev) / the change is lost)")
				case inCfg && isEnt:
					checkStore(x, "entities[name]", s[1], s[2], cfgKey, entVar, "the registry keeps the previous generation as the latest snapshot")
				default:
					static.n++
					static.fail(nil, x, "a classification map / ObjectRegistry.entities is written outside the role the diff gives it (deleted in the loop over registered objects; created, updated and entities in the loop over the configuration)")
				}
			}
		case *ast.CallExpr:
			if b, ok := f.Callee(x).(*types.Builtin); ok && b.Name() == "delete" && len(x.Args) == 2 && c20FieldVia(f, x.Args[0]) == entF {
				static.n++
				if !contains(delLoop.Body, x) || c20Var(f, x.Args[1]) != delKey {
					static.fail(nil, x, "ObjectRegistry.entities loses an entry that is not the disappeared name of the deletion loop")
				}
			}
		}
		return true
	})

	c.RequireCount("R-C20-2", "abstract iteration ends of the deletion loop", fDel.n, 2)
	c.RequireCount("R-C20-2", "abstract iteration ends of the configuration loop", fBuild.n, 4)
	fSame.n, fClass.n, fReg.n, fDrop.n = fBuild.n, fBuild.n, fBuild.n, fBuild.n
	if memb == nil {
		fDel.why = ""
		fDel.fail(nil, delLoop, "the loop over the registered objects does not test membership of the name in the new configuration (`_, ok := config[name]`): deletion does not depend on the name having disappeared")
	}
	if prevL == nil {
		fClass.why = ""
		fClass.fail(nil, cfgLoop, "the loop over the configuration does not look the name up in ObjectRegistry.entities: created/updated cannot depend on the existence of a predecessor")
	}
	fDel.report(c, "R-C20-2", cons+"|deleted iff registered and absent from config", delLoop,
		sprintf("%d abstract iteration ends: absent ⇒ filed under deleted and removed from entities; present ⇒ untouched", fDel.n))
	fBuild.report(c, "R-C20-2", cons+"|failed spec leaves entry untouched", cfgLoop,
		sprintf("%d abstract iteration ends: every map write happens with err == nil established", fBuild.n))
	if fSame.why != "" && len(eqKeys) == 0 && unreadable > 0 {
		c.Undecide("R-C20-2", cons+"|unchanged spec is skipped", pos(c, cfgLoop), "the predecessor and the new entity are compared by a function the rule cannot read (no Spec.Equals between them found)")
		fSame.why = ""
	} else {
		fSame.report(c, "R-C20-2", cons+"|unchanged spec is skipped", cfgLoop,
			sprintf("%d abstract iteration ends: with a predecessor, every map write happens after Equals(previous, new) returned false (%d guard call(s))", fSame.n, len(eqKeys)))
	}
	// a comparison of the two entities hidden in a function the rule cannot read leaves the table blind
	blind := unreadable > 0 && (len(eqKeys) == 0 || len(kindAtoms) == 0)
	for _, fd := range []*c20Finding{&fClass, &fDrop} {
		if blind && fd.why != "" {
			c.Undecide("R-C20-2", cons+"|classification (comparison in an unreadable function)", pos(c, cfgLoop), "the predecessor and the new entity are compared by a function the rule cannot read; the decision table cannot be completed")
			fd.why = ""
		}
	}
	fClass.report(c, "R-C20-2", cons+"|updated iff predecessor, created otherwise", cfgLoop,
		sprintf("%d abstract iteration ends: updated ⇒ predecessor; created ⇒ no predecessor or kind change with predecessor deleted", fClass.n))
	fReg.report(c, "R-C20-2", cons+"|classified entity is registered", cfgLoop,
		sprintf("%d abstract iteration ends: entities[name] set ⇔ filed under created/updated", fReg.n))
	fDrop.report(c, "R-C20-2", cons+"|new or changed spec is classified", cfgLoop,
		sprintf("%d abstract iteration ends: no classification only after a build error or an unchanged spec", fDrop.n))
	static.report(c, "R-C20-2", cons+"|stores use the classified name and entity", cfgLoop,
		sprintf("%d stores/removals checked: key = loop name, value = new entity (old entity for deletions)", static.n))
	if fKind.n == 0 && fKind.why == "" {
		// no path files anything under "updated": then no object is ever inherited — that is R-C20-2's business
		c.Discharge("R-C20-3", cons+"|updated only for equal kinds", pos(c, cfgLoop), "no path files a name under 'updated'")
	} else if fKind.why != "" && len(kindAtoms) == 0 && unreadable > 0 {
		c.Undecide("R-C20-3", cons+"|updated only for equal kinds", pos(c, cfgLoop), "the predecessor and the new entity are compared by a function the rule cannot read (no comparison of their kinds found)")
	} else {
		fKind.report(c, "R-C20-3", cons+"|updated only for equal kinds", cfgLoop,
			sprintf("%d abstract iteration ends file a name under 'updated', all with previous kind == new kind established (%d comparison(s))", fKind.n, len(kindAtoms)))
	}

	if len(cbCalls) == 3 {
		c20NotifyCallbacks(c, cbHost, cons, cbCalls, cbLits, evF, wEntF, chanF)
		return
	}
	if len(cbCalls) > 0 {
		c.Undecide("R-C20-2", cons+"|watcher view follows events", pos(c, cfgLoop), "the per-watcher notification mixes range loops and callback iterators")
		return
	}
	c20Notify(c, notifyHost, cons, buckets, notifyLoops, evF, wEntF, chanF)
}

// c20NotifyCallbacks is c20Notify for the callback-iterator form: each class is handed, with a
// function literal, to a same-package iterator that ranges over the map and calls the literal for
// the entries (possibly filtered). Same three obligations, same construct keys.
func c20NotifyCallbacks(c *core.Ctx, host *flow.Func, cons string, cbCalls map[string]*ast.CallExpr, cbLits map[string]*ast.FuncLit,
	evF map[string]*types.Var, wEntF, chanF *types.Var) {
	roles := []string{"deleted", "created", "updated"}
	// the iterator: ranges over its map parameter and calls its func parameter with the loop's key and value
	for _, r := range roles {
		call := cbCalls[r]
		fo, _ := host.Callee(call).(*types.Func)
		var hfd *ast.FuncDecl
		if fo != nil && fo.Pkg() == host.Pkg.Types {
			hfd = declOf(host.Pkg, fo)
		}
		okIter := false
		if hfd != nil {
			h := flow.NewFunc(host.Pkg, hfd)
			ast.Inspect(hfd.Body, func(n ast.Node) bool {
				rs, ok := n.(*ast.RangeStmt)
				if !ok || c20ParamIndex(h, hfd, c20Var(h, rs.X)) < 0 || rs.Value == nil {
					return true
				}
				k, v := c20Var(h, rs.Key), c20Var(h, rs.Value)
				for _, cc := range calls(rs.Body, false) {
					if pv := c20Var(h, cc.Fun); pv != nil && c20ParamIndex(h, hfd, pv) >= 0 && len(cc.Args) == 2 &&
						c20Var(h, cc.Args[0]) == k && c20Var(h, cc.Args[1]) == v && k != nil && len(enclosingLoops(rs.Body, cc)) == 0 {
						okIter = true
					}
				}
				return true
			})
		}
		if !okIter {
			c.Undecide("R-C20-2", cons+"|watcher view follows events", pos(c, call), "the "+r+" objects are handed to a helper with a function literal, but the helper is not recognisable as an iterator over the map (range over its map parameter calling its func parameter with key and value)")
			return
		}
	}
	// the function (literal) holding the three calls
	g := host
	var outer *ast.FuncLit
	ast.Inspect(host.Body, func(n ast.Node) bool {
		if l, ok := n.(*ast.FuncLit); ok && contains(l, cbCalls["deleted"]) && l != cbLits["deleted"] {
			outer = l
		}
		return true
	})
	if outer != nil {
		g = host.Lit(outer)
	}
	for _, r := range roles {
		if !contains(g.Body, cbCalls[r]) {
			c.Undecide("R-C20-2", cons+"|watcher view follows events", pos(c, cbCalls[r]), "the three per-watcher iterator calls are not in the same function (literal)")
			return
		}
	}
	var fView, fOrder, fSend c20Finding
	// per class: inside the literal the event entry and the watcher's view move together
	for _, r := range roles {
		lit := cbLits[r]
		lf := host.Lit(lit)
		var pk, pv *types.Var
		if ps := lit.Type.Params; ps != nil {
			var ids []*ast.Ident
			for _, fl := range ps.List {
				ids = append(ids, fl.Names...)
			}
			if len(ids) == 2 {
				pk, _ = lf.Info.Defs[ids[0]].(*types.Var)
				pv, _ = lf.Info.Defs[ids[1]].(*types.Var)
			}
		}
		res := analyze(c, lf, flow.Config{
			NoHavoc: true,
			OnNode: func(st *flow.State, n ast.Node) {
				if as, ok := n.(*ast.AssignStmt); ok {
					for _, s := range c20IndexStores(as) {
						fld := c20FieldOf(lf, s[0])
						if fld == evF[r] {
							st.Set("ev:event", flow.True)
						}
						if fld == wEntF {
							st.Set("ev:view", flow.True)
						}
					}
				}
			},
			OnCall: func(st *flow.State, call *ast.CallExpr, callee types.Object, deferred bool) {
				if b, ok := callee.(*types.Builtin); ok && b.Name() == "delete" && len(call.Args) == 2 && c20FieldOf(lf, call.Args[0]) == wEntF {
					st.Set("ev:view", flow.True)
				}
			},
		})
		if res == nil {
			return
		}
		for _, ex := range res.Exits {
			if ex.Kind != flow.ExitReturn {
				continue
			}
			fView.n++
			if ex.State.Is("ev:event", flow.True) != ex.State.Is("ev:view", flow.True) {
				fView.fail(ex.State, lit, "for a "+r+" object the watcher's event and the watcher's own entities map do not move together: Entities() diverges from the events the watcher has delivered")
			}
		}
		ast.Inspect(lit.Body, func(n ast.Node) bool {
			switch x := n.(type) {
			case *ast.AssignStmt:
				for _, s := range c20IndexStores(x) {
					fld := c20FieldOf(lf, s[0])
					if fld == evF[r] || fld == wEntF {
						if pk == nil || c20Var(lf, s[1]) != pk || s[2] == nil || c20Var(lf, s[2]) != pv {
							fView.fail(nil, x, "the "+r+" callback of the watcher notification stores a name/entity other than the one it is called with")
						}
						if r == "deleted" && fld == wEntF {
							fView.fail(nil, x, "a deleted object is written into the watcher's entities instead of being removed")
						}
					}
				}
			case *ast.CallExpr:
				if b, ok := lf.Callee(x).(*types.Builtin); ok && b.Name() == "delete" && len(x.Args) == 2 && c20FieldOf(lf, x.Args[0]) == wEntF {
					if r != "deleted" || c20Var(lf, x.Args[1]) != pk {
						fView.fail(nil, x, "the watcher's entities map loses an entry that is not the deleted name")
					}
				}
			}
			return true
		})
	}
	// order of the three classes and the send
	roleOfCall := map[*ast.CallExpr]string{}
	for _, r := range roles {
		roleOfCall[cbCalls[r]] = r
	}
	var sends []*ast.SendStmt
	res := analyze(c, g, flow.Config{
		NoHavoc: true,
		OnCall: func(st *flow.State, call *ast.CallExpr, callee types.Object, deferred bool) {
			r := roleOfCall[call]
			if r == "" {
				return
			}
			if r == "created" {
				fOrder.n++
				if !st.Is("ev:done:deleted", flow.True) {
					fOrder.fail(st, call, "the watcher applies creations before the deletions of the same snapshot are finished: a name that is deleted and re-created in one snapshot (kind change) ends up removed from the watcher's view")
				}
			}
			st.Set("ev:done:"+r, flow.True)
		},
		OnNode: func(st *flow.State, n ast.Node) {
			if x, ok := n.(*ast.SendStmt); ok && c20FieldOf(g, x.Chan) == chanF {
				fSend.n++
				for _, r := range roles {
					if !st.Is("ev:done:"+r, flow.True) {
						fSend.fail(st, x, "the watcher event is sent before the "+r+" objects of the snapshot were collected: they are never delivered to the handler")
					}
				}
			}
		},
	})
	if res == nil {
		return
	}
	ast.Inspect(g.Body, func(n ast.Node) bool {
		if x, ok := n.(*ast.SendStmt); ok && c20FieldOf(g, x.Chan) == chanF {
			sends = append(sends, x)
		}
		return true
	})
	c.RequireCount("R-C20-2", "abstract ends of the three per-watcher callbacks", fView.n, 3)
	fView.report(c, "R-C20-2", cons+"|watcher view follows events", cbCalls["deleted"],
		sprintf("%d abstract callback ends: event entry set ⇔ watcher.entities updated", fView.n))
	fOrder.report(c, "R-C20-2", cons+"|watcher applies deletions before creations", cbCalls["created"],
		sprintf("%d states reach the creation iterator, all after the deletion iterator", fOrder.n))
	if len(sends) == 0 || fSend.n == 0 {
		c.Violate("R-C20-2", cons+"|event sent after all classes", pos(c, cbCalls["updated"]), "the collected event is never sent on the watcher's channel: no handler ever reconciles the snapshot")
	} else {
		fSend.report(c, "R-C20-2", cons+"|event sent after all classes", sends[0],
			sprintf("%d states reach the send, all after the three iterators", fSend.n))
	}
}

// c20Notify checks the per-watcher part of applyConfig: for every class the event map and the
// watcher's own view move together, deletions are applied before creations, and the event is
// sent after all three classes were collected.
func c20Notify(c *core.Ctx, f *flow.Func, cons string, buckets map[string]*types.Var, loops map[string]*ast.RangeStmt,
	evF map[string]*types.Var, wEntF, chanF *types.Var) {
	roles := []string{"deleted", "created", "updated"}
	// the function (literal) that contains the three loops
	g := f
	var lit *ast.FuncLit
	ast.Inspect(f.Body, func(n ast.Node) bool {
		if l, ok := n.(*ast.FuncLit); ok && contains(l, loops["deleted"]) {
			lit = l // innermost wins (Inspect goes outside-in)
		}
		return true
	})
	if lit != nil {
		g = f.Lit(lit)
	}
	for _, r := range roles {
		if !contains(g.Body, loops[r]) {
			c.Undecide("R-C20-2", cons+"|watcher view follows events", pos(c, loops[r]), "the three per-watcher loops are not in the same function (literal)")
			return
		}
	}
	roleOfLoop := func(s ast.Stmt) string {
		for _, r := range roles {
			if ast.Stmt(loops[r]) == s {
				return r
			}
		}
		return ""
	}
	var sends []*ast.SendStmt
	ast.Inspect(g.Body, func(n ast.Node) bool {
		if s, ok := n.(*ast.SendStmt); ok && c20FieldOf(g, s.Chan) == chanF {
			sends = append(sends, s)
		}
		return true
	})
	var fView, fOrder, fSend c20Finding
	res := analyze(c, g, flow.Config{
		NoHavoc: true,
		OnBlock: func(st *flow.State, b *cfg.Block) {
			r := roleOfLoop(b.Stmt)
			if r == "" {
				return
			}
			switch b.Kind {
			case cfg.KindRangeBody:
				st.Set("ev:in:"+r, flow.True)
				st.Set("ev:event", flow.False)
				st.Set("ev:view", flow.False)
				if r == "created" {
					fOrder.n++
					if !st.Is("ev:done:deleted", flow.True) {
						fOrder.fail(st, loops[r], "the watcher applies creations before the deletions of the same snapshot are finished: a name that is deleted and re-created in one snapshot (kind change) ends up removed from the watcher's view")
					}
				}
			case cfg.KindRangeLoop:
				if st.Is("ev:in:"+r, flow.True) {
					fView.n++
					if st.Is("ev:event", flow.True) != st.Is("ev:view", flow.True) {
						fView.fail(st, loops[r], "for a "+r+" object the watcher's event and the watcher's own entities map do not move together: Entities() diverges from the events the watcher has delivered")
					}
				}
				st.Set("ev:in:"+r, flow.Unknown)
				st.Set("ev:event", flow.Unknown)
				st.Set("ev:view", flow.Unknown)
			case cfg.KindRangeDone:
				st.Set("ev:done:"+r, flow.True)
			}
		},
		OnNode: func(st *flow.State, n ast.Node) {
			switch x := n.(type) {
			case *ast.AssignStmt:
				for _, s := range c20IndexStores(x) {
					fld := c20FieldOf(g, s[0])
					for _, r := range roles {
						if fld == evF[r] && contains(loops[r].Body, x) {
							st.Set("ev:event", flow.True)
						}
					}
					if fld == wEntF {
						st.Set("ev:view", flow.True)
					}
				}
			case *ast.SendStmt:
				if c20FieldOf(g, x.Chan) == chanF {
					fSend.n++
					for _, r := range roles {
						if !st.Is("ev:done:"+r, flow.True) {
							fSend.fail(st, x, "the watcher event is sent before the "+r+" objects of the snapshot were collected: they are never delivered to the handler")
						}
					}
				}
			}
		},
		OnCall: func(st *flow.State, call *ast.CallExpr, callee types.Object, deferred bool) {
			if b, ok := callee.(*types.Builtin); ok && b.Name() == "delete" && len(call.Args) == 2 && c20FieldOf(g, call.Args[0]) == wEntF {
				st.Set("ev:view", flow.True)
			}
		},
	})
	if res == nil {
		return
	}
	// static: each loop copies its own key/value
	for _, r := range roles {
		l := loops[r]
		k, v := c20Var(g, l.Key), c20Var(g, l.Value)
		ast.Inspect(l.Body, func(n ast.Node) bool {
			switch x := n.(type) {
			case *ast.AssignStmt:
				for _, s := range c20IndexStores(x) {
					fld := c20FieldOf(g, s[0])
					if fld == evF[r] || fld == wEntF {
						if c20Var(g, s[1]) != k || s[2] == nil || c20Var(g, s[2]) != v {
							fView.fail(nil, x, "the "+r+" loop of the watcher notification stores a name/entity other than the one it iterates over")
						}
						if r == "deleted" && fld == wEntF {
							fView.fail(nil, x, "a deleted object is written into the watcher's entities instead of being removed")
						}
					}
				}
			case *ast.CallExpr:
				if b, ok := g.Callee(x).(*types.Builtin); ok && b.Name() == "delete" && len(x.Args) == 2 && c20FieldOf(g, x.Args[0]) == wEntF {
					if r != "deleted" || c20Var(g, x.Args[1]) != k {
						fView.fail(nil, x, "the watcher's entities map loses an entry that is not the deleted name")
					}
				}
			}
			return true
		})
	}
	c.RequireCount("R-C20-2", "abstract iteration ends of the three per-watcher loops", fView.n, 6)
	fView.report(c, "R-C20-2", cons+"|watcher view follows events", loops["deleted"],
		sprintf("%d abstract iteration ends: event entry set ⇔ watcher.entities updated", fView.n))
	fOrder.report(c, "R-C20-2", cons+"|watcher applies deletions before creations", loops["created"],
		sprintf("%d states enter the creation loop, all after the deletion loop finished", fOrder.n))
	if len(sends) == 0 || fSend.n == 0 {
		c.Violate("R-C20-2", cons+"|event sent after all classes", pos(c, loops["updated"]), "the collected event is never sent on the watcher's channel: no handler ever reconciles the snapshot")
	} else {
		fSend.report(c, "R-C20-2", cons+"|event sent after all classes", sends[0],
			sprintf("%d states reach the send, all after the three loops", fSend.n))
	}
}

// c20ParamIndex returns the position of v among the parameters of fd (-1 if it is none).
func c20ParamIndex(g *flow.Func, fd *ast.FuncDecl, v *types.Var) int {
	if fd == nil || fd.Type.Params == nil || v == nil {
		return -1
	}
	i := 0
	for _, fld := range fd.Type.Params.List {
		if len(fld.Names) == 0 {
			i++
			continue
		}
		for _, id := range fld.Names {
			if g.Info.Defs[id] == v {
				return i
			}
			i++
		}
	}
	return -1
}

// c20Bucket is the identity of a classification map: a local variable, or the field of a struct
// that carries the maps between the diff and the notification.
func c20Bucket(f *flow.Func, e ast.Expr) *types.Var {
	if v := c20Var(f, e); v != nil {
		return v
	}
	return c20FieldOf(f, e)
}

// c20ThroughResult: v is a local of h. When h is not the diff function host and v is defined once
// as the j-th result of a call to host (`deleted, created, updated := or.diffConfig(config)`), the
// variable that host returns at position j in every return statement is the bucket; otherwise v.
func c20ThroughResult(host, h *flow.Func, v *types.Var) *types.Var {
	if h.Body == host.Body {
		return v
	}
	hostFd, _ := host.Node.(*ast.FuncDecl)
	if hostFd == nil {
		return v
	}
	hostObj := host.Info.Defs[hostFd.Name]
	for _, d := range c20Defs(h, h.Node, v) {
		as, ok := d.stmt.(*ast.AssignStmt)
		if !ok || len(as.Rhs) != 1 {
			continue
		}
		call, ok := ast.Unparen(as.Rhs[0]).(*ast.CallExpr)
		if !ok || h.Callee(call) != hostObj {
			continue
		}
		j := -1
		for i, l := range as.Lhs {
			if c20Var(h, l) == v {
				j = i
			}
		}
		if j < 0 {
			continue
		}
		var out *types.Var
		same := true
		c20SkipLits(hostFd.Body, func(n ast.Node) bool {
			r, ok := n.(*ast.ReturnStmt)
			if !ok {
				return true
			}
			var rv *types.Var
			if j < len(r.Results) {
				rv = c20Var(host, r.Results[j])
			} else if len(r.Results) == 0 && hostFd.Type.Results != nil {
				// named results with a bare return
				k := 0
				for _, fld := range hostFd.Type.Results.List {
					for _, id := range fld.Names {
						if k == j {
							rv, _ = host.Info.Defs[id].(*types.Var)
						}
						k++
					}
				}
			}
			if rv == nil || (out != nil && out != rv) {
				same = false
			}
			out = rv
			return true
		})
		if same && out != nil {
			return out
		}
	}
	return v
}
