package rules

import (
	"go/ast"
	"go/token"
	"go/types"
	"strings"

	"verif/internal/core"
	"verif/internal/flow"
)

// Rules added after the second and third round of independently seeded changes (see DESIGN.md §8).
// Each is a structural necessary condition stated independently of the seeded patch's text;
// the mutants and behaviour-preserving edits they were tested with are in selftest/mutants/C01.json.

// R-C01-8: the rewrite mode applied agrees with how the request matched.

func c01Rewrite(c *core.Ctx) {
	c.Rule("R-C01-8", "rewrite mode agrees with the match: MuxPath.rewrite installs the bare rewriteTarget only when the request path equals the entry's exact path, the prefix form only when the path has the entry's prefix, and the regexp form only when neither of the two matched (an entry may configure several matchers; the rewrite must follow the one that matched this request)")
	f := fn(c, hs, "MuxPath", "rewrite")
	if f == nil {
		return
	}
	cons := fname(hs, "MuxPath", "rewrite")
	prefixF := structField(c, hs, "MuxPath", "pathPrefix")
	targetF := structField(c, hs, "MuxPath", "rewriteTarget")
	fieldIn := func(e ast.Expr, fld *types.Var) bool {
		found := false
		ast.Inspect(e, func(n ast.Node) bool {
			if sel, ok := n.(*ast.SelectorExpr); ok {
				if s := f.Info.Selections[sel]; s != nil && s.Obj() == fld {
					found = true
				}
			}
			return true
		})
		return found
	}
	// mode of an expression that becomes the new path
	modeOf := func(e ast.Expr) string {
		e = ast.Unparen(e)
		isRepl := false
		ast.Inspect(e, func(n ast.Node) bool {
			if call, ok := n.(*ast.CallExpr); ok && strings.HasSuffix(calleeFull(f, call), "regexp.Regexp).ReplaceAllString") {
				isRepl = true
			}
			return true
		})
		switch {
		case isRepl:
			return "regexp"
		case fieldIn(e, prefixF):
			return "prefix"
		case fieldIn(e, targetF):
			if sel, ok := e.(*ast.SelectorExpr); ok {
				if s := f.Info.Selections[sel]; s != nil && s.Obj() == targetF {
					return "exact"
				}
			}
			return "other"
		}
		return ""
	}
	var sets []*ast.CallExpr
	for _, call := range calls(f.Body, false) {
		if calleeIs(f, call, "(*pkg/protocols/httpprot.Request).SetPath") && len(call.Args) == 1 {
			sets = append(sets, call)
		}
	}
	if !c.RequireCount("R-C01-8", "SetPath calls in MuxPath.rewrite", len(sets), 1) {
		return
	}
	// atoms: request path variable = local assigned from r.Path()
	var pathVar types.Object
	ast.Inspect(f.Body, func(n ast.Node) bool {
		if as, ok := n.(*ast.AssignStmt); ok && len(as.Lhs) == 1 && len(as.Rhs) == 1 {
			if call, ok := as.Rhs[0].(*ast.CallExpr); ok && calleeIs(f, call, "(*pkg/protocols/httpprot.Request).Path") {
				if id, ok := as.Lhs[0].(*ast.Ident); ok && pathVar == nil {
					pathVar = f.Info.Defs[id]
				}
			}
		}
		return true
	})
	// facts are found by scanning the state for keys mentioning the fields
	exactKnown := func(st *flow.State) flow.Val { // request path == mp.path
		for _, fact := range st.Facts() {
			if strings.HasPrefix(fact, "eq:") && strings.Contains(fact, ".path==") || strings.HasPrefix(fact, "eq:") && strings.HasSuffix(fact[:len(fact)-2], ".path") {
				if strings.Contains(fact, `==""`) {
					continue
				}
				if strings.HasSuffix(fact, "=T") {
					return flow.True
				}
				return flow.False
			}
		}
		return flow.Unknown
	}
	emptyKnown := func(st *flow.State, field string) flow.Val {
		for _, fact := range st.Facts() {
			if strings.HasPrefix(fact, "eq:") && strings.Contains(fact, "."+field+`==""`) {
				if strings.HasSuffix(fact, "=T") {
					return flow.True
				}
				return flow.False
			}
		}
		return flow.Unknown
	}
	prefixKnown := func(st *flow.State) flow.Val {
		for _, fact := range st.Facts() {
			if strings.HasPrefix(fact, "call:strings.HasPrefix(") && strings.Contains(fact, ".pathPrefix)") {
				if strings.HasSuffix(fact, "=T") {
					return flow.True
				}
				return flow.False
			}
		}
		return flow.Unknown
	}
	// judge decides, in the state in which the new path is computed, whether the form used
	// agrees with the matcher outcomes known there
	judge := func(st *flow.State, mode string) string {
		ex, pre := exactKnown(st), prefixKnown(st)
		exOff := ex == flow.False || emptyKnown(st, "path") == flow.True
		preOff := pre == flow.False || emptyKnown(st, "pathPrefix") == flow.True
		switch mode {
		case "exact":
			if ex != flow.True {
				return "the bare rewriteTarget replaces the path although the request path is not known to equal the entry's exact path (the entry matched through another of its matchers)"
			}
		case "prefix":
			if pre != flow.True {
				return "the prefix rewrite is applied although the request path is not known to have the entry's pathPrefix"
			}
		case "regexp":
			if !exOff || !preOff {
				return "the regexp rewrite is applied although the exact path or the prefix may have matched"
			}
		default:
			return "the path handed to SetPath is not one of the three rewrite forms"
		}
		return ""
	}
	whys := map[string]string{}
	res := analyze(c, f, flow.Config{NoHavoc: true,
		OnNode: func(st *flow.State, n ast.Node) {
			as, ok := n.(*ast.AssignStmt)
			if !ok || len(as.Lhs) != 1 || len(as.Rhs) != 1 {
				return
			}
			id, ok := as.Lhs[0].(*ast.Ident)
			if !ok {
				return
			}
			obj := f.Info.Uses[id]
			if obj == nil {
				obj = f.Info.Defs[id]
			}
			if obj == nil || obj != pathVar {
				return
			}
			st.Set("ev:modeok", flow.Unknown)
			if m := modeOf(as.Rhs[0]); m != "" {
				// facts about the old path die with this assignment: judge now
				if w := judge(st, m); w != "" {
					st.Set("ev:modeok", flow.False)
					whys[w] = w
					st.Set("ev:why:"+w, flow.True)
				} else {
					st.Set("ev:modeok", flow.True)
				}
			}
		},
	})
	if res == nil {
		return
	}
	var bad *flow.State
	why := ""
	n := 0
	for _, call := range sets {
		for _, st := range res.At[call] {
			n++
			if mode := modeOf(call.Args[0]); mode != "" {
				if w := judge(st, mode); w != "" {
					bad, why = st, w
				}
				continue
			}
			switch st.Get("ev:modeok") {
			case flow.True:
			case flow.False:
				bad = st
				for w := range whys {
					if st.Is("ev:why:"+w, flow.True) {
						why = w
					}
				}
			default:
				bad, why = st, "the path handed to SetPath is not one of the three rewrite forms"
			}
		}
	}
	c.Check(bad == nil && n > 0, "R-C01-8", cons+"|rewrite form follows the matcher that matched", pos(c, f.Body), sprintf("%d states at SetPath: exact form under path equality, prefix form under HasPrefix, regexp form after both failed", n), why, witness(bad)...)
}

// R-C01-9: the header matcher depends on a header value only through its two predicates.

func c01HeaderValue(c *core.Ctx) {
	c.Rule("R-C01-9", "header conditions: in MuxPath.matchHeaders a request header value is used only as the argument of the value-list test and of the regexp test (no additional condition on the value, e.g. emptiness: an absent header can satisfy a condition whose values/regexp admit the empty string)")
	f := fn(c, hs, "MuxPath", "matchHeaders")
	if f == nil {
		return
	}
	cons := fname(hs, "MuxPath", "matchHeaders")
	vals := map[types.Object]bool{}
	ast.Inspect(f.Body, func(n ast.Node) bool {
		if as, ok := n.(*ast.AssignStmt); ok && len(as.Lhs) == 1 && len(as.Rhs) == 1 {
			if call, ok := as.Rhs[0].(*ast.CallExpr); ok {
				full := calleeFull(f, call)
				if full == "(net/http.Header).Get" || full == "(net/http.Header).Values" {
					if id, ok := as.Lhs[0].(*ast.Ident); ok {
						obj := f.Info.Defs[id]
						if obj == nil {
							obj = f.Info.Uses[id]
						}
						vals[obj] = true
					}
				}
			}
		}
		return true
	})
	if !c.RequireCount("R-C01-9", "header value variables in matchHeaders", len(vals), 1) {
		return
	}
	pm := parentMap(f.Body)
	var badUse ast.Node
	uses := 0
	ast.Inspect(f.Body, func(n ast.Node) bool {
		id, ok := n.(*ast.Ident)
		if !ok || !vals[f.Info.Uses[id]] {
			return true
		}
		uses++
		p := pm[id]
		for {
			if pe, ok := p.(*ast.ParenExpr); ok {
				p = pm[pe]
				continue
			}
			break
		}
		call, ok := p.(*ast.CallExpr)
		okUse := false
		if ok {
			full := calleeFull(f, call)
			if strings.HasSuffix(full, "pkg/util/stringtool.StrInSlice") && len(call.Args) > 0 && ast.Unparen(call.Args[0]) == ast.Expr(id) {
				okUse = true
			}
			if strings.HasSuffix(full, "regexp.Regexp).MatchString") {
				okUse = true
			}
		}
		if !okUse {
			badUse = id
		}
		return true
	})
	c.Check(badUse == nil && uses > 0, "R-C01-9", cons+"|header value used only by the two predicates", pos(c, badUse),
		sprintf("%d uses, all as argument of StrInSlice / MatchString", uses),
		"the header value is used outside the value-list and regexp tests (an extra condition on the value): the entry's header condition no longer means 'value in values / value matches regexp'")
}

// R-C01-10: the path matcher depends on the request path only through its three predicates.
func c01PathValue(c *core.Ctx) {
	c.Rule("R-C01-10", "path conditions: in MuxPath.matchPath the request path is used only in the equality test against the entry's exact path, the prefix test against the entry's pathPrefix and the entry's regexp MatchString (no further condition on the path, e.g. a literal-prefix pre-filter, which is unsound for unanchored expressions)")
	f := fn(c, hs, "MuxPath", "matchPath")
	if f == nil {
		return
	}
	cons := fname(hs, "MuxPath", "matchPath")
	pathF := structField(c, hs, "MuxPath", "path")
	prefixF := structField(c, hs, "MuxPath", "pathPrefix")
	reF := structField(c, hs, "MuxPath", "pathRE")
	vals := map[types.Object]bool{}
	ast.Inspect(f.Body, func(n ast.Node) bool {
		if as, ok := n.(*ast.AssignStmt); ok && len(as.Lhs) == 1 && len(as.Rhs) == 1 {
			if call, ok := as.Rhs[0].(*ast.CallExpr); ok && calleeIs(f, call, "(*pkg/protocols/httpprot.Request).Path") {
				if id, ok := as.Lhs[0].(*ast.Ident); ok {
					vals[f.Info.Defs[id]] = true
				}
			}
		}
		return true
	})
	if !c.RequireCount("R-C01-10", "request path variables in matchPath", len(vals), 1) {
		return
	}
	isField := func(e ast.Expr, fld *types.Var) bool {
		sel, ok := ast.Unparen(e).(*ast.SelectorExpr)
		if !ok {
			return false
		}
		s := f.Info.Selections[sel]
		return s != nil && s.Obj() == fld
	}
	pm := parentMap(f.Body)
	var badUse ast.Node
	uses := 0
	ast.Inspect(f.Body, func(n ast.Node) bool {
		id, ok := n.(*ast.Ident)
		if !ok || !vals[f.Info.Uses[id]] {
			return true
		}
		uses++
		p := pm[id]
		for {
			if pe, ok := p.(*ast.ParenExpr); ok {
				p = pm[pe]
				continue
			}
			break
		}
		okUse := false
		switch x := p.(type) {
		case *ast.BinaryExpr:
			if x.Op == token.EQL || x.Op == token.NEQ {
				other := x.X
				if ast.Unparen(x.X) == ast.Expr(id) {
					other = x.Y
				}
				okUse = isField(other, pathF)
			}
		case *ast.CallExpr:
			full := calleeFull(f, x)
			if full == "strings.HasPrefix" && len(x.Args) == 2 && ast.Unparen(x.Args[0]) == ast.Expr(id) && isField(x.Args[1], prefixF) {
				okUse = true
			}
			if strings.HasSuffix(full, "regexp.Regexp).MatchString") {
				if sel, ok := ast.Unparen(x.Fun).(*ast.SelectorExpr); ok && isField(sel.X, reF) {
					okUse = true
				}
			}
		}
		if !okUse {
			badUse = id
		}
		return true
	})
	c.Check(badUse == nil && uses > 0, "R-C01-10", cons+"|request path used only by the three matchers", pos(c, badUse),
		sprintf("%d uses: == path, HasPrefix(pathPrefix), pathRE.MatchString", uses),
		"the request path is subjected to a condition other than the entry's exact / prefix / regexp matcher: an entry whose configured matcher accepts the path can be skipped")
}

// R-C01-5 (extension): the backend lookup precedes everything that can fail on the body.
func c01LookupFirst(c *core.Ctx) {
	s := analyzeServe(c, "R-C01-5")
	if s == nil {
		return
	}
	f := s.f
	okKey := f.VarKey(s.okVar)
	var bad *flow.State
	for _, st := range s.res.At[s.fetch] {
		if !st.Is(okKey, flow.True) {
			bad = st
		}
	}
	c.Check(bad == nil && len(s.res.At[s.fetch]) > 0, "R-C01-5", s.cons+"|backend resolved before the body is read", pos(c, s.fetch),
		"FetchPayload is reached only with a found backend", "the request body is fetched (413 / 400 possible) before the backend lookup has succeeded: a route whose backend does not exist answers 413/400 instead of 503 for some bodies", witness(bad)...)
}
