package rules

import (
	"golang.org/x/tools/go/cfg"

	"go/ast"
	"go/token"
	"go/types"
	"strings"

	"verif/internal/core"
	"verif/internal/flow"
)

// Rules added after the second and third round of independently seeded changes (see DESIGN.md §8).
// Each is a structural necessary condition stated independently of the seeded patch's text;
// the mutants and behaviour-preserving edits they were tested with are in selftest/mutants/C01.json.

// R-C01-8: the rewrite mode applied agrees with how the request matched.

func c01Rewrite(c *core.Ctx) {
	c.Rule("R-C01-8", "rewrite mode agrees with the match: MuxPath.rewrite installs the bare rewriteTarget only when the request path equals the entry's exact path, the prefix form only when the path has the entry's prefix, and the regexp form only when neither of the two matched (an entry may configure several matchers; the rewrite must follow the one that matched this request)")
	ro := muxRolesOf(c, "R-C01-8")
	if ro == nil {
		return
	}
	f, nc := muxFuncByRole(c, hs, "rewrite", func(g *flow.Func, fd *ast.FuncDecl) bool {
		fo := muxFuncObj(g)
		if fo == nil || !muxSameNamed(muxRecvNamed(fo), ro.pathT) {
			return false
		}
		sig := fo.Type().(*types.Signature)
		return sig.Results().Len() == 0 && sig.Params().Len() == 1 && muxIsPtrTo(sig.Params().At(0).Type(), ro.requestT) && muxRequestMethodUsed(g, "SetPath")
	})
	if f == nil {
		c.Errorf("R-C01-8: anchor: cannot resolve the rewrite method (the MuxPath method taking the request that calls SetPath; %d candidates)", nc)
		return
	}
	c.Count("functions_analysed", 1)
	cons := muxFuncConstruct(f)
	specField := func(name string) *types.Var {
		pt := muxNamedTypeOpt(f.Pkg.Types, "Path")
		if pt == nil {
			return nil
		}
		return muxFieldInitFrom(c, ro.pathT, muxOneField(pt, name, func(v *types.Var) bool { return v.Name() == name }))
	}
	exactF, prefixF, targetF := specField("Path"), specField("PathPrefix"), specField("RewriteTarget")
	if exactF == nil || prefixF == nil || targetF == nil {
		c.Errorf("R-C01-8: anchor: cannot resolve the MuxPath fields initialised from Path.Path / Path.PathPrefix / Path.RewriteTarget")
		return
	}
	fns := reach(f, 2)
	vf := newMuxFlow(fns)
	var fieldInD func(e ast.Expr, fld *types.Var, depth int) bool
	fieldInD = func(e ast.Expr, fld *types.Var, depth int) bool {
		found := false
		ast.Inspect(e, func(n ast.Node) bool {
			switch x := n.(type) {
			case *ast.SelectorExpr:
				if s := f.Info.Selections[x]; s != nil && s.Obj() == fld {
					found = true
				}
			case *ast.Ident:
				// a named local for a sub-expression: suffix := path[len(mp.pathPrefix):]
				if o, isVar := vf.obj(x).(*types.Var); isVar && depth < 3 {
					if d := vf.singleDef(o); d != nil && fieldInD(d, fld, depth+1) {
						found = true
					}
				}
			}
			return !found
		})
		return found
	}
	fieldIn := func(e ast.Expr, fld *types.Var) bool { return fieldInD(e, fld, 0) }
	// mode of an expression that becomes the new path
	modeOf := func(e ast.Expr) string {
		e = ast.Unparen(e)
		isRepl := false
		ast.Inspect(e, func(n ast.Node) bool {
			if call, ok := n.(*ast.CallExpr); ok && strings.HasSuffix(calleeFull(f, call), "regexp.Regexp).ReplaceAllString") {
				isRepl = true
			}
			return true
		})
		switch {
		case isRepl:
			return "regexp"
		case fieldIn(e, prefixF):
			return "prefix"
		case fieldIn(e, targetF):
			if sel, ok := e.(*ast.SelectorExpr); ok {
				if s := f.Info.Selections[sel]; s != nil && s.Obj() == targetF {
					return "exact"
				}
			}
			return "other"
		}
		return ""
	}
	var sets []*ast.CallExpr
	for _, g := range fns {
		for _, call := range calls(g.Body, false) {
			if len(call.Args) != 1 {
				continue
			}
			if calleeIs(g, call, "(*pkg/protocols/httpprot.Request).SetPath") {
				sets = append(sets, call)
			} else if fo, _, _ := vf.localCallee(call); fo != nil && strings.HasSuffix(fo.FullName(), "pkg/protocols/httpprot.Request).SetPath") {
				sets = append(sets, call) // setPath := r.SetPath; setPath(x)
			}
		}
	}
	if !c.RequireCount("R-C01-8", "SetPath calls in MuxPath.rewrite", len(sets), 1) {
		return
	}
	// atoms: request path variable = local assigned from r.Path()
	var pathVar types.Object
	inspectReach(f, 2, func(_ *flow.Func, n ast.Node) bool {
		if as, ok := n.(*ast.AssignStmt); ok && len(as.Lhs) == 1 && len(as.Rhs) == 1 {
			if call, ok := as.Rhs[0].(*ast.CallExpr); ok && calleeIs(f, call, "(*pkg/protocols/httpprot.Request).Path") {
				if id, ok := as.Lhs[0].(*ast.Ident); ok && pathVar == nil {
					pathVar = f.Info.Defs[id]
				}
			}
		}
		return true
	})
	// facts are found by scanning the state for keys mentioning the fields
	exactKnown := func(st *flow.State) flow.Val { // request path == mp.path
		for _, fact := range st.Facts() {
			if strings.HasPrefix(fact, "eq:") && strings.Contains(fact, "."+exactF.Name()+"==") || strings.HasPrefix(fact, "eq:") && strings.HasSuffix(fact[:len(fact)-2], "."+exactF.Name()) {
				if strings.Contains(fact, `==""`) {
					continue
				}
				if strings.HasSuffix(fact, "=T") {
					return flow.True
				}
				return flow.False
			}
		}
		return flow.Unknown
	}
	emptyKnown := func(st *flow.State, field string) flow.Val {
		for _, fact := range st.Facts() {
			if strings.HasPrefix(fact, "eq:") && strings.Contains(fact, "."+field+`==""`) {
				if strings.HasSuffix(fact, "=T") {
					return flow.True
				}
				return flow.False
			}
		}
		return flow.Unknown
	}
	prefixKnown := func(st *flow.State) flow.Val {
		for _, fact := range st.Facts() {
			if strings.HasPrefix(fact, "call:strings.HasPrefix(") && strings.Contains(fact, "."+prefixF.Name()+")") {
				if strings.HasSuffix(fact, "=T") {
					return flow.True
				}
				return flow.False
			}
		}
		return flow.Unknown
	}
	// judge decides, in the state in which the new path is computed, whether the form used
	// agrees with the matcher outcomes known there
	judge := func(st *flow.State, mode string) string {
		ex, pre := exactKnown(st), prefixKnown(st)
		exOff := ex == flow.False || emptyKnown(st, exactF.Name()) == flow.True
		preOff := pre == flow.False || emptyKnown(st, prefixF.Name()) == flow.True
		switch mode {
		case "exact":
			if ex != flow.True {
				return "the bare rewriteTarget replaces the path although the request path is not known to equal the entry's exact path (the entry matched through another of its matchers)"
			}
		case "prefix":
			if pre != flow.True {
				return "the prefix rewrite is applied although the request path is not known to have the entry's pathPrefix"
			}
		case "regexp":
			if !exOff || !preOff {
				return "the regexp rewrite is applied although the exact path or the prefix may have matched"
			}
		default:
			return "the path handed to SetPath is not one of the three rewrite forms"
		}
		return ""
	}
	whys := map[string]string{}
	res := muxAnalyzeInl(c, f, flow.Config{NoHavoc: true,
		OnNode: func(st *flow.State, n ast.Node) {
			as, ok := n.(*ast.AssignStmt)
			if !ok || len(as.Lhs) != 1 || len(as.Rhs) != 1 {
				return
			}
			id, ok := as.Lhs[0].(*ast.Ident)
			if !ok {
				return
			}
			obj := f.Info.Uses[id]
			if obj == nil {
				obj = f.Info.Defs[id]
			}
			if obj == nil || obj != pathVar {
				return
			}
			st.Set("ev:modeok", flow.Unknown)
			if m := modeOf(as.Rhs[0]); m != "" {
				// facts about the old path die with this assignment: judge now
				if w := judge(st, m); w != "" {
					st.Set("ev:modeok", flow.False)
					whys[w] = w
					st.Set("ev:why:"+w, flow.True)
				} else {
					st.Set("ev:modeok", flow.True)
				}
			}
		},
	})
	if res == nil {
		return
	}
	var bad *flow.State
	why := ""
	n := 0
	for _, call := range sets {
		for _, st := range res.At[call] {
			n++
			if mode := modeOf(call.Args[0]); mode != "" {
				if w := judge(st, mode); w != "" {
					bad, why = st, w
				}
				continue
			}
			switch st.Get("ev:modeok") {
			case flow.True:
			case flow.False:
				bad = st
				for w := range whys {
					if st.Is("ev:why:"+w, flow.True) {
						why = w
					}
				}
			default:
				bad, why = st, "the path handed to SetPath is not one of the three rewrite forms"
			}
		}
	}
	c.Check(bad == nil && n > 0, "R-C01-8", cons+"|rewrite form follows the matcher that matched", pos(c, f.Body), sprintf("%d states at SetPath: exact form under path equality, prefix form under HasPrefix, regexp form after both failed", n), why, witness(bad)...)
}

// R-C01-9: the header matcher depends on a header value only through its two predicates.

// c01ValueUses checks how the tracked values (variables holding a request attribute) are used in
// the function set: handing one to a same-package helper of the set makes the helper's parameter
// a tracked value too; every other use must be accepted by okUse (parent = the innermost
// non-parenthesis node around the identifier). Returns the number of uses and a bad one.
func c01ValueUses(fns []*flow.Func, vals map[types.Object]bool, okUse func(g *flow.Func, id *ast.Ident, parent ast.Node) bool) (int, ast.Node) {
	if len(fns) == 0 {
		return 0, nil
	}
	info := fns[0].Info
	vf := newMuxFlow(fns)
	// propagate into helpers
	for changed, n := true, 0; changed && n < 4; n++ {
		changed = false
		for fo, sites := range vf.sites {
			g := vf.fnOf[fo]
			fd, ok := g.Node.(*ast.FuncDecl)
			if !ok {
				continue
			}
			var params []*ast.Ident
			for _, fld := range fd.Type.Params.List {
				if len(fld.Names) == 0 {
					params = append(params, nil)
				}
				params = append(params, fld.Names...)
			}
			for _, site := range sites {
				for i, a := range site.Call.Args {
					if id := muxIdentOf(a); id != nil && vals[info.Uses[id]] && i < len(params) && params[i] != nil {
						if o := info.Defs[params[i]]; o != nil && !vals[o] {
							vals[o] = true
							changed = true
						}
					}
				}
			}
		}
	}
	uses := 0
	var bad ast.Node
	for _, g := range fns {
		pm := parentMap(g.Body)
		ast.Inspect(g.Body, func(n ast.Node) bool {
			id, ok := n.(*ast.Ident)
			if !ok || !vals[info.Uses[id]] {
				return true
			}
			uses++
			p := pm[id]
			for {
				if pe, ok := p.(*ast.ParenExpr); ok {
					p = pm[pe]
					continue
				}
				break
			}
			if call, ok := p.(*ast.CallExpr); ok {
				if fo, ok := g.Callee(call).(*types.Func); ok && vf.fnOf[fo.Origin()] != nil {
					for _, a := range call.Args {
						if ast.Unparen(a) == ast.Expr(id) {
							return true // handed to a helper of the set: followed there
						}
					}
				}
			}
			if !okUse(g, id, p) {
				bad = id
			}
			return true
		})
	}
	return uses, bad
}

func c01HeaderValue(c *core.Ctx) {
	c.Rule("R-C01-9", "header conditions: in MuxPath.matchHeaders a request header value is used only as the argument of the value-list test and of the regexp test (no additional condition on the value, e.g. emptiness: an absent header can satisfy a condition whose values/regexp admit the empty string)")
	ro := muxRolesOf(c, "R-C01-9")
	if ro == nil {
		return
	}
	f := muxMatcherFn(c, ro, ro.pathT, "matchHeaders", "HTTPHeader", "Header")
	if f == nil {
		return
	}
	cons := muxFuncConstruct(f)
	fns := reach(f, 2)
	vals := map[types.Object]bool{}
	for _, g := range fns {
		ast.Inspect(g.Body, func(n ast.Node) bool {
			if as, ok := n.(*ast.AssignStmt); ok && len(as.Lhs) == 1 && len(as.Rhs) == 1 {
				if call, ok := ast.Unparen(as.Rhs[0]).(*ast.CallExpr); ok {
					full := calleeFull(g, call)
					if full == "(net/http.Header).Get" || full == "(net/http.Header).Values" {
						if id, ok := as.Lhs[0].(*ast.Ident); ok {
							obj := g.Info.Defs[id]
							if obj == nil {
								obj = g.Info.Uses[id]
							}
							vals[obj] = true
						}
					}
				}
			}
			return true
		})
	}
	// the value handed straight to a same-package helper: h.match(r.HTTPHeader().Get(h.Key))
	vfH := newMuxFlow(fns)
	for fo, sites := range vfH.sites {
		fd, ok := vfH.fnOf[fo].Node.(*ast.FuncDecl)
		if !ok {
			continue
		}
		var params []*ast.Ident
		for _, fld := range fd.Type.Params.List {
			if len(fld.Names) == 0 {
				params = append(params, nil)
			}
			params = append(params, fld.Names...)
		}
		for _, site := range sites {
			for i, a := range site.Call.Args {
				if call, ok := ast.Unparen(a).(*ast.CallExpr); ok && i < len(params) && params[i] != nil {
					if full := calleeFull(site.Fn, call); full == "(net/http.Header).Get" || full == "(net/http.Header).Values" {
						vals[f.Info.Defs[params[i]]] = true
					}
				}
			}
		}
	}
	if !c.RequireCount("R-C01-9", "header value variables in matchHeaders", len(vals), 1) {
		return
	}
	uses, badUse := c01ValueUses(fns, vals, func(g *flow.Func, id *ast.Ident, p ast.Node) bool {
		call, ok := p.(*ast.CallExpr)
		if !ok {
			_, isDef := p.(*ast.AssignStmt) // the defining assignment itself
			return isDef && g.Info.Defs[id] != nil
		}
		full := calleeFull(g, call)
		if strings.HasSuffix(full, "pkg/util/stringtool.StrInSlice") && len(call.Args) > 0 && ast.Unparen(call.Args[0]) == ast.Expr(id) {
			return true
		}
		return strings.HasSuffix(full, "regexp.Regexp).MatchString")
	})
	c.Check(badUse == nil && uses > 0, "R-C01-9", cons+"|header value used only by the two predicates", pos(c, badUse),
		sprintf("%d uses, all as argument of StrInSlice / MatchString", uses),
		"the header value is used outside the value-list and regexp tests (an extra condition on the value): the entry's header condition no longer means 'value in values / value matches regexp'")
}

// R-C01-10: the path matcher depends on the request path only through its three predicates.
func c01PathValue(c *core.Ctx) {
	c.Rule("R-C01-10", "path conditions: in MuxPath.matchPath the request path is used only in the equality test against the entry's exact path, the prefix test against the entry's pathPrefix and the entry's regexp MatchString (no further condition on the path, e.g. a literal-prefix pre-filter, which is unsound for unanchored expressions)")
	ro := muxRolesOf(c, "R-C01-10")
	if ro == nil {
		return
	}
	f := muxMatcherFn(c, ro, ro.pathT, "matchPath", "Path")
	if f == nil {
		return
	}
	cons := muxFuncConstruct(f)
	specField := func(name string) *types.Var {
		pt := muxNamedTypeOpt(f.Pkg.Types, "Path")
		if pt == nil {
			return nil
		}
		return muxFieldInitFrom(c, ro.pathT, muxOneField(pt, name, func(v *types.Var) bool { return v.Name() == name }))
	}
	pathF, prefixF := specField("Path"), specField("PathPrefix")
	reF := muxOneField(ro.pathT, "pathRE", func(v *types.Var) bool { return strings.HasSuffix(v.Type().String(), "regexp.Regexp") })
	if pathF == nil || prefixF == nil || reF == nil {
		c.Errorf("R-C01-10: anchor: cannot resolve the MuxPath fields holding the exact path / the prefix / the compiled expression")
		return
	}
	fns := reach(f, 2)
	vals := map[types.Object]bool{}
	for _, g := range fns {
		ast.Inspect(g.Body, func(n ast.Node) bool {
			if as, ok := n.(*ast.AssignStmt); ok && len(as.Lhs) == 1 && len(as.Rhs) == 1 {
				if call, ok := ast.Unparen(as.Rhs[0]).(*ast.CallExpr); ok && calleeIs(g, call, "(*pkg/protocols/httpprot.Request).Path") {
					if id, ok := as.Lhs[0].(*ast.Ident); ok {
						obj := g.Info.Defs[id]
						if obj == nil {
							obj = g.Info.Uses[id]
						}
						vals[obj] = true
					}
				}
			}
			return true
		})
	}
	if !c.RequireCount("R-C01-10", "request path variables in matchPath", len(vals), 1) {
		return
	}
	isField := func(e ast.Expr, fld *types.Var) bool {
		sel, ok := ast.Unparen(e).(*ast.SelectorExpr)
		if !ok {
			return false
		}
		s := f.Info.Selections[sel]
		return s != nil && s.Obj() == fld
	}
	uses, badUse := c01ValueUses(fns, vals, func(g *flow.Func, id *ast.Ident, p ast.Node) bool {
		switch x := p.(type) {
		case *ast.AssignStmt:
			return g.Info.Defs[id] != nil
		case *ast.BinaryExpr:
			if x.Op == token.EQL || x.Op == token.NEQ {
				other := x.X
				if ast.Unparen(x.X) == ast.Expr(id) {
					other = x.Y
				}
				return isField(other, pathF)
			}
		case *ast.CallExpr:
			full := calleeFull(g, x)
			if full == "strings.HasPrefix" && len(x.Args) == 2 && ast.Unparen(x.Args[0]) == ast.Expr(id) && isField(x.Args[1], prefixF) {
				return true
			}
			if strings.HasSuffix(full, "regexp.Regexp).MatchString") {
				if sel, ok := ast.Unparen(x.Fun).(*ast.SelectorExpr); ok && isField(sel.X, reF) {
					return true
				}
			}
		}
		return false
	})
	c.Check(badUse == nil && uses > 0, "R-C01-10", cons+"|request path used only by the three matchers", pos(c, badUse),
		sprintf("%d uses: == path, HasPrefix(pathPrefix), pathRE.MatchString", uses),
		"the request path is subjected to a condition other than the entry's exact / prefix / regexp matcher: an entry whose configured matcher accepts the path can be skipped")
}

// R-C01-5 (extension): the backend lookup precedes everything that can fail on the body.
func c01LookupFirst(c *core.Ctx) {
	s := analyzeServe(c, "R-C01-5")
	if s == nil {
		return
	}
	f := s.f
	okKey := f.VarKey(s.okVar)
	var bad *flow.State
	for _, st := range s.res.At[s.fetch] {
		if !st.Is(okKey, flow.True) {
			bad = st
		}
	}
	c.Check(bad == nil && len(s.res.At[s.fetch]) > 0, "R-C01-5", s.cons+"|backend resolved before the body is read", pos(c, s.fetch),
		"FetchPayload is reached only with a found backend", "the request body is fetched (413 / 400 possible) before the backend lookup has succeeded: a route whose backend does not exist answers 413/400 instead of 503 for some bodies", witness(bad)...)
}

// c01ModeField resolves the match-all flag of the runtime path when it is kept as an enum: the field F
// of typ that is set from a local m whose definitions are constants — K1 in the then-branch of
// `if <spec>.MatchAllHeader {..}`, another constant K0 before that statement or in its else-branch —
// so that F == K1 exactly when the spec asks for all headers. Returns F and K1's value.
func c01ModeField(c *core.Ctx, typ *types.Named, src *types.Var) (*types.Var, string) {
	pkg := c.Prog.Pkg(hs)
	if pkg == nil || typ == nil || src == nil {
		return nil, ""
	}
	info := pkg.TypesInfo
	isSrc := func(e ast.Expr) bool {
		sel, ok := ast.Unparen(e).(*ast.SelectorExpr)
		if !ok {
			return false
		}
		sl := info.Selections[sel]
		return sl != nil && sl.Obj() == types.Object(src)
	}
	var outF *types.Var
	outK := ""
	n := 0
	for _, file := range pkg.Syntax {
		for _, d := range file.Decls {
			fd, ok := d.(*ast.FuncDecl)
			if !ok || fd.Body == nil {
				continue
			}
			var ifs []*ast.IfStmt
			ast.Inspect(fd.Body, func(x ast.Node) bool {
				if is, ok := x.(*ast.IfStmt); ok && is.Init == nil && isSrc(is.Cond) {
					ifs = append(ifs, is)
				}
				return true
			})
			if len(ifs) != 1 {
				continue
			}
			is := ifs[0]
			within := func(x ast.Node, b ast.Node) bool { return b != nil && x.Pos() >= b.Pos() && x.End() <= b.End() }
			// the local assigned a constant in the then-branch
			type defs struct {
				k1, k0 map[string]bool
				bad    bool
			}
			locals := map[types.Object]*defs{}
			note := func(o types.Object, rhs ast.Expr, at ast.Node) {
				if o == nil {
					return
				}
				dd := locals[o]
				if dd == nil {
					dd = &defs{k1: map[string]bool{}, k0: map[string]bool{}}
					locals[o] = dd
				}
				tv, ok := info.Types[rhs]
				if rhs == nil || !ok || tv.Value == nil {
					dd.bad = true
					return
				}
				switch {
				case within(at, is.Body):
					dd.k1[tv.Value.ExactString()] = true
				case at.End() <= is.Pos() || (is.Else != nil && within(at, is.Else)):
					dd.k0[tv.Value.ExactString()] = true
				default:
					dd.bad = true
				}
			}
			ast.Inspect(fd.Body, func(x ast.Node) bool {
				switch y := x.(type) {
				case *ast.AssignStmt:
					for i, l := range y.Lhs {
						id, ok := ast.Unparen(l).(*ast.Ident)
						if !ok {
							continue
						}
						o := info.Defs[id]
						if o == nil {
							o = info.Uses[id]
						}
						if v, isVar := o.(*types.Var); !isVar || v.IsField() {
							continue
						}
						if len(y.Lhs) == len(y.Rhs) && (y.Tok == token.ASSIGN || y.Tok == token.DEFINE) {
							note(o, y.Rhs[i], y)
						} else {
							note(o, nil, y)
						}
					}
				case *ast.ValueSpec:
					for i, nm := range y.Names {
						if i < len(y.Values) {
							note(info.Defs[nm], y.Values[i], y)
						} else if o := info.Defs[nm]; o != nil {
							// `var m T`: the zero value
							if bt, ok := o.Type().Underlying().(*types.Basic); ok && bt.Info()&types.IsInteger != 0 && y.End() <= is.Pos() {
								dd := locals[o]
								if dd == nil {
									dd = &defs{k1: map[string]bool{}, k0: map[string]bool{}}
									locals[o] = dd
								}
								dd.k0["0"] = true
							}
						}
					}
				case *ast.UnaryExpr:
					if id, ok := ast.Unparen(y.X).(*ast.Ident); ok && y.Op == token.AND {
						if dd := locals[info.Uses[id]]; dd != nil {
							dd.bad = true
						}
					}
				}
				return true
			})
			// the field of typ set from such a local (after the if statement)
			use := func(fv *types.Var, val ast.Expr, at ast.Node) {
				id, ok := ast.Unparen(val).(*ast.Ident)
				if !ok || fv == nil || at.Pos() < is.End() {
					return
				}
				dd := locals[info.Uses[id]]
				if dd == nil || dd.bad || len(dd.k1) != 1 || len(dd.k0) != 1 {
					return
				}
				k1 := ""
				for k := range dd.k1 {
					k1 = k
				}
				if dd.k0[k1] {
					return
				}
				bt, ok := fv.Type().Underlying().(*types.Basic)
				if !ok || bt.Info()&types.IsInteger == 0 {
					return
				}
				n++
				outF, outK = fv, k1
			}
			ast.Inspect(fd.Body, func(x ast.Node) bool {
				switch y := x.(type) {
				case *ast.CompositeLit:
					if tv, ok := info.Types[y]; ok && muxDerefNamed(tv.Type) != nil && muxDerefNamed(tv.Type).Obj() == typ.Obj() {
						for _, el := range y.Elts {
							if kv, ok := el.(*ast.KeyValueExpr); ok {
								if k, ok := kv.Key.(*ast.Ident); ok {
									use(muxOneField(typ, k.Name, func(v *types.Var) bool { return v.Name() == k.Name }), kv.Value, kv)
								}
							}
						}
					}
				case *ast.AssignStmt:
					if len(y.Lhs) == len(y.Rhs) {
						for i, l := range y.Lhs {
							if sel, ok := ast.Unparen(l).(*ast.SelectorExpr); ok {
								if sl := info.Selections[sel]; sl != nil && muxDerefNamed(sl.Recv()) != nil && muxDerefNamed(sl.Recv()).Obj() == typ.Obj() {
									if fv, ok := sl.Obj().(*types.Var); ok {
										use(fv, y.Rhs[i], y)
									}
								}
							}
						}
					}
				}
				return true
			})
		}
	}
	if n != 1 {
		return nil, ""
	}
	// every other store to the field in the package would break "F == K1 iff MatchAllHeader"
	stores := 0
	for _, file := range pkg.Syntax {
		ast.Inspect(file, func(x ast.Node) bool {
			switch y := x.(type) {
			case *ast.AssignStmt:
				for _, l := range y.Lhs {
					if sel, ok := ast.Unparen(l).(*ast.SelectorExpr); ok {
						if sl := info.Selections[sel]; sl != nil && sl.Obj() == types.Object(outF) {
							stores++
						}
					}
				}
			case *ast.IncDecStmt:
				if sel, ok := ast.Unparen(y.X).(*ast.SelectorExpr); ok {
					if sl := info.Selections[sel]; sl != nil && sl.Obj() == types.Object(outF) {
						stores += 2
					}
				}
			case *ast.KeyValueExpr:
				if k, ok := y.Key.(*ast.Ident); ok && info.Uses[k] == types.Object(outF) {
					stores++
				}
			case *ast.UnaryExpr:
				if sel, ok := ast.Unparen(y.X).(*ast.SelectorExpr); ok && y.Op == token.AND {
					if sl := info.Selections[sel]; sl != nil && sl.Obj() == types.Object(outF) {
						stores += 2
					}
				}
			}
			return true
		})
	}
	if stores != 1 {
		return nil, ""
	}
	return outF, outK
}

// R-C01-11: the two header modes combine the per-header predicates differently.
func c01HeaderModes(c *core.Ctx) {
	c.Rule("R-C01-11", "header modes: with matchAllHeader every header must hold — its value is in the value list (when one is configured) AND matches the expression (when one is configured) — and a failed predicate ends the matcher with false; without it one header whose value is in the list OR matches the expression ends the matcher with true; after all headers the result is matchAllHeader")
	ro := muxRolesOf(c, "R-C01-11")
	if ro == nil {
		return
	}
	f := muxMatcherFn(c, ro, ro.pathT, "matchHeaders", "HTTPHeader", "Header")
	if f == nil {
		return
	}
	cons := muxFuncConstruct(f)
	info := f.Info
	headerT := muxNamedTypeOpt(f.Pkg.Types, "Header")
	pathSpecT := muxNamedTypeOpt(f.Pkg.Types, "Path")
	if headerT == nil || pathSpecT == nil {
		c.Errorf("R-C01-11: anchor: the spec types Header / Path are not found")
		return
	}
	valuesF := muxOneField(headerT, "Values", func(v *types.Var) bool { return v.Name() == "Values" })
	regexpF := muxOneField(headerT, "Regexp", func(v *types.Var) bool { return v.Name() == "Regexp" })
	reF := muxOneField(headerT, "headerRE", func(v *types.Var) bool { return strings.HasSuffix(v.Type().String(), "regexp.Regexp") })
	allSrc := muxOneField(pathSpecT, "MatchAllHeader", func(v *types.Var) bool { return v.Name() == "MatchAllHeader" })
	allF := muxFieldInitFrom(c, ro.pathT, allSrc)
	allK := "" // the flag kept as an enum: the constant that stands for "match all"
	if allF == nil {
		allF, allK = c01ModeField(c, ro.pathT, allSrc)
	}
	if valuesF == nil || regexpF == nil || reF == nil || allF == nil {
		c.Errorf("R-C01-11: anchor: cannot resolve Header.Values / Header.Regexp / the compiled expression / the MuxPath flag initialised from Path.MatchAllHeader")
		return
	}
	fns := reach(f, 2)
	vf := newMuxFlow(fns)
	selects := func(e ast.Expr, fld *types.Var) bool {
		sel, ok := vf.through(e).(*ast.SelectorExpr)
		if !ok {
			return false
		}
		sl := info.Selections[sel]
		return sl != nil && sl.Obj() == fld
	}
	var inV, inRE []string           // keys of "the value is in the list" / "the value matches the expression"
	var emptyV, emptyRE []muxHdrAtom // "no list configured" / "no expression configured"
	for _, g := range fns {
		for _, call := range calls(g.Body, true) {
			full := calleeFull(g, call)
			switch {
			case strings.HasSuffix(full, "pkg/util/stringtool.StrInSlice") && len(call.Args) == 2 && selects(call.Args[1], valuesF):
				inV = append(inV, f.CallKey(call))
			case strings.HasSuffix(full, "regexp.Regexp).MatchString"):
				if sel, ok := ast.Unparen(call.Fun).(*ast.SelectorExpr); ok && selects(sel.X, reF) {
					inRE = append(inRE, f.CallKey(call))
				}
			}
		}
		ast.Inspect(g.Body, func(n ast.Node) bool {
			be, ok := n.(*ast.BinaryExpr)
			if !ok {
				return true
			}
			for i, side := range []ast.Expr{be.X, be.Y} {
				other := be.Y
				if i == 1 {
					other = be.X
				}
				tv, ok := info.Types[other]
				if !ok || tv.Value == nil {
					continue
				}
				switch tv.Value.ExactString() {
				case "0":
					if x := vf.lenOf(side); x != nil && selects(x, valuesF) {
						r := f.Render(ast.Unparen(side))
						emptyV = append(emptyV, muxHdrAtom{"eq:" + r + "==0", flow.True}, muxHdrAtom{"lt:0<" + r, flow.False})
					}
				case `""`:
					if selects(side, regexpF) {
						emptyRE = append(emptyRE, muxHdrAtom{"eq:" + f.Render(ast.Unparen(side)) + `==""`, flow.True})
					}
				}
			}
			return true
		})
	}
	if !c.RequireCount("R-C01-11", "value-list tests in matchHeaders", len(inV), 1) || !c.RequireCount("R-C01-11", "expression tests in matchHeaders", len(inRE), 1) {
		return
	}
	loops := vf.loopsOver(ro.headersF, "hdr")
	if !c.RequireCount("R-C01-11", "loops over the entry's headers", len(loops), 1) {
		return
	}
	known := func(st *flow.State, keys []string) flow.Val {
		for _, k := range keys {
			if v := st.Get(k); v != flow.Unknown {
				return v
			}
		}
		return flow.Unknown
	}
	holds := func(st *flow.State, atoms []muxHdrAtom) bool {
		for _, a := range atoms {
			if st.Is(a.key, a.empty) {
				return true
			}
		}
		return false
	}
	// isAllTest: e is `<path>.flag == K` (K the match-all constant) / `!=`; neg for the latter
	isAllTest := func(e ast.Expr) (is, neg bool) {
		be, ok := ast.Unparen(e).(*ast.BinaryExpr)
		if !ok || allK == "" || (be.Op != token.EQL && be.Op != token.NEQ) {
			return false, false
		}
		for i, side := range []ast.Expr{be.X, be.Y} {
			other := be.Y
			if i == 1 {
				other = be.X
			}
			if tv, ok := info.Types[other]; ok && tv.Value != nil && tv.Value.ExactString() == allK && selects(side, allF) {
				return true, be.Op == token.NEQ
			}
		}
		return false, false
	}
	mode := func(st *flow.State) flow.Val {
		if allK != "" {
			for _, fact := range st.Facts() {
				if strings.HasPrefix(fact, "eq:") && strings.HasSuffix(fact[:len(fact)-2], "."+allF.Name()+"=="+allK) {
					if strings.HasSuffix(fact, "=T") {
						return flow.True
					}
					return flow.False
				}
			}
			return flow.Unknown
		}
		for _, fact := range st.Facts() {
			if strings.HasPrefix(fact, "v:") && strings.HasSuffix(fact[:len(fact)-2], "."+allF.Name()) {
				if strings.HasSuffix(fact, "=T") {
					return flow.True
				}
				return flow.False
			}
		}
		return flow.Unknown
	}
	var bad *flow.State
	why := ""
	iters := map[flow.Val]int{}
	inBody := func(st *flow.State) bool {
		for _, l := range loops {
			if l.current(st) {
				return true
			}
		}
		return false
	}
	res := muxAnalyzeInl(c, f, flow.Config{NoHavoc: true,
		OnBlock: func(st *flow.State, b *cfg.Block) {
			for _, l := range loops {
				if l.isHead(b) && st.Is("ev:iter:"+l.name+sprintf("%d", l.stmt.Pos()), flow.True) {
					// an iteration has ended without deciding: the header was passed over
					m := mode(st)
					iters[m]++
					v, re := known(st, inV), known(st, inRE)
					switch m {
					case flow.True:
						switch {
						case v != flow.True && !holds(st, emptyV):
							bad, why = st, "in match-all mode a header is accepted without its value having been found in the header's value list (and the list is not known to be empty): a header that configures both a value list and an expression must satisfy both"
						case re != flow.True && !holds(st, emptyRE):
							bad, why = st, "in match-all mode a header is accepted without its value having matched the header's expression (and no expression is not established): a header that configures both a value list and an expression must satisfy both"
						}
					case flow.False:
						if v == flow.True || re == flow.True {
							bad, why = st, "in match-any mode the search goes on although a header's value is in its list / matches its expression"
						}
					}
				}
				if l.isBody(b) {
					st.Set("ev:iter:"+l.name+sprintf("%d", l.stmt.Pos()), flow.True)
				}
				if l.isDone(b) {
					st.Set("ev:iter:"+l.name+sprintf("%d", l.stmt.Pos()), flow.Unknown)
				}
				l.track(st, b)
			}
		},
	})
	if res == nil {
		return
	}
	nexits := 0
	for _, ex := range res.Exits {
		if ex.Kind != flow.ExitReturn || bad != nil {
			continue
		}
		st := ex.State
		r := muxRetExpr(f, vf, ex)
		if r == nil {
			continue
		}
		m := mode(st)
		val := flow.Unknown
		switch {
		case info.Types[r].Value != nil:
			val = flow.False
			if info.Types[r].Value.ExactString() == "true" {
				val = flow.True
			}
		case selects(r, allF) && allK == "":
			val = m
		case func() bool { is, _ := isAllTest(r); return is }():
			val = m
			if _, neg := isAllTest(r); neg && m != flow.Unknown {
				val = flow.True
				if m == flow.True {
					val = flow.False
				}
			}
		case muxIdentOf(r) != nil:
			val = st.Get(f.VarKey(r))
		}
		if val == flow.Unknown || m == flow.Unknown {
			if len(info.Types[r].Type.String()) > 0 && m != flow.Unknown {
				c.Undecide("R-C01-11", cons+"|header modes", pos(c, ex.Ret()), "cannot resolve the value the header matcher returns on this path")
				return
			}
			continue
		}
		nexits++
		v, re := known(st, inV), known(st, inRE)
		switch {
		case inBody(st) && m == flow.True:
			if val == flow.True {
				bad, why = st, "in match-all mode the matcher answers true before all headers were examined"
			} else if v != flow.False && re != flow.False {
				bad, why = st, "in match-all mode the matcher answers false although no predicate of the current header failed"
			}
		case inBody(st) && m == flow.False:
			if val == flow.False {
				bad, why = st, "in match-any mode the matcher answers false before all headers were examined"
			} else if v != flow.True && re != flow.True {
				bad, why = st, "in match-any mode the matcher answers true although neither predicate of the current header held"
			}
		case !inBody(st) && (val == flow.True) != (m == flow.True):
			bad, why = st, "after all headers were examined the matcher does not answer matchAllHeader (true in match-all mode: nothing failed; false in match-any mode: nothing matched)"
		}
	}
	if bad == nil && (iters[flow.True] == 0 || iters[flow.False] == 0 || nexits == 0) {
		c.Errorf("R-C01-11: vacuity guard: the header matcher is not examined in both modes (iterations passed over: match-all %d, match-any %d; exits %d)", iters[flow.True], iters[flow.False], nexits)
		return
	}
	c.Check(bad == nil, "R-C01-11", cons+"|header modes", pos(c, f.Body), sprintf("match-all: %d passed-over iterations each with list and expression satisfied or absent; match-any: %d passed-over iterations with neither satisfied; %d exits consistent", iters[flow.True], iters[flow.False], nexits), why, witness(bad)...)
}
