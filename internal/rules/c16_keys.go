package rules

// R-C16-8 — key-domain agreement. The package uses two kinds of string keys for a session: the
// client id (Broker.clients, SessionManager.sessionMap, the topic manager, watch/delete handlers)
// and the storage key sessionStoreKey(id) (storage get/put/delete, the maps returned by
// storage.getPrefix and delivered by the delete watcher). The only conversions are
// sessionStoreKey (id → key) and stripping sessionStoreKey("") from a key (key → id). The rule
// infers the domain of a key expression where the code makes it evident (never from names) and
// reports every use in a place that demands the other domain; expressions of unknown domain are
// not judged.

import (
	"go/ast"
	"go/token"
	"go/types"
	"sort"

	"verif/internal/flow"
)

type c16Dom int

const (
	c16DomUnknown c16Dom = iota
	c16DomID
	c16DomKey
)

func (d c16Dom) String() string {
	switch d {
	case c16DomID:
		return "client id"
	case c16DomKey:
		return "storage key"
	}
	return "unknown"
}

type c16Keys struct {
	e        *c16Env
	paramMem map[string]c16Dom
}

// isKeyMap: x is a map whose keys are storage keys (result of storage.getPrefix, or a watch event
// map[string]*string).
func (k *c16Keys) isKeyMap(f *flow.Func, x ast.Expr) bool {
	x = ast.Unparen(x)
	if tv, ok := f.Info.Types[x]; ok && tv.Type != nil {
		if m, ok := tv.Type.Underlying().(*types.Map); ok {
			if p, ok := m.Elem().(*types.Pointer); ok {
				if b, ok := p.Elem().(*types.Basic); ok && b.Kind() == types.String {
					return true // watch event map[string]*string
				}
			}
		} else {
			return false
		}
	}
	o := c16Obj(f, x)
	if o == nil {
		return false
	}
	found, all := false, true
	ast.Inspect(f.Body, func(n ast.Node) bool {
		as, ok := n.(*ast.AssignStmt)
		if !ok || len(as.Lhs) == 0 || c16Obj(f, as.Lhs[0]) != o {
			return true
		}
		if len(as.Rhs) == 1 {
			if call, ok := ast.Unparen(as.Rhs[0]).(*ast.CallExpr); ok && ifaceMethodCall(f, call, mq, "storage", "getPrefix") {
				found = true
				return true
			}
		}
		all = false
		return true
	})
	return found && all
}

func (k *c16Keys) dom(f *flow.Func, x ast.Expr, depth int) c16Dom {
	if x == nil || depth > 3 {
		return c16DomUnknown
	}
	x = ast.Unparen(x)
	switch t := x.(type) {
	case *ast.CallExpr:
		if c16Is(f, t, mq+".sessionStoreKey") {
			return c16DomKey
		}
		if calleeFull(f, t) == "strings.TrimPrefix" && len(t.Args) == 2 && k.dom(f, t.Args[0], depth+1) == c16DomKey {
			return c16DomID
		}
	case *ast.SliceExpr:
		if k.dom(f, t.X, depth+1) == c16DomKey && t.Low != nil {
			return c16DomID
		}
	case *ast.SelectorExpr:
		if c16Sel(f, t, k.e.httpIDF) {
			return c16DomID
		}
	case *ast.Ident:
		o := c16Obj(f, t)
		if o == nil {
			return c16DomUnknown
		}
		// range key
		d := c16DomUnknown
		ast.Inspect(f.Body, func(n ast.Node) bool {
			if r, ok := n.(*ast.RangeStmt); ok && r.Key != nil && c16Obj(f, r.Key) == o {
				switch {
				case c16Sel(f, r.X, k.e.clientsF):
					d = c16DomID
				case k.isKeyMap(f, r.X):
					d = c16DomKey
				}
			}
			return true
		})
		if d != c16DomUnknown {
			return d
		}
		rhs := c16DefRHS(f, o)
		if len(rhs) == 0 {
			return c16DomUnknown
		}
		for i, r := range rhs {
			di := k.dom(f, r, depth+1)
			if i == 0 {
				d = di
			} else if di != d {
				return c16DomUnknown
			}
		}
		return d
	}
	if k.e.isCid(f, x, 0) {
		return c16DomID
	}
	return c16DomUnknown
}

type c16Sink struct {
	role string
	want c16Dom
	key  ast.Expr
	at   ast.Node
}

// sinks lists the places of f that demand a key of a definite domain.
func (k *c16Keys) sinks(f *flow.Func, withCalls bool) []c16Sink {
	var out []c16Sink
	e := k.e
	ast.Inspect(f.Body, func(n ast.Node) bool {
		switch x := n.(type) {
		case *ast.IndexExpr:
			switch {
			case c16Sel(f, x.X, e.clientsF):
				out = append(out, c16Sink{"index of Broker.clients", c16DomID, x.Index, x})
			case k.isKeyMap(f, x.X):
				out = append(out, c16Sink{"index of a stored-session listing", c16DomKey, x.Index, x})
			}
		case *ast.CallExpr:
			switch {
			case calleeFull(f, x) == "builtin.delete" && len(x.Args) == 2 && c16Sel(f, x.Args[0], e.clientsF):
				out = append(out, c16Sink{"index of Broker.clients", c16DomID, x.Args[1], x})
			case calleeFull(f, x) == "builtin.delete" && len(x.Args) == 2 && k.isKeyMap(f, x.Args[0]):
				out = append(out, c16Sink{"index of a stored-session listing", c16DomKey, x.Args[1], x})
			case len(x.Args) >= 1 && (ifaceMethodCall(f, x, mq, "storage", "get") || ifaceMethodCall(f, x, mq, "storage", "put") || ifaceMethodCall(f, x, mq, "storage", "delete")):
				out = append(out, c16Sink{"key handed to the session storage", c16DomKey, x.Args[0], x})
			case len(x.Args) >= 1 && c16Sel(f, c16Recv(x), e.sessMapF) && c16Is(f, x, "(*sync.Map).Load", "(*sync.Map).Store", "(*sync.Map).Delete", "(*sync.Map).LoadAndDelete", "(*sync.Map).LoadOrStore"):
				out = append(out, c16Sink{"key of the session cache", c16DomID, x.Args[0], x})
			case c16Is(f, x, "(*"+mq+".TopicManager).subscribe", "(*"+mq+".TopicManager).unsubscribe") && len(x.Args) >= 2:
				out = append(out, c16Sink{"client id handed to the topic manager", c16DomID, x.Args[len(x.Args)-1], x})
			case c16Is(f, x, mq+".sessionStoreKey") && len(x.Args) == 1:
				if tv := f.Info.Types[x.Args[0]]; tv.Value == nil {
					out = append(out, c16Sink{"argument of sessionStoreKey", c16DomID, x.Args[0], x})
				}
			case withCalls:
				if fo, ok := c16FnOK(f, x); ok {
					if d := e.decls[fo]; d != nil && d.Body != f.Body {
						for i, a := range x.Args {
							if want := k.paramDom(d, i); want != c16DomUnknown {
								out = append(out, c16Sink{"key passed to " + declName(e.pkg, d), want, a, x})
							}
						}
					}
				}
			}
		}
		return true
	})
	return out
}

// paramDom: the domain the callee demands of its i-th parameter (from its own direct sinks).
func (k *c16Keys) paramDom(d *ast.FuncDecl, i int) c16Dom {
	key := sprintf("%p|%d", d, i)
	if v, ok := k.paramMem[key]; ok {
		return v
	}
	k.paramMem[key] = c16DomUnknown
	f := flow.NewFunc(k.e.pkg, d)
	var param types.Object
	idx := 0
	if d.Type.Params != nil {
		for _, fld := range d.Type.Params.List {
			for _, nm := range fld.Names {
				if idx == i {
					param = f.Info.Defs[nm]
				}
				idx++
			}
		}
	}
	if param == nil {
		return c16DomUnknown
	}
	if b, ok := param.Type().Underlying().(*types.Basic); !ok || b.Kind() != types.String {
		return c16DomUnknown
	}
	res := c16DomUnknown
	for _, s := range k.sinks(f, false) {
		if c16Obj(f, s.key) == param {
			if res == c16DomUnknown {
				res = s.want
			} else if res != s.want {
				res = c16DomUnknown
				break
			}
		}
	}
	k.paramMem[key] = res
	return res
}

func c16KeyDomains(e *c16Env) {
	c := e.c
	k := &c16Keys{e: e, paramMem: map[string]c16Dom{}}
	type agg struct {
		n   int
		bad *c16Sink
		got c16Dom
		pos string
	}
	res := map[string]*agg{}
	judged := 0
	var decls []*ast.FuncDecl
	for _, d := range e.decls {
		decls = append(decls, d)
	}
	sort.Slice(decls, func(i, j int) bool { return decls[i].Pos() < decls[j].Pos() })
	for _, d := range decls {
		f := flow.NewFunc(e.pkg, d)
		for _, s := range k.sinks(f, true) {
			s := s
			got := k.dom(f, s.key, 0)
			if got == c16DomUnknown {
				continue
			}
			judged++
			cons := declName(e.pkg, d) + "|" + s.role
			a := res[cons]
			if a == nil {
				a = &agg{pos: pos(c, s.at)}
				res[cons] = a
			}
			a.n++
			if got != s.want && a.bad == nil {
				a.bad, a.got, a.pos = &s, got, pos(c, s.at)
			}
		}
	}
	if !c.RequireCount("R-C16-8", "key uses whose domain (client id / storage key) is evident", judged, 12) {
		return
	}
	harm := map[string]string{
		"index of a stored-session listing":     "the listing returned by storage.getPrefix / delivered by the delete watcher is keyed by storage keys (sessionStoreKey(id)); looked up with a bare client id it never has an entry, so every client looks as if its session had been deleted (reconnectWatcher then closes all connected clients, not only the one whose session was deleted)",
		"index of Broker.clients":               "Broker.clients is keyed by client ids; indexed with a storage key it never finds the connection, so the client of a deleted session is not disconnected",
		"key handed to the session storage":     "the session storage is keyed by sessionStoreKey(id); with a bare client id the session is read, written or deleted under a key nobody else uses (the admin delete does not reach the watcher, a reconnect does not find its session)",
		"key of the session cache":              "the session cache is keyed by client ids; a storage key never matches the entry of the connection",
		"client id handed to the topic manager": "subscriptions are registered under client ids; under a storage key they are never delivered to (nor removed for) the connection",
		"argument of sessionStoreKey":           "sessionStoreKey converts a client id; applied to a storage key it produces a doubly prefixed key that matches nothing",
	}
	for _, cons := range sortedKeys(res) {
		a := res[cons]
		if a.bad == nil {
			c.Discharge("R-C16-8", cons, a.pos, sprintf("%d use(s), each with a key of the demanded domain", a.n))
			continue
		}
		h := harm[a.bad.role]
		if h == "" {
			h = "the callee uses this parameter as a " + a.bad.want.String()
		}
		c.Violate("R-C16-8", cons, a.pos, sprintf("a %s is used where a %s is demanded: %s", a.got, a.bad.want, h))
	}
}

var _ = token.ADD
