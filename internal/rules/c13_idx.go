package rules

import (
	"go/ast"
	"go/token"
	"go/types"
	"strconv"
	"strings"

	"verif/internal/core"
	"verif/internal/flow"
)

// R-C13-8: constant index into a slice of run-time length. `x[k]` (k constant, x a slice that is
// not a parameter of the function) in the reachable code panics when len(x) <= k; results of
// regexp Find*Submatch, strings.Split*, etcd responses, option lists ... have a length that
// depends on the request or the configuration. Every (function, slice role) pair needs, on all
// paths to the index, a lower bound len(x) >= k+1: from dominating comparisons of len(x) with
// constants (interval reasoning over the engine's lt:/eq: facts, plus the comparisons to the
// left of the index inside the same && / || condition), from what the producing call
// guarantees (a non-nil Find*Submatch result has at least one element, strings.Split* with a
// non-empty constant separator returns at least one element), or a reviewed reason.

type c13IdxEntry struct{ reason string }

var c13IdxTable = map[string]c13IdxEntry{
	"pkg/filters/topicmapper.getTopicMapFunc|constant index into local []string": {
		reason: "levels is the result of strings.Split(topic, \"/\"), which has at least one element, and it is indexed before being re-sliced"},
}

type c13IdxSite struct {
	ix *ast.IndexExpr
	k  int64
}

func c13ConstIndexes(c *core.Ctx, g *c13Graph, sf *c13SpecFields) {
	type group struct {
		node  *c13Node
		sites []c13IdxSite
	}
	groups := map[string]*group{}
	nSites := 0
	for _, n := range g.reachedFuncs() {
		info := n.pkg.TypesInfo
		params := c13ParamObjs(n)
		ast.Inspect(n.body, func(x ast.Node) bool {
			ix, ok := x.(*ast.IndexExpr)
			if !ok {
				return true
			}
			tv := info.Types[ix.X]
			if tv.Type == nil {
				return true
			}
			if _, ok := tv.Type.Underlying().(*types.Slice); !ok {
				return true
			}
			kv := info.Types[ix.Index].Value
			if kv == nil {
				return true
			}
			k, err := strconv.ParseInt(kv.ExactString(), 10, 64)
			if err != nil || k < 0 {
				return true
			}
			// a slice handed in by the caller: the length contract is the caller's
			if id, ok := ast.Unparen(ix.X).(*ast.Ident); ok && params[info.Uses[id]] {
				return true
			}
			nSites++
			cons := n.name + "|constant index into " + c13SliceRole(n, sf, ix.X)
			gr := groups[cons]
			if gr == nil {
				gr = &group{node: n}
				groups[cons] = gr
			}
			gr.sites = append(gr.sites, c13IdxSite{ix, k})
			return true
		})
	}
	for _, cons := range sortedKeys(groups) {
		gr := groups[cons]
		n := gr.node
		var badSite *c13IdxSite
		var badState *flow.State
		have := int64(0)
		for i := range gr.sites {
			s := &gr.sites[i]
			ok, st, got := c13ProveLen(c, n, s)
			if !ok {
				badSite, badState, have = s, st, got
				break
			}
		}
		if badSite == nil {
			c.Discharge("R-C13-8", cons, pos(c, gr.sites[0].ix), sprintf("%d constant index site(s), the slice is known long enough on every path", len(gr.sites)))
			continue
		}
		if e, ok := c13IdxTable[cons]; ok {
			c.Discharge("R-C13-8", cons, pos(c, badSite.ix), "reviewed: "+e.reason)
			continue
		}
		c.Violate("R-C13-8", cons, pos(c, badSite.ix),
			sprintf("index [%d] into a slice of run-time length is reachable from %s on a path where only len >= %d is established (needs >= %d): a shorter slice (e.g. a regexp without capture group that matches, an input with fewer separators, an empty list) panics with index out of range", badSite.k, n.root, have, badSite.k+1),
			append(witness(badState), n.chain()...)...)
	}
	c.RequireCount("R-C13-8", "constant index sites into run-time slices", nSites, 8)
}

func c13ParamObjs(n *c13Node) map[types.Object]bool {
	out := map[types.Object]bool{}
	info := n.pkg.TypesInfo
	add := func(ft *ast.FuncType) {
		if ft == nil || ft.Params == nil {
			return
		}
		for _, p := range ft.Params.List {
			for _, nm := range p.Names {
				if o := info.Defs[nm]; o != nil {
					out[o] = true
				}
			}
		}
	}
	if n.decl != nil {
		add(n.decl.Type)
	}
	ast.Inspect(n.body, func(x ast.Node) bool {
		if lit, ok := x.(*ast.FuncLit); ok {
			add(lit.Type)
		}
		return true
	})
	return out
}

// c13SliceRole names the indexed slice without local variable names.
func c13SliceRole(n *c13Node, sf *c13SpecFields, e ast.Expr) string {
	core := c13Core(n, e)
	info := n.pkg.TypesInfo
	switch x := core.(type) {
	case *ast.CallExpr:
		if id := c13CalleeIdent(x); id != nil {
			if fo, ok := info.Uses[id].(*types.Func); ok {
				return "result of " + strings.ReplaceAll(fo.FullName(), Mod, "")
			}
		}
	case *ast.SelectorExpr:
		if v := c13FieldOf(n, x); v != nil {
			return "field " + strings.TrimPrefix(sf.name(v), n.pkg.Types.Name()+".")
		}
	}
	if tv := info.Types[e]; tv.Type != nil {
		return "local " + strings.ReplaceAll(tv.Type.String(), Mod, "")
	}
	return "slice"
}

// c13Producer returns what the producing call guarantees about its result's length:
// always = minimal length in any case, nonNil = minimal length when the result is not nil.
func c13Producer(n *c13Node, e ast.Expr) (always, nonNil int64) {
	call, ok := c13Core(n, e).(*ast.CallExpr)
	if !ok {
		return 0, 0
	}
	info := n.pkg.TypesInfo
	id := c13CalleeIdent(call)
	if id == nil {
		return 0, 0
	}
	fo, ok := info.Uses[id].(*types.Func)
	if !ok || fo.Pkg() == nil {
		return 0, 0
	}
	switch fo.Pkg().Path() {
	case "regexp":
		if strings.HasPrefix(fo.Name(), "Find") && strings.Contains(fo.Name(), "Submatch") && !strings.Contains(fo.Name(), "All") {
			return 0, 1
		}
	case "strings", "bytes":
		switch fo.Name() {
		case "Split", "SplitAfter", "SplitN", "SplitAfterN":
			if len(call.Args) >= 2 {
				if sv := info.Types[call.Args[1]].Value; sv != nil && sv.ExactString() != `""` {
					if len(call.Args) == 3 {
						if nv := info.Types[call.Args[2]].Value; nv == nil || nv.ExactString() == "0" {
							return 0, 0
						}
					}
					return 1, 1
				}
			}
		}
	}
	return 0, 0
}

// c13ProveLen: in every state reaching the index, len(x) >= k+1. Returns the witness state and
// the bound that was established otherwise.
func c13ProveLen(c *core.Ctx, n *c13Node, s *c13IdxSite) (bool, *flow.State, int64) {
	need := s.k + 1
	always, nonNil := c13Producer(n, s.ix.X)
	if always >= need {
		return true, nil, always
	}
	top := n.flowFunc()
	if top == nil {
		return false, nil, always
	}
	f := c13Innermost(top, s.ix)
	xr := f.Render(s.ix.X)
	l := "len(" + xr + ")"
	nilKey := "nil:" + xr
	// comparisons to the left of the index inside the same short-circuit condition
	local := c13ShortCircuitBound(f, n, s.ix, l)
	if local > always {
		always = local
	}
	if always >= need {
		return true, nil, always
	}
	// locals defined once as len(x) stand for it
	names := []string{l}
	seenAlias := map[types.Object]bool{}
	ast.Inspect(f.Body, func(x ast.Node) bool {
		id, ok := x.(*ast.Ident)
		if !ok {
			return true
		}
		o := f.Info.Uses[id]
		if o == nil || seenAlias[o] {
			return true
		}
		seenAlias[o] = true
		if def := c13SingleDef(n, id); def != nil && f.Render(c13StripConv(n, def)) == l {
			names = append(names, f.Render(id))
		}
		return true
	})
	names = c13ParamVocab(f, names)
	nilKeys := c13ParamVocab(f, []string{nilKey})
	bound := func(st *flow.State) int64 {
		got := always
		for _, nk := range nilKeys {
			if nonNil > got && st.Is(nk, flow.False) {
				got = nonNil
			}
		}
		for _, nm := range names {
			if b := c13LenLowerBound(st, nm); b > got {
				got = b
			}
		}
		return got
	}
	states, seen := c13StatesAt(c, f, s.ix, flow.Config{
		Track: func(k string) bool {
			for _, nm := range names {
				if strings.Contains(k, nm) {
					return true
				}
			}
			return k == nilKey || strings.HasPrefix(k, "v:")
		},
		Pure: c13PureFor(f, c13BaseObj(f, s.ix.X)),
	}, func(st *flow.State) bool { return bound(st) >= need })
	if !seen {
		return false, nil, always
	}
	for _, st := range states {
		if got := bound(st); got < need {
			return false, st, got
		}
	}
	return true, nil, need
}

// c13LenLowerBound reads the engine's facts about len(x) against integer constants.
func c13LenLowerBound(st *flow.State, l string) int64 {
	var best int64
	up := func(v int64) {
		if v > best {
			best = v
		}
	}
	for _, fact := range st.Facts() {
		if len(fact) < 3 {
			continue
		}
		body, val := fact[:len(fact)-2], fact[len(fact)-1]
		num := func(s string) (int64, bool) {
			v, err := strconv.ParseInt(s, 10, 64)
			return v, err == nil
		}
		switch {
		case strings.HasPrefix(body, "lt:") && strings.HasSuffix(body, "<"+l): // c < len
			if cst, ok := num(body[3 : len(body)-len(l)-1]); ok && val == 'T' {
				up(cst + 1)
			}
		case strings.HasPrefix(body, "lt:"+l+"<"): // len < c
			if cst, ok := num(body[len("lt:"+l+"<"):]); ok && val == 'F' {
				up(cst)
			}
		case strings.HasPrefix(body, "eq:"+l+"=="):
			if cst, ok := num(body[len("eq:"+l+"=="):]); ok {
				if val == 'T' {
					up(cst)
				} else if cst == 0 {
					up(1)
				}
			}
		}
	}
	return best
}

// c13ShortCircuitBound: the index sits in the right operand of && (left operand known true) or
// of || (left operand known false) chains; read len(x) comparisons from those operands.
func c13ShortCircuitBound(f *flow.Func, n *c13Node, ix *ast.IndexExpr, l string) int64 {
	var best int64
	var stack []ast.Node
	done := false
	ast.Inspect(f.Body, func(x ast.Node) bool {
		if done {
			return false
		}
		if x == nil {
			stack = stack[:len(stack)-1]
			return true
		}
		stack = append(stack, x)
		if x != ast.Node(ix) {
			return true
		}
		done = true
		for i := len(stack) - 2; i >= 0; i-- {
			be, ok := stack[i].(*ast.BinaryExpr)
			if !ok {
				if _, isParen := stack[i].(*ast.ParenExpr); isParen {
					continue
				}
				if _, isExpr := stack[i].(ast.Expr); !isExpr {
					break
				}
				continue
			}
			if (be.Op == token.LAND || be.Op == token.LOR) && contains(be.Y, ix) {
				if b := c13CondLenBound(f, be.X, be.Op == token.LAND, l); b > best {
					best = b
				}
			}
		}
		return false
	})
	return best
}

// c13CondLenBound: lower bound of len(x) implied by cond evaluating to outcome.
func c13CondLenBound(f *flow.Func, cond ast.Expr, outcome bool, l string) int64 {
	cond = ast.Unparen(cond)
	switch e := cond.(type) {
	case *ast.UnaryExpr:
		if e.Op == token.NOT {
			return c13CondLenBound(f, e.X, !outcome, l)
		}
	case *ast.BinaryExpr:
		max := func(a, b int64) int64 {
			if a > b {
				return a
			}
			return b
		}
		switch {
		case e.Op == token.LAND && outcome, e.Op == token.LOR && !outcome:
			return max(c13CondLenBound(f, e.X, outcome, l), c13CondLenBound(f, e.Y, outcome, l))
		case e.Op == token.LAND, e.Op == token.LOR:
			return 0
		}
		isLen := func(x ast.Expr) bool { return f.Render(x) == l }
		cst := func(x ast.Expr) (int64, bool) {
			tv := f.Info.Types[x]
			if tv.Value == nil {
				return 0, false
			}
			v, err := strconv.ParseInt(tv.Value.ExactString(), 10, 64)
			return v, err == nil
		}
		op := e.Op
		lhs, rhs := e.X, e.Y
		if !isLen(lhs) && isLen(rhs) {
			// mirror: c op len  ->  len op' c
			lhs, rhs = rhs, lhs
			switch op {
			case token.LSS:
				op = token.GTR
			case token.GTR:
				op = token.LSS
			case token.LEQ:
				op = token.GEQ
			case token.GEQ:
				op = token.LEQ
			}
		}
		if !isLen(lhs) {
			return 0
		}
		v, ok := cst(rhs)
		if !ok {
			return 0
		}
		if !outcome {
			switch op {
			case token.LSS:
				op = token.GEQ
			case token.LEQ:
				op = token.GTR
			case token.GTR:
				op = token.LEQ
			case token.GEQ:
				op = token.LSS
			case token.EQL:
				op = token.NEQ
			case token.NEQ:
				op = token.EQL
			}
		}
		switch op {
		case token.GTR:
			return v + 1
		case token.GEQ, token.EQL:
			return v
		case token.NEQ:
			if v == 0 {
				return 1
			}
		}
	}
	return 0
}
