package rules

// Call resolution shared by the C18 rules: what a call expression *effectively* calls, seen
// through the idioms of everyday refactoring — a method value or a closure kept in a local
// (`release := m.lock.Unlock; defer release()`), a function value (`put := s._putObject`), and
// small same-package helpers that the flow engine cannot interpret in place (deferred calls,
// calls through such locals): those are expanded when their body is straight-line code.

import (
	"go/ast"
	"go/types"

	"golang.org/x/tools/go/packages"

	"verif/internal/flow"
)

// c18eff is one effective call: the call expression whose arguments apply, the function or
// method it reaches and (for methods) the receiver expression.
type c18eff struct {
	call   *ast.CallExpr
	callee types.Object
	recv   ast.Expr
}

// c18declAt returns the function declaration of pkg that spans pos.
func c18declAt(pkg *packages.Package, n ast.Node) *ast.FuncDecl {
	for _, file := range pkg.Syntax {
		if n.Pos() < file.Pos() || n.Pos() >= file.End() {
			continue
		}
		for _, d := range file.Decls {
			if fd, ok := d.(*ast.FuncDecl); ok && fd.Body != nil && contains(fd, n) {
				return fd
			}
		}
	}
	return nil
}

// c18boundValue returns the expression a local variable is bound to if it is assigned exactly
// once in its declaring function (nil otherwise).
func c18boundValue(pkg *packages.Package, v *types.Var) ast.Expr {
	if v == nil || v.IsField() || v.Pkg() == nil || v.Parent() == v.Pkg().Scope() {
		return nil
	}
	info := pkg.TypesInfo
	var at *ast.Ident
	for id, o := range info.Defs {
		if o == v {
			at = id
			break
		}
	}
	if at == nil {
		return nil
	}
	fd := c18declAt(pkg, at)
	if fd == nil {
		return nil
	}
	var val ast.Expr
	n := 0
	is := func(e ast.Expr) bool {
		id, ok := ast.Unparen(e).(*ast.Ident)
		return ok && (info.Defs[id] == v || info.Uses[id] == v)
	}
	ast.Inspect(fd, func(x ast.Node) bool {
		switch s := x.(type) {
		case *ast.AssignStmt:
			for i, l := range s.Lhs {
				if !is(l) {
					continue
				}
				n++
				if len(s.Lhs) == len(s.Rhs) {
					val = s.Rhs[i]
				} else {
					val = nil
					n++
				}
			}
		case *ast.ValueSpec:
			for i, id := range s.Names {
				if info.Defs[id] != v {
					continue
				}
				if len(s.Values) == len(s.Names) {
					n++
					val = s.Values[i]
				} else if len(s.Values) > 0 {
					n += 2
				}
			}
		case *ast.IncDecStmt:
			if is(s.X) {
				n += 2
			}
		case *ast.UnaryExpr:
			if s.Op.String() == "&" && is(s.X) {
				n += 2
			}
		case *ast.RangeStmt:
			if (s.Key != nil && is(s.Key)) || (s.Value != nil && is(s.Value)) {
				n += 2
			}
		}
		return true
	})
	if n != 1 {
		return nil
	}
	return ast.Unparen(val)
}

// c18target resolves the function a call reaches, looking through a local bound once to a method
// value, a function or a function literal. lit is set when the target is a closure.
func c18target(pkg *packages.Package, call *ast.CallExpr) (callee types.Object, recv ast.Expr, lit *ast.FuncLit) {
	info := pkg.TypesInfo
	fun := ast.Unparen(call.Fun)
	for hop := 0; hop < 3; hop++ {
		switch x := fun.(type) {
		case *ast.FuncLit:
			return nil, nil, x
		case *ast.SelectorExpr:
			if s := info.Selections[x]; s != nil {
				if fo, ok := s.Obj().(*types.Func); ok {
					return fo, x.X, nil
				}
				return nil, nil, nil // function-typed field: unknown target
			}
			if fo, ok := info.Uses[x.Sel].(*types.Func); ok {
				return fo, nil, nil // package-qualified function
			}
			return nil, nil, nil
		case *ast.Ident:
			switch o := info.Uses[x].(type) {
			case *types.Func:
				return o, nil, nil
			case *types.Builtin:
				return o, nil, nil
			case *types.Var:
				b := c18boundValue(pkg, o)
				if b == nil {
					return nil, nil, nil
				}
				fun = b
				continue
			}
			return nil, nil, nil
		default:
			return nil, nil, nil
		}
	}
	return nil, nil, nil
}

// c18straightCalls lists the calls of a body made of straight-line statements in execution order
// (deferred calls last, in reverse); ok is false when the body branches, loops or spawns.
func c18straightCalls(body *ast.BlockStmt) (out []*ast.CallExpr, ok bool) {
	var deferred []*ast.CallExpr
	for _, st := range body.List {
		switch s := st.(type) {
		case *ast.ExprStmt, *ast.AssignStmt, *ast.DeclStmt, *ast.ReturnStmt, *ast.IncDecStmt:
			out = append(out, c18evalOrder(s)...)
		case *ast.DeferStmt:
			for _, a := range s.Call.Args {
				out = append(out, c18evalOrder(a)...)
			}
			deferred = append(deferred, s.Call)
		case *ast.EmptyStmt:
		default:
			return nil, false
		}
	}
	for i := len(deferred) - 1; i >= 0; i-- {
		out = append(out, deferred[i])
	}
	return out, true
}

// c18evalOrder lists the calls in n with inner calls first (evaluation order), not entering
// function literals.
func c18evalOrder(n ast.Node) []*ast.CallExpr {
	var out []*ast.CallExpr
	var walk func(x ast.Node)
	walk = func(x ast.Node) {
		ast.Inspect(x, func(y ast.Node) bool {
			switch t := y.(type) {
			case *ast.FuncLit:
				return false
			case *ast.CallExpr:
				if t != x {
					walk(t.Fun)
					for _, a := range t.Args {
						walk(a)
					}
					out = append(out, t)
					return false
				}
			}
			return true
		})
	}
	if c, ok := n.(*ast.CallExpr); ok {
		walk(c.Fun)
		for _, a := range c.Args {
			walk(a)
		}
		return append(out, c)
	}
	walk(n)
	return out
}

// c18resolve returns the effective calls of one evaluated call.
//
//	expandHelpers: also replace a same-package function by the calls of its straight-line body
//	(to be used where the flow engine does not interpret the callee in place: deferred calls,
//	calls through a local). Closures are always expanded.
//
// opaque reports a target (closure or helper) whose body is not straight-line: its effects are
// unknown to the caller.
func c18resolve(pkg *packages.Package, call *ast.CallExpr, expandHelpers bool, depth int) (effs []c18eff, opaque bool) {
	callee, recv, lit := c18target(pkg, call)
	throughLocal := false
	if id, ok := ast.Unparen(call.Fun).(*ast.Ident); ok {
		_, throughLocal = pkg.TypesInfo.Uses[id].(*types.Var)
	}
	var body *ast.BlockStmt
	switch {
	case lit != nil:
		body = lit.Body
	case callee == nil:
		return nil, false
	default:
		effs = append(effs, c18eff{call: call, callee: callee, recv: recv})
		fo, ok := callee.(*types.Func)
		if !ok || fo.Pkg() != pkg.Types || !(expandHelpers || throughLocal) {
			return effs, false
		}
		fd := declOf(pkg, fo)
		if fd == nil {
			return effs, false
		}
		body = fd.Body
	}
	if depth >= 3 {
		return effs, true
	}
	inner, ok := c18straightCalls(body)
	if !ok {
		return effs, true
	}
	for _, ic := range inner {
		e2, op := c18resolve(pkg, ic, true, depth+1)
		effs = append(effs, e2...)
		opaque = opaque || op
	}
	return effs, opaque
}

// c18recvVarsOf returns the receiver variables of all methods of named type t declared in pkg.
func c18recvVarsOf(pkg *packages.Package, t *types.Named) map[types.Object]bool {
	out := map[types.Object]bool{}
	for _, file := range pkg.Syntax {
		for _, d := range file.Decls {
			fd, ok := d.(*ast.FuncDecl)
			if !ok || fd.Recv == nil || len(fd.Recv.List) != 1 || len(fd.Recv.List[0].Names) != 1 {
				continue
			}
			o := pkg.TypesInfo.Defs[fd.Recv.List[0].Names[0]]
			if o == nil {
				continue
			}
			rt := o.Type()
			if p, ok := rt.(*types.Pointer); ok {
				rt = p.Elem()
			}
			if n, ok := rt.(*types.Named); ok && n.Obj() == t.Obj() {
				out[o] = true
			}
		}
	}
	return out
}

// c18rootedIn is c18rootedAt for a set of root variables.
func c18rootedIn(f *flow.Func, e ast.Expr, roots map[types.Object]bool) (*types.Var, bool) {
	var last *types.Var
	e = ast.Unparen(e)
	for {
		switch x := e.(type) {
		case *ast.UnaryExpr:
			e = ast.Unparen(x.X)
			continue
		case *ast.SelectorExpr:
			if last == nil {
				if s := f.Info.Selections[x]; s != nil {
					last, _ = s.Obj().(*types.Var)
				}
			}
			e = ast.Unparen(x.X)
			continue
		case *ast.Ident:
			return last, roots[f.Info.Uses[x]]
		}
		return last, false
	}
}

// c18syncOpOf classifies an effective call as a sync.Mutex / sync.RWMutex operation.
func c18syncOpOf(e c18eff) (string, ast.Expr) {
	fo, ok := e.callee.(*types.Func)
	if !ok || fo.Pkg() == nil || fo.Pkg().Path() != "sync" {
		return "", nil
	}
	sig, _ := fo.Type().(*types.Signature)
	if sig == nil || sig.Recv() == nil {
		return "", nil
	}
	rt := sig.Recv().Type()
	if p, ok := rt.(*types.Pointer); ok {
		rt = p.Elem()
	}
	if n, ok := rt.(*types.Named); !ok || (n.Obj().Name() != "Mutex" && n.Obj().Name() != "RWMutex") {
		return "", nil
	}
	switch fo.Name() {
	case "Lock", "Unlock", "RLock", "RUnlock":
		return fo.Name(), e.recv
	}
	return "", nil
}
