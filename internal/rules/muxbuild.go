package rules

import (
	"go/ast"
	"go/token"
	"go/types"
	"strings"

	"verif/internal/core"
	"verif/internal/flow"
)

// symEval renders an expression of a constructor function symbolically: single-assignment
// locals are replaced by their definition, parameters of the root function by $<index>,
// parameters of helpers by the argument of the call being evaluated (or of their only call site),
// range variables by the ranged expression's element, the type-asserted object spec by
// $<TypeName>, fields of a locally built composite literal by the field's value (given in the
// literal — also through the literal of an embedded struct or a constructor helper such as
// newIPGuard(parent, spec) — or assigned after construction), and the IP-filter constructors by
// chain(..)/filter(..).
type symEval struct {
	f      *flow.Func
	vf     *muxFlow
	params map[types.Object]int
	chain  *types.Func // (parent *IPFilters, child *ipfilter.Spec) *IPFilters
	filter *types.Func // (spec *ipfilter.Spec) *IPFilter
	depth  int
}

// symEnv binds the parameters of a helper whose call is being evaluated to the operands of that
// call (which are evaluated in the caller's environment).
type symEnv struct {
	binds  map[types.Object]ast.Expr
	parent *symEnv
}

func newSymEval(f *flow.Func, fns []*flow.Func, chain, filter *types.Func) *symEval {
	s := &symEval{f: f, vf: newMuxFlow(fns), params: map[types.Object]int{}, chain: chain, filter: filter}
	i := 0
	if f.Type != nil && f.Type.Params != nil {
		for _, fld := range f.Type.Params.List {
			if len(fld.Names) == 0 {
				i++
			}
			for _, n := range fld.Names {
				s.params[f.Info.Defs[n]] = i
				i++
			}
		}
	}
	return s
}

// helperReturn: a same-package function (not one of the modelled constructors) whose body has a
// single return statement with one result; the environment binds its parameters to the operands.
func (s *symEval) helperReturn(call *ast.CallExpr, env *symEnv) (ast.Expr, *symEnv) {
	fo, _ := s.f.Callee(call).(*types.Func)
	if fo == nil || fo.Pkg() != s.f.Pkg.Types || fo.Origin() == s.chain || fo.Origin() == s.filter {
		return nil, nil
	}
	fd := declOf(s.f.Pkg, fo)
	if fd == nil || fd.Type.Results == nil || fd.Type.Results.NumFields() != 1 {
		return nil, nil
	}
	var rets []*ast.ReturnStmt
	ast.Inspect(fd.Body, func(n ast.Node) bool {
		switch x := n.(type) {
		case *ast.FuncLit:
			return false
		case *ast.ReturnStmt:
			rets = append(rets, x)
		}
		return true
	})
	if len(rets) != 1 || len(rets[0].Results) != 1 {
		return nil, nil
	}
	ne := &symEnv{binds: map[types.Object]ast.Expr{}, parent: env}
	if fd.Recv != nil && len(fd.Recv.List) == 1 && len(fd.Recv.List[0].Names) == 1 {
		if sel, ok := ast.Unparen(call.Fun).(*ast.SelectorExpr); ok {
			ne.binds[s.f.Info.Defs[fd.Recv.List[0].Names[0]]] = sel.X
		}
	}
	i := 0
	for _, fld := range fd.Type.Params.List {
		if len(fld.Names) == 0 {
			i++
		}
		for _, nm := range fld.Names {
			if i < len(call.Args) {
				ne.binds[s.f.Info.Defs[nm]] = call.Args[i]
			}
			i++
		}
	}
	return rets[0].Results[0], ne
}

// evalLit resolves e to the composite literal that builds its value (with the environment the
// literal's entries are to be evaluated in) and, when it is held in a local, that local.
func (s *symEval) evalLit(e ast.Expr, env *symEnv, depth int) (*ast.CompositeLit, *symEnv, types.Object) {
	if depth > 8 || e == nil {
		return nil, nil, nil
	}
	e = ast.Unparen(e)
	if lit := litOf(e); lit != nil {
		return lit, env, nil
	}
	switch x := e.(type) {
	case *ast.Ident:
		o := s.vf.obj(x)
		if env != nil {
			if arg, ok := env.binds[o]; ok {
				return s.evalLit(arg, env.parent, depth+1)
			}
		}
		if pr, ok := s.vf.param[o]; ok {
			if _, root := s.params[o]; root {
				return nil, nil, nil
			}
			if arg := s.onlyArg(pr); arg != nil {
				return s.evalLit(arg, nil, depth+1)
			}
			return nil, nil, nil
		}
		d := s.vf.singleDef(o)
		if d == nil {
			return nil, nil, nil
		}
		lit, le, holder := s.evalLit(d, env, depth+1)
		if lit != nil && holder == nil && litOf(d) != nil {
			holder = o
		}
		return lit, le, holder
	case *ast.CallExpr:
		if ret, ne := s.helperReturn(x, env); ret != nil {
			lit, le, _ := s.evalLit(ret, ne, depth+1)
			return lit, le, nil
		}
	case *ast.SelectorExpr:
		// x.embedded where x is built by a literal
		if lit, le, _ := s.evalLit(x.X, env, depth+1); lit != nil {
			for _, el := range lit.Elts {
				if kv, ok := el.(*ast.KeyValueExpr); ok {
					if k, ok := kv.Key.(*ast.Ident); ok && k.Name == x.Sel.Name {
						nl, ne, _ := s.evalLit(kv.Value, le, depth+1)
						return nl, ne, nil
					}
				}
			}
		}
	case *ast.StarExpr:
		return s.evalLit(x.X, env, depth+1)
	}
	return nil, nil, nil
}

// litField finds the value given for field name in lit, also through the literals given for
// embedded structs.
func (s *symEval) litField(lit *ast.CompositeLit, env *symEnv, name string, depth int) (ast.Expr, *symEnv, bool) {
	if depth > 4 {
		return nil, nil, false
	}
	for _, el := range lit.Elts {
		if kv, ok := el.(*ast.KeyValueExpr); ok {
			if k, ok := kv.Key.(*ast.Ident); ok && k.Name == name {
				return kv.Value, env, true
			}
		}
	}
	tv, ok := s.f.Info.Types[lit]
	if !ok {
		return nil, nil, false
	}
	st, ok := tv.Type.Underlying().(*types.Struct)
	if !ok {
		return nil, nil, false
	}
	for _, el := range lit.Elts {
		kv, ok := el.(*ast.KeyValueExpr)
		if !ok {
			continue
		}
		k, _ := kv.Key.(*ast.Ident)
		for i := 0; k != nil && i < st.NumFields(); i++ {
			if st.Field(i).Name() == k.Name && st.Field(i).Embedded() {
				if il, ie, _ := s.evalLit(kv.Value, env, 0); il != nil {
					if v, ve, ok := s.litField(il, ie, name, depth+1); ok {
						return v, ve, true
					}
				}
			}
		}
	}
	return nil, nil, false
}

// onlyArg returns the operand bound to a helper's parameter when the helper has one call site.
func (s *symEval) onlyArg(pr muxParamRef) ast.Expr {
	sites := s.vf.sites[pr.fn]
	if len(sites) != 1 {
		return nil
	}
	call := sites[0].Call
	if pr.idx < 0 {
		if sel, ok := ast.Unparen(call.Fun).(*ast.SelectorExpr); ok {
			return sel.X
		}
		return nil
	}
	if pr.idx < len(call.Args) {
		return call.Args[pr.idx]
	}
	return nil
}

// fieldStore finds `holder.name = v` in the function set.
func (s *symEval) fieldStore(holder types.Object, name string) ast.Expr {
	var val ast.Expr
	n := 0
	for _, g := range s.vf.fns {
		ast.Inspect(g.Body, func(x ast.Node) bool {
			as, ok := x.(*ast.AssignStmt)
			if !ok || len(as.Lhs) != len(as.Rhs) {
				return true
			}
			for i, l := range as.Lhs {
				if sel, ok := ast.Unparen(l).(*ast.SelectorExpr); ok && sel.Sel.Name == name {
					if id := muxIdentOf(sel.X); id != nil && s.vf.obj(id) == holder {
						val = as.Rhs[i]
						n++
					}
				}
			}
			return true
		})
	}
	if n == 1 {
		return val
	}
	return nil
}

func (s *symEval) eval(e ast.Expr) string { return s.evalIn(e, nil) }

func (s *symEval) evalIn(e ast.Expr, env *symEnv) string {
	s.depth++
	defer func() { s.depth-- }()
	if s.depth > 16 {
		return "?"
	}
	f := s.f
	switch x := ast.Unparen(e).(type) {
	case *ast.Ident:
		if f.Info.Types[x].IsNil() {
			return "nil"
		}
		obj := s.vf.obj(x)
		if env != nil {
			if arg, ok := env.binds[obj]; ok {
				return s.evalIn(arg, env.parent)
			}
		}
		if i, ok := s.params[obj]; ok {
			return "$" + string(rune('0'+i))
		}
		if pr, ok := s.vf.param[obj]; ok {
			if arg := s.onlyArg(pr); arg != nil {
				return s.evalIn(arg, nil)
			}
			return "?" + x.Name
		}
		if ds := s.vf.defs[obj]; len(ds) == 1 {
			switch d := ds[0]; {
			case d.expr != nil:
				return s.evalIn(d.expr, env)
			case d.rng != nil && !d.isKey:
				return s.evalIn(d.rng.X, env) + "[]"
			}
		}
		return "?" + x.Name
	case *ast.TypeAssertExpr:
		if x.Type != nil {
			t := types.ExprString(x.Type)
			return "$" + strings.TrimPrefix(t, "*")
		}
	case *ast.UnaryExpr:
		if x.Op == token.AND {
			return s.evalIn(x.X, env)
		}
	case *ast.StarExpr:
		return s.evalIn(x.X, env)
	case *ast.CompositeLit:
		return "lit"
	case *ast.SelectorExpr:
		// field of a locally built composite literal?
		if lit, le, holder := s.evalLit(x.X, env, 0); lit != nil {
			if v, ve, ok := s.litField(lit, le, x.Sel.Name, 0); ok {
				return s.evalIn(v, ve)
			}
			if holder != nil {
				if v := s.fieldStore(holder, x.Sel.Name); v != nil {
					return s.evalIn(v, env)
				}
			}
		}
		return s.evalIn(x.X, env) + "." + x.Sel.Name
	case *ast.IndexExpr:
		return s.evalIn(x.X, env) + "[]"
	case *ast.CallExpr:
		fo, _ := f.Callee(x).(*types.Func)
		if fo != nil {
			fo = fo.Origin()
		}
		switch {
		case fo != nil && fo == s.chain && len(x.Args) == 2:
			return "chain(" + s.evalIn(x.Args[0], env) + "," + s.evalIn(x.Args[1], env) + ")"
		case fo != nil && fo == s.filter && len(x.Args) == 1:
			return "filter(" + s.evalIn(x.Args[0], env) + ")"
		}
		if ret, ne := s.helperReturn(x, env); ret != nil {
			return s.evalIn(ret, ne)
		}
		return "call:" + calleeFull(f, x)
	}
	return "?"
}

// fieldValues evaluates what field name of struct type typ is initialised with in the function
// set: its entry in the composite literals of typ (also through an embedded struct's literal or
// constructor) and `x.name = v` assignments on values of typ.
func (s *symEval) fieldValues(typ *types.Named, name string) (vals []string, ats []ast.Node) {
	info := s.f.Info
	for _, g := range s.vf.fns {
		ast.Inspect(g.Body, func(n ast.Node) bool {
			switch x := n.(type) {
			case *ast.CompositeLit:
				tv, ok := info.Types[x]
				if !ok || !muxSameNamed(muxDerefNamed(tv.Type), typ) {
					return true
				}
				if v, ve, ok := s.litField(x, nil, name, 0); ok {
					vals, ats = append(vals, s.evalIn(v, ve)), append(ats, x)
				}
			case *ast.AssignStmt:
				if len(x.Lhs) != len(x.Rhs) {
					return true
				}
				for i, l := range x.Lhs {
					if sel, ok := ast.Unparen(l).(*ast.SelectorExpr); ok && sel.Sel.Name == name {
						if sl := info.Selections[sel]; sl != nil && sl.Kind() == types.FieldVal && muxSameNamed(muxDerefNamed(sl.Recv()), typ) {
							vals, ats = append(vals, s.eval(x.Rhs[i])), append(ats, x)
						}
					}
				}
			}
			return true
		})
	}
	return
}

func litOf(e ast.Expr) *ast.CompositeLit {
	e = ast.Unparen(e)
	if u, ok := e.(*ast.UnaryExpr); ok && u.Op == token.AND {
		e = u.X
	}
	lit, _ := e.(*ast.CompositeLit)
	return lit
}

// muxCtors are the constructor functions of the router resolved by signature / what they build.
type muxCtors struct {
	reload, newRule, newPath, chainCtor, filterCtor *flow.Func
	ruleSpecT, pathSpecT                            *types.Named
}

func muxParamIndex(fo *types.Func, pred func(t types.Type) bool) int {
	sig := fo.Type().(*types.Signature)
	for i := 0; i < sig.Params().Len(); i++ {
		if pred(sig.Params().At(i).Type()) {
			return i
		}
	}
	return -1
}

func muxCtorsOf(c *core.Ctx, ro *muxRoles, rule string) *muxCtors {
	pkg := c.Prog.Pkg(hs)
	mc := &muxCtors{ruleSpecT: muxNamedTypeOpt(pkg.Types, "Rule"), pathSpecT: muxNamedTypeOpt(pkg.Types, "Path")}
	returns := func(fo *types.Func, n *types.Named) bool {
		sig := fo.Type().(*types.Signature)
		return sig.Recv() == nil && sig.Results().Len() == 1 && muxIsPtrTo(sig.Results().At(0).Type(), n)
	}
	pick := func(prefer string, role func(fo *types.Func, g *flow.Func) bool) *flow.Func {
		g, n := muxFuncByRole(c, hs, prefer, func(g *flow.Func, fd *ast.FuncDecl) bool {
			fo := muxFuncObj(g)
			return fo != nil && role(fo, g)
		})
		if g == nil {
			c.Errorf("%s: anchor: cannot resolve the constructor playing the role of %s (%d candidates)", rule, prefer, n)
		}
		return g
	}
	hasParam := func(fo *types.Func, n *types.Named) bool {
		return muxParamIndex(fo, func(t types.Type) bool { return muxIsPtrTo(t, n) }) >= 0
	}
	mc.newRule = pick("newMuxRule", func(fo *types.Func, g *flow.Func) bool { return returns(fo, ro.ruleT) && hasParam(fo, mc.ruleSpecT) })
	mc.newPath = pick("newMuxPath", func(fo *types.Func, g *flow.Func) bool { return returns(fo, ro.pathT) && hasParam(fo, mc.pathSpecT) })
	mc.chainCtor = pick("newIPFilterChain", func(fo *types.Func, g *flow.Func) bool {
		sig := fo.Type().(*types.Signature)
		return returns(fo, ro.filtersT) && sig.Params().Len() == 2 && muxIsPtrTo(sig.Params().At(0).Type(), ro.filtersT) && muxIsPtrTo(sig.Params().At(1).Type(), ro.filterSpecT)
	})
	mc.filterCtor = pick("newIPFilter", func(fo *types.Func, g *flow.Func) bool {
		sig := fo.Type().(*types.Signature)
		return returns(fo, ro.filterT) && sig.Params().Len() == 1 && muxIsPtrTo(sig.Params().At(0).Type(), ro.filterSpecT)
	})
	if mc.newRule == nil || mc.newPath == nil || mc.chainCtor == nil || mc.filterCtor == nil {
		return nil
	}
	ruleObj := muxFuncObj(mc.newRule)
	mc.reload = pick("reload", func(fo *types.Func, g *flow.Func) bool {
		hasLit := false
		ast.Inspect(g.Body, func(n ast.Node) bool {
			if cl, ok := n.(*ast.CompositeLit); ok {
				if tv, ok := g.Info.Types[cl]; ok && muxSameNamed(muxDerefNamed(tv.Type), ro.instT) {
					hasLit = true
				}
			}
			return true
		})
		return hasLit && muxReachCalls(g, 3, func(h *flow.Func, call *ast.CallExpr) bool {
			co, ok := h.Callee(call).(*types.Func)
			return ok && co.Origin() == ruleObj
		})
	})
	if mc.reload == nil {
		return nil
	}
	c.Count("functions_analysed", 5)
	return mc
}

// muxBuildChecks verifies how the reload function and the rule / path / chain constructors compose
// the per-level IP filters and the per-path filter chain, and that rules and paths keep
// their configured order. Obligations are recorded under the given rule ids.
func muxBuildChecks(c *core.Ctx, chainRule, orderRule string) {
	rule := chainRule
	if rule == "" {
		rule = orderRule
	}
	ro := muxRolesOf(c, rule)
	if ro == nil {
		return
	}
	mc := muxCtorsOf(c, ro, rule)
	if mc == nil {
		return
	}
	reload, nmr, nmp, nic := mc.reload, mc.newRule, mc.newPath, mc.chainCtor
	ruleObj, pathObj, chainObj, filterObj := muxFuncObj(nmr), muxFuncObj(nmp), muxFuncObj(nic), muxFuncObj(mc.filterCtor)
	opaque := map[types.Object]bool{ruleObj: true, pathObj: true, chainObj: true, filterObj: true}
	fns := muxReach(reload, 3, opaque)
	isFilters := func(t types.Type) bool { return muxIsPtrTo(t, ro.filtersT) }
	cons := muxFuncConstruct(reload)
	type ctorCall struct {
		fn   *flow.Func
		call *ast.CallExpr
	}
	var pathCalls, ruleCalls []ctorCall
	for _, g := range fns {
		for _, call := range calls(g.Body, true) {
			fo, ok := g.Callee(call).(*types.Func)
			if !ok {
				continue
			}
			switch fo.Origin() {
			case pathObj:
				pathCalls = append(pathCalls, ctorCall{g, call})
			case ruleObj:
				ruleCalls = append(ruleCalls, ctorCall{g, call})
			}
		}
	}
	pathSpecIdx := muxParamIndex(pathObj, func(t types.Type) bool { return muxIsPtrTo(t, mc.pathSpecT) })
	pathChainIdx := muxParamIndex(pathObj, isFilters)
	ruleSpecIdx := muxParamIndex(ruleObj, func(t types.Type) bool { return muxIsPtrTo(t, mc.ruleSpecT) })
	se := newSymEval(reload, fns, chainObj, filterObj)
	if chainRule != "" {
		// ---- reload
		if vals, ats := se.fieldValues(ro.instT, ro.instFilterF.Name()); len(vals) > 0 {
			for i, got := range vals {
				c.Check(got == "filter($Spec.IPFilter)", chainRule, cons+"|server-level filter", pos(c, ats[i]), got, "the server-level IP filter is not built from the server spec's ipFilter: "+got)
			}
		} else {
			c.Violate(chainRule, cons+"|server-level filter", pos(c, reload.Body), "the new mux instance has no server-level IP filter")
		}
		c.RequireCount(chainRule, "newMuxPath calls in reload", len(pathCalls), 1)
		c.RequireCount(chainRule, "newMuxRule calls in reload", len(ruleCalls), 1)
		for _, pc := range pathCalls {
			call := pc.call
			if pathChainIdx < 0 || pathSpecIdx < 0 || len(call.Args) <= pathChainIdx || len(call.Args) <= pathSpecIdx {
				c.Undecide(chainRule, cons+"|chain handed to the path = server + rule filters", pos(c, call), "unexpected signature of the path constructor")
				continue
			}
			got := se.eval(call.Args[pathChainIdx])
			want := "chain(chain(nil,$Spec.IPFilter),$Spec.Rules[].IPFilter)"
			c.Check(got == want, chainRule, cons+"|chain handed to the path = server + rule filters", pos(c, call), got,
				"the filter chain handed to newMuxPath is "+got+", expected "+want+": on a cache hit only this chain is checked, so a level missing here is not enforced for cached routes")
			gotp := se.eval(call.Args[pathSpecIdx])
			c.Check(gotp == "$Spec.Rules[].Paths[]", chainRule, cons+"|path spec handed to newMuxPath", pos(c, call), gotp, "newMuxPath is given "+gotp+" instead of the rule's path spec")
		}
		for _, rc := range ruleCalls {
			call := rc.call
			if ruleSpecIdx < 0 || len(call.Args) <= ruleSpecIdx {
				continue
			}
			got := se.eval(call.Args[ruleSpecIdx])
			c.Check(got == "$Spec.Rules[]", chainRule, cons+"|rule spec handed to newMuxRule", pos(c, call), got, "newMuxRule is given "+got+" instead of the rule spec")
		}
		// ---- newMuxRule / newMuxPath: own-level filters
		for _, it := range []struct {
			f     *flow.Func
			typ   *types.Named
			fld   *types.Var
			param int
		}{{nmr, ro.ruleT, ro.ruleFilterF, ruleSpecIdx}, {nmp, ro.pathT, ro.pathFilterF, pathSpecIdx}} {
			ifns := muxReach(it.f, 2, opaque)
			se := newSymEval(it.f, ifns, chainObj, filterObj)
			cons := muxFuncConstruct(it.f)
			want := "filter($" + string(rune('0'+it.param)) + ".IPFilter)"
			if vals, ats := se.fieldValues(it.typ, it.fld.Name()); len(vals) > 0 {
				for i, got := range vals {
					c.Check(got == want, chainRule, cons+"|own-level filter", pos(c, ats[i]), got, it.typ.Obj().Name()+"."+it.fld.Name()+" is not built from its own spec's ipFilter: "+got)
				}
			} else {
				c.Violate(chainRule, cons+"|own-level filter", pos(c, it.f.Body), it.typ.Obj().Name()+" is built without its own IP filter")
			}
		}
		{
			ifns := muxReach(nmp, 2, opaque)
			se := newSymEval(nmp, ifns, chainObj, filterObj)
			cons := muxFuncConstruct(nmp)
			want := "chain($" + string(rune('0'+pathChainIdx)) + ",$" + string(rune('0'+pathSpecIdx)) + ".IPFilter)"
			if vals, ats := se.fieldValues(ro.pathT, ro.pathChainF.Name()); len(vals) > 0 {
				for i, got := range vals {
					c.Check(got == want, chainRule, cons+"|chain = parent chain + path filter", pos(c, ats[i]), got, "MuxPath."+ro.pathChainF.Name()+" is "+got+", expected the parent chain extended by the path's own filter")
				}
			} else {
				c.Violate(chainRule, cons+"|chain = parent chain + path filter", pos(c, nmp.Body), "MuxPath is built without a filter chain: cached routes are returned without any IP check")
			}
		}
		muxChainCtor(c, chainRule, nic)
	}
	if orderRule != "" {
		// rules[i] = newMuxRule(.., spec.Rules[i], ..); paths[j] = newMuxPath(.., specRule.Paths[j])
		// (the spec element may also be the value variable of `for i, x := range spec.Rules`,
		// and the element may be appended in iteration order instead of stored by index)
		vf := se.vf
		n := 0
		// a helper that builds one element from one spec element (newMuxRuleWithPaths(parent, specRule):
		// every return is newMuxRule(.., specRule, ..) with the helper's own parameter): the
		// constructor it wraps and the index of that parameter
		wrapperOf := func(fo *types.Func) (*types.Func, int) {
			g := vf.fnOf[fo]
			if g == nil || fo == ruleObj || fo == pathObj {
				return nil, -1
			}
			fd, ok := g.Node.(*ast.FuncDecl)
			if !ok {
				return nil, -1
			}
			var params []types.Object
			for _, fld := range fd.Type.Params.List {
				if len(fld.Names) == 0 {
					params = append(params, nil)
				}
				for _, nm := range fld.Names {
					params = append(params, g.Info.Defs[nm])
				}
			}
			var target *types.Func
			idx := -1
			for _, r := range vf.rets[fo] {
				if len(r.Results) != 1 {
					return nil, -1
				}
				inner, ok := vf.through(r.Results[0]).(*ast.CallExpr)
				if !ok {
					return nil, -1
				}
				io, _ := g.Callee(inner).(*types.Func)
				if io == nil {
					return nil, -1
				}
				si := -1
				switch io.Origin() {
				case ruleObj:
					si = ruleSpecIdx
				case pathObj:
					si = pathSpecIdx
				}
				if si < 0 || si >= len(inner.Args) || (target != nil && target != io.Origin()) {
					return nil, -1
				}
				id := muxIdentOf(inner.Args[si])
				if id == nil {
					return nil, -1
				}
				at := -1
				for i, po := range params {
					if po != nil && vf.obj(id) == po && len(vf.defs[po]) == 0 {
						at = i
					}
				}
				if at < 0 || (idx >= 0 && idx != at) {
					return nil, -1
				}
				target, idx = io.Origin(), at
			}
			return target, idx
		}
		for _, g := range fns {
			g := g
			ast.Inspect(g.Body, func(x ast.Node) bool {
				as, ok := x.(*ast.AssignStmt)
				if !ok || len(as.Lhs) != 1 || len(as.Rhs) != 1 {
					return true
				}
				rhs := ast.Unparen(as.Rhs[0])
				call, _ := rhs.(*ast.CallExpr)
				if call == nil {
					return true
				}
				appended := false
				if b, ok := g.Callee(call).(*types.Builtin); ok && b.Name() == "append" && len(call.Args) == 2 && !call.Ellipsis.IsValid() {
					// xs = append(xs, ctor(..))
					if g.Render(call.Args[0]) != g.Render(as.Lhs[0]) {
						return true
					}
					call, _ = ast.Unparen(call.Args[1]).(*ast.CallExpr)
					if call == nil {
						return true
					}
					appended = true
				}
				fo, _ := g.Callee(call).(*types.Func)
				if fo == nil {
					return true
				}
				var specArg ast.Expr
				role := ""
				wTarget, wIdx := wrapperOf(fo.Origin())
				switch {
				case fo.Origin() == ruleObj && ruleSpecIdx >= 0 && ruleSpecIdx < len(call.Args):
					specArg, role = call.Args[ruleSpecIdx], "rules"
				case fo.Origin() == pathObj && pathSpecIdx >= 0 && pathSpecIdx < len(call.Args):
					specArg, role = call.Args[pathSpecIdx], "paths"
				case wTarget == ruleObj && wIdx < len(call.Args) && !call.Ellipsis.IsValid():
					specArg, role = call.Args[wIdx], "rules"
				case wTarget == pathObj && wIdx < len(call.Args) && !call.Ellipsis.IsValid():
					specArg, role = call.Args[wIdx], "paths"
				default:
					return true
				}
				n++
				// the spec element: X[i], or the value variable of a range loop with key i
				var specIndex ast.Expr
				var specRange *ast.RangeStmt
				cur := specArg
				for i := 0; i < 6; i++ {
					if ie, ok := ast.Unparen(cur).(*ast.IndexExpr); ok {
						specIndex = ie.Index
						break
					}
					id := muxIdentOf(cur)
					if id == nil {
						break
					}
					o := vf.obj(id)
					if ds := vf.defs[o]; len(ds) == 1 && ds[0].rng != nil && !ds[0].isKey {
						specRange = ds[0].rng
						break
					}
					d := vf.singleDef(o)
					if d == nil {
						break
					}
					cur = d
				}
				ok2 := false
				switch lhs := ast.Unparen(as.Lhs[0]).(type) {
				case *ast.IndexExpr:
					if !appended {
						switch {
						case specIndex != nil:
							ok2 = g.Render(specIndex) == g.Render(lhs.Index)
						case specRange != nil && specRange.Key != nil:
							ok2 = g.Render(specRange.Key) == g.Render(lhs.Index)
						}
					}
				default:
					// appended in iteration order of a loop over the spec elements
					if appended && (specRange != nil || specIndex != nil) {
						loops := enclosingLoops(g.Body, as)
						if len(loops) > 0 {
							switch l := loops[len(loops)-1].(type) {
							case *ast.RangeStmt:
								ok2 = specRange == l || (specIndex != nil && l.Key != nil && g.Render(l.Key) == g.Render(specIndex))
							case *ast.ForStmt:
								if inc, isInc := l.Post.(*ast.IncDecStmt); isInc && specIndex != nil {
									ok2 = g.Render(inc.X) == g.Render(specIndex)
								}
							}
						}
					}
				}
				c.Check(ok2, orderRule, cons+"|"+role+" keep configured order", pos(c, as),
					"element i of the runtime "+role+" is built from element i of the spec", "the runtime "+role+" are not built position by position from the spec: the configured rule-then-path order (first match wins) is not preserved")
				return true
			})
		}
		c.RequireCount(orderRule, "rule/path construction sites in reload", n, 2)
		// the loops must count upwards from 0 over the full length
		loops := 0
		for _, g := range fns {
			g := g
			ast.Inspect(g.Body, func(x ast.Node) bool {
				fs, ok := x.(*ast.ForStmt)
				if !ok {
					return true
				}
				loops++
				up := false
				if inc, ok := fs.Post.(*ast.IncDecStmt); ok && inc.Tok == token.INC {
					if init, ok := fs.Init.(*ast.AssignStmt); ok && len(init.Rhs) == 1 {
						if tv, ok := g.Info.Types[init.Rhs[0]]; ok && tv.Value != nil && tv.Value.ExactString() == "0" {
							if be, ok := fs.Cond.(*ast.BinaryExpr); ok {
								bound := be.Y
								if be.Op == token.GTR {
									bound = be.X
								}
								if (be.Op == token.LSS || be.Op == token.GTR) && vf.lenOf(bound) != nil {
									up = true
								}
							}
						}
					}
				}
				c.Check(up, orderRule, cons+"|construction loop covers every element", pos(c, fs), "for i := 0; i < len(..); i++", "a construction loop in reload does not visit every configured element exactly once in order")
				return true
			})
		}
		if loops == 0 {
			// range-based construction is fine too
			c.Discharge(orderRule, cons+"|construction loop covers every element", pos(c, reload.Body), "no counting loops (range-based construction)")
		}
	}
}

// muxChainCtor checks newIPFilterChain: all parent filters are copied, the child filter is
// appended when a child spec is given, nil is returned only for an empty chain.
func muxChainCtor(c *core.Ctx, rule string, f *flow.Func) {
	cons := muxFuncConstruct(f)
	if f.Type.Params == nil || f.Type.Params.NumFields() != 2 {
		c.Undecide(rule, cons+"|signature", pos(c, f.Body), "unexpected signature")
		return
	}
	var names []*ast.Ident
	for _, fld := range f.Type.Params.List {
		names = append(names, fld.Names...)
	}
	if len(names) != 2 {
		c.Undecide(rule, cons+"|signature", pos(c, f.Body), "unnamed parameters")
		return
	}
	parent, child := names[0], names[1]
	// the chain is modelled as NewIPFilters / Append / append steps; a filter slice that is
	// allocated with make, filled by copy or by stores through an index is a form this rule does
	// not follow (the length arithmetic decides emptiness there)
	var unmodelled ast.Node
	isFilterSlice := func(e ast.Expr) bool {
		tv, ok := f.Info.Types[e]
		return ok && tv.Type != nil && strings.HasSuffix(tv.Type.String(), "[]*"+Mod+"pkg/util/ipfilter.IPFilter")
	}
	ast.Inspect(f.Body, func(n ast.Node) bool {
		switch x := n.(type) {
		case *ast.CallExpr:
			if b, ok := f.Callee(x).(*types.Builtin); ok && len(x.Args) > 0 {
				if (b.Name() == "copy" && isFilterSlice(x.Args[0])) || (b.Name() == "make" && isFilterSlice(x)) {
					unmodelled = x
				}
			}
		case *ast.AssignStmt:
			for _, l := range x.Lhs {
				if ie, ok := ast.Unparen(l).(*ast.IndexExpr); ok && isFilterSlice(ie.X) {
					unmodelled = x
				}
			}
		}
		return true
	})
	if unmodelled != nil {
		c.Undecide(rule, cons+"|copies parent filters, appends child filter", pos(c, unmodelled), "the filter slice is built with make / copy / stores through an index: this form of the chain constructor is not followed")
		return
	}
	vf := newMuxFlow([]*flow.Func{f})
	isParam := func(e ast.Expr, p *ast.Ident) bool {
		return vf.allPaths(e, false, func(o types.Object) bool { return o == f.Info.Defs[p] })
	}
	parentNil, childNil := f.NilKey(parent), f.NilKey(child)
	// the number of filters in the chain built so far: len(x.Filters()), possibly in a local
	lenRenders := map[string]bool{}
	ast.Inspect(f.Body, func(n ast.Node) bool {
		e, ok := n.(ast.Expr)
		if !ok {
			return true
		}
		if _, isCall := e.(*ast.CallExpr); !isCall && muxIdentOf(e) == nil {
			return true
		}
		if id := muxIdentOf(e); id != nil {
			if _, isVar := vf.obj(id).(*types.Var); !isVar {
				return true
			}
		}
		if x := vf.lenOf(e); x != nil {
			if inner, ok := vf.through(x).(*ast.CallExpr); ok && calleeIs(f, inner, "(*pkg/util/ipfilter.IPFilters).Filters") {
				lenRenders[f.Render(e)] = true
			}
			// the filters collected in a slice before the chain is wrapped around them
			if tv, ok := f.Info.Types[x]; ok && tv.Type != nil && strings.HasSuffix(tv.Type.String(), "[]*"+Mod+"pkg/util/ipfilter.IPFilter") {
				lenRenders[f.Render(e)] = true
			}
		}
		return true
	})
	isParentFilters := func(e ast.Expr) bool {
		inner, ok := ast.Unparen(e).(*ast.CallExpr)
		if !ok || !calleeIs(f, inner, "(*pkg/util/ipfilter.IPFilters).Filters") {
			return false
		}
		sel, ok := ast.Unparen(inner.Fun).(*ast.SelectorExpr)
		return ok && isParam(sel.X, parent)
	}
	isChildFilter := func(e ast.Expr) bool {
		inner, ok := vf.through(e).(*ast.CallExpr)
		return ok && calleeIs(f, inner, "pkg/util/ipfilter.New") && len(inner.Args) == 1 && isParam(inner.Args[0], child)
	}
	res := analyze(c, f, flow.Config{NoHavoc: true,
		AfterAssume: func(st *flow.State, cond ast.Expr, outcome bool) {
			// "the chain built so far is empty" as an event: with a named result the engine drops the
			// facts about the result variable when `return nil` assigns it
			for _, k := range st.Facts() {
				switch {
				case strings.HasPrefix(k, "eq:") && strings.HasSuffix(k[:len(k)-2], "==0") && lenRenders[k[len("eq:"):len(k)-len("==0=T")]]:
					// len == 0
					if strings.HasSuffix(k, "=T") {
						st.Set("ev:empty", flow.True)
					} else {
						st.Set("ev:empty", flow.False)
					}
				case strings.HasPrefix(k, "lt:0<") && lenRenders[k[len("lt:0<"):len(k)-2]]:
					// 0 < len
					if strings.HasSuffix(k, "=T") {
						st.Set("ev:empty", flow.False)
					} else {
						st.Set("ev:empty", flow.True)
					}
				}
			}
		},
		OnCall: func(st *flow.State, call *ast.CallExpr, callee types.Object, deferred bool) {
			if calleeIs(f, call, "pkg/util/ipfilter.NewIPFilters") || calleeIs(f, call, "(*pkg/util/ipfilter.IPFilters).Append") {
				st.Set("ev:empty", flow.Unknown)
			}
			if isParentFilters(call) {
				st.Set("ev:gotParent", flow.True) // parent.Filters() read on this path
			}
			if b, isB := callee.(*types.Builtin); isB && b.Name() == "append" && len(call.Args) >= 2 {
				st.Set("ev:empty", flow.Unknown)
				for _, a := range call.Args[1:] {
					if isChildFilter(a) {
						st.Set("ev:appended", flow.True)
					}
				}
			}
			if calleeIs(f, call, "pkg/util/ipfilter.NewIPFilters") {
				copied := false
				if call.Ellipsis.IsValid() && len(call.Args) == 1 {
					// NewIPFilters(parent.Filters()...) or NewIPFilters(xs...) with xs holding parent.Filters()
					for _, v := range vf.flat(call.Args[0]) {
						if v.root == nil && v.expr != nil && isParentFilters(v.expr) && st.Is("ev:gotParent", flow.True) {
							copied = true
						}
					}
					if isParentFilters(call.Args[0]) {
						copied = true
					}
				}
				for _, a := range call.Args {
					if !call.Ellipsis.IsValid() && isChildFilter(a) {
						st.Set("ev:appended", flow.True)
					}
				}
				if copied {
					st.Set("ev:copied", flow.True)
				} else {
					st.Set("ev:copied", flow.False)
				}
			}
			if calleeIs(f, call, "(*pkg/util/ipfilter.IPFilters).Append") && len(call.Args) == 1 && isChildFilter(call.Args[0]) {
				st.Set("ev:appended", flow.True)
			}
		},
	})
	if res == nil {
		return
	}
	var bad *flow.State
	why := ""
	n := 0
	for _, ex := range res.Exits {
		if ex.Kind != flow.ExitReturn {
			continue
		}
		r := muxRetExpr(f, vf, ex)
		if r == nil {
			continue
		}
		n++
		st := ex.State
		isNil := f.Info.Types[r].IsNil()
		if id := muxIdentOf(r); id != nil && !isNil && st.Is(f.NilKey(id), flow.True) {
			isNil = true
		}
		if isNil {
			// nil only for an empty chain
			emptyKnown := st.Is("ev:empty", flow.True)
			if !emptyKnown && !(st.Is(parentNil, flow.True) && st.Is(childNil, flow.True)) {
				bad, why = st, "nil (no chain) is returned although the chain may be non-empty"
			}
			continue
		}
		if st.Is(parentNil, flow.False) && !st.Is("ev:copied", flow.True) {
			bad, why = st, "the parent's filters are not copied into the child chain"
		}
		if st.Is(childNil, flow.False) && !st.Is("ev:appended", flow.True) {
			bad, why = st, "the child's own filter is not appended to the chain"
		}
		if st.Get(parentNil) == flow.Unknown || st.Get(childNil) == flow.Unknown {
			bad, why = st, "the constructor does not distinguish nil parents / nil child specs on this path"
		}
	}
	c.RequireCount(rule, "exits of newIPFilterChain", n, 2)
	c.Check(bad == nil, rule, cons+"|copies parent filters, appends child filter", pos(c, f.Body), sprintf("%d exits", n), why, witness(bad)...)
}
