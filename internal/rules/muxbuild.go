package rules

import (
	"go/ast"
	"go/token"
	"go/types"
	"strings"

	"verif/internal/core"
	"verif/internal/flow"
)

// symEval renders an expression of a constructor function symbolically: single-assignment
// locals are replaced by their definition, parameters by $<index>, the type-asserted object
// spec by $<TypeName>, fields of a locally built composite literal by the field's value,
// and the IP-filter constructors by chain(..)/filter(..).
type symEval struct {
	f      *flow.Func
	defs   map[types.Object]ast.Expr // single-assignment locals
	multi  map[types.Object]bool
	params map[types.Object]int
	depth  int
}

func newSymEval(f *flow.Func) *symEval {
	s := &symEval{f: f, defs: map[types.Object]ast.Expr{}, multi: map[types.Object]bool{}, params: map[types.Object]int{}}
	i := 0
	if f.Type != nil && f.Type.Params != nil {
		for _, fld := range f.Type.Params.List {
			for _, n := range fld.Names {
				s.params[f.Info.Defs[n]] = i
				i++
			}
		}
	}
	ast.Inspect(f.Body, func(n ast.Node) bool {
		as, ok := n.(*ast.AssignStmt)
		if !ok {
			return true
		}
		for i, l := range as.Lhs {
			id, ok := l.(*ast.Ident)
			if !ok {
				continue
			}
			obj := f.Info.Defs[id]
			if obj == nil {
				obj = f.Info.Uses[id]
			}
			if obj == nil {
				continue
			}
			if _, seen := s.defs[obj]; seen || s.multi[obj] {
				s.multi[obj] = true
				delete(s.defs, obj)
				continue
			}
			if len(as.Lhs) == len(as.Rhs) {
				s.defs[obj] = as.Rhs[i]
			} else {
				s.multi[obj] = true
			}
		}
		return true
	})
	return s
}

func (s *symEval) eval(e ast.Expr) string {
	s.depth++
	defer func() { s.depth-- }()
	if s.depth > 12 {
		return "?"
	}
	f := s.f
	switch x := ast.Unparen(e).(type) {
	case *ast.Ident:
		if f.Info.Types[x].IsNil() {
			return "nil"
		}
		obj := f.Info.Uses[x]
		if i, ok := s.params[obj]; ok {
			return "$" + string(rune('0'+i))
		}
		if d, ok := s.defs[obj]; ok {
			return s.eval(d)
		}
		return "?" + x.Name
	case *ast.TypeAssertExpr:
		if x.Type != nil {
			t := types.ExprString(x.Type)
			return "$" + strings.TrimPrefix(t, "*")
		}
	case *ast.UnaryExpr:
		if x.Op == token.AND {
			return s.eval(x.X)
		}
	case *ast.StarExpr:
		return s.eval(x.X)
	case *ast.CompositeLit:
		return "lit"
	case *ast.SelectorExpr:
		// field of a locally built composite literal?
		if id, ok := ast.Unparen(x.X).(*ast.Ident); ok {
			if d, ok := s.defs[f.Info.Uses[id]]; ok {
				if lit := litOf(d); lit != nil {
					for _, el := range lit.Elts {
						if kv, ok := el.(*ast.KeyValueExpr); ok {
							if k, ok := kv.Key.(*ast.Ident); ok && k.Name == x.Sel.Name {
								return s.eval(kv.Value)
							}
						}
					}
				}
			}
		}
		return s.eval(x.X) + "." + x.Sel.Name
	case *ast.IndexExpr:
		return s.eval(x.X) + "[]"
	case *ast.CallExpr:
		switch {
		case calleeIs(f, x, hs+".newIPFilterChain") && len(x.Args) == 2:
			return "chain(" + s.eval(x.Args[0]) + "," + s.eval(x.Args[1]) + ")"
		case calleeIs(f, x, hs+".newIPFilter") && len(x.Args) == 1:
			return "filter(" + s.eval(x.Args[0]) + ")"
		}
		return "call:" + calleeFull(f, x)
	}
	return "?"
}

func litOf(e ast.Expr) *ast.CompositeLit {
	e = ast.Unparen(e)
	if u, ok := e.(*ast.UnaryExpr); ok && u.Op == token.AND {
		e = u.X
	}
	lit, _ := e.(*ast.CompositeLit)
	return lit
}

// litField returns the value of field name in the (first) composite literal of type typ
// built in f.
func litField(f *flow.Func, typ, name string) (ast.Expr, ast.Node) {
	var val ast.Expr
	var at ast.Node
	ast.Inspect(f.Body, func(n ast.Node) bool {
		lit, ok := n.(*ast.CompositeLit)
		if !ok || val != nil {
			return true
		}
		tv, ok := f.Info.Types[lit]
		if !ok || tv.Type == nil {
			return true
		}
		nt, ok := tv.Type.(*types.Named)
		if !ok || nt.Obj().Name() != typ {
			return true
		}
		for _, el := range lit.Elts {
			if kv, ok := el.(*ast.KeyValueExpr); ok {
				if k, ok := kv.Key.(*ast.Ident); ok && k.Name == name {
					val, at = kv.Value, kv
				}
			}
		}
		return true
	})
	return val, at
}

// muxBuildChecks verifies how mux.reload / newMuxRule / newMuxPath / newIPFilterChain compose
// the per-level IP filters and the per-path filter chain, and that rules and paths keep
// their configured order. Obligations are recorded under the given rule ids.
func muxBuildChecks(c *core.Ctx, chainRule, orderRule string) {
	reload := fn(c, hs, "mux", "reload")
	nmr := fn(c, hs, "", "newMuxRule")
	nmp := fn(c, hs, "", "newMuxPath")
	nic := fn(c, hs, "", "newIPFilterChain")
	if reload == nil || nmr == nil || nmp == nil || nic == nil {
		return
	}
	if chainRule != "" {
		// ---- reload
		se := newSymEval(reload)
		cons := fname(hs, "mux", "reload")
		if v, at := litField(reload, "muxInstance", "ipFilter"); v != nil {
			got := se.eval(v)
			c.Check(got == "filter($Spec.IPFilter)", chainRule, cons+"|server-level filter", pos(c, at), got, "the server-level IP filter is not built from the server spec's ipFilter: "+got)
		} else {
			c.Violate(chainRule, cons+"|server-level filter", pos(c, reload.Body), "the new mux instance has no server-level IP filter")
		}
		var pathCalls, ruleCalls []*ast.CallExpr
		for _, call := range calls(reload.Body, false) {
			if calleeIs(reload, call, hs+".newMuxPath") {
				pathCalls = append(pathCalls, call)
			}
			if calleeIs(reload, call, hs+".newMuxRule") {
				ruleCalls = append(ruleCalls, call)
			}
		}
		c.RequireCount(chainRule, "newMuxPath calls in reload", len(pathCalls), 1)
		c.RequireCount(chainRule, "newMuxRule calls in reload", len(ruleCalls), 1)
		for _, call := range pathCalls {
			if len(call.Args) != 2 {
				continue
			}
			got := se.eval(call.Args[0])
			want := "chain(chain(nil,$Spec.IPFilter),$Spec.Rules[].IPFilter)"
			c.Check(got == want, chainRule, cons+"|chain handed to the path = server + rule filters", pos(c, call), got,
				"the filter chain handed to newMuxPath is "+got+", expected "+want+": on a cache hit only this chain is checked, so a level missing here is not enforced for cached routes")
			gotp := se.eval(call.Args[1])
			c.Check(gotp == "$Spec.Rules[].Paths[]", chainRule, cons+"|path spec handed to newMuxPath", pos(c, call), gotp, "newMuxPath is given "+gotp+" instead of the rule's path spec")
		}
		for _, call := range ruleCalls {
			if len(call.Args) != 3 {
				continue
			}
			got := se.eval(call.Args[1])
			c.Check(got == "$Spec.Rules[]", chainRule, cons+"|rule spec handed to newMuxRule", pos(c, call), got, "newMuxRule is given "+got+" instead of the rule spec")
		}
		// ---- newMuxRule / newMuxPath literals
		for _, it := range []struct {
			f        *flow.Func
			typ, fn_ string
			param    string
		}{{nmr, "muxRule", "newMuxRule", "$1"}, {nmp, "MuxPath", "newMuxPath", "$1"}} {
			se := newSymEval(it.f)
			cons := fname(hs, "", it.fn_)
			if v, at := litField(it.f, it.typ, "ipFilter"); v != nil {
				got := se.eval(v)
				c.Check(got == "filter("+it.param+".IPFilter)", chainRule, cons+"|own-level filter", pos(c, at), got, it.typ+".ipFilter is not built from its own spec's ipFilter: "+got)
			} else {
				c.Violate(chainRule, cons+"|own-level filter", pos(c, it.f.Body), it.typ+" is built without its own IP filter")
			}
		}
		{
			se := newSymEval(nmp)
			cons := fname(hs, "", "newMuxPath")
			if v, at := litField(nmp, "MuxPath", "ipFilterChain"); v != nil {
				got := se.eval(v)
				c.Check(got == "chain($0,$1.IPFilter)", chainRule, cons+"|chain = parent chain + path filter", pos(c, at), got, "MuxPath.ipFilterChain is "+got+", expected the parent chain extended by the path's own filter")
			} else {
				c.Violate(chainRule, cons+"|chain = parent chain + path filter", pos(c, nmp.Body), "MuxPath is built without a filter chain: cached routes are returned without any IP check")
			}
		}
		muxChainCtor(c, chainRule, nic)
	}
	if orderRule != "" {
		// rules[i] = newMuxRule(.., spec.Rules[i], ..); paths[j] = newMuxPath(.., specRule.Paths[j])
		cons := fname(hs, "mux", "reload")
		se := newSymEval(reload)
		n := 0
		ast.Inspect(reload.Body, func(x ast.Node) bool {
			as, ok := x.(*ast.AssignStmt)
			if !ok || len(as.Lhs) != 1 || len(as.Rhs) != 1 {
				return true
			}
			lix, ok := ast.Unparen(as.Lhs[0]).(*ast.IndexExpr)
			if !ok {
				return true
			}
			call, ok := ast.Unparen(as.Rhs[0]).(*ast.CallExpr)
			if !ok {
				return true
			}
			var specArg ast.Expr
			role := ""
			switch {
			case calleeIs(reload, call, hs+".newMuxRule") && len(call.Args) == 3:
				specArg, role = call.Args[1], "rules"
			case calleeIs(reload, call, hs+".newMuxPath") && len(call.Args) == 2:
				specArg, role = call.Args[1], "paths"
			default:
				return true
			}
			n++
			// find the index expression used to select the spec element
			var six *ast.IndexExpr
			cur := specArg
			for i := 0; i < 6 && six == nil; i++ {
				switch t := ast.Unparen(cur).(type) {
				case *ast.IndexExpr:
					six = t
				case *ast.Ident:
					if d, ok := se.defs[reload.Info.Uses[t]]; ok {
						cur = d
					} else {
						i = 99
					}
				default:
					i = 99
				}
			}
			ok2 := six != nil && reload.Render(six.Index) == reload.Render(lix.Index)
			c.Check(ok2, orderRule, cons+"|"+role+" keep configured order", pos(c, as),
				"element i of the runtime "+role+" is built from element i of the spec", "the runtime "+role+" are not built position by position from the spec: the configured rule-then-path order (first match wins) is not preserved")
			return true
		})
		c.RequireCount(orderRule, "rule/path construction sites in reload", n, 2)
		// the loops must count upwards from 0 over the full length
		loops := 0
		ast.Inspect(reload.Body, func(x ast.Node) bool {
			fs, ok := x.(*ast.ForStmt)
			if !ok {
				return true
			}
			loops++
			up := false
			if inc, ok := fs.Post.(*ast.IncDecStmt); ok && inc.Tok == token.INC {
				if init, ok := fs.Init.(*ast.AssignStmt); ok && len(init.Rhs) == 1 {
					if tv, ok := reload.Info.Types[init.Rhs[0]]; ok && tv.Value != nil && tv.Value.ExactString() == "0" {
						if be, ok := fs.Cond.(*ast.BinaryExpr); ok && be.Op == token.LSS {
							if call, ok := ast.Unparen(be.Y).(*ast.CallExpr); ok && calleeFull(reload, call) == "builtin.len" {
								up = true
							}
						}
					}
				}
			}
			c.Check(up, orderRule, cons+"|construction loop covers every element", pos(c, fs), "for i := 0; i < len(..); i++", "a construction loop in reload does not visit every configured element exactly once in order")
			return true
		})
		if loops == 0 {
			// range-based construction is fine too
			c.Discharge(orderRule, cons+"|construction loop covers every element", pos(c, reload.Body), "no counting loops (range-based construction)")
		}
	}
}

// muxChainCtor checks newIPFilterChain: all parent filters are copied, the child filter is
// appended when a child spec is given, nil is returned only for an empty chain.
func muxChainCtor(c *core.Ctx, rule string, f *flow.Func) {
	cons := fname(hs, "", "newIPFilterChain")
	if f.Type.Params == nil || len(f.Type.Params.List) != 2 {
		c.Undecide(rule, cons+"|signature", pos(c, f.Body), "unexpected signature")
		return
	}
	parent := f.Type.Params.List[0].Names[0]
	child := f.Type.Params.List[1].Names[0]
	parentNil, childNil := f.NilKey(parent), f.NilKey(child)
	res := analyze(c, f, flow.Config{NoHavoc: true,
		OnCall: func(st *flow.State, call *ast.CallExpr, callee types.Object, deferred bool) {
			if calleeIs(f, call, "pkg/util/ipfilter.NewIPFilters") {
				copied := false
				if call.Ellipsis.IsValid() && len(call.Args) == 1 {
					if inner, ok := ast.Unparen(call.Args[0]).(*ast.CallExpr); ok && calleeIs(f, inner, "(*pkg/util/ipfilter.IPFilters).Filters") {
						if sel, ok := ast.Unparen(inner.Fun).(*ast.SelectorExpr); ok {
							if id, ok := ast.Unparen(sel.X).(*ast.Ident); ok && f.Info.Uses[id] == f.Info.Defs[parent] {
								copied = true
							}
						}
					}
				}
				if copied {
					st.Set("ev:copied", flow.True)
				} else {
					st.Set("ev:copied", flow.False)
				}
			}
			if calleeIs(f, call, "(*pkg/util/ipfilter.IPFilters).Append") && len(call.Args) == 1 {
				if inner, ok := ast.Unparen(call.Args[0]).(*ast.CallExpr); ok && calleeIs(f, inner, "pkg/util/ipfilter.New") && len(inner.Args) == 1 {
					if id, ok := ast.Unparen(inner.Args[0]).(*ast.Ident); ok && f.Info.Uses[id] == f.Info.Defs[child] {
						st.Set("ev:appended", flow.True)
					}
				}
			}
		},
	})
	if res == nil {
		return
	}
	var bad *flow.State
	why := ""
	n := 0
	for _, ex := range res.Exits {
		if ex.Kind != flow.ExitReturn || ex.Return == nil || len(ex.Return.Results) != 1 {
			continue
		}
		n++
		st := ex.State
		if f.Info.Types[ex.Return.Results[0]].IsNil() {
			// nil only for an empty chain
			emptyKnown := false
			for _, k := range st.Facts() {
				if strings.HasPrefix(k, "eq:len(") && strings.HasSuffix(k, "==0=T") {
					emptyKnown = true
				}
			}
			if !emptyKnown && !(st.Is(parentNil, flow.True) && st.Is(childNil, flow.True)) {
				bad, why = st, "nil (no chain) is returned although the chain may be non-empty"
			}
			continue
		}
		if st.Is(parentNil, flow.False) && !st.Is("ev:copied", flow.True) {
			bad, why = st, "the parent's filters are not copied into the child chain"
		}
		if st.Is(childNil, flow.False) && !st.Is("ev:appended", flow.True) {
			bad, why = st, "the child's own filter is not appended to the chain"
		}
		if st.Get(parentNil) == flow.Unknown || st.Get(childNil) == flow.Unknown {
			bad, why = st, "the constructor does not distinguish nil parents / nil child specs on this path"
		}
	}
	c.RequireCount(rule, "exits of newIPFilterChain", n, 2)
	c.Check(bad == nil, rule, cons+"|copies parent filters, appends child filter", pos(c, f.Body), sprintf("%d exits", n), why, witness(bad)...)
}
