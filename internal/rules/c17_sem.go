package rules

import (
	"go/ast"
	"go/token"
	"go/types"

	"verif/internal/core"
	"verif/internal/flow"
)

// R-C17-4: resize bookkeeping of sem.Semaphore.

// c17WeightedCall reports whether call invokes method name of *semaphore.Weighted.
func c17WeightedCall(f *flow.Func, call *ast.CallExpr, name string) bool {
	fo := c17CalleeFunc(f, call)
	if fo == nil || fo.Name() != name {
		return false
	}
	sig, _ := fo.Type().(*types.Signature)
	return sig != nil && sig.Recv() != nil && sig.Recv().Type().String() == c17WeightedT
}

// relation bits between the new and the old capacity
const (
	c17LT = 1 << iota // new < old
	c17EQ             // new == old
	c17GT             // new > old
)

// c17Rel returns the set of relations between a (new) and b (old) that the state allows.
func c17Rel(f *flow.Func, st *flow.State, a, b ast.Expr) int {
	mask := c17LT | c17EQ | c17GT
	ra, rb := f.Render(a), f.Render(b)
	switch st.Get("lt:" + ra + "<" + rb) { // a < b
	case flow.True:
		mask &= c17LT
	case flow.False:
		mask &^= c17LT
	}
	switch st.Get("lt:" + rb + "<" + ra) { // b < a, i.e. a > b
	case flow.True:
		mask &= c17GT
	case flow.False:
		mask &^= c17GT
	}
	switch st.Get(f.EqKey(a, b)) {
	case flow.True:
		mask &= c17EQ
	case flow.False:
		mask &^= c17EQ
	}
	return mask
}

// c17RelAny is the union of the relations allowed by any of the states (all relations if none).
func c17RelAny(f *flow.Func, sts []*flow.State, a, b ast.Expr) int {
	if len(sts) == 0 {
		return c17LT | c17EQ | c17GT
	}
	m := 0
	for _, st := range sts {
		m |= c17Rel(f, st, a, b)
	}
	return m
}

// c17CapField resolves the capacity field of Semaphore by role: its only int64 field (the current
// name realCapacity is the tie-breaker).
func c17CapField(c *core.Ctx) *types.Var {
	semT := namedType(c, c17Sem, "Semaphore")
	if semT == nil {
		return nil
	}
	cands := c17FieldsByType(semT, "int64")
	if len(cands) == 1 {
		return cands[0]
	}
	for _, f := range cands {
		if f.Name() == "realCapacity" {
			return f
		}
	}
	c.Errorf("R-C17-4: anchor: capacity field of sem.Semaphore not found (%d int64 fields)", len(cands))
	return nil
}

// c17Unit is a piece of code analysed on its own: a function of the reach or a function literal.
type c17Unit struct {
	g   *flow.Func   // enclosing reach function
	lit *ast.FuncLit // nil for the function itself
}

func (u c17Unit) node() ast.Node {
	if u.lit != nil {
		return u.lit
	}
	return u.g.Body
}

func c17Resize(c *core.Ctx) {
	f := fn(c, c17Sem, "Semaphore", "SetMaxCount")
	semT := namedType(c, c17Sem, "Semaphore")
	capF := c17CapField(c)
	if f == nil || semT == nil || capF == nil {
		return
	}
	cons := fname(c17Sem, "Semaphore", "SetMaxCount")
	capName := capF.Name()
	mutexes := c17FieldsByType(semT, "sync.Mutex")
	mutexes = append(mutexes, c17FieldsByType(semT, "sync.RWMutex")...)
	isMutex := func(e ast.Expr) bool {
		fld := c17Field(f, e)
		for _, m := range mutexes {
			if m == fld {
				return true
			}
		}
		return false
	}
	bind := c17NewBind(f, 3)

	// units: every reach function and every literal inside one
	var lits []c17Unit
	for _, g := range bind.funcs {
		g := g
		ast.Inspect(g.Body, func(n ast.Node) bool {
			if l, ok := n.(*ast.FuncLit); ok {
				lits = append(lits, c17Unit{g, l})
			}
			return true
		})
	}
	unitOf := func(n ast.Node) c17Unit {
		var in *c17Unit
		for i := range lits {
			if contains(lits[i].lit, n) && (in == nil || contains(in.lit, lits[i].lit)) {
				in = &lits[i]
			}
		}
		if in != nil {
			return *in
		}
		return c17Unit{g: bind.enclosing(n)}
	}
	pms := map[*flow.Func]map[ast.Node]ast.Node{}
	pmOf := func(g *flow.Func) map[ast.Node]ast.Node {
		if pms[g] == nil {
			pms[g] = parentMap(g.Body)
		}
		return pms[g]
	}
	// isGoUnit: the unit runs as a goroutine of its own (`go func(){..}()`, or a function all of
	// whose call sites are go statements); nested literals inherit from the enclosing one
	var isGoUnit func(u c17Unit) bool
	isGoUnit = func(u c17Unit) bool {
		if u.g == nil {
			return false
		}
		if u.lit != nil {
			pm := pmOf(u.g)
			if call, ok := pm[u.lit].(*ast.CallExpr); ok && ast.Unparen(call.Fun) == ast.Expr(u.lit) {
				if _, ok := pm[call].(*ast.GoStmt); ok {
					return true
				}
			}
			if pm[u.lit] == nil {
				return false
			}
			return isGoUnit(unitOf(pm[u.lit]))
		}
		fo := c17FuncObj(u.g)
		if fo == nil || u.g == f {
			return false
		}
		ss := bind.sites[fo]
		if len(ss) == 0 {
			return false
		}
		for _, s := range ss {
			if _, ok := pmOf(s.g)[s.call].(*ast.GoStmt); !ok {
				return false
			}
		}
		return true
	}

	// roles: old := s.capacity ; s.capacity = new   (anywhere in the reach)
	var readStmt, writeStmt *ast.AssignStmt
	var oldID, newID *ast.Ident
	nRead, nWrite := 0, 0
	atomicRMW := false
	for _, g := range bind.funcs {
		ast.Inspect(g.Body, func(n ast.Node) bool {
			as, ok := n.(*ast.AssignStmt)
			if !ok {
				return true
			}
			// old := atomic.SwapInt64(&s.capacity, new): the read and the store are ONE atomic operation,
			// i.e. a critical section of their own (no mutex needed)
			if len(as.Lhs) == 1 && len(as.Rhs) == 1 {
				if call, ok := ast.Unparen(as.Rhs[0]).(*ast.CallExpr); ok && len(call.Args) == 2 {
					if fo := c17CalleeFunc(f, call); fo != nil && fo.Pkg() != nil && fo.Pkg().Path() == "sync/atomic" && (fo.Name() == "SwapInt64" || fo.Name() == "SwapUint64") {
						if u, ok := ast.Unparen(call.Args[0]).(*ast.UnaryExpr); ok && u.Op == token.AND && c17Field(f, u.X) == capF {
							nRead++
							nWrite++
							readStmt, writeStmt, atomicRMW = as, as, true
							oldID, _ = as.Lhs[0].(*ast.Ident)
							newID, _ = c17StripConv(f, call.Args[1]).(*ast.Ident)
							return true
						}
					}
				}
			}
			for i, l := range as.Lhs {
				if c17Field(f, l) == capF {
					nWrite++
					writeStmt = as
					if len(as.Lhs) == len(as.Rhs) && as.Tok == token.ASSIGN {
						newID, _ = c17StripConv(f, as.Rhs[i]).(*ast.Ident)
					}
				}
			}
			for i, r := range as.Rhs {
				if c17Field(f, c17StripConv(f, r)) == capF && len(as.Lhs) == len(as.Rhs) {
					nRead++
					readStmt = as
					oldID, _ = as.Lhs[i].(*ast.Ident)
				}
			}
			return true
		})
	}
	if nRead == 0 || nWrite == 0 {
		c.Violate("R-C17-4", cons+"|read-modify-write in one critical section", pos(c, f.Body),
			sprintf("SetMaxCount reads %s %d time(s) and stores it %d time(s): without remembering the old capacity and recording the new one the signed adjustment of the weighted semaphore cannot be right for the next resize", capName, nRead, nWrite))
		return
	}
	if nRead != 1 || nWrite != 1 || oldID == nil || newID == nil {
		c.Undecide("R-C17-4", cons+"|read-modify-write in one critical section", pos(c, f.Body),
			"cannot identify `old := s."+capName+"` and `s."+capName+" = new` (exactly one of each, plain variables)")
		return
	}
	oldObj, newObj := bind.canonObj(oldID), bind.canonObj(newID)
	if oldObj == nil || newObj == nil || oldObj == newObj {
		c.Violate("R-C17-4", cons+"|read-modify-write in one critical section", pos(c, writeStmt),
			"the value stored into "+capName+" is the value just read from it: the new capacity is never recorded")
		return
	}
	// identFor: an identifier inside node that stands for the given variable (vocabulary of that code)
	identFor := func(node ast.Node, g *flow.Func, target types.Object) ast.Expr {
		var out ast.Expr
		look := func(n ast.Node) bool {
			if id, ok := n.(*ast.Ident); ok && out == nil {
				if o := c17Obj(f, id); o != nil {
					if _, isVar := o.(*types.Var); isVar && bind.canonObj(id) == target {
						out = id
					}
				}
			}
			return out == nil
		}
		ast.Inspect(node, look)
		if out == nil && g != nil && g.Type != nil && g.Type.Params != nil {
			ast.Inspect(g.Type.Params, look)
		}
		return out
	}
	relIn := func(node ast.Node, g *flow.Func, sts ...*flow.State) int {
		a, b := identFor(node, g, newObj), identFor(node, g, oldObj)
		if a == nil || b == nil || len(sts) == 0 {
			return c17LT | c17EQ | c17GT
		}
		return c17RelAny(f, sts, a, b)
	}

	const (
		evLocked = "ev:c17:sem-locked"
		evRead   = "ev:c17:old-read-in-this-section"
		evWrote  = "ev:c17:new-stored"
		evRel    = "ev:c17:delta-released"
		evAcqD   = "ev:c17:delta-acquired"
	)
	type bad struct {
		st  *flow.State
		why string
		at  ast.Node
	}
	var badRMW, badAdj []bad
	sawRead, sawWrite := 0, 0

	// adjustment calls anywhere in the reach
	type adj struct {
		call *ast.CallExpr
		kind string // "release" | "acquire"
		unit c17Unit
	}
	var adjs []adj
	for _, g := range bind.funcs {
		for _, call := range calls(g.Body, true) {
			switch {
			case c17WeightedCall(f, call, "Release"):
				adjs = append(adjs, adj{call, "release", unitOf(call)})
			case c17WeightedCall(f, call, "Acquire"), c17WeightedCall(f, call, "TryAcquire"):
				adjs = append(adjs, adj{call, "acquire", unitOf(call)})
			}
		}
	}
	// locked runner: a same-package helper `withLock(f func())` that calls its func parameter exactly
	// once, outside any loop, with the semaphore's mutex held, and releases the mutex on every exit. A
	// literal handed to it is a critical section of its own (the engine does not interpret closures
	// passed as arguments, so the helper is summarised here).
	runnerMemo := map[*flow.Func]int{} // 0 unknown, 1 locked runner, 2 no runner, 3 runs its parameter WITHOUT the mutex
	isRunner := func(g *flow.Func) bool {
		if g == nil {
			return false
		}
		if v := runnerMemo[g]; v != 0 {
			return v == 1 || v == 3
		}
		runnerMemo[g] = 2
		if g.Type == nil || g.Type.Params == nil {
			return false
		}
		var fp types.Object
		nFunc := 0
		for _, fld := range g.Type.Params.List {
			if tv := g.Info.Types[fld.Type]; tv.Type != nil && tv.Type.String() == "func()" {
				for _, nm := range fld.Names {
					nFunc++
					fp = g.Info.Defs[nm]
				}
			}
		}
		if nFunc != 1 || fp == nil {
			return false
		}
		var pcalls []*ast.CallExpr
		for _, call := range calls(g.Body, true) {
			if id, ok := ast.Unparen(call.Fun).(*ast.Ident); ok && g.Info.Uses[id] == fp {
				pcalls = append(pcalls, call)
			}
		}
		if len(pcalls) != 1 || len(enclosingLoops(g.Body, pcalls[0])) > 0 {
			return false
		}
		okRun, reached := true, 0
		rres, err := flow.Analyze(g, flow.Config{NoHavoc: true,
			OnCall: func(st *flow.State, call *ast.CallExpr, callee types.Object, deferred bool) {
				if op, recv := c17Mutex(g, call); op != "" && isMutex(recv) {
					st.Set("ev:c17:runner-locked", flow.Val(map[bool]flow.Val{true: flow.True, false: flow.False}[op == "Lock"]))
					return
				}
				if call == pcalls[0] {
					reached++
					if !st.Is("ev:c17:runner-locked", flow.True) || deferred {
						okRun = false
					}
				}
			}})
		if err != nil || reached == 0 {
			return false
		}
		runnerMemo[g] = 1
		if !okRun {
			runnerMemo[g] = 3
		}
		for _, ex := range rres.Exits {
			if ex.State.Is("ev:c17:runner-locked", flow.True) {
				runnerMemo[g] = 3 // keeps the mutex: reported through the missing-lock path below
			}
		}
		return true
	}
	runnerLocks := func(call *ast.CallExpr) bool {
		fo := c17CalleeFunc(f, call)
		return fo != nil && runnerMemo[bind.byObj[fo.Origin()]] == 1
	}
	// runnerCallOf: the call `s.withLock(<lit>)` a literal is handed to (a plain statement), or nil
	runnerCallOf := func(u c17Unit) *ast.CallExpr {
		if u.lit == nil || u.g == nil {
			return nil
		}
		pm := pmOf(u.g)
		call, ok := pm[u.lit].(*ast.CallExpr)
		if !ok || ast.Unparen(call.Fun) == ast.Expr(u.lit) {
			return nil
		}
		if _, isStmt := pm[call].(*ast.ExprStmt); !isStmt {
			return nil
		}
		fo := c17CalleeFunc(f, call)
		if fo == nil || !isRunner(bind.byObj[fo.Origin()]) {
			return nil
		}
		return call
	}
	ru, wu := unitOf(readStmt), unitOf(writeStmt)
	var lockedLit *c17Unit // read and store sit in one literal run under the mutex by a locked runner
	if ru == wu && runnerCallOf(ru) != nil && !isGoUnit(ru) {
		lockedLit = &ru
	} else if ru != wu && !isGoUnit(ru) && !isGoUnit(wu) && (runnerCallOf(ru) != nil || runnerCallOf(wu) != nil) {
		c.Violate("R-C17-4", cons+"|read-modify-write in one critical section", pos(c, writeStmt),
			"the old capacity is read and the new capacity is stored in two different critical sections (separate locked closures): a concurrent SetMaxCount in between makes the applied delta wrong and the effective cap drifts from the configured one")
		return
	}
	if lockedLit == nil && (ru != wu || ru.lit != nil) {
		switch {
		case ru != wu && isGoUnit(wu):
			c.Violate("R-C17-4", cons+"|read-modify-write in one critical section", pos(c, writeStmt),
				"the new capacity is stored by the background goroutine, i.e. in a different critical section (and at an unknown later time) than the one that read the old capacity: a second SetMaxCount that overlaps a pending resize computes its delta from a stale "+capName+" and a slow resize later overwrites the newer value, so the deltas no longer telescope and the effective cap drifts away from maxConnections")
			return
		case ru != wu && isGoUnit(ru):
			c.Violate("R-C17-4", cons+"|read-modify-write in one critical section", pos(c, readStmt),
				"the old capacity is read by the background goroutine, i.e. in a different critical section (and at an unknown later time) than the one that stores the new capacity: the goroutine can read the value just stored (delta 0) or that of a later call, so the effective cap drifts away from maxConnections")
			return
		case ru.lit != nil || wu.lit != nil:
			c.Undecide("R-C17-4", cons+"|read-modify-write in one critical section", pos(c, writeStmt),
				"the "+capName+" read and store sit inside a function literal that is not a goroutine of its own (immediately-invoked / deferred closure): not modelled")
			return
		}
	}
	isAdj := map[*ast.CallExpr]adj{}
	for _, a := range adjs {
		isAdj[a.call] = a
	}
	// the delta argument must be (new - old) for release, (old - new) for acquire
	deltaOK := func(a adj) (bool, string) {
		idx := 0
		if a.kind == "acquire" {
			idx = len(a.call.Args) - 1
		}
		if idx < 0 || idx >= len(a.call.Args) {
			return false, "no weight argument"
		}
		be, ok := c17StripConv(f, a.call.Args[idx]).(*ast.BinaryExpr)
		if !ok || be.Op != token.SUB {
			return false, "the weight " + f.Render(a.call.Args[idx]) + " is not a difference of the new and the old capacity"
		}
		x, y := bind.canonObj(be.X), bind.canonObj(be.Y)
		if a.kind == "release" && x == newObj && y == oldObj {
			return true, ""
		}
		if a.kind == "acquire" && x == oldObj && y == newObj {
			return true, ""
		}
		if (x == newObj && y == oldObj) || (x == oldObj && y == newObj) {
			return false, "the weight " + f.Render(a.call.Args[idx]) + " has the wrong sign for a " + a.kind
		}
		return false, "the weight " + f.Render(a.call.Args[idx]) + " is not a difference of the new and the old capacity"
	}

	// mkConfig analyses one unit; outer are the states in which the unit was started (nil for the root)
	litWrote := false // every exit of the locked literal has stored the new capacity
	mkConfig := func(unit c17Unit, outerRel func() int, inl func(*ast.CallExpr, *types.Func) *flow.Func) flow.Config {
		return flow.Config{
			NoHavoc: true,
			Inline:  inl,
			OnNode: func(st *flow.State, n ast.Node) {
				if lockedLit != nil && unit == *lockedLit && !st.Is("ev:c17:entered", flow.True) {
					// the literal runs with the mutex held (summary of the locked runner); a runner that
					// calls its parameter outside the mutex gives no such guarantee
					st.Set("ev:c17:entered", flow.True)
					if runnerLocks(runnerCallOf(*lockedLit)) {
						st.Set(evLocked, flow.True)
					}
				}
				as, ok := n.(*ast.AssignStmt)
				if !ok {
					return
				}
				if as == readStmt && atomicRMW {
					// one atomic swap: read and store cannot be separated
					sawRead++
					sawWrite++
					st.Set(evRead, flow.True)
					st.Set(evWrote, flow.True)
					return
				}
				if as == readStmt {
					sawRead++
					if !st.Is(evLocked, flow.True) {
						badRMW = append(badRMW, bad{st, capName + " is read without the semaphore's mutex: two concurrent SetMaxCount calls can both see the same old capacity and the weighted semaphore ends up off by their difference", as})
					}
					st.Set(evRead, flow.True)
				}
				if as == writeStmt {
					sawWrite++
					switch {
					case !st.Is(evLocked, flow.True):
						badRMW = append(badRMW, bad{st, capName + " is stored without the semaphore's mutex held", as})
					case !st.Is(evRead, flow.True):
						badRMW = append(badRMW, bad{st, "the new capacity is stored in a different critical section than the one that read the old capacity (or before reading it): a concurrent SetMaxCount in between makes the applied delta wrong and the effective cap drifts from the configured one", as})
					}
					st.Set(evWrote, flow.True)
				}
				if as != writeStmt && as != readStmt {
					for _, l := range as.Lhs {
						o := c17Obj(f, l)
						if o == newObj && st.Is(evWrote, flow.True) {
							badRMW = append(badRMW, bad{st, "the new capacity is modified after it has been recorded in " + capName + ": the recorded and the applied capacity differ", as})
						}
						if o == oldObj && as != readStmt {
							badRMW = append(badRMW, bad{st, "the remembered old capacity is overwritten", as})
						}
					}
				}
			},
			OnCall: func(st *flow.State, call *ast.CallExpr, callee types.Object, deferred bool) {
				if lockedLit != nil && unit != *lockedLit && call == runnerCallOf(*lockedLit) {
					// summary: the locked literal ran (its own analysis checks what it does)
					if litWrote {
						st.Set(evWrote, flow.True)
					}
					return
				}
				if op, recv := c17Mutex(f, call); op != "" && isMutex(recv) {
					switch op {
					case "Lock":
						st.Set(evLocked, flow.True)
						st.Set(evRead, flow.Unknown)
					case "Unlock":
						st.Set(evLocked, flow.False)
						st.Set(evRead, flow.Unknown)
					}
					return
				}
				a, ok := isAdj[call]
				if !ok || a.unit != unit {
					return
				}
				if good, why := deltaOK(a); !good {
					badAdj = append(badAdj, bad{st, why, call})
				} else {
					rel := relIn(unit.node(), unit.g, st)
					if outerRel != nil {
						// facts established before the unit was started
						rel &= outerRel()
					}
					if a.kind == "release" && rel&c17LT != 0 {
						badAdj = append(badAdj, bad{st, "capacity is released (grow) on a path where the new capacity may be smaller than the old one: a negative weight panics in semaphore.Weighted / the cap moves in the wrong direction", call})
					}
					if a.kind == "acquire" && rel&c17GT != 0 {
						badAdj = append(badAdj, bad{st, "capacity is acquired (shrink) on a path where the new capacity may be larger than the old one", call})
					}
				}
				if a.kind == "release" {
					st.Set(evRel, flow.True)
				} else {
					st.Set(evAcqD, flow.True)
				}
			},
		}
	}

	// the root is analysed with the helpers that contain the read / the store / a mutex operation
	// interpreted in place
	rootInl := bind.inline(func(g *flow.Func, n ast.Node) bool {
		switch x := n.(type) {
		case *ast.AssignStmt:
			return x == readStmt || x == writeStmt
		case *ast.CallExpr:
			if op, recv := c17Mutex(g, x); op != "" && isMutex(recv) {
				return true
			}
		}
		return false
	})
	rootUnit := c17Unit{g: f}
	if lockedLit != nil {
		lres := analyze(c, lockedLit.g.Lit(lockedLit.lit), mkConfig(*lockedLit, nil, nil))
		if lres == nil {
			return
		}
		litWrote = len(lres.Exits) > 0
		for _, ex := range lres.Exits {
			if !ex.State.Is(evWrote, flow.True) {
				litWrote = false
			}
		}
		if !litWrote {
			badRMW = append(badRMW, bad{nil, "the locked closure reads the old capacity but does not store the new one on every path", lockedLit.lit})
		}
		inner := rootInl
		runnerCall := runnerCallOf(*lockedLit)
		rootInl = func(call *ast.CallExpr, callee *types.Func) *flow.Func {
			if call == runnerCall {
				return nil
			}
			return inner(call, callee)
		}
	}
	res := analyze(c, f, mkConfig(rootUnit, nil, rootInl))
	if res == nil {
		return
	}
	for _, ex := range res.Exits {
		if ex.State.Is(evLocked, flow.True) {
			badRMW = append(badRMW, bad{ex.State, "SetMaxCount returns with the semaphore's mutex held: the next resize blocks forever", ex.At})
		}
	}
	c.RequireCount("R-C17-4", "abstract states at the capacity read in SetMaxCount", sawRead, 1)
	c.RequireCount("R-C17-4", "abstract states at the capacity store in SetMaxCount", sawWrite, 1)

	// the adjustment: analyse each unit that contains adjustment calls
	if len(adjs) == 0 {
		c.Violate("R-C17-4", cons+"|every exit adjusted", pos(c, f.Body),
			"SetMaxCount never releases or acquires on the weighted semaphore: "+capName+" changes but the number of admitted connections does not")
		return
	}
	units := map[c17Unit]bool{}
	for _, a := range adjs {
		units[a.unit] = true
	}
	type exitInfo struct {
		st  *flow.State
		rel int
		at  ast.Node
	}
	var exits []exitInfo
	for unit := range units {
		unit := unit
		if unit == rootUnit {
			for _, ex := range res.Exits {
				exits = append(exits, exitInfo{ex.State, relIn(f.Body, f, ex.State), ex.At})
			}
			continue
		}
		// where is the unit started? (literal: its creation/call; function: its call sites)
		type start struct {
			g    *flow.Func
			call *ast.CallExpr
		}
		var starts []start
		if unit.lit != nil {
			if call, ok := pmOf(unit.g)[unit.lit].(*ast.CallExpr); ok && ast.Unparen(call.Fun) == ast.Expr(unit.lit) {
				starts = append(starts, start{unit.g, call})
			}
		} else if fo := c17FuncObj(unit.g); fo != nil {
			for _, s := range bind.sites[fo] {
				starts = append(starts, start{s.g, s.call})
			}
		}
		outer := func() (sts []*flow.State, rel int) {
			rel = 0
			for _, s := range starts {
				ss := res.At[s.call]
				sts = append(sts, ss...)
				rel |= relIn(s.g.Body, s.g, ss...)
			}
			if len(sts) == 0 {
				rel = c17LT | c17EQ | c17GT
			}
			return
		}
		osts, orel := outer()
		// the unit must be started after the new capacity has been recorded
		for _, os := range osts {
			if !os.Is(evWrote, flow.True) {
				badRMW = append(badRMW, bad{os, "the adjustment is started before the new capacity is recorded", unit.node()})
			}
		}
		uf := unit.g
		if unit.lit != nil {
			uf = unit.g.Lit(unit.lit)
		}
		ures := analyze(c, uf, mkConfig(unit, func() int { return orel }, nil))
		if ures == nil {
			return
		}
		for _, ex := range ures.Exits {
			exits = append(exits, exitInfo{ex.State, relIn(unit.node(), unit.g, ex.State) & orel, ex.At})
		}
	}
	if len(badRMW) > 0 {
		c.Violate("R-C17-4", cons+"|read-modify-write in one critical section", pos(c, badRMW[0].at), badRMW[0].why, witness(badRMW[0].st)...)
	} else {
		c.Discharge("R-C17-4", cons+"|read-modify-write in one critical section", pos(c, writeStmt),
			"old := "+capName+" and "+capName+" = new happen under the mutex in one critical section; new is not modified afterwards")
	}
	releaseSites, acquireSites := 0, 0
	for _, a := range adjs {
		if a.kind == "release" {
			releaseSites++
		} else {
			acquireSites++
		}
	}
	var growBad, shrinkBad *bad
	for _, a := range badAdj {
		a := a
		if k := isAdj[a.at.(*ast.CallExpr)].kind; k == "release" && growBad == nil {
			growBad = &a
		} else if k == "acquire" && shrinkBad == nil {
			shrinkBad = &a
		}
	}
	if releaseSites == 0 {
		c.Violate("R-C17-4", cons+"|grow releases new-old", pos(c, f.Body), "SetMaxCount never releases capacity: an increased maxConnections is not applied")
	} else if growBad != nil {
		c.Violate("R-C17-4", cons+"|grow releases new-old", pos(c, growBad.at), growBad.why, witness(growBad.st)...)
	} else {
		c.Discharge("R-C17-4", cons+"|grow releases new-old", pos(c, f.Body), sprintf("%d Release site(s): weight new-old, reached only with new>=old", releaseSites))
	}
	if acquireSites == 0 {
		c.Violate("R-C17-4", cons+"|shrink acquires old-new", pos(c, f.Body), "SetMaxCount never acquires capacity: a decreased maxConnections is not applied and new connections keep being accepted above the new cap")
	} else if shrinkBad != nil {
		c.Violate("R-C17-4", cons+"|shrink acquires old-new", pos(c, shrinkBad.at), shrinkBad.why, witness(shrinkBad.st)...)
	} else {
		c.Discharge("R-C17-4", cons+"|shrink acquires old-new", pos(c, f.Body), sprintf("%d Acquire site(s): weight old-new, reached only with old>=new", acquireSites))
	}
	var exBad *bad
	for _, e := range exits {
		switch {
		case e.rel&c17GT != 0 && !e.st.Is(evRel, flow.True):
			exBad = &bad{e.st, "an exit of the adjustment is reachable with new capacity > old capacity and nothing released: the increase of maxConnections is not applied", e.at}
		case e.rel&c17LT != 0 && !e.st.Is(evAcqD, flow.True):
			exBad = &bad{e.st, "an exit of the adjustment is reachable with new capacity < old capacity and nothing acquired: the decrease of maxConnections is not applied, connections keep being accepted above the new cap", e.at}
		case e.rel&c17GT != 0 && e.st.Is(evAcqD, flow.True), e.rel&c17LT != 0 && e.st.Is(evRel, flow.True):
			exBad = &bad{e.st, "both a release and an acquire adjustment on one path", e.at}
		}
		if exBad != nil {
			break
		}
	}
	c.RequireCount("R-C17-4", "exits of the adjustment code in SetMaxCount", len(exits), 1)
	if exBad != nil {
		c.Violate("R-C17-4", cons+"|every exit adjusted", pos(c, exBad.at), exBad.why, witness(exBad.st)...)
	} else {
		c.Discharge("R-C17-4", cons+"|every exit adjusted", pos(c, f.Body), sprintf("%d exits: released iff new>old possible, acquired iff new<old possible", len(exits)))
	}
}

// c17NewSem: NewSem creates the weighted semaphore with size K, records the capacity n and
// pre-acquires K - n, so that exactly n units are available.
func c17NewSem(c *core.Ctx) {
	f := fn(c, c17Sem, "", "NewSem")
	capF := c17CapField(c)
	if f == nil || capF == nil {
		return
	}
	cons := fname(c17Sem, "", "NewSem") + "|initial pre-acquire"
	var newW, acq *ast.CallExpr
	for _, call := range calls(f.Body, false) {
		if fo := c17CalleeFunc(f, call); fo != nil && fo.FullName() == "golang.org/x/sync/semaphore.NewWeighted" {
			newW = call
		}
		if c17WeightedCall(f, call, "Acquire") {
			acq = call
		}
	}
	if newW == nil || len(newW.Args) != 1 {
		c.Errorf("R-C17-4: anchor: semaphore.NewWeighted call in NewSem not found")
		return
	}
	size := f.Info.Types[newW.Args[0]].Value
	if size == nil {
		c.Undecide("R-C17-4", cons, pos(c, newW), "weighted semaphore size is not a constant")
		return
	}
	// capacity parameter
	isCapParam := func(e ast.Expr) bool {
		v, ok := c17Obj(f, c17StripConv(f, e)).(*types.Var)
		return ok && isParam(f, v)
	}
	// realCapacity recorded from the parameter
	recorded := false
	ast.Inspect(f.Body, func(n ast.Node) bool {
		switch x := n.(type) {
		case *ast.KeyValueExpr:
			if id, ok := x.Key.(*ast.Ident); ok && f.Info.Uses[id] == types.Object(capF) && isCapParam(x.Value) {
				recorded = true
			}
		case *ast.AssignStmt:
			for i, l := range x.Lhs {
				if c17Field(f, l) == capF && len(x.Lhs) == len(x.Rhs) && isCapParam(x.Rhs[i]) {
					recorded = true
				}
			}
		}
		return true
	})
	c.Check(recorded, "R-C17-4", fname(c17Sem, "", "NewSem")+"|capacity recorded", pos(c, newW),
		"realCapacity is initialised from the capacity parameter",
		"NewSem does not record the initial capacity in realCapacity: the first SetMaxCount computes its delta from a wrong old value and the cap is off from then on")
	if acq == nil || len(acq.Args) != 2 {
		c.Violate("R-C17-4", cons, pos(c, newW),
			"NewSem does not pre-acquire (size - capacity) on the weighted semaphore: all "+size.ExactString()+" units are available and maxConnections is not enforced")
		return
	}
	ok := false
	if be, isBin := c17StripConv(f, acq.Args[1]).(*ast.BinaryExpr); isBin && be.Op == token.SUB {
		l := f.Info.Types[be.X].Value
		r := c17StripConv(f, be.Y)
		rightIsCap := isCapParam(r) || (c17Field(f, r) == capF && recorded)
		if l != nil && l.ExactString() == size.ExactString() && rightIsCap {
			ok = true
		}
	}
	c.Check(ok, "R-C17-4", cons, pos(c, acq),
		"Acquire(_, size - capacity) with size the NewWeighted size",
		"the initial pre-acquire is not (weighted size - capacity): the number of connections admitted differs from maxConnections from the start")
}
