package rules

// R-C06-1 for a table-driven Validator.Handle: the checks are not called on the validator
// fields directly but dispatched through a slice of entries (a struct carrying the check as a
// function value, the failure status, ...) that is built once when the filter is (re)loaded:
//
//	for i := range v.validations { vn := &v.validations[i]; if err := vn.validate(req); err != nil { vn.reject(ctx, err); return resultInvalid } }
//
// The same obligations are decided in two halves:
//
//	loop     every entry of the table is called; an error of an entry is never ignored and leads to a
//	         declared non-empty result with an output response whose status is the entry's status
//	         field; "" is returned only after the loop ran to its end; nothing else rejects
//	table    on every path of the builder, for each validator field: the field is nil or an entry is
//	         added whose function is a method value of that field (or a wrapper proven faithful) and
//	         whose status constant is the expected one; the table is stored once, after all validator
//	         fields have been assigned, and neither the fields nor the entries are written elsewhere
//
// Whatever does not fit this shape is reported as undecided, never as a violation.

import (
	"go/ast"
	"go/types"
	"strings"

	"golang.org/x/tools/go/cfg"
	"golang.org/x/tools/go/packages"

	"verif/internal/core"
	"verif/internal/flow"
)

type c06Table struct {
	in    *flow.Func    // function holding the dispatching call
	call  *ast.CallExpr // vn.validate(req)
	elem  *types.Named  // the entry type
	fv    *types.Var    // its function field
	fs    *types.Var    // its status field (int), nil if none
	list  *types.Var    // the field of Validator holding the table
	loop  ast.Stmt
	label string
}

// c06ExpectStatus: header rules answer 400, credential validators 401.
func c06ExpectStatus(fld *types.Var) string {
	if p, ok := fld.Type().Underlying().(*types.Pointer); ok {
		if n, ok := p.Elem().(*types.Named); ok && n.Obj().Pkg() != nil && n.Obj().Pkg().Path() == Mod+c06hh {
			return "400"
		}
	}
	return "401"
}

// c06FindTable looks in the reach of f for calls through a function-typed struct field
// (result: error) of a struct declared in f's package.
func c06FindTable(c *core.Ctx, f *flow.Func, owner *types.Named) (*c06Table, string) {
	var found []*c06Table
	for _, g := range reach(f, 3) {
		for _, call := range calls(g.Body, false) {
			sel, ok := ast.Unparen(call.Fun).(*ast.SelectorExpr)
			if !ok {
				continue
			}
			s := g.Info.Selections[sel]
			if s == nil || s.Kind() != types.FieldVal {
				continue
			}
			fv, ok := s.Obj().(*types.Var)
			if !ok || fv.Pkg() != g.Pkg.Types {
				continue
			}
			sig, ok := fv.Type().Underlying().(*types.Signature)
			if !ok || !c06IsErrorResult(sig) {
				continue
			}
			rt := s.Recv()
			if p, ok := rt.Underlying().(*types.Pointer); ok {
				rt = p.Elem()
			}
			named, ok := rt.(*types.Named)
			if !ok {
				continue
			}
			found = append(found, &c06Table{in: g, call: call, elem: named, fv: fv})
		}
	}
	if len(found) == 0 {
		return nil, ""
	}
	if len(found) > 1 {
		return nil, "several calls through function-valued struct fields"
	}
	t := found[0]
	if st, ok := t.elem.Underlying().(*types.Struct); ok {
		for i := 0; i < st.NumFields(); i++ {
			if b, ok := st.Field(i).Type().Underlying().(*types.Basic); ok && b.Info()&types.IsInteger != 0 {
				if t.fs != nil {
					return nil, "the table entry type has several integer fields"
				}
				t.fs = st.Field(i)
			}
		}
	}
	// the loop and the table it runs over
	loops := enclosingLoops(t.in.Body, t.call)
	if len(loops) != 1 {
		return nil, "the dispatching call is not inside exactly one loop"
	}
	t.loop = loops[0]
	t.label = labelOf(t.in.Body, t.loop)
	ost, _ := owner.Underlying().(*types.Struct)
	isTable := func(e ast.Expr) *types.Var {
		fld := c06FieldSel(t.in, c06Resolve(t.in, c06DefsOf(t.in), e))
		if fld == nil || ost == nil {
			return nil
		}
		for i := 0; i < ost.NumFields(); i++ {
			if ost.Field(i) == fld {
				if sl, ok := fld.Type().Underlying().(*types.Slice); ok {
					el := sl.Elem()
					if p, ok := el.Underlying().(*types.Pointer); ok {
						el = p.Elem()
					}
					if types.Identical(el, t.elem) {
						return fld
					}
				}
			}
		}
		return nil
	}
	// the loop must run over the whole table: `range L` or `for i := 0; i < len(L); i++`
	var idxObj, valObj types.Object
	switch l := t.loop.(type) {
	case *ast.RangeStmt:
		t.list = isTable(l.X)
		if l.Key != nil {
			idxObj = c06Obj(t.in, l.Key)
		}
		if l.Value != nil {
			valObj = c06Obj(t.in, l.Value)
		}
	case *ast.ForStmt:
		init, ok1 := l.Init.(*ast.AssignStmt)
		cond, ok2 := l.Cond.(*ast.BinaryExpr)
		post, ok3 := l.Post.(*ast.IncDecStmt)
		if ok1 && ok2 && ok3 && len(init.Lhs) == 1 && len(init.Rhs) == 1 && cond.Op.String() == "<" && post.Tok.String() == "++" {
			if v, ok := c06ConstInt(t.in, init.Rhs[0]); ok && v == "0" {
				if lc, ok := ast.Unparen(cond.Y).(*ast.CallExpr); ok && len(lc.Args) == 1 {
					if b, ok := t.in.Callee(lc).(*types.Builtin); ok && b.Name() == "len" {
						io := c06Obj(t.in, init.Lhs[0])
						if io != nil && c06Obj(t.in, cond.X) == io && c06Obj(t.in, post.X) == io {
							t.list = isTable(lc.Args[0])
							idxObj = io
						}
					}
				}
			}
		}
	}
	if t.list == nil {
		return nil, "the loop around the dispatching call does not run over the whole of a slice field of the filter"
	}
	// the entry the call goes through is the loop's element: the range value, L[i] or &L[i]
	sel := ast.Unparen(t.call.Fun).(*ast.SelectorExpr)
	el := ast.Unparen(c06Resolve(t.in, c06DefsOf(t.in), sel.X))
	if u, ok := el.(*ast.UnaryExpr); ok && u.Op.String() == "&" {
		el = ast.Unparen(u.X)
	}
	okElem := false
	if o := c06Obj(t.in, el); o != nil && valObj != nil && o == valObj {
		okElem = true
	}
	if ix, ok := el.(*ast.IndexExpr); ok && idxObj != nil && isTable(ix.X) == t.list && c06Obj(t.in, ix.Index) == idxObj {
		okElem = true
	}
	if !okElem {
		return nil, "the entry called is not the element of the loop over the table"
	}
	return t, ""
}

// c06HandleTable decides R-C06-1 for the table-driven shape.
func c06HandleTable(c *core.Ctx, rule, cons string, f *flow.Func, fields []*types.Var, results map[string]bool, t *c06Table) {
	undecide := func(why string) {
		c.Undecide(rule, cons+"|table of validations", pos(c, t.call), why)
	}
	for _, x := range breaksOut(t.in, t.loop, t.label) {
		if _, isRet := x.(*ast.ReturnStmt); !isRet {
			undecide("the loop over the table is left by something else than a return (" + pos(c, x) + ")")
			return
		}
	}
	// ---- half 1: the loop
	k := &c06Checks{f: f, fields: []*types.Var{t.fv}, defs: map[types.Object]ast.Expr{}, nilKeys: map[*types.Var]map[string]bool{t.fv: {}}, unfaithful: map[*types.Var]string{}, callees: map[types.Object]bool{}}
	gs := reach(f, 3)
	for _, g := range gs {
		for o, d := range c06DefsOf(g) {
			k.defs[o] = d
		}
	}
	site := &c06Site{idx: 0, field: t.fv, call: t.call, resKey: f.NilKey(t.call), in: t.in}
	pm := parentMap(t.in.Body)
	switch st := pm[t.call].(type) {
	case *ast.AssignStmt:
		if len(st.Rhs) == 1 && len(st.Lhs) == 1 {
			if id, ok := st.Lhs[0].(*ast.Ident); ok && id.Name != "_" {
				site.errObj, site.own, site.resKey = c06Obj(f, id), st, f.NilKey(id)
			}
		}
	case *ast.ValueSpec:
		if len(st.Values) == 1 && len(st.Names) == 1 && st.Names[0].Name != "_" {
			site.errObj, site.own, site.resKey = c06Obj(f, st.Names[0]), st, f.NilKey(st.Names[0])
		}
	}
	k.sites = []*c06Site{site}
	interesting := map[*ast.BlockStmt]bool{t.in.Body: true}
	for _, g := range gs {
		for _, call := range calls(g.Body, true) {
			if c06IsSetStatus(g, call) || c06IsSetOutput(g, call) {
				interesting[g.Body] = true
			}
		}
	}
	for changed := true; changed; {
		changed = false
		for _, g := range gs {
			if interesting[g.Body] {
				continue
			}
			for _, call := range calls(g.Body, true) {
				if fo, ok := f.Callee(call).(*types.Func); ok && fo.Pkg() == f.Pkg.Types {
					if fd := declOf(f.Pkg, fo); fd != nil && interesting[fd.Body] {
						interesting[g.Body] = true
						changed = true
					}
				}
			}
		}
	}
	var opaque []types.Object
	for _, g := range gs {
		if !interesting[g.Body] {
			if o := c06FuncObj(g); o != nil {
				opaque = append(opaque, o)
			}
		}
	}
	res := analyze(c, f, flow.Config{
		Inline: inlineSamePkg(f, opaque...),
		OnNode: k.onNode,
		AfterAssume: func(st *flow.State, cond ast.Expr, outcome bool) {
			k.promote(st)
		},
		OnBlock: func(st *flow.State, b *cfg.Block) {
			if b.Stmt != t.loop {
				return
			}
			switch b.Kind {
			case cfg.KindRangeLoop, cfg.KindForLoop, cfg.KindForPost:
				k.promote(st)
				if st.Is(k.failed(site), flow.True) {
					st.Set("ev:ignored", flow.True) // the next entry is tried although this one failed
				}
			}
		},
		OnCall: func(st *flow.State, call *ast.CallExpr, callee types.Object, deferred bool) {
			k.onCall(st, call)
			switch {
			case c06IsSetStatus(f, call) && len(call.Args) == 1:
				arg := c06Resolve(f, k.defs, call.Args[0])
				if t.fs != nil && c06FieldSel(f, arg) == t.fs {
					st.Set("ev:status:@entry", flow.True)
				} else if v, ok := c06ConstInt(f, arg); ok {
					st.Set("ev:status:"+v, flow.True)
				} else {
					st.Set("ev:status:?", flow.True)
				}
			case c06IsSetOutput(f, call):
				st.Set("ev:respset", flow.True)
			}
		},
	})
	if res == nil {
		return
	}
	inlinedAll := true
	if t.in.Body != f.Body {
		inlinedAll = false
		for _, n := range res.Inlined {
			if n == t.in.Name {
				inlinedAll = true
			}
		}
	}
	if !inlinedAll {
		undecide("the loop over the table sits in " + t.in.Name + ", which could not be interpreted in place from Handle")
		return
	}
	var admitBad, rejectBad, spurious *flow.Exit
	admitWhy, rejectWhy := "", ""
	accepts, rejects := 0, 0
	for _, ex := range res.Exits {
		if ex.Kind != flow.ExitReturn {
			continue
		}
		rs := c06Results(f, ex)
		if len(rs) != 1 {
			undecide("a return of Handle without a single result")
			return
		}
		val, ok := c06ConstString(f, rs[0])
		if !ok {
			undecide("a return of Handle does not yield a constant result")
			return
		}
		st := ex.State
		failedNow := st.Is(k.failed(site), flow.True)
		if val == "" {
			accepts++
			if admitBad != nil {
				continue
			}
			switch {
			case failedNow || st.Is("ev:ignored", flow.True):
				admitBad, admitWhy = ex, "the request is admitted (result \"\") although an entry of the table of validations returned an error"
			case ex.Return != nil && contains(t.loop, ex.Return):
				admitBad, admitWhy = ex, "the request is admitted (result \"\") from inside the loop over the table of validations: the remaining validations are skipped"
			}
			continue
		}
		rejects++
		if !failedNow {
			if spurious == nil {
				spurious = ex
			}
			continue
		}
		if rejectBad != nil {
			continue
		}
		var got []string
		for _, fact := range st.Facts() {
			if strings.HasPrefix(fact, "ev:status:") && strings.HasSuffix(fact, "=T") {
				got = append(got, strings.TrimSuffix(strings.TrimPrefix(fact, "ev:status:"), "=T"))
			}
		}
		switch {
		case !results[val]:
			rejectBad, rejectWhy = ex, sprintf("a failed validation returns %q, which is not a declared result of the kind", val)
		case !st.Is("ev:respset", flow.True):
			rejectBad, rejectWhy = ex, sprintf("a failed validation returns %q without setting an output response", val)
		case len(got) != 1 || got[0] != "@entry":
			rejectBad, rejectWhy = ex, sprintf("a failed validation answers with status %v instead of the status of its table entry", got)
		}
	}
	if accepts == 0 {
		undecide("no exit of Handle admits the request")
		return
	}

	// ---- half 2: the table
	late := map[*types.Var]ast.Node{}
	entries, builder, why := c06TableEntries(c, f, fields, t, late)
	if why != "" {
		undecide(why)
		return
	}
	// coverage on every path of the builder
	bk := c06FindChecks(c, builder, fields, 1, nil)
	bres := analyze(c, builder, flow.Config{
		OnNode: func(st *flow.State, n ast.Node) {
			bk.promote(st)
			for _, e := range entries {
				if contains(n, e.lit) {
					if _, isStmt := n.(ast.Stmt); isStmt {
						for _, fld := range e.covered {
							st.Set("ev:entry:"+fld.Name(), flow.True)
						}
					}
				}
			}
		},
		AfterAssume: func(st *flow.State, cond ast.Expr, outcome bool) { bk.promote(st) },
	})
	if bres == nil {
		return
	}
	missing := map[*types.Var]*flow.Exit{}
	for _, ex := range bres.Exits {
		if ex.Kind != flow.ExitReturn {
			continue
		}
		for _, fld := range fields {
			if !ex.State.Is(bk.unset(fld), flow.True) && !ex.State.Is("ev:entry:"+fld.Name(), flow.True) && missing[fld] == nil {
				missing[fld] = ex
			}
		}
	}
	inl := ""
	if len(res.Inlined) > 0 {
		inl = "; interpreted in place: " + strings.ReplaceAll(strings.Join(res.Inlined, ", "), Mod, "")
	}
	for _, fld := range fields {
		name := fld.Name()
		want := c06ExpectStatus(fld)
		var mine []*c06Entry
		unfaithful := ""
		for _, e := range entries {
			for _, cv := range e.covered {
				if cv == fld {
					mine = append(mine, e)
				}
			}
			for _, cs := range e.consulted {
				if cs == fld && len(e.covered) == 0 {
					unfaithful = e.name
				}
			}
		}
		switch {
		case late[fld] != nil:
			c.Violate(rule, cons+"|admit requires "+name, pos(c, late[fld]), "the "+name+" validator is assigned after the table of validations has been built: the builder sees it nil and adds no entry, so a configured "+name+" method is not enforced")
		case len(mine) == 0 && unfaithful != "":
			c.Violate(rule, cons+"|admit requires "+name, pos(c, builder.Body), "the table of validations consults the "+name+" validator only through "+unfaithful+", which can return nil although the "+name+" check was skipped or failed: a request failing that method passes the filter")
		case len(mine) == 0:
			c.Violate(rule, cons+"|admit requires "+name, pos(c, builder.Body), "no entry of the table of validations consults the "+name+" validator: a configured "+name+" method is not enforced")
		case missing[fld] != nil:
			c.Violate(rule, cons+"|admit requires "+name, pos(c, missing[fld].At), "the table of validations can be built without an entry for a configured (non-nil) "+name+" validator: that method is not enforced", witness(missing[fld].State)...)
		case admitBad != nil:
			c.Violate(rule, cons+"|admit requires "+name, pos(c, admitBad.At), admitWhy, witness(admitBad.State)...)
		default:
			c.Discharge(rule, cons+"|admit requires "+name, pos(c, t.call), sprintf("table-driven: %d admitting exits after the loop over %s ran to its end; every builder path has %s nil or an entry calling it%s", accepts, t.list.Name(), name, inl))
		}
		if len(mine) == 0 {
			continue
		}
		badStatus := ""
		for _, e := range mine {
			if t.fs != nil && e.status != want {
				badStatus = e.status
			}
		}
		switch {
		case t.fs == nil:
			c.Undecide(rule, cons+"|"+name+" failure → invalid + "+want, pos(c, t.call), "the table entry carries no status field")
		case badStatus != "":
			c.Violate(rule, cons+"|"+name+" failure → invalid + "+want, pos(c, mine[0].lit), sprintf("the table entry of the %s validator carries status %s instead of %s", name, badStatus, want))
		case rejectBad != nil:
			c.Violate(rule, cons+"|"+name+" failure → invalid + "+want, pos(c, rejectBad.At), rejectWhy, witness(rejectBad.State)...)
		default:
			c.Discharge(rule, cons+"|"+name+" failure → invalid + "+want, pos(c, mine[0].lit), sprintf("table-driven: entry status %s; %d rejecting exits: declared result, output response set with the entry's status", want, rejects))
		}
	}
	if spurious != nil {
		c.Violate(rule, cons+"|reject only on a validator error", pos(c, spurious.At), "a non-empty result is returned on a path where no entry of the table of validations returned an error: requests carrying valid credentials are rejected", witness(spurious.State)...)
	} else {
		c.Discharge(rule, cons+"|reject only on a validator error", pos(c, f.Body), sprintf("%d rejecting exits, each after an entry of the table returned an error", rejects))
	}
}

type c06Entry struct {
	lit       *ast.CompositeLit
	name      string
	covered   []*types.Var
	consulted []*types.Var
	status    string
}

// c06TableEntries finds the single store of the table, the literals of the entry type that
// flow into it, what each entry calls and which status it carries; it checks that the table
// is stored after the validator fields and that nothing else writes fields or entries.
func c06TableEntries(c *core.Ctx, f *flow.Func, fields []*types.Var, t *c06Table, late map[*types.Var]ast.Node) ([]*c06Entry, *flow.Func, string) {
	pkg := f.Pkg
	isField := map[*types.Var]bool{}
	for _, fld := range fields {
		isField[fld] = true
	}
	type store struct {
		g   *flow.Func
		as  *ast.AssignStmt
		rhs ast.Expr
	}
	var tableStores []store
	fieldStores := map[*ast.FuncDecl][]*ast.AssignStmt{}
	why := ""
	eachFunc(c, func(p *packages.Package, fd *ast.FuncDecl) {
		if p != pkg {
			return
		}
		g := c06FuncOfDecl(p, fd)
		ast.Inspect(fd.Body, func(n ast.Node) bool {
			as, ok := n.(*ast.AssignStmt)
			if !ok {
				return true
			}
			for i, l := range as.Lhs {
				fld := c06FieldSel(g, l)
				// writes into an entry (vn.failStatus = ..) or into the table's elements
				if ix, ok := ast.Unparen(l).(*ast.IndexExpr); ok && c06FieldSel(g, ix.X) == t.list {
					why = "an element of the table is assigned at " + pos(c, as)
				}
				switch {
				case fld == nil:
				case fld == t.list:
					if len(as.Lhs) == len(as.Rhs) {
						tableStores = append(tableStores, store{g, as, as.Rhs[i]})
					} else {
						why = "the table is assigned from a multi-value expression"
					}
				case isField[fld]:
					fieldStores[fd] = append(fieldStores[fd], as)
				case fld == t.fv || (t.fs != nil && fld == t.fs):
					why = "a field of a table entry is assigned at " + pos(c, as)
				}
			}
			return true
		})
	})
	if why != "" {
		return nil, nil, why
	}
	if len(tableStores) == 0 {
		return nil, nil, sprintf("the table %s is never assigned", t.list.Name())
	}
	// one full store (`L = v.build()`), or a reset followed by `L = append(L, entry)` stores,
	// all in one function
	ts := tableStores[0]
	var roots []ast.Expr
	for _, x := range tableStores {
		if x.g.Body != ts.g.Body {
			return nil, nil, sprintf("the table %s is assigned in more than one function", t.list.Name())
		}
		if x.as.Pos() < ts.as.Pos() {
			ts = x
		}
		roots = append(roots, x.rhs)
	}
	if len(tableStores) > 1 {
		for _, x := range tableStores {
			if x.as == ts.as {
				// the first store resets the table
				r := ast.Unparen(x.rhs)
				_, isLit := r.(*ast.CompositeLit)
				call, isCall := r.(*ast.CallExpr)
				isMake := false
				if isCall {
					if b, ok := x.g.Callee(call).(*types.Builtin); ok && b.Name() == "make" {
						isMake = true
					}
				}
				isTrunc := false // L[:0]
				if sl, ok := r.(*ast.SliceExpr); ok && sl.Low == nil && sl.High != nil && c06FieldSel(x.g, sl.X) == t.list {
					if v, ok := c06ConstInt(x.g, sl.High); ok && v == "0" {
						isTrunc = true
					}
				}
				if !x.g.Info.Types[r].IsNil() && !isMake && !isTrunc && !(isLit && len(r.(*ast.CompositeLit).Elts) == 0) {
					return nil, nil, "the table is assigned several times and the first assignment is not a reset (" + pos(c, x.as) + ")"
				}
				continue
			}
			call, ok := ast.Unparen(x.rhs).(*ast.CallExpr)
			okAppend := false
			if ok && len(call.Args) >= 1 {
				if b, isB := x.g.Callee(call).(*types.Builtin); isB && b.Name() == "append" && c06FieldSel(x.g, call.Args[0]) == t.list {
					okAppend = true
				}
			}
			if !okAppend {
				return nil, nil, "the table is assigned several times, not all of them appends to itself (" + pos(c, x.as) + ")"
			}
		}
	}
	tsDecl, _ := ts.g.Node.(*ast.FuncDecl)
	// built after every validator field has been assigned, and the fields are written nowhere else
	if len(tableStores) == 1 {
		topLevel := false
		for _, st := range ts.g.Body.List {
			if st == ast.Stmt(ts.as) {
				topLevel = true
			}
		}
		if !topLevel {
			return nil, nil, "the table is not assigned by a top-level statement of " + ts.g.Name
		}
	}
	for fd, list := range fieldStores {
		if fd != tsDecl {
			return nil, nil, "a validator field is assigned outside the function that builds the table (" + pos(c, list[0]) + ")"
		}
	}
	lateCheck := func(entries []*c06Entry) {
		for _, list := range fieldStores {
			for _, as := range list {
				for _, l := range as.Lhs {
					fld := c06FieldSel(ts.g, l)
					if fld == nil || !isField[fld] {
						continue
					}
					// the point at which the builder looks at the field
					ref := ts.as.Pos()
					if len(tableStores) > 1 {
						ref = 0
						for _, e := range entries {
							for _, cv := range e.consulted {
								if cv == fld && (ref == 0 || e.lit.Pos() < ref) {
									ref = e.lit.Pos()
								}
							}
						}
					}
					if ref != 0 && as.Pos() > ref {
						late[fld] = as
					}
				}
			}
		}
	}
	// the entries: literals of the entry type flowing into the stored value
	var lits []*ast.CompositeLit
	var builder *flow.Func
	seen := map[*types.Func]bool{}
	var collect func(g *flow.Func, roots []ast.Expr, depth int)
	collect = func(g *flow.Func, roots []ast.Expr, depth int) {
		for _, e := range c06ValueClosure(g, roots) {
			ast.Inspect(e, func(n ast.Node) bool {
				switch x := n.(type) {
				case *ast.CompositeLit:
					if tv, ok := g.Info.Types[x]; ok && tv.Type != nil && types.Identical(tv.Type, t.elem) {
						lits = append(lits, x)
						if builder == nil {
							builder = g
						} else if builder.Body != g.Body {
							why = "the entries of the table are built in more than one function"
						}
					}
				case *ast.CallExpr:
					if fo, ok := g.Callee(x).(*types.Func); ok && fo.Pkg() == g.Pkg.Types && !seen[fo] && depth < 2 {
						seen[fo] = true
						if h := c06FuncDeclOf(c, fo); h != nil {
							var rets []ast.Expr
							ast.Inspect(h.Body, func(y ast.Node) bool {
								switch r := y.(type) {
								case *ast.FuncLit:
									return false
								case *ast.ReturnStmt:
									rets = append(rets, r.Results...)
									if len(r.Results) == 0 && h.Type.Results != nil {
										for _, fld := range h.Type.Results.List {
											for _, nm := range fld.Names {
												rets = append(rets, nm)
											}
										}
									}
								}
								return true
							})
							collect(h, rets, depth+1)
						}
					}
				}
				return true
			})
		}
	}
	collect(ts.g, roots, 0)
	if why != "" {
		return nil, nil, why
	}
	if len(lits) == 0 || builder == nil {
		return nil, nil, "cannot find the entries the table is built from"
	}
	st, _ := t.elem.Underlying().(*types.Struct)
	fieldExpr := func(lit *ast.CompositeLit, fld *types.Var) ast.Expr {
		for i, el := range lit.Elts {
			if kv, ok := el.(*ast.KeyValueExpr); ok {
				if id, ok := kv.Key.(*ast.Ident); ok && id.Name == fld.Name() {
					return kv.Value
				}
				continue
			}
			if st != nil && i < st.NumFields() && st.Field(i) == fld {
				return el
			}
		}
		return nil
	}
	bdefs := c06DefsOf(builder)
	var out []*c06Entry
	for _, lit := range lits {
		e := &c06Entry{lit: lit}
		fe := fieldExpr(lit, t.fv)
		if fe == nil {
			return nil, nil, "a table entry without a check function at " + pos(c, lit)
		}
		fe = ast.Unparen(c06Resolve(builder, bdefs, fe))
		e.name = types.ExprString(fe)
		switch x := fe.(type) {
		case *ast.SelectorExpr:
			s := builder.Info.Selections[x]
			if s == nil || s.Kind() != types.MethodVal {
				return nil, nil, "the check function of a table entry is not a method value (" + pos(c, fe) + ")"
			}
			m := s.Obj().(*types.Func)
			if fld := c06FieldSel(builder, c06Resolve(builder, bdefs, x.X)); fld != nil && isField[fld] {
				if c06IsErrorResult(m.Type().(*types.Signature)) {
					e.covered, e.consulted = []*types.Var{fld}, []*types.Var{fld}
				}
			} else if h := c06FuncDeclOf(c, m); h != nil && m.Pkg() == builder.Pkg.Types {
				e.covered, e.consulted = c06WrapperCovers(c, h, fields)
				e.name = m.Name()
			}
		case *ast.FuncLit:
			e.covered, e.consulted = c06WrapperCovers(c, builder.Lit(x), fields)
		case *ast.Ident:
			if fo, ok := c06Obj(builder, x).(*types.Func); ok {
				if h := c06FuncDeclOf(c, fo); h != nil {
					e.covered, e.consulted = c06WrapperCovers(c, h, fields)
				}
			}
		}
		if len(e.consulted) == 0 {
			return nil, nil, "cannot tell which validator the table entry " + e.name + " consults (" + pos(c, fe) + ")"
		}
		if t.fs != nil {
			se := fieldExpr(lit, t.fs)
			if se == nil {
				e.status = "0"
			} else if v, ok := c06ConstInt(builder, c06Resolve(builder, bdefs, se)); ok {
				e.status = v
			} else {
				return nil, nil, "the status of the table entry " + e.name + " is not a constant (" + pos(c, se) + ")"
			}
		}
		out = append(out, e)
	}
	lateCheck(out)
	return out, builder, ""
}

// c06FuncOfDecl wraps a declaration (stable per declaration when the shared helper is available).
func c06FuncOfDecl(p *packages.Package, fd *ast.FuncDecl) *flow.Func {
	return flow.NewFunc(p, fd)
}
