package rules

// R-C06-3: program-wide forward taint over SSA. Sources are the values denoting the std
// request underlying an httpprot.Request outside package httpprot (result of Std(), load of
// the embedded field). The taint follows copies (Clone, WithContext, *r), locals, captured
// variables, struct fields (field-based), arguments into module functions (static calls,
// interface and function-value calls resolved by signature) and results back to callers.
// A sink is an access to net/http.Request.Body through a tainted pointer, or a call of a
// standard-library function that consumes the body. A copy whose Body has been re-assigned
// by a store dominating the use is clean.

import (
	"go/token"
	"go/types"
	"sort"
	"strings"

	"golang.org/x/tools/go/ssa"
	"golang.org/x/tools/go/ssa/ssautil"

	"verif/internal/core"
	"verif/internal/load"
)

const (
	c06Orig = 1 // the very struct the httpprot.Request wraps
	c06Copy = 2 // a shallow copy that still carries the drained Body
)

type c06Taint struct {
	level int
	pred  *c06Taint
	fn    *ssa.Function // function in which the value lives
	what  string
	src   *ssa.Function // function holding the source
}

type c06BodyAnalysis struct {
	c        *core.Ctx
	prog     *ssa.Program
	fns      []*ssa.Function // module functions outside httpprot
	inScope  map[*ssa.Function]bool
	bodyFld  *types.Var
	reqType  types.Type // net/http.Request (struct, named)
	embedded *types.Var // httpprot.Request.Request
	stdFn    *types.Func

	vals   map[ssa.Value]*c06Taint
	cells  map[ssa.Value]*c06Taint
	fields map[*types.Var]*c06Taint
	rets   map[*ssa.Function]map[int]*c06Taint
	work   []ssa.Value

	fieldAddrs map[*types.Var][]*ssa.FieldAddr
	callers    map[*ssa.Function][]ssa.CallInstruction
	dynamic    []ssa.CallInstruction

	sinks    map[string]*c06Sink
	lost     int
	external map[string]bool
	sources  int
	accesses int
}

type c06Sink struct {
	construct string
	pos       token.Pos
	kinds     map[string]bool
	chain     []string
}

var c06BodyReaders = map[string]bool{
	"(*net/http.Request).ParseForm":          true,
	"(*net/http.Request).ParseMultipartForm": true,
	"(*net/http.Request).FormValue":          true,
	"(*net/http.Request).PostFormValue":      true,
	"(*net/http.Request).FormFile":           true,
	"(*net/http.Request).MultipartReader":    true,
	"(*net/http.Request).Write":              true,
	"(*net/http.Request).WriteProxy":         true,
	"net/http/httputil.DumpRequest":          true,
	"net/http/httputil.DumpRequestOut":       true,
	"(*net/http.Client).Do":                  true,
	"(*net/http.Transport).RoundTrip":        true,
}

func c06Body(c *core.Ctx) {
	const rule = "R-C06-3"
	httpPkg := c.Prog.All["net/http"]
	if httpPkg == nil {
		c.Errorf("%s: anchor: net/http not loaded", rule)
		return
	}
	a := &c06BodyAnalysis{c: c, inScope: map[*ssa.Function]bool{},
		vals: map[ssa.Value]*c06Taint{}, cells: map[ssa.Value]*c06Taint{}, fields: map[*types.Var]*c06Taint{},
		rets: map[*ssa.Function]map[int]*c06Taint{}, fieldAddrs: map[*types.Var][]*ssa.FieldAddr{},
		callers: map[*ssa.Function][]ssa.CallInstruction{}, sinks: map[string]*c06Sink{}, external: map[string]bool{}}
	a.bodyFld = c06StdField(c, "net/http", "Request", "Body")
	a.embedded = structField(c, c06hp, "Request", "Request")
	reqNamed := namedType(c, c06hp, "Request")
	if a.bodyFld == nil || a.embedded == nil || reqNamed == nil {
		return
	}
	a.reqType = httpPkg.Types.Scope().Lookup("Request").Type()
	for i := 0; i < reqNamed.NumMethods(); i++ {
		if m := reqNamed.Method(i); m.Name() == "Std" {
			a.stdFn = m
		}
	}
	if a.stdFn == nil {
		c.Errorf("%s: anchor: method (*httpprot.Request).Std not found", rule)
		return
	}
	prog, _ := c.Prog.SSA()
	a.prog = prog
	for fn := range ssautil.AllFunctions(prog) {
		if fn.Blocks == nil || fn.Pkg == nil || fn.Pkg.Pkg == nil {
			continue
		}
		p := fn.Pkg.Pkg.Path()
		if !strings.HasPrefix(p, load.ModulePath) || p == Mod+c06hp {
			continue
		}
		a.fns = append(a.fns, fn)
		a.inScope[fn] = true
	}
	sort.Slice(a.fns, func(i, j int) bool { return a.fns[i].String() < a.fns[j].String() })
	c.Count("ssa_functions_scanned", len(a.fns))
	a.index()
	a.seed()
	a.run()

	c.RequireCount(rule, "sources: Std() results / loads of the embedded std request outside httpprot", a.sources, 10)
	c.RequireCount(rule, "net/http.Request.Body access sites outside httpprot scanned", a.accesses, 5)
	c.Count("tainted_ssa_values", len(a.vals))
	c.Count("flows_lost_in_containers", a.lost)
	if len(a.external) > 0 {
		c.Assumptions = append(c.Assumptions, "R-C06-3: functions outside the module that receive the std request of an httpprot.Request are assumed not to touch its Body unless they are in the list of known body consumers (ParseForm, FormValue, Write, DumpRequest, Client.Do ...): "+strings.Join(sortedKeys(a.external), ", "))
	}
	if len(a.sinks) == 0 {
		c.Discharge(rule, "net/http.Request.Body|no access through the std request of an httpprot.Request", "pkg/protocols/httpprot/request.go",
			sprintf("%d sources followed through %d SSA values; none of the %d Body access sites outside httpprot (nor a body-consuming std call) is reached", a.sources, len(a.vals), a.accesses))
		return
	}
	for _, k := range sortedKeys(a.sinks) {
		s := a.sinks[k]
		kinds := strings.Join(sortedKeys(s.kinds), ", ")
		detail := "the Body of the std request underlying an httpprot.Request is accessed (" + kinds + "): after FetchPayload that body is drained (buffered mode) or is the live reader the payload stream wraps (stream mode); the authoritative body — what later filters see and the proxy forwards — is the payload"
		if strings.Contains(s.construct, c06sig+".") || strings.Contains(s.construct, c06val+".") {
			detail += ". The signature is therefore verified over an empty body: every correctly signed request with a body is rejected, and a request signed over the empty body is admitted with any body — the signature does not bind what is forwarded"
		} else {
			detail += ". Code reading it sees an empty body (or steals the stream from the payload)"
		}
		c.Violate(rule, s.construct, c.Prog.Rel(s.pos), detail,
			s.chain...)
	}
}

func (a *c06BodyAnalysis) isReqPtr(t types.Type) bool {
	p, ok := t.Underlying().(*types.Pointer)
	return ok && types.Identical(p.Elem(), a.reqType)
}

func (a *c06BodyAnalysis) fieldOf(fa *ssa.FieldAddr) *types.Var {
	p, ok := fa.X.Type().Underlying().(*types.Pointer)
	if !ok {
		return nil
	}
	st, ok := p.Elem().Underlying().(*types.Struct)
	if !ok || fa.Field >= st.NumFields() {
		return nil
	}
	return st.Field(fa.Field)
}

// index builds the field-access index, the callers map and the list of dynamic calls.
func (a *c06BodyAnalysis) index() {
	for _, fn := range a.fns {
		for _, b := range fn.Blocks {
			for _, in := range b.Instrs {
				switch i := in.(type) {
				case *ssa.FieldAddr:
					if fld := a.fieldOf(i); fld != nil {
						a.fieldAddrs[fld] = append(a.fieldAddrs[fld], i)
						if fld == a.bodyFld {
							a.accesses++
						}
					}
				}
				if ci, ok := in.(ssa.CallInstruction); ok {
					if callee := ci.Common().StaticCallee(); callee != nil {
						a.callers[callee] = append(a.callers[callee], ci)
					} else if _, isBuiltin := ci.Common().Value.(*ssa.Builtin); !isBuiltin {
						a.dynamic = append(a.dynamic, ci)
					}
				}
			}
		}
	}
}

func c06FnName(fn *ssa.Function) string {
	if fn == nil {
		return "?"
	}
	return strings.ReplaceAll(fn.String(), Mod, "")
}

// construct name of an SSA function: "pkg/rel.(Recv).Name" (closures: name of the parent + $n).
func c06SSAConstruct(fn *ssa.Function) string {
	suffix := ""
	for fn.Parent() != nil {
		suffix = "$closure"
		fn = fn.Parent()
	}
	if fn.Pkg == nil {
		return c06FnName(fn) + suffix
	}
	rel := relPkg(fn.Pkg.Pkg.Path())
	recv := ""
	if fn.Signature.Recv() != nil {
		t := fn.Signature.Recv().Type()
		if p, ok := t.(*types.Pointer); ok {
			t = p.Elem()
		}
		if n, ok := t.(*types.Named); ok {
			recv = n.Obj().Name()
		}
	}
	return fname(rel, recv, fn.Name()) + suffix
}

func (a *c06BodyAnalysis) seed() {
	for _, fn := range a.fns {
		for _, b := range fn.Blocks {
			for _, in := range b.Instrs {
				switch i := in.(type) {
				case *ssa.Call:
					if callee := i.Common().StaticCallee(); callee != nil && callee.Object() == a.stdFn {
						a.sources++
						a.add(i, &c06Taint{level: c06Orig, fn: fn, src: fn, what: c06FnName(fn) + ": result of (*httpprot.Request).Std() at " + a.c.Prog.Rel(i.Pos())})
					}
				case *ssa.UnOp:
					if i.Op != token.MUL {
						continue
					}
					if fa, ok := i.X.(*ssa.FieldAddr); ok && a.fieldOf(fa) == a.embedded {
						a.sources++
						a.add(i, &c06Taint{level: c06Orig, fn: fn, src: fn, what: c06FnName(fn) + ": embedded *http.Request of an httpprot.Request at " + a.c.Prog.Rel(i.Pos())})
					}
				case *ssa.Field:
					if st, ok := i.X.Type().Underlying().(*types.Struct); ok && i.Field < st.NumFields() && st.Field(i.Field) == a.embedded {
						a.sources++
						a.add(i, &c06Taint{level: c06Orig, fn: fn, src: fn, what: c06FnName(fn) + ": embedded *http.Request of an httpprot.Request at " + a.c.Prog.Rel(i.Pos())})
					}
				}
			}
		}
	}
}

// add taints a value (joins levels: Orig wins over Copy).
func (a *c06BodyAnalysis) add(v ssa.Value, t *c06Taint) {
	if v == nil {
		return
	}
	if old, ok := a.vals[v]; ok && old.level <= t.level {
		return
	}
	a.vals[v] = t
	a.work = append(a.work, v)
}

func (a *c06BodyAnalysis) derive(t *c06Taint, level int, fn *ssa.Function, what string) *c06Taint {
	return &c06Taint{level: level, pred: t, fn: fn, what: what, src: t.src}
}

func (a *c06BodyAnalysis) run() {
	for len(a.work) > 0 {
		v := a.work[len(a.work)-1]
		a.work = a.work[:len(a.work)-1]
		t := a.vals[v]
		refs := v.Referrers()
		if refs == nil {
			continue
		}
		for _, in := range *refs {
			a.step(v, t, in)
		}
	}
}

func c06InstrFn(in ssa.Instruction) *ssa.Function {
	if in.Block() == nil {
		return nil
	}
	return in.Block().Parent()
}

func (a *c06BodyAnalysis) step(v ssa.Value, t *c06Taint, in ssa.Instruction) {
	fn := c06InstrFn(in)
	switch in.(type) {
	case *ssa.Phi, *ssa.FieldAddr:
		// phi uses sit on edges; Body accesses decide sanitisation themselves
	default:
		if a.sanitised(v, t, in) {
			return // a copy whose Body has been re-assigned before this use is clean from here on
		}
	}
	switch i := in.(type) {
	case *ssa.Phi:
		a.add(i, a.derive(t, t.level, fn, ""))
	case *ssa.ChangeType:
		a.add(i, a.derive(t, t.level, fn, ""))
	case *ssa.MakeInterface:
		a.add(i, a.derive(t, t.level, fn, ""))
	case *ssa.ChangeInterface:
		a.add(i, a.derive(t, t.level, fn, ""))
	case *ssa.TypeAssert:
		if i.X == v {
			a.add(i, a.derive(t, t.level, fn, ""))
		}
	case *ssa.Extract:
		if i.Tuple == v && (a.isReqPtr(i.Type()) || types.IsInterface(i.Type())) {
			a.add(i, a.derive(t, t.level, fn, ""))
		}
	case *ssa.UnOp:
		if i.Op == token.MUL && i.X == v && a.isReqPtr(v.Type()) {
			// *r : a struct value carrying the same Body
			a.add(i, a.derive(t, c06Copy, fn, c06FnName(fn)+": struct copy *r at "+a.c.Prog.Rel(i.Pos())))
		}
	case *ssa.Store:
		if i.Val != v {
			return
		}
		if types.Identical(v.Type(), a.reqType) {
			// storing a copied struct: the destination pointer denotes a copy
			a.add(i.Addr, a.derive(t, c06Copy, fn, ""))
			return
		}
		a.storeInto(i.Addr, t, fn)
	case *ssa.FieldAddr:
		if i.X == v && a.fieldOf(i) == a.bodyFld {
			a.bodyAccess(v, t, i, fn)
		}
	case *ssa.Field:
		if i.X == v && types.Identical(v.Type(), a.reqType) {
			if st, ok := a.reqType.Underlying().(*types.Struct); ok && st.Field(i.Field) == a.bodyFld {
				a.sink(fn, t, i.Pos(), "read")
			}
		}
	case *ssa.MakeClosure:
		cl, ok := i.Fn.(*ssa.Function)
		if !ok {
			return
		}
		for idx, b := range i.Bindings {
			if b == v && idx < len(cl.FreeVars) && a.inScope[cl] {
				a.add(cl.FreeVars[idx], a.derive(t, t.level, cl, c06FnName(cl)+": captured"))
			}
		}
	case *ssa.Return:
		for idx, r := range i.Results {
			if r == v {
				a.returned(fn, idx, t)
			}
		}
	case *ssa.Send, *ssa.MapUpdate:
		a.lost++
	case *ssa.Slice, *ssa.IndexAddr, *ssa.Index, *ssa.Lookup:
		// not a request any more
	}
	if ci, ok := in.(ssa.CallInstruction); ok {
		a.call(v, t, ci, fn)
	}
}

func (a *c06BodyAnalysis) storeInto(addr ssa.Value, t *c06Taint, fn *ssa.Function) {
	switch x := addr.(type) {
	case *ssa.Alloc, *ssa.FreeVar:
		a.cell(x, t)
	case *ssa.FieldAddr:
		fld := a.fieldOf(x)
		if fld == nil {
			return
		}
		if old, ok := a.fields[fld]; ok && old.level <= t.level {
			return
		}
		nt := a.derive(t, t.level, fn, c06FnName(fn)+": stored into field "+fld.Name())
		a.fields[fld] = nt
		for _, fa := range a.fieldAddrs[fld] {
			a.loads(fa, nt)
		}
	case *ssa.IndexAddr, *ssa.Global:
		a.lost++
	}
}

// cell taints a variable cell (a local whose address is taken / captured).
func (a *c06BodyAnalysis) cell(addr ssa.Value, t *c06Taint) {
	if old, ok := a.cells[addr]; ok && old.level <= t.level {
		return
	}
	a.cells[addr] = t
	a.loads(addr, t)
	if refs := addr.Referrers(); refs != nil {
		for _, in := range *refs {
			if mc, ok := in.(*ssa.MakeClosure); ok {
				if cl, ok := mc.Fn.(*ssa.Function); ok && a.inScope[cl] {
					for idx, b := range mc.Bindings {
						if b == addr && idx < len(cl.FreeVars) {
							a.cell(cl.FreeVars[idx], t)
						}
					}
				}
			}
		}
	}
}

func (a *c06BodyAnalysis) loads(addr ssa.Value, t *c06Taint) {
	refs := addr.Referrers()
	if refs == nil {
		return
	}
	for _, in := range *refs {
		if u, ok := in.(*ssa.UnOp); ok && u.Op == token.MUL && u.X == addr {
			a.add(u, a.derive(t, t.level, c06InstrFn(u), ""))
		}
	}
}

func c06Dominates(x, y ssa.Instruction) bool {
	bx, by := x.Block(), y.Block()
	if bx == nil || by == nil || bx.Parent() != by.Parent() {
		return false
	}
	if bx == by {
		for _, in := range bx.Instrs {
			if in == x {
				return true
			}
			if in == y {
				return false
			}
		}
		return false
	}
	return bx.Dominates(by)
}

// sanitised: v denotes a copy and a store to v.Body dominates the use.
func (a *c06BodyAnalysis) sanitised(v ssa.Value, t *c06Taint, at ssa.Instruction) bool {
	if t.level != c06Copy {
		return false
	}
	refs := v.Referrers()
	if refs == nil {
		return false
	}
	for _, in := range *refs {
		fa, ok := in.(*ssa.FieldAddr)
		if !ok || fa.X != v || a.fieldOf(fa) != a.bodyFld {
			continue
		}
		if frefs := fa.Referrers(); frefs != nil {
			for _, fin := range *frefs {
				if st, ok := fin.(*ssa.Store); ok && st.Addr == fa && c06Dominates(st, at) {
					return true
				}
			}
		}
	}
	return false
}

func (a *c06BodyAnalysis) bodyAccess(v ssa.Value, t *c06Taint, fa *ssa.FieldAddr, fn *ssa.Function) {
	refs := fa.Referrers()
	if refs == nil {
		return
	}
	for _, in := range *refs {
		switch x := in.(type) {
		case *ssa.Store:
			if x.Addr == fa {
				if t.level == c06Orig {
					a.sink(fn, t, x.Pos(), "replaced")
				}
				continue
			}
			a.sink(fn, t, fa.Pos(), "address escapes")
		case *ssa.UnOp:
			if !a.sanitised(v, t, x) {
				a.sink(fn, t, fa.Pos(), "read")
			}
		default:
			if !a.sanitised(v, t, in) {
				a.sink(fn, t, fa.Pos(), "address escapes")
			}
		}
	}
}

func (a *c06BodyAnalysis) sink(fn *ssa.Function, t *c06Taint, p token.Pos, kind string) {
	cons := c06SSAConstruct(fn) + "|std body of an httpprot.Request obtained in " + c06SSAConstruct(t.src)
	s := a.sinks[cons]
	if s == nil {
		s = &c06Sink{construct: cons, pos: p, kinds: map[string]bool{}}
		var chain []string
		for x := t; x != nil; x = x.pred {
			if x.what != "" {
				chain = append(chain, x.what)
			}
		}
		for i, j := 0, len(chain)-1; i < j; i, j = i+1, j-1 {
			chain[i], chain[j] = chain[j], chain[i]
		}
		chain = append(chain, c06FnName(fn)+": Body accessed at "+a.c.Prog.Rel(p))
		s.chain = chain
		a.sinks[cons] = s
	}
	if p < s.pos {
		s.pos = p
	}
	s.kinds[kind] = true
}

// candidates resolves a dynamic call to module functions by signature.
func (a *c06BodyAnalysis) candidates(cc *ssa.CallCommon) []*ssa.Function {
	var out []*ssa.Function
	if cc.IsInvoke() {
		iface, ok := cc.Value.Type().Underlying().(*types.Interface)
		if !ok {
			return nil
		}
		for _, fn := range a.fns {
			if fn.Name() != cc.Method.Name() || fn.Signature.Recv() == nil {
				continue
			}
			if types.Implements(fn.Signature.Recv().Type(), iface) {
				out = append(out, fn)
			}
		}
		return out
	}
	sig, ok := cc.Value.Type().Underlying().(*types.Signature)
	if !ok {
		return nil
	}
	for _, fn := range a.fns {
		if fn.Signature.Recv() != nil {
			continue
		}
		if types.Identical(fn.Signature, sig) {
			out = append(out, fn)
		}
	}
	return out
}

func (a *c06BodyAnalysis) call(v ssa.Value, t *c06Taint, ci ssa.CallInstruction, fn *ssa.Function) {
	cc := ci.Common()
	pass := func(callee *ssa.Function, shift int) {
		if !a.inScope[callee] {
			return
		}
		for j, arg := range cc.Args {
			if arg != v || j+shift >= len(callee.Params) {
				continue
			}
			if a.sanitised(v, t, ci) {
				continue
			}
			a.add(callee.Params[j+shift], a.derive(t, t.level, callee, c06FnName(fn)+": passed to "+c06FnName(callee)+" at "+a.c.Prog.Rel(ci.Pos())))
		}
	}
	if callee := cc.StaticCallee(); callee != nil {
		name := callee.String()
		if callee.Object() != nil {
			if fo, ok := callee.Object().(*types.Func); ok {
				name = fo.FullName()
			}
		}
		isArg := false
		for _, arg := range cc.Args {
			if arg == v {
				isArg = true
			}
		}
		if !isArg {
			return
		}
		switch {
		case name == "(*net/http.Request).Clone" || name == "(*net/http.Request).WithContext":
			if len(cc.Args) > 0 && cc.Args[0] == v {
				if val := ci.Value(); val != nil {
					a.add(val, a.derive(t, c06Copy, fn, c06FnName(fn)+": shallow copy by "+callee.Name()+" at "+a.c.Prog.Rel(ci.Pos())))
				}
			}
		case c06BodyReaders[name]:
			if !a.sanitised(v, t, ci) {
				a.sink(fn, t, ci.Pos(), "consumed by "+name)
			}
		case a.inScope[callee]:
			pass(callee, 0)
		default:
			if callee.Pkg != nil && callee.Pkg.Pkg.Path() != Mod+c06hp {
				a.external[name] = true
			}
		}
		return
	}
	if _, isBuiltin := cc.Value.(*ssa.Builtin); isBuiltin {
		return
	}
	isArg := false
	for _, arg := range cc.Args {
		if arg == v {
			isArg = true
		}
	}
	if !isArg {
		return
	}
	shift := 0
	if cc.IsInvoke() {
		shift = 1
	}
	// closures created in place are resolved exactly
	if mc, ok := cc.Value.(*ssa.MakeClosure); ok {
		if cl, ok := mc.Fn.(*ssa.Function); ok {
			pass(cl, 0)
			return
		}
	}
	for _, cand := range a.candidates(cc) {
		pass(cand, shift)
	}
}

// returned propagates a tainted result to the call sites of fn.
func (a *c06BodyAnalysis) returned(fn *ssa.Function, idx int, t *c06Taint) {
	if a.rets[fn] == nil {
		a.rets[fn] = map[int]*c06Taint{}
	}
	if old, ok := a.rets[fn][idx]; ok && old.level <= t.level {
		return
	}
	a.rets[fn][idx] = t
	sites := append([]ssa.CallInstruction{}, a.callers[fn]...)
	for _, ci := range a.dynamic {
		if mc, ok := ci.Common().Value.(*ssa.MakeClosure); ok {
			if mc.Fn == fn {
				sites = append(sites, ci)
			}
			continue
		}
		for _, cand := range a.candidates(ci.Common()) {
			if cand == fn {
				sites = append(sites, ci)
			}
		}
	}
	for _, ci := range sites {
		val := ci.Value()
		if val == nil {
			continue
		}
		caller := c06InstrFn(ci)
		nt := a.derive(t, t.level, caller, c06FnName(fn)+": returned to "+c06FnName(caller))
		if fn.Signature.Results().Len() == 1 {
			a.add(val, nt)
			continue
		}
		if refs := val.Referrers(); refs != nil {
			for _, in := range *refs {
				if ex, ok := in.(*ssa.Extract); ok && ex.Index == idx {
					a.add(ex, nt)
				}
			}
		}
	}
}
