package rules

import (
	"strings"

	"go/ast"
	"go/token"
	"go/types"

	"verif/internal/core"
	"verif/internal/flow"
)

// c03scope is the code a C03 rule looks at: an anchored function together with the
// same-package functions it calls (reach). While a scope is current (c03with), c03defs finds
// the definitions of a variable in any of its functions and c03canon follows the binding of a
// helper's parameter/receiver to the variable passed at its call site, so that "the same
// response", "the same header", "the same writer" are recognised across extracted helpers.
type c03scope struct {
	f    *flow.Func
	fns  []*flow.Func
	body map[*ast.BlockStmt]bool
	// bind: parameter or receiver of a helper → root variable of the argument at its call
	// site(s) inside the scope (absent if the call sites disagree)
	bind map[types.Object]types.Object
	// bindExpr: parameter → the argument expression at its unique call site
	bindExpr map[types.Object]ast.Expr
}

var c03cur *c03scope

func (s *c03scope) has(f *flow.Func) bool { return f != nil && s.body[f.Body] }

func newC03scope(f *flow.Func, depth int) *c03scope {
	s := &c03scope{f: f, fns: reach(f, depth), body: map[*ast.BlockStmt]bool{},
		bind: map[types.Object]types.Object{}, bindExpr: map[types.Object]ast.Expr{}}
	decl := map[types.Object]*flow.Func{}
	for _, g := range s.fns {
		s.body[g.Body] = true
		if fd, ok := g.Node.(*ast.FuncDecl); ok {
			decl[g.Info.Defs[fd.Name]] = g
		}
	}
	conflict := map[types.Object]bool{}
	sites := map[types.Object]int{}
	for _, g := range s.fns {
		for _, call := range calls(g.Body, true) {
			fo, ok := g.Callee(call).(*types.Func)
			if !ok {
				continue
			}
			h := decl[fo.Origin()]
			if h == nil {
				continue
			}
			fd := h.Node.(*ast.FuncDecl)
			one := func(p types.Object, arg ast.Expr) {
				if p == nil || arg == nil {
					return
				}
				sites[p]++
				s.bindExpr[p] = arg
				r := c03root(g, arg)
				if _, isVar := r.(*types.Var); !isVar {
					conflict[p] = true
					return
				}
				if prev, ok := s.bind[p]; ok && prev != r {
					conflict[p] = true
				}
				s.bind[p] = r
			}
			if fd.Recv != nil && len(fd.Recv.List) == 1 && len(fd.Recv.List[0].Names) == 1 {
				if sel, ok := ast.Unparen(call.Fun).(*ast.SelectorExpr); ok {
					one(h.Info.Defs[fd.Recv.List[0].Names[0]], sel.X)
				}
			}
			i := 0
			for _, fl := range fd.Type.Params.List {
				for _, id := range fl.Names {
					if _, variadic := fl.Type.(*ast.Ellipsis); !variadic && i < len(call.Args) {
						one(h.Info.Defs[id], call.Args[i])
					}
					i++
				}
				if len(fl.Names) == 0 {
					i++
				}
			}
		}
	}
	for p := range conflict {
		delete(s.bind, p)
	}
	for p, n := range sites {
		if n != 1 {
			delete(s.bindExpr, p)
		}
	}
	return s
}

// c03with runs fn with s as the current scope.
func c03with(s *c03scope, fn func()) {
	prev := c03cur
	c03cur = s
	defer func() { c03cur = prev }()
	fn()
}

// inline is a flow.Config.Inline restricted to the functions of the scope.
func (s *c03scope) inline() func(*ast.CallExpr, *types.Func) *flow.Func {
	decl := map[types.Object]*flow.Func{}
	for _, g := range s.fns[1:] {
		if fd, ok := g.Node.(*ast.FuncDecl); ok {
			decl[g.Info.Defs[fd.Name]] = g
		}
	}
	return func(call *ast.CallExpr, callee *types.Func) *flow.Func {
		if callee == nil {
			return nil
		}
		return decl[callee.Origin()]
	}
}

// inlineAll is inline including the root of the scope when it is a declaration (a deferred
// method of the analysed function).
func (s *c03scope) inlineAll() func(*ast.CallExpr, *types.Func) *flow.Func {
	decl := map[types.Object]*flow.Func{}
	for _, g := range s.fns {
		if fd, ok := g.Node.(*ast.FuncDecl); ok {
			decl[g.Info.Defs[fd.Name]] = g
		}
	}
	return func(call *ast.CallExpr, callee *types.Func) *flow.Func {
		if callee == nil {
			return nil
		}
		return decl[callee.Origin()]
	}
}

// helperReturns: if e is a call to a function of the scope, the expressions its return
// statements yield at result index idx (function literals excluded); nil otherwise.
func (s *c03scope) helperReturns(e ast.Expr, idx int) ([]*ast.ReturnStmt, []ast.Expr) {
	call, ok := ast.Unparen(e).(*ast.CallExpr)
	if !ok {
		return nil, nil
	}
	fo, ok := s.f.Callee(call).(*types.Func)
	if !ok {
		return nil, nil
	}
	for _, g := range s.fns {
		fd, ok := g.Node.(*ast.FuncDecl)
		if !ok || g.Info.Defs[fd.Name] != types.Object(fo.Origin()) {
			continue
		}
		var named []*ast.Ident
		if fd.Type.Results != nil {
			for _, fl := range fd.Type.Results.List {
				named = append(named, fl.Names...)
			}
		}
		var rets []*ast.ReturnStmt
		var exprs []ast.Expr
		ast.Inspect(fd.Body, func(n ast.Node) bool {
			switch r := n.(type) {
			case *ast.FuncLit:
				return false
			case *ast.ReturnStmt:
				switch {
				case idx < len(r.Results):
					rets = append(rets, r)
					exprs = append(exprs, ast.Unparen(r.Results[idx]))
				case len(r.Results) == 0 && idx < len(named):
					rets = append(rets, r)
					exprs = append(exprs, named[idx])
				}
			}
			return true
		})
		return rets, exprs
	}
	return nil, nil
}

// ---------------------------------------------------------------------------------------

// c03loop abstracts "a loop over every element of a collection": `for k, v := range X`,
// `for k := range X` (element = X[k]) and `for i := 0; i < len(X); i++` (element = X[i]).
type c03loop struct {
	stmt ast.Stmt
	body *ast.BlockStmt
	coll ast.Expr
	key  types.Object // range key / index variable (may be nil)
	val  types.Object // range value variable (nil for the index forms)
}

func c03loopOf(f *flow.Func, stmt ast.Stmt) *c03loop {
	switch l := stmt.(type) {
	case *ast.RangeStmt:
		lp := &c03loop{stmt: l, body: l.Body, coll: l.X}
		if id, ok := l.Key.(*ast.Ident); ok && id.Name != "_" {
			lp.key = c03obj(f, id)
		}
		if id, ok := l.Value.(*ast.Ident); ok && id.Name != "_" {
			lp.val = c03obj(f, id)
		}
		if lp.key == nil && lp.val == nil {
			return nil
		}
		return lp
	case *ast.ForStmt:
		// i := 0; i < len(X); i++
		init, ok := l.Init.(*ast.AssignStmt)
		if !ok || len(init.Lhs) != 1 || len(init.Rhs) != 1 || init.Tok != token.DEFINE {
			return nil
		}
		iid, ok := init.Lhs[0].(*ast.Ident)
		if !ok {
			return nil
		}
		if tv, ok := f.Info.Types[init.Rhs[0]]; !ok || tv.Value == nil || tv.Value.ExactString() != "0" {
			return nil
		}
		i := c03obj(f, iid)
		isI := func(e ast.Expr) bool {
			id, ok := ast.Unparen(e).(*ast.Ident)
			return ok && c03obj(f, id) == i
		}
		lenOf := func(e ast.Expr) ast.Expr {
			call, ok := ast.Unparen(e).(*ast.CallExpr)
			if !ok || len(call.Args) != 1 {
				return nil
			}
			if b, ok := f.Callee(call).(*types.Builtin); ok && b.Name() == "len" {
				return call.Args[0]
			}
			return nil
		}
		var coll ast.Expr
		if be, ok := ast.Unparen(l.Cond).(*ast.BinaryExpr); ok {
			switch {
			case be.Op == token.LSS && isI(be.X):
				coll = lenOf(be.Y)
			case be.Op == token.GTR && isI(be.Y):
				coll = lenOf(be.X)
			case be.Op == token.NEQ && isI(be.X):
				coll = lenOf(be.Y)
			}
		}
		if coll == nil {
			return nil
		}
		switch p := l.Post.(type) {
		case *ast.IncDecStmt:
			if p.Tok != token.INC || !isI(p.X) {
				return nil
			}
		case *ast.AssignStmt:
			if p.Tok != token.ADD_ASSIGN || len(p.Lhs) != 1 || !isI(p.Lhs[0]) {
				return nil
			}
			if tv, ok := f.Info.Types[p.Rhs[0]]; !ok || tv.Value == nil || tv.Value.ExactString() != "1" {
				return nil
			}
		default:
			return nil
		}
		// the index is not assigned in the body
		assigned := false
		ast.Inspect(l.Body, func(n ast.Node) bool {
			switch x := n.(type) {
			case *ast.AssignStmt:
				for _, lh := range x.Lhs {
					if isI(lh) {
						assigned = true
					}
				}
			case *ast.IncDecStmt:
				if isI(x.X) {
					assigned = true
				}
			}
			return true
		})
		if assigned {
			return nil
		}
		return &c03loop{stmt: l, body: l.Body, coll: coll, key: i}
	}
	return nil
}

// c03loops lists the element loops of a body (function literals included).
func c03loops(f *flow.Func, body ast.Node) []*c03loop {
	var out []*c03loop
	ast.Inspect(body, func(n ast.Node) bool {
		if st, ok := n.(ast.Stmt); ok {
			switch st.(type) {
			case *ast.RangeStmt, *ast.ForStmt:
				if l := c03loopOf(f, st); l != nil {
					out = append(out, l)
				}
			}
		}
		return true
	})
	return out
}

// isKey: e is the loop's key / index variable.
func (l *c03loop) isKey(f *flow.Func, e ast.Expr) bool {
	id, ok := ast.Unparen(e).(*ast.Ident)
	return ok && l.key != nil && c03obj(f, id) == l.key
}

// isElem: e denotes the current element (the value variable, or coll[key]).
func (l *c03loop) isElem(f *flow.Func, e ast.Expr) bool {
	e = ast.Unparen(e)
	if id, ok := e.(*ast.Ident); ok {
		return l.val != nil && c03obj(f, id) == l.val
	}
	if ix, ok := e.(*ast.IndexExpr); ok && l.key != nil {
		return l.isKey(f, ix.Index) && f.Render(ix.X) == f.Render(l.coll)
	}
	return false
}

// mentionsElem: e mentions the current element (or a variable of extra).
func (l *c03loop) mentionsElem(f *flow.Func, e ast.Node, extra map[types.Object]bool) bool {
	found := false
	if e == nil {
		return false
	}
	ast.Inspect(e, func(n ast.Node) bool {
		if x, ok := n.(ast.Expr); ok {
			if l.isElem(f, x) {
				found = true
			}
			if id, ok := x.(*ast.Ident); ok && extra[c03obj(f, id)] {
				found = true
			}
		}
		return !found
	})
	return found
}

// c03resolveLocal follows a local variable with a single plain definition to its defining
// expression (vals := h["Connection"]; … range vals), and returns the defining statement.
func c03resolveLocal(f *flow.Func, e ast.Expr) (ast.Expr, ast.Node) {
	var at ast.Node
	for depth := 0; depth < 4; depth++ {
		id, ok := ast.Unparen(e).(*ast.Ident)
		if !ok {
			break
		}
		v, ok := c03obj(f, id).(*types.Var)
		if !ok || v.IsField() || v.Pkg() == nil || v.Parent() == v.Pkg().Scope() {
			break
		}
		defs := c03defs(f, v)
		if len(defs) != 1 || defs[0].rhs == nil {
			break
		}
		e, at = defs[0].rhs, defs[0].at
	}
	return ast.Unparen(e), at
}

// ---------------------------------------------------------------------------------------
// anchors by role (robust to renames of unexported identifiers)

// c03typeIs reports whether t is a pointer to the named type pkgPath.name.
func c03ptrTo(t types.Type, pkgPath, name string) bool {
	p, ok := t.(*types.Pointer)
	if !ok {
		return false
	}
	n, ok := p.Elem().(*types.Named)
	return ok && n.Obj().Pkg() != nil && n.Obj().Pkg().Path() == pkgPath && n.Obj().Name() == name
}

// c03poolCtxFields resolves, by type, the two request fields of the proxy's per-request context
// struct: the named struct of the package that has exactly one field of type
// *httpprot.Request (the client's request) and exactly one of type *http.Request (the request
// sent to the backend).
func c03poolCtxFields(c *core.Ctx) (in, out *types.Var) {
	pkg := c.Prog.Pkg(c03px)
	if pkg == nil {
		c.Errorf("anchor: package %s not loaded", c03px)
		return nil, nil
	}
	n := 0
	scope := pkg.Types.Scope()
	for _, nm := range scope.Names() {
		tn, ok := scope.Lookup(nm).(*types.TypeName)
		if !ok {
			continue
		}
		st, ok := tn.Type().Underlying().(*types.Struct)
		if !ok {
			continue
		}
		var ins, outs []*types.Var
		// the fields of the struct and of the package's own structs it embeds / contains (a part
		// of the context moved into a sub-struct is still part of the context)
		var walk func(st *types.Struct, depth int)
		walk = func(st *types.Struct, depth int) {
			for i := 0; i < st.NumFields(); i++ {
				ft := st.Field(i).Type()
				switch {
				case c03ptrTo(ft, Mod+c03hp, "Request"):
					ins = append(ins, st.Field(i))
				case c03ptrTo(ft, "net/http", "Request"):
					outs = append(outs, st.Field(i))
				default:
					if p, ok := ft.(*types.Pointer); ok {
						ft = p.Elem()
					}
					if n, ok := ft.(*types.Named); ok && depth < 2 && n.Obj().Pkg() == pkg.Types {
						if sub, ok := n.Underlying().(*types.Struct); ok {
							walk(sub, depth+1)
						}
					}
				}
			}
		}
		walk(st, 0)
		if len(ins) == 1 && len(outs) == 1 {
			in, out = ins[0], outs[0]
			n++
		}
	}
	if n != 1 {
		c.Errorf("anchor: expected one struct in %s holding the client's *httpprot.Request and the outbound *http.Request, found %d", c03px, n)
		return nil, nil
	}
	return in, out
}

// c03hostNameFlag resolves the address-class flag of proxy.Server by role: its only
// unexported field of type bool.
func c03hostNameFlag(c *core.Ctx) *types.Var {
	nt := namedType(c, c03px, "Server")
	if nt == nil {
		return nil
	}
	st, ok := nt.Underlying().(*types.Struct)
	if !ok {
		c.Errorf("anchor: %s.Server is not a struct", c03px)
		return nil
	}
	var found []*types.Var
	for i := 0; i < st.NumFields(); i++ {
		fv := st.Field(i)
		if b, ok := fv.Type().Underlying().(*types.Basic); ok && b.Kind() == types.Bool && !fv.Exported() {
			found = append(found, fv)
		}
	}
	if len(found) != 1 {
		c.Errorf("anchor: expected one unexported bool field of %s.Server (the host-name flag), found %d", c03px, len(found))
		return nil
	}
	return found[0]
}

// c03trackEmptiness is a flow.Config.Track that learns only the facts a guard around a loop
// establishes about the emptiness of a collection (len(x) == 0, 0 < len(x), x == nil).
func c03trackEmptiness(key string) bool {
	return strings.Contains(key, "len(") || strings.HasPrefix(key, "nil:")
}
