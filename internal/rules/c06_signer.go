package rules

import (
	"go/ast"
	"go/token"
	"go/types"

	"verif/internal/core"
	"verif/internal/flow"
)

// c06StdField looks up a field of a named struct type of any loaded package.
func c06StdField(c *core.Ctx, pkgPath, typ, field string) *types.Var {
	pkg := c.Prog.All[pkgPath]
	if pkg == nil || pkg.Types == nil {
		c.Errorf("anchor: package %s not loaded", pkgPath)
		return nil
	}
	o := pkg.Types.Scope().Lookup(typ)
	if o == nil {
		c.Errorf("anchor: type %s.%s not found", pkgPath, typ)
		return nil
	}
	st, ok := o.Type().Underlying().(*types.Struct)
	if !ok {
		c.Errorf("anchor: %s.%s is not a struct", pkgPath, typ)
		return nil
	}
	for i := 0; i < st.NumFields(); i++ {
		if st.Field(i).Name() == field {
			return st.Field(i)
		}
	}
	c.Errorf("anchor: field %s.%s.%s not found", pkgPath, typ, field)
	return nil
}

// c06MentionsField reports whether n contains a selector resolving to one of the fields.
func c06MentionsField(f *flow.Func, n ast.Node, fields ...*types.Var) bool {
	found := false
	ast.Inspect(n, func(x ast.Node) bool {
		if e, ok := x.(ast.Expr); ok {
			if v := c06FieldSel(f, e); v != nil {
				for _, fld := range fields {
					if fld == v {
						found = true
					}
				}
			}
		}
		return !found
	})
	return found
}

// c06MentionsCall reports whether n contains a call to one of the functions (full names).
func c06MentionsCall(f *flow.Func, n ast.Node, names ...string) bool {
	found := false
	ast.Inspect(n, func(x ast.Node) bool {
		if call, ok := x.(*ast.CallExpr); ok {
			full := calleeFull(f, call)
			for _, nm := range names {
				if full == nm {
					found = true
				}
			}
		}
		return !found
	})
	return found
}

func c06Signer(c *core.Ctx) {
	c06Canonical(c)
	c06Sign(c)
	c06HashBody(c)
	c06Verify(c)
}

// ---------------------------------------------------------------------------------------
// R-C06-4 (a): the canonical request covers the six parts

func c06Canonical(c *core.Ctx) {
	const rule = "R-C06-4"
	f := fn(c, c06sig, "SigningContext", "hashCanonicalRequest")
	if f == nil {
		return
	}
	cons := fname(c06sig, "SigningContext", "hashCanonicalRequest")
	method := c06StdField(c, "net/http", "Request", "Method")
	urlF := c06StdField(c, "net/http", "Request", "URL")
	uPath := c06StdField(c, "net/url", "URL", "Path")
	uRawPath := c06StdField(c, "net/url", "URL", "RawPath")
	uOpaque := c06StdField(c, "net/url", "URL", "Opaque")
	uRawQuery := c06StdField(c, "net/url", "URL", "RawQuery")
	queryF := structField(c, c06sig, "SigningContext", "Query")
	canonF := structField(c, c06sig, "SigningContext", "CanonicalHeaders")
	signedF := structField(c, c06sig, "SigningContext", "SignedHeaders")
	bodyF := structField(c, c06sig, "SigningContext", "BodyHash")
	if method == nil || urlF == nil || uPath == nil || uRawPath == nil || uOpaque == nil || uRawQuery == nil || queryF == nil || canonF == nil || signedF == nil || bodyF == nil {
		return
	}
	defs := c06SingleDefs(f, f.Body)

	// the digested buffer: a writer-typed local the returned value is computed from
	var digestAt ast.Node
	var roots []ast.Expr
	ast.Inspect(f.Body, func(n ast.Node) bool {
		switch x := n.(type) {
		case *ast.FuncLit:
			return false
		case *ast.ReturnStmt:
			if len(x.Results) == 1 {
				roots = append(roots, x.Results[0])
				digestAt = x
			}
		}
		return true
	})
	buf, parts := c06BufferParts(f, defs, roots)
	if buf == nil {
		c.Undecide(rule, cons+"|canonical request parts", pos(c, f.Body), "cannot identify the buffer whose digest is returned")
		return
	}
	// roles
	pathOf := func(g *flow.Func, n ast.Node) bool {
		return c06MentionsField(g, n, uPath, uRawPath, uOpaque) ||
			c06MentionsCall(g, n, "(*net/url.URL).EscapedPath", "(*net/url.URL).RequestURI")
	}
	queryOf := func(g *flow.Func, n ast.Node) bool {
		return c06MentionsField(g, n, uRawQuery, queryF) ||
			c06MentionsCall(g, n, "(*net/url.URL).Query", "(*net/url.URL).RequestURI")
	}
	viaCallee := func(e ast.Expr, pred func(g *flow.Func, n ast.Node) bool) bool {
		if pred(f, e) {
			return true
		}
		ok := false
		ast.Inspect(e, func(x ast.Node) bool {
			call, isCall := x.(*ast.CallExpr)
			if !isCall || ok {
				return !ok
			}
			if fnObj, isFn := f.Callee(call).(*types.Func); isFn && fnObj.Pkg() == f.Pkg.Types {
				if g := c06FuncDeclOf(c, fnObj); g != nil && pred(g, g.Body) {
					// the callee must be handed the request URL or be a method of the signing context
					handed := fnObj.Type().(*types.Signature).Recv() != nil
					for _, src := range c06ValueClosure(f, call.Args) {
						if c06MentionsField(f, src, urlF) {
							handed = true
						}
					}
					if handed {
						ok = true
					}
				}
			}
			return !ok
		})
		return ok
	}
	type role struct {
		name string
		is   func(e ast.Expr) bool
		miss string
	}
	roles := []role{
		{"method", func(e ast.Expr) bool { return c06MentionsField(f, e, method) }, "the request method is not part of the signed canonical request: a signature made for GET also authorises DELETE on the same URL"},
		{"path", func(e ast.Expr) bool { return viaCallee(e, pathOf) }, "the request path is not part of the signed canonical request: a signature can be replayed against any other path"},
		{"query", func(e ast.Expr) bool { return viaCallee(e, queryOf) }, "the query string is not part of the signed canonical request: parameters can be altered without invalidating the signature"},
		{"canonical headers", func(e ast.Expr) bool { return c06MentionsField(f, e, canonF) }, "the canonical (signed) header values are not part of the signed canonical request: signed headers can be altered"},
		{"signed header list", func(e ast.Expr) bool { return c06MentionsField(f, e, signedF) }, "the list of signed header names is not part of the signed canonical request"},
		{"body hash", func(e ast.Expr) bool { return c06MentionsField(f, e, bodyF) }, "the body hash is not part of the signed canonical request: the body can be replaced without invalidating the signature"},
	}
	for _, r := range roles {
		n := 0
		for _, p := range parts {
			if r.is(c06Resolve(f, defs, p)) {
				n++
			}
		}
		c.Check(n > 0, rule, cons+"|canonical request covers "+r.name, pos(c, digestAt),
			sprintf("%d write(s) of the %s into the digested buffer", n, r.name), r.miss)
	}
	c.Count("functions_analysed", 1)

	// the path part is the wire (escaped) form of the path: everything that flows into it —
	// here and in the same-package helper computing it — comes from EscapedPath()/RawPath/
	// Opaque/RequestURI(), never from the decoded URL.Path and never through an unescape
	{
		type src struct {
			g *flow.Func
			e ast.Expr
		}
		var flows []src
		seenFn := map[*types.Func]bool{}
		var collect func(g *flow.Func, roots []ast.Expr, depth int)
		collect = func(g *flow.Func, roots []ast.Expr, depth int) {
			for _, e := range c06ValueClosure(g, roots) {
				flows = append(flows, src{g, e})
				if depth >= 2 {
					continue
				}
				for _, call := range calls(e, false) {
					fnObj, ok := g.Callee(call).(*types.Func)
					if !ok || fnObj.Pkg() != g.Pkg.Types || seenFn[fnObj] {
						continue
					}
					h := c06FuncDeclOf(c, fnObj)
					if h == nil || !pathOf(h, h.Body) {
						continue
					}
					seenFn[fnObj] = true
					var rets []ast.Expr
					ast.Inspect(h.Body, func(x ast.Node) bool {
						switch t := x.(type) {
						case *ast.FuncLit:
							return false
						case *ast.ReturnStmt:
							rets = append(rets, t.Results...)
						}
						return true
					})
					collect(h, rets, depth+1)
				}
			}
		}
		var pathParts []ast.Expr
		for _, p := range parts {
			if viaCallee(c06Resolve(f, defs, p), pathOf) {
				pathParts = append(pathParts, p)
			}
		}
		if len(pathParts) > 0 {
			collect(f, pathParts, 0)
			var badAt ast.Node
			why := ""
			wire := 0
			for _, fl := range flows {
				switch {
				case c06MentionsCall(fl.g, fl.e, "net/url.PathUnescape", "net/url.QueryUnescape"):
					if badAt == nil {
						badAt, why = fl.e, "the canonical URI is computed from an unescaped (decoded) path"
					}
				case c06MentionsField(fl.g, fl.e, uPath):
					if badAt == nil {
						badAt, why = fl.e, "the canonical URI is computed from the decoded URL.Path"
					}
				case c06MentionsField(fl.g, fl.e, uRawPath, uOpaque) || c06MentionsCall(fl.g, fl.e, "(*net/url.URL).EscapedPath", "(*net/url.URL).RequestURI"):
					wire++
				}
			}
			wcons := cons + "|canonical path is the wire (escaped) form"
			switch {
			case badAt != nil:
				c.Violate(rule, wcons, pos(c, badAt), why+": decoding is not injective on wire paths (/files/a%2Fb and /files/a/b decode to the same string), so a signature made for one path is accepted on another, and paths that need escaping no longer verify against signatures made by other implementations of the scheme (which sign the escaped path)")
			case wire == 0:
				c.Undecide(rule, wcons, pos(c, digestAt), "cannot find the URL component from which the canonical URI is computed")
			default:
				c.Discharge(rule, wcons, pos(c, digestAt), sprintf("%d wire-form source(s) (EscapedPath/RawPath/Opaque/RequestURI), no use of the decoded Path, no unescape", wire))
			}
		}
	}

	// the query used on verify comes from the request URL
	if g := fn(c, c06sig, "SigningContext", "initFromSignedRequest"); g != nil {
		gcons := fname(c06sig, "SigningContext", "initFromSignedRequest")
		gdefs := c06SingleDefs(g, g.Body)
		n, good := 0, 0
		var at ast.Node = g.Body
		ast.Inspect(g.Body, func(x ast.Node) bool {
			as, ok := x.(*ast.AssignStmt)
			if !ok || len(as.Lhs) != len(as.Rhs) {
				return true
			}
			for i, l := range as.Lhs {
				if c06FieldSel(g, l) != queryF {
					continue
				}
				n++
				at = as
				r := c06Resolve(g, gdefs, as.Rhs[i])
				if c06MentionsField(g, r, urlF) && (c06MentionsCall(g, r, "(*net/url.URL).Query") || c06MentionsField(g, r, uRawQuery)) {
					good++
				}
			}
			return true
		})
		c.Check(n > 0 && n == good, rule, gcons+"|verify takes the query from the request URL", pos(c, at),
			"SigningContext.Query is assigned req.URL.Query()", "on verify the query fed into the canonical request is not taken from the request URL: the signature does not bind the query the backend will see")
	}
}

// c06ValueClosure returns the value expressions that may flow into the roots inside g,
// flow-insensitively: the roots themselves, every right-hand side assigned (by any statement,
// any number of times) to a local mentioned in them, the ranged expression of range variables,
// and the arguments of method calls on / writer-style calls into such a local
// (buf.WriteString(x), fmt.Fprintf(&buf, ...)). Conditions are not followed (data flow only).
func c06ValueClosure(g *flow.Func, roots []ast.Expr) []ast.Expr {
	return c06ValueClosureStop(g, roots, nil)
}

// c06ValueClosureStop is c06ValueClosure with a barrier: the sub-expressions of a node for
// which stop returns true are not followed (the node itself stays part of its expression).
func c06ValueClosureStop(g *flow.Func, roots []ast.Expr, stop func(n ast.Node) bool) []ast.Expr {
	type feed struct {
		obj types.Object
		e   ast.Expr
	}
	var feeds []feed
	local := func(e ast.Expr) types.Object {
		e = ast.Unparen(e)
		if u, ok := e.(*ast.UnaryExpr); ok && u.Op == token.AND {
			e = ast.Unparen(u.X)
		}
		for {
			switch x := e.(type) {
			case *ast.IndexExpr:
				e = ast.Unparen(x.X)
				continue
			case *ast.SliceExpr:
				e = ast.Unparen(x.X)
				continue
			case *ast.StarExpr:
				e = ast.Unparen(x.X)
				continue
			}
			break
		}
		if v, ok := c06Obj(g, e).(*types.Var); ok && !v.IsField() && v.Pkg() == g.Pkg.Types && v.Parent() != g.Pkg.Types.Scope() {
			return v
		}
		return nil
	}
	ast.Inspect(g.Body, func(n ast.Node) bool {
		switch s := n.(type) {
		case *ast.AssignStmt:
			for i, l := range s.Lhs {
				o := local(l)
				if o == nil {
					continue
				}
				if len(s.Lhs) == len(s.Rhs) {
					feeds = append(feeds, feed{o, s.Rhs[i]})
				} else {
					for _, r := range s.Rhs {
						feeds = append(feeds, feed{o, r})
					}
				}
			}
		case *ast.ValueSpec:
			for i, nm := range s.Names {
				o := local(nm)
				if o == nil {
					continue
				}
				if len(s.Values) == len(s.Names) {
					feeds = append(feeds, feed{o, s.Values[i]})
				} else {
					for _, r := range s.Values {
						feeds = append(feeds, feed{o, r})
					}
				}
			}
		case *ast.RangeStmt:
			for _, kv := range []ast.Expr{s.Key, s.Value} {
				if kv != nil {
					if o := local(kv); o != nil {
						feeds = append(feeds, feed{o, s.X})
					}
				}
			}
		case *ast.CallExpr:
			if sel, ok := ast.Unparen(s.Fun).(*ast.SelectorExpr); ok {
				if o := local(sel.X); o != nil {
					if _, isMethod := g.Info.Selections[sel]; isMethod {
						for _, a := range s.Args {
							feeds = append(feeds, feed{o, a})
						}
					}
				}
			}
			if len(s.Args) >= 2 {
				if o := local(s.Args[0]); o != nil {
					if t := o.Type(); c06IsWriter(t) {
						for _, a := range s.Args[1:] {
							feeds = append(feeds, feed{o, a})
						}
					}
				}
			}
		}
		return true
	})
	var out []ast.Expr
	seen := map[types.Object]bool{}
	var visit func(e ast.Expr)
	visit = func(e ast.Expr) {
		out = append(out, e)
		ast.Inspect(e, func(x ast.Node) bool {
			if _, isLit := x.(*ast.FuncLit); isLit {
				return false
			}
			if x != nil && stop != nil && stop(x) {
				return false
			}
			id, ok := x.(*ast.Ident)
			if !ok {
				return true
			}
			v, ok := g.Info.Uses[id].(*types.Var)
			if !ok || seen[v] {
				return true
			}
			seen[v] = true
			for _, fd := range feeds {
				if fd.obj == v {
					visit(fd.e)
				}
			}
			return true
		})
	}
	for _, r := range roots {
		visit(r)
	}
	return out
}

// c06IsWriter reports whether t (or *t) has a Write or WriteString method.
func c06IsWriter(t types.Type) bool {
	for _, tt := range []types.Type{t, types.NewPointer(t)} {
		ms := types.NewMethodSet(tt)
		for i := 0; i < ms.Len(); i++ {
			if n := ms.At(i).Obj().Name(); n == "Write" || n == "WriteString" {
				return true
			}
		}
	}
	return false
}

// c06BufferParts finds the writer-typed local (bytes.Buffer, strings.Builder, hash.Hash ...)
// from which the root expressions are computed — following single-definition locals — and
// returns everything written into it (arguments of its methods and of fmt.Fprint*/io.WriteString
// style calls taking it as first argument).
func c06BufferParts(f *flow.Func, defs map[types.Object]ast.Expr, roots []ast.Expr) (types.Object, []ast.Expr) {
	isWriter := func(t types.Type) bool {
		for _, tt := range []types.Type{t, types.NewPointer(t)} {
			ms := types.NewMethodSet(tt)
			for i := 0; i < ms.Len(); i++ {
				if n := ms.At(i).Obj().Name(); n == "Write" || n == "WriteString" {
					return true
				}
			}
		}
		return false
	}
	var buf types.Object
	seen := map[types.Object]bool{}
	var walk func(e ast.Node)
	walk = func(e ast.Node) {
		ast.Inspect(e, func(x ast.Node) bool {
			id, ok := x.(*ast.Ident)
			if !ok {
				return true
			}
			v, ok := f.Info.Uses[id].(*types.Var)
			if !ok || v.IsField() || seen[v] || v.Pkg() != f.Pkg.Types || v.Parent() == f.Pkg.Types.Scope() {
				return true
			}
			seen[v] = true
			if buf == nil && isWriter(v.Type()) {
				buf = v
			}
			if d := defs[v]; d != nil {
				walk(d)
			}
			return true
		})
	}
	for _, r := range roots {
		walk(r)
	}
	if buf == nil {
		return nil, nil
	}
	isBuf := func(e ast.Expr) bool {
		e = ast.Unparen(e)
		if u, ok := e.(*ast.UnaryExpr); ok && u.Op == token.AND {
			e = ast.Unparen(u.X)
		}
		return c06Obj(f, e) == buf
	}
	var parts []ast.Expr
	for _, call := range calls(f.Body, false) {
		if sel, ok := ast.Unparen(call.Fun).(*ast.SelectorExpr); ok && isBuf(sel.X) {
			parts = append(parts, call.Args...)
			continue
		}
		if len(call.Args) >= 2 && isBuf(call.Args[0]) {
			parts = append(parts, call.Args[1:]...)
		}
	}
	return buf, parts
}

// c06Sign: the string to sign, i.e. what SigningContext.sign feeds into the HMAC whose value
// becomes SigningContext.Signature, contains the canonical request hash and the timestamp.
func c06Sign(c *core.Ctx) {
	const rule = "R-C06-4"
	f := fn(c, c06sig, "SigningContext", "sign")
	sigF := structField(c, c06sig, "SigningContext", "Signature")
	timeF := structField(c, c06sig, "SigningContext", "Time")
	secretF := structField(c, c06sig, "SigningContext", "AccessKeySecret")
	if f == nil || sigF == nil || timeF == nil || secretF == nil {
		return
	}
	cons := fname(c06sig, "SigningContext", "sign")
	defs := c06SingleDefs(f, f.Body)
	var roots []ast.Expr
	var at ast.Node = f.Body
	ast.Inspect(f.Body, func(n ast.Node) bool {
		if as, ok := n.(*ast.AssignStmt); ok && len(as.Lhs) == len(as.Rhs) {
			for i, l := range as.Lhs {
				if c06FieldSel(f, l) == sigF {
					roots = append(roots, as.Rhs[i])
					at = as
				}
			}
		}
		return true
	})
	if len(roots) == 0 {
		c.Errorf("%s: anchor: SigningContext.sign does not assign SigningContext.Signature", rule)
		return
	}
	buf, parts := c06BufferParts(f, defs, roots)
	if buf == nil {
		c.Undecide(rule, cons+"|string to sign", pos(c, at), "cannot identify the buffer from which the signature is computed")
		return
	}
	hashed, timed := 0, 0
	for _, p := range parts {
		r := c06Resolve(f, defs, p)
		if c06MentionsCall(f, r, "(*"+Mod+c06sig+".SigningContext).hashCanonicalRequest") {
			hashed++
		}
		if c06MentionsField(f, r, timeF) {
			timed++
		}
	}
	c.Check(hashed > 0, rule, cons+"|signature covers the canonical request hash", pos(c, at),
		"the hash of the canonical request is written into the string to sign",
		"the hash of the canonical request is not part of the string that is signed: the signature covers neither method, path, query, headers nor body — any request with the same date and scope verifies")
	keyed := false
	seen := map[types.Object]bool{}
	var walk func(e ast.Node)
	walk = func(e ast.Node) {
		ast.Inspect(e, func(x ast.Node) bool {
			switch t := x.(type) {
			case *ast.Ident:
				if v, ok := f.Info.Uses[t].(*types.Var); ok && !seen[v] {
					seen[v] = true
					if d := defs[v]; d != nil {
						walk(d)
					}
				}
			case *ast.CallExpr:
				if fnObj, ok := f.Callee(t).(*types.Func); ok && fnObj.Pkg() == f.Pkg.Types {
					if g := c06FuncDeclOf(c, fnObj); g != nil && c06MentionsField(g, g.Body, secretF) {
						keyed = true
					}
				}
			default:
				if e, ok := x.(ast.Expr); ok && c06FieldSel(f, e) == secretF {
					keyed = true
				}
			}
			return true
		})
	}
	for _, r := range roots {
		walk(r)
	}
	c.Check(keyed, rule, cons+"|signature keyed with the access key secret", pos(c, at),
		"the HMAC key is derived from SigningContext.AccessKeySecret",
		"the value assigned to SigningContext.Signature does not depend on SigningContext.AccessKeySecret: anybody can compute a valid signature")
	c.Check(timed > 0, rule, cons+"|signature covers the timestamp", pos(c, at),
		"the request time is written into the string to sign",
		"the request time is not part of the string that is signed: the date presented by the client (which the TTL test trusts) is not bound by the signature")
}

// ---------------------------------------------------------------------------------------
// R-C06-4 (b): on verify the body hash never comes from a request header

func c06HeaderRead(f *flow.Func, n ast.Node) bool {
	found := false
	ast.Inspect(n, func(x ast.Node) bool {
		switch e := x.(type) {
		case *ast.CallExpr:
			switch calleeFull(f, e) {
			case "(net/http.Header).Get", "(net/http.Header).Values", "(net/textproto.MIMEHeader).Get", "(net/textproto.MIMEHeader).Values":
				found = true
			}
		case *ast.IndexExpr:
			if tv, ok := f.Info.Types[e.X]; ok && tv.Type != nil {
				switch tv.Type.String() {
				case "net/http.Header", "net/textproto.MIMEHeader":
					found = true
				}
			}
		}
		return !found
	})
	return found
}

func c06HashBody(c *core.Ctx) {
	const rule = "R-C06-4"
	f := fn(c, c06sig, "SigningContext", "hashBody")
	v := fn(c, c06sig, "Signer", "Verify")
	bodyF := structField(c, c06sig, "SigningContext", "BodyHash")
	if f == nil || v == nil || bodyF == nil {
		return
	}
	cons := fname(c06sig, "SigningContext", "hashBody") + "|body hash not taken from a header on verify"
	// the verify flag: the only bool parameter
	var verify *ast.Ident
	verifyIdx, idx := -1, 0
	for _, fld := range f.Type.Params.List {
		for _, nm := range fld.Names {
			if b, ok := f.Info.Defs[nm].Type().Underlying().(*types.Basic); ok && b.Info()&types.IsBoolean != 0 {
				if verify != nil {
					c.Undecide(rule, cons, pos(c, f.Body), "hashBody has more than one bool parameter")
					return
				}
				verify, verifyIdx = nm, idx
			}
			idx++
		}
	}
	// Verify must compute the body hash in verify mode
	hcalls := callsTo(v, v.Body, false, "(*"+c06sig+".SigningContext).hashBody")
	vcons := fname(c06sig, "Signer", "Verify") + "|body hash computed in verify mode"
	switch {
	case len(hcalls) == 0:
		c.Violate(rule, vcons, pos(c, v.Body), "Verify does not compute the hash of the body: the signature does not bind the body")
	case verify == nil:
		c.Discharge(rule, vcons, pos(c, hcalls[0]), "hashBody has no sign/verify mode")
	default:
		ok := true
		for _, hc := range hcalls {
			if verifyIdx >= len(hc.Args) {
				ok = false
				continue
			}
			if val, isConst := v.Info.Types[hc.Args[verifyIdx]]; !isConst || val.Value == nil || val.Value.ExactString() != "true" {
				ok = false
			}
		}
		c.Check(ok, rule, vcons, pos(c, hcalls[0]), "Verify calls hashBody(req, true)",
			"Verify computes the body hash in signing mode: the hash is taken from the X-Me-Content-Sha256 request header, so an attacker keeps a valid signature while replacing the body")
	}
	if verify == nil {
		// no mode flag: then no header may feed BodyHash at all
		bad := false
		ast.Inspect(f.Body, func(x ast.Node) bool {
			if as, ok := x.(*ast.AssignStmt); ok && len(as.Lhs) == len(as.Rhs) {
				for i, l := range as.Lhs {
					if c06FieldSel(f, l) == bodyF && c06HeaderRead(f, as.Rhs[i]) {
						bad = true
					}
				}
			}
			return true
		})
		c.Check(!bad, rule, cons, pos(c, f.Body), "BodyHash is never assigned from a header", "the body hash is read from a request header during verification")
		return
	}
	defs := c06SingleDefs(f, f.Body)
	verifyKey := f.VarKey(verify)
	// locals that hold data read from the request body: assigned from a call one of whose
	// arguments mentions req.Body (io.ReadAll(req.Body), io.Copy(&b, req.Body) ...)
	reqBodyF := c06StdField(c, "net/http", "Request", "Body")
	excludeF := structField(c, c06sig, "Signer", "excludeBody")
	if reqBodyF == nil || excludeF == nil {
		return
	}
	fromBody := map[types.Object]bool{}
	readsBody := func(call *ast.CallExpr) bool {
		for _, a := range call.Args {
			if c06MentionsField(f, a, reqBodyF) {
				return true
			}
		}
		return false
	}
	ast.Inspect(f.Body, func(x ast.Node) bool {
		switch t := x.(type) {
		case *ast.AssignStmt:
			if len(t.Rhs) == 1 {
				if call, ok := ast.Unparen(t.Rhs[0]).(*ast.CallExpr); ok && readsBody(call) {
					if o := c06Obj(f, t.Lhs[0]); o != nil {
						fromBody[o] = true
					}
				}
			}
		case *ast.CallExpr:
			if !readsBody(t) {
				return true
			}
			// destinations handed to the reading call: io.Copy(&buf, req.Body)
			for _, a := range t.Args {
				if c06MentionsField(f, a, reqBodyF) {
					continue
				}
				a = ast.Unparen(a)
				if u, ok := a.(*ast.UnaryExpr); ok && u.Op == token.AND {
					a = ast.Unparen(u.X)
				}
				if v, ok := c06Obj(f, a).(*types.Var); ok && !v.IsField() && v.Parent() != f.Pkg.Types.Scope() && !isParam(f, v) {
					fromBody[v] = true
				}
			}
		}
		return true
	})
	for changed := true; changed; {
		changed = false
		for o, d := range defs {
			if d != nil && !fromBody[o] && c06Mentions(f, d, fromBody) {
				fromBody[o] = true
				changed = true
			}
		}
	}
	var excludeKeys, bodyNilKeys []string
	ast.Inspect(f.Body, func(x ast.Node) bool {
		if sel, ok := x.(*ast.SelectorExpr); ok {
			switch c06FieldSel(f, sel) {
			case excludeF:
				if k, neg := f.Atom(sel); !neg {
					excludeKeys = append(excludeKeys, k)
				}
			case reqBodyF:
				bodyNilKeys = append(bodyNilKeys, f.NilKey(sel))
			}
		}
		return true
	})
	res := analyze(c, f, flow.Config{NoHavoc: true,
		OnNode: func(st *flow.State, node ast.Node) {
			as, ok := node.(*ast.AssignStmt)
			if !ok || len(as.Lhs) != len(as.Rhs) {
				return
			}
			for i, l := range as.Lhs {
				if c06FieldSel(f, l) != bodyF {
					continue
				}
				r := c06Resolve(f, defs, as.Rhs[i])
				kind := "other"
				if c06Mentions(f, r, fromBody) {
					kind = "frombody"
				} else if tv, ok := f.Info.Types[r]; ok && tv.Value != nil {
					kind = "const"
				}
				for _, k := range []string{"frombody", "const", "other"} {
					if k == kind {
						st.Set("ev:bh:"+k, flow.True)
					} else {
						st.Set("ev:bh:"+k, flow.Unknown)
					}
				}
			}
		},
	})
	if res == nil {
		return
	}
	// on verify, unless the body is excluded by configuration, the hash is computed from
	// the bytes read from the request body (or is the constant hash of "" when Body is nil)
	{
		vcons := fname(c06sig, "SigningContext", "hashBody") + "|on verify the body hash is computed from the body"
		var badEx *flow.Exit
		exits := 0
		for _, ex := range res.Exits {
			if ex.Kind != flow.ExitReturn || ex.Return == nil || len(ex.Return.Results) != 1 {
				continue
			}
			st := ex.State
			if c06ReturnedNilness(f, st, ex.Return.Results[0]) == flow.False || st.Is(verifyKey, flow.False) {
				continue
			}
			exits++
			okExit := st.Is("ev:bh:frombody", flow.True)
			for _, k := range excludeKeys {
				if st.Is(k, flow.True) {
					okExit = true
				}
			}
			if st.Is("ev:bh:const", flow.True) {
				for _, k := range bodyNilKeys {
					if st.Is(k, flow.True) {
						okExit = true
					}
				}
			}
			if !okExit && badEx == nil {
				badEx = ex
			}
		}
		if badEx != nil {
			c.Violate(rule, vcons, pos(c, badEx.At), "while verifying (body not excluded) hashBody can succeed without BodyHash having been computed from the bytes of the request body: the signature does not bind the body", witness(badEx.State)...)
		} else if exits > 0 {
			c.Discharge(rule, vcons, pos(c, f.Body), sprintf("%d successful verify-mode exits: body excluded by configuration, Body nil with the constant empty hash, or hash of the bytes read from Body", exits))
		} else {
			c.Violate(rule, vcons, pos(c, f.Body), "hashBody has no successful exit in verify mode")
		}
	}
	n := 0
	var bad *flow.State
	var badAt ast.Node
	for node, sts := range res.At {
		as, ok := node.(*ast.AssignStmt)
		if !ok || len(as.Lhs) != len(as.Rhs) {
			continue
		}
		for i, l := range as.Lhs {
			if c06FieldSel(f, l) != bodyF || !c06HeaderRead(f, c06Resolve(f, defs, as.Rhs[i])) {
				continue
			}
			n++
			for _, st := range sts {
				if !st.Is(verifyKey, flow.False) && bad == nil {
					bad, badAt = st, as
				}
			}
		}
	}
	if bad != nil {
		c.Violate(rule, cons, pos(c, badAt), "the body hash can be taken from a request header while verifying: an attacker re-uses the hash (and signature) of an old body with a new body", witness(bad)...)
	} else {
		c.Discharge(rule, cons, pos(c, f.Body), sprintf("%d header-sourced assignment(s) of BodyHash, all only with verify == false", n))
	}
}

// ---------------------------------------------------------------------------------------
// R-C06-4 (c) and R-C06-6: acceptance conditions of Signer.Verify

type c06Atom struct {
	key  string
	want flow.Val // value of the key that means "equal" / "inside the window" / "enabled"
}

func c06Verify(c *core.Ctx) {
	f := fn(c, c06sig, "Signer", "Verify")
	if f == nil {
		return
	}
	cons := fname(c06sig, "Signer", "Verify")
	sigF := structField(c, c06sig, "SigningContext", "Signature")
	timeF := structField(c, c06sig, "SigningContext", "Time")
	expF := structField(c, c06sig, "SigningContext", "ExpireTime")
	preF := structField(c, c06sig, "SigningContext", "isPresign")
	ttlF := structField(c, c06sig, "Signer", "ttl")
	secretF := structField(c, c06sig, "SigningContext", "AccessKeySecret")
	signFn := fn(c, c06sig, "SigningContext", "sign")
	if sigF == nil || timeF == nil || expF == nil || preF == nil || ttlF == nil || secretF == nil || signFn == nil {
		return
	}
	defs := c06SingleDefs(f, f.Body)
	isField := func(e ast.Expr, fld *types.Var) bool { return c06FieldSel(f, ast.Unparen(e)) == fld }
	strip := func(e ast.Expr) ast.Expr { // conversions []byte(x), string(x)
		for {
			e = ast.Unparen(e)
			call, ok := e.(*ast.CallExpr)
			if !ok || len(call.Args) != 1 {
				return e
			}
			if tv, ok := f.Info.Types[call.Fun]; !ok || !tv.IsType() {
				return e
			}
			e = call.Args[0]
		}
	}
	// presented signature: a local saved from the Signature field; recomputed: the field itself
	savedStmt := map[types.Object]ast.Node{}
	isSaved := func(e ast.Expr) bool {
		e = strip(e)
		o := c06Obj(f, e)
		if o == nil {
			return false
		}
		d, ok := defs[o]
		return ok && d != nil && isField(d, sigF)
	}
	ast.Inspect(f.Body, func(n ast.Node) bool {
		switch s := n.(type) {
		case *ast.AssignStmt:
			if len(s.Lhs) == len(s.Rhs) {
				for i, l := range s.Lhs {
					if o := c06Obj(f, l); o != nil && isSaved(l) && isField(s.Rhs[i], sigF) {
						savedStmt[o] = s
					}
				}
			}
		case *ast.ValueSpec:
			for i, nm := range s.Names {
				if i < len(s.Values) && isSaved(nm) {
					savedStmt[c06Obj(f, nm)] = s
				}
			}
		}
		return true
	})
	isSigField := func(e ast.Expr) bool { return isField(strip(e), sigF) }

	// ---- atoms
	var eqAtoms, upper, lower, expire, enabled []c06Atom
	var presignKeys []string
	var ageObjs = map[types.Object]bool{}
	for o, d := range defs {
		if d == nil {
			continue
		}
		if call, ok := ast.Unparen(d).(*ast.CallExpr); ok {
			switch calleeFull(f, call) {
			case "(time.Time).Sub":
				if sel, ok := ast.Unparen(call.Fun).(*ast.SelectorExpr); ok && c06MentionsCall(f, sel.X, "time.Now") && len(call.Args) == 1 && isField(call.Args[0], timeF) {
					ageObjs[o] = true
				}
			case "time.Since":
				if len(call.Args) == 1 && isField(call.Args[0], timeF) {
					ageObjs[o] = true
				}
			}
		}
	}
	isAge := func(e ast.Expr) bool { return ageObjs[c06Obj(f, ast.Unparen(e))] }
	// bound classifies e as +ttl (1), -ttl (-1), expire time (2) or 0
	bound := func(e ast.Expr) int {
		e = ast.Unparen(e)
		if u, ok := e.(*ast.UnaryExpr); ok && u.Op == token.SUB {
			if isField(c06Resolve(f, defs, u.X), ttlF) {
				return -1
			}
			return 0
		}
		r := c06Resolve(f, defs, e)
		if u, ok := ast.Unparen(r).(*ast.UnaryExpr); ok && u.Op == token.SUB && isField(u.X, ttlF) {
			return -1
		}
		switch {
		case isField(r, ttlF):
			return 1
		case isField(r, expF):
			return 2
		}
		return 0
	}
	val := func(b bool) flow.Val {
		if b {
			return flow.True
		}
		return flow.False
	}
	ast.Inspect(f.Body, func(n ast.Node) bool {
		switch x := n.(type) {
		case *ast.SelectorExpr:
			if c06FieldSel(f, x) == preF {
				k, neg := f.Atom(x)
				if !neg {
					presignKeys = append(presignKeys, k)
				}
			}
		case *ast.CallExpr:
			// hmac.Equal / bytes.Equal / subtle.ConstantTimeCompare(presented, recomputed)
			switch calleeFull(f, x) {
			case "crypto/hmac.Equal", "bytes.Equal":
				if len(x.Args) == 2 && ((isSaved(x.Args[0]) && isSigField(x.Args[1])) || (isSaved(x.Args[1]) && isSigField(x.Args[0]))) {
					eqAtoms = append(eqAtoms, c06Atom{f.CallKey(x), flow.True})
				}
			}
		case *ast.BinaryExpr:
			switch x.Op {
			case token.EQL, token.NEQ:
				if (isSaved(x.X) && isSigField(x.Y)) || (isSaved(x.Y) && isSigField(x.X)) {
					eqAtoms = append(eqAtoms, c06Atom{f.EqKey(x.X, x.Y), flow.True})
				}
				// subtle.ConstantTimeCompare(a, b) == 1
				for _, pair := range [][2]ast.Expr{{x.X, x.Y}, {x.Y, x.X}} {
					call, ok := ast.Unparen(pair[0]).(*ast.CallExpr)
					if !ok || calleeFull(f, call) != "crypto/subtle.ConstantTimeCompare" || len(call.Args) != 2 {
						continue
					}
					if v, ok := c06ConstInt(f, pair[1]); !ok || v != "1" {
						continue
					}
					if (isSaved(call.Args[0]) && isSigField(call.Args[1])) || (isSaved(call.Args[1]) && isSigField(call.Args[0])) {
						eqAtoms = append(eqAtoms, c06Atom{f.EqKey(x.X, x.Y), flow.True})
					}
				}
				// ttl == 0 / ttl != 0
				for _, pair := range [][2]ast.Expr{{x.X, x.Y}, {x.Y, x.X}} {
					if isField(c06Resolve(f, defs, pair[0]), ttlF) {
						if v, ok := c06ConstInt(f, pair[1]); ok && v == "0" {
							enabled = append(enabled, c06Atom{f.EqKey(x.X, x.Y), flow.False})
						}
					}
				}
			case token.LSS, token.GTR, token.LEQ, token.GEQ:
				key, neg := f.Atom(x)
				// normalise to  L op R  with op in {<, <=}:  small ≤ large
				small, large := x.X, x.Y
				if x.Op == token.GTR || x.Op == token.GEQ {
					small, large = x.Y, x.X
				}
				// expression true means small < large
				exprTrue := val(!neg) // value of key when the expression is true
				exprFalse := val(neg)
				switch {
				case isAge(large) && bound(small) == 1: // ttl < age : outside (too old) when true
					upper = append(upper, c06Atom{key, exprFalse})
				case isAge(small) && bound(large) == 1: // age < ttl : inside when true
					upper = append(upper, c06Atom{key, exprTrue})
				case isAge(small) && bound(large) == -1: // age < -ttl : outside (future) when true
					lower = append(lower, c06Atom{key, exprFalse})
				case isAge(large) && bound(small) == -1: // -ttl < age : inside when true
					lower = append(lower, c06Atom{key, exprTrue})
				case isAge(large) && bound(small) == 2: // expire < age : expired when true
					expire = append(expire, c06Atom{key, exprFalse})
				case isAge(small) && bound(large) == 2: // age < expire : inside when true
					expire = append(expire, c06Atom{key, exprTrue})
				default:
					// ttl compared with 0
					if v, ok := c06ConstInt(f, small); ok && v == "0" && isField(c06Resolve(f, defs, large), ttlF) { // 0 < ttl
						enabled = append(enabled, c06Atom{key, exprTrue})
					}
					if v, ok := c06ConstInt(f, large); ok && v == "0" && isField(c06Resolve(f, defs, small), ttlF) { // ttl < 0 / ttl <= 0
						if x.Op == token.LEQ || x.Op == token.GEQ {
							enabled = append(enabled, c06Atom{key, exprFalse})
						}
					}
				}
			}
		}
		return true
	})

	signCalls := callsTo(f, f.Body, false, "(*"+c06sig+".SigningContext).sign")
	// the secret of the access key: secret, ok := store.GetSecret(id); ctx.AccessKeySecret = secret
	secretObjs := map[types.Object]bool{}
	var okKeys []string
	lookups := 0
	ast.Inspect(f.Body, func(n ast.Node) bool {
		as, ok := n.(*ast.AssignStmt)
		if !ok || len(as.Rhs) != 1 || len(as.Lhs) != 2 {
			return true
		}
		call, ok := ast.Unparen(as.Rhs[0]).(*ast.CallExpr)
		if !ok || !ifaceMethodCall(f, call, c06sig, "AccessKeyStore", "GetSecret") {
			return true
		}
		lookups++
		if o := c06Obj(f, as.Lhs[0]); o != nil {
			secretObjs[o] = true
		}
		if id, ok := as.Lhs[1].(*ast.Ident); ok && id.Name != "_" {
			okKeys = append(okKeys, f.VarKey(id))
		}
		return true
	})
	res := analyze(c, f, flow.Config{
		NoHavoc: true,
		OnCall: func(st *flow.State, call *ast.CallExpr, callee types.Object, deferred bool) {
			for _, sc := range signCalls {
				if sc == call {
					if !st.Is("ev:secret", flow.True) {
						st.Set("ev:signednosecret", flow.True)
					}
					st.Set("ev:signed", flow.True)
					// the recomputation overwrites SigningContext.Signature: earlier comparisons are void
					for _, a := range eqAtoms {
						st.Set(a.key, flow.Unknown)
					}
				}
			}
		},
		OnNode: func(st *flow.State, n ast.Node) {
			for _, s := range savedStmt {
				if s == n && st.Is("ev:signed", flow.True) {
					st.Set("ev:savedlate", flow.True)
				}
			}
			if as, ok := n.(*ast.AssignStmt); ok && len(as.Lhs) == len(as.Rhs) {
				for i, l := range as.Lhs {
					if c06FieldSel(f, l) == secretF {
						if secretObjs[c06Obj(f, c06Resolve(f, defs, as.Rhs[i]))] {
							st.Set("ev:secret", flow.True)
						} else {
							st.Set("ev:secret", flow.False)
						}
					}
				}
			}
		},
	})
	if res == nil {
		return
	}
	holds := func(st *flow.State, atoms []c06Atom) bool {
		for _, a := range atoms {
			if st.Get(a.key) == a.want {
				return true
			}
		}
		return false
	}
	ttlOff := func(st *flow.State) bool {
		for _, a := range enabled {
			v := st.Get(a.key)
			if v != flow.Unknown && v != a.want {
				return true
			}
		}
		return false
	}
	notPresigned := func(st *flow.State) bool {
		for _, k := range presignKeys {
			if st.Is(k, flow.False) {
				return true
			}
		}
		return false
	}
	type verdict struct {
		bad *flow.Exit
		why string
	}
	var eqV, ttlV, expV, keyV verdict
	accepts := 0
	for _, ex := range res.Exits {
		if ex.Kind != flow.ExitReturn {
			continue
		}
		if ex.Return == nil || len(ex.Return.Results) != 1 {
			c.Undecide("R-C06-4", cons+"|accept only on signature equality", pos(c, ex.At), "a return of Verify without an explicit result")
			return
		}
		st := ex.State
		if c06ReturnedNilness(f, st, ex.Return.Results[0]) == flow.False {
			continue
		}
		accepts++
		if eqV.bad == nil {
			switch {
			case len(savedStmt) == 0 || len(eqAtoms) == 0:
				eqV = verdict{ex, "Verify never compares the signature presented by the request with the recomputed SigningContext.Signature: any signature is accepted"}
			case !st.Is("ev:signed", flow.True):
				eqV = verdict{ex, "Verify can accept without recomputing the signature (SigningContext.sign not called on the path)"}
			case st.Is("ev:savedlate", flow.True):
				eqV = verdict{ex, "the presented signature is saved only after sign() has overwritten it: the comparison is recomputed == recomputed and any signature is accepted"}
			case !holds(st, eqAtoms):
				eqV = verdict{ex, "Verify can accept on a path where presented signature == recomputed signature has not been established after sign(): a request with a wrong signature (tampered method, path, query, header or body) is admitted"}
			}
		}
		if keyV.bad == nil {
			okKnown := false
			for _, k := range okKeys {
				if st.Is(k, flow.True) {
					okKnown = true
				}
			}
			switch {
			case lookups == 0:
				keyV = verdict{ex, "Verify never asks the access key store for the secret of the presented access key id"}
			case !okKnown:
				keyV = verdict{ex, "Verify can accept although the access key store did not confirm the access key id (ok result not established true): unknown keys verify against the empty secret"}
			case !st.Is("ev:secret", flow.True) || st.Is("ev:signednosecret", flow.True):
				keyV = verdict{ex, "Verify recomputes the signature before (or without) SigningContext.AccessKeySecret having been set to the secret returned by the access key store"}
			}
		}
		if ttlV.bad == nil && !ttlOff(st) {
			switch {
			case !holds(st, upper):
				ttlV = verdict{ex, "Verify can accept although age <= ttl has not been established (ttl enabled): signatures older than the TTL stay valid and can be replayed"}
			case !holds(st, lower):
				ttlV = verdict{ex, "Verify can accept although age >= -ttl has not been established (ttl enabled): a signature dated in the future is valid for an unbounded time"}
			}
		}
		if expV.bad == nil && !notPresigned(st) && !holds(st, expire) {
			expV = verdict{ex, "Verify can accept a presigned request although age <= X-Me-Expires has not been established: presigned URLs never expire"}
		}
	}
	if !c.RequireCount("R-C06-4", "accepting exits of Signer.Verify", accepts, 1) {
		return
	}
	if len(ageObjs) == 0 {
		c.Undecide("R-C06-6", cons+"|TTL window", pos(c, f.Body), "cannot identify the age of the signature (time.Now().Sub(ctx.Time) / time.Since(ctx.Time) assigned to a local)")
	} else {
		if ttlV.bad != nil {
			c.Violate("R-C06-6", cons+"|TTL window", pos(c, ttlV.bad.At), ttlV.why, witness(ttlV.bad.State)...)
		} else {
			c.Discharge("R-C06-6", cons+"|TTL window", pos(c, f.Body), sprintf("%d accepting exits: ttl disabled or -ttl <= age <= ttl", accepts))
		}
		if expV.bad != nil {
			c.Violate("R-C06-6", cons+"|presign expiry", pos(c, expV.bad.At), expV.why, witness(expV.bad.State)...)
		} else {
			c.Discharge("R-C06-6", cons+"|presign expiry", pos(c, f.Body), sprintf("%d accepting exits: not presigned or age <= expire time", accepts))
		}
	}
	if keyV.bad != nil {
		c.Violate("R-C06-4", cons+"|keyed with the secret of a known access key", pos(c, keyV.bad.At), keyV.why, witness(keyV.bad.State)...)
	} else {
		c.Discharge("R-C06-4", cons+"|keyed with the secret of a known access key", pos(c, f.Body), sprintf("%d accepting exits: GetSecret ok, AccessKeySecret set before sign()", accepts))
	}
	if eqV.bad != nil {
		c.Violate("R-C06-4", cons+"|accept only on signature equality", pos(c, eqV.bad.At), eqV.why, witness(eqV.bad.State)...)
	} else {
		c.Discharge("R-C06-4", cons+"|accept only on signature equality", pos(c, f.Body), sprintf("%d accepting exits: sign() called, presented == recomputed", accepts))
	}
}
