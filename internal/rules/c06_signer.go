package rules

import (
	"go/ast"
	"go/token"
	"go/types"
	"strings"

	"verif/internal/core"
	"verif/internal/flow"
)

// c06StdField looks up a field of a named struct type of any loaded package.
func c06StdField(c *core.Ctx, pkgPath, typ, field string) *types.Var {
	pkg := c.Prog.All[pkgPath]
	if pkg == nil || pkg.Types == nil {
		c.Errorf("anchor: package %s not loaded", pkgPath)
		return nil
	}
	o := pkg.Types.Scope().Lookup(typ)
	if o == nil {
		c.Errorf("anchor: type %s.%s not found", pkgPath, typ)
		return nil
	}
	st, ok := o.Type().Underlying().(*types.Struct)
	if !ok {
		c.Errorf("anchor: %s.%s is not a struct", pkgPath, typ)
		return nil
	}
	for i := 0; i < st.NumFields(); i++ {
		if st.Field(i).Name() == field {
			return st.Field(i)
		}
	}
	c.Errorf("anchor: field %s.%s.%s not found", pkgPath, typ, field)
	return nil
}

// c06MentionsField reports whether n contains a selector resolving to one of the fields.
func c06MentionsField(f *flow.Func, n ast.Node, fields ...*types.Var) bool {
	found := false
	ast.Inspect(n, func(x ast.Node) bool {
		if e, ok := x.(ast.Expr); ok {
			if v := c06FieldSel(f, e); v != nil {
				for _, fld := range fields {
					if fld == v {
						found = true
					}
				}
			}
		}
		return !found
	})
	return found
}

// c06MentionsCall reports whether n contains a call to one of the functions (full names).
func c06MentionsCall(f *flow.Func, n ast.Node, names ...string) bool {
	found := false
	ast.Inspect(n, func(x ast.Node) bool {
		if call, ok := x.(*ast.CallExpr); ok {
			full := calleeFull(f, call)
			for _, nm := range names {
				if full == nm {
					found = true
				}
			}
		}
		return !found
	})
	return found
}

// c06SignerRole resolves the three unexported methods of the signer the rules are anchored in by
// what they do, the current name being only a tie-breaker:
//
//	canon    reads (at least two of) BodyHash, CanonicalHeaders, SignedHeaders, takes the request, returns a string
//	sign     assigns SigningContext.Signature and calls canon
//	hashBody assigns SigningContext.BodyHash and takes the request
func c06SignerRole(c *core.Ctx, role string) *flow.Func {
	if g, ok := c06RoleCache[role]; ok {
		return g
	}
	g := c06SignerRoleFind(c, role)
	c06RoleCache[role] = g
	return g
}

var c06RoleCache = map[string]*flow.Func{}

func c06SignerRoleFind(c *core.Ctx, role string) *flow.Func {
	bodyF := structField(c, c06sig, "SigningContext", "BodyHash")
	canonF := structField(c, c06sig, "SigningContext", "CanonicalHeaders")
	signedF := structField(c, c06sig, "SigningContext", "SignedHeaders")
	sigF := structField(c, c06sig, "SigningContext", "Signature")
	if bodyF == nil || canonF == nil || signedF == nil || sigF == nil {
		return nil
	}
	takesRequest := func(g *flow.Func) bool {
		if g.Type == nil || g.Type.Params == nil {
			return false
		}
		for _, fld := range g.Type.Params.List {
			if tv, ok := g.Info.Types[fld.Type]; ok && tv.Type != nil && tv.Type.String() == "*net/http.Request" {
				return true
			}
		}
		return false
	}
	assigns := func(g *flow.Func, fld *types.Var) bool {
		found := false
		ast.Inspect(g.Body, func(n ast.Node) bool {
			if as, ok := n.(*ast.AssignStmt); ok {
				for _, l := range as.Lhs {
					if c06FieldSel(g, l) == fld {
						found = true
					}
				}
			}
			return !found
		})
		return found
	}
	var cands []*flow.Func
	name := ""
	switch role {
	case "canon":
		name = "hashCanonicalRequest"
		cands = funcsByRole(c, c06sig, func(g *flow.Func, fd *ast.FuncDecl) bool {
			if !takesRequest(g) || fd.Type.Results == nil || len(fd.Type.Results.List) != 1 {
				return false
			}
			if tv, ok := g.Info.Types[fd.Type.Results.List[0].Type]; !ok || tv.Type == nil || tv.Type.String() != "string" {
				return false
			}
			// two of the three are enough: each single write is a protective construct that a
			// defect may have removed, it must not be a precondition of finding the function
			n := 0
			for _, fld := range []*types.Var{bodyF, canonF, signedF} {
				if c06MentionsField(g, g.Body, fld) {
					n++
				}
			}
			return n >= 2 && !assigns(g, bodyF) && !assigns(g, canonF) && !assigns(g, signedF)
		})
	case "hashBody":
		// the entry of the verification-side body hashing: in the reach of Verify, a function
		// that takes the request and assigns BodyHash (itself or through what it calls) and is
		// called from a function that does not assign BodyHash itself
		name = "hashBody"
		v := fn(c, c06sig, "Signer", "Verify")
		if v == nil {
			return nil
		}
		assignsDeep := func(g *flow.Func) bool {
			for _, h := range reach(g, 2) {
				if assigns(h, bodyF) {
					return true
				}
			}
			return false
		}
		seen := map[*ast.BlockStmt]bool{}
		for _, caller := range reach(v, 3) {
			if assigns(caller, bodyF) {
				continue
			}
			for _, call := range calls(caller.Body, true) {
				fo, ok := caller.Callee(call).(*types.Func)
				if !ok || fo.Pkg() != caller.Pkg.Types {
					continue
				}
				fd := declOf(caller.Pkg, fo)
				if fd == nil || seen[fd.Body] {
					continue
				}
				g := c06FuncOfDecl(caller.Pkg, fd)
				if takesRequest(g) && assignsDeep(g) && !c06MentionsField(g, g.Body, sigF) {
					seen[fd.Body] = true
					cands = append(cands, g)
				}
			}
		}
	case "sign":
		name = "sign"
		canon := c06SignerRole(c, "canon")
		if canon == nil {
			return nil
		}
		canonName := c06FullName(canon)
		// the function that computes the signature: it calls canon (and either stores the
		// result in SigningContext.Signature or returns it)
		cands = funcsByRole(c, c06sig, func(g *flow.Func, fd *ast.FuncDecl) bool {
			return len(callsTo(g, g.Body, false, canonName)) > 0
		})
		if len(cands) == 0 {
			// the call of canon is what a rule demands; without it fall back to the name
			cands = funcsByRole(c, c06sig, func(g *flow.Func, fd *ast.FuncDecl) bool {
				return assigns(g, sigF) && fd.Name.Name == name
			})
		}
	}
	if len(cands) > 1 {
		var named []*flow.Func
		for _, g := range cands {
			if fd, ok := g.Node.(*ast.FuncDecl); ok && fd.Name.Name == name {
				named = append(named, g)
			}
		}
		cands = named
	}
	if len(cands) != 1 {
		c.Errorf("R-C06-4: anchor: cannot resolve the signer method playing the role %q (%d candidates)", role, len(cands))
		return nil
	}
	c.Count("functions_analysed", 1)
	return cands[0]
}

// c06FullName renders the declared function of g in the form calleeIs expects (module prefix stripped).
func c06FullName(g *flow.Func) string {
	if fo, ok := c06FuncObj(g).(*types.Func); ok {
		return strings.ReplaceAll(fo.FullName(), Mod, "")
	}
	return ""
}

// c06FuncObj returns the object of the declared function g.
func c06FuncObj(g *flow.Func) types.Object {
	if fd, ok := g.Node.(*ast.FuncDecl); ok {
		return g.Info.Defs[fd.Name]
	}
	return nil
}

// c06PresignField resolves the field of SigningContext that says "this request is presigned"
// by role: the bool or small-integer (enum) field that is assigned a constant in every function
// of the package that also assigns ExpireTime (Presign, the query initialiser). For an enum
// the second result is the constant meaning "presigned" ("" for a bool).
func c06PresignField(c *core.Ctx, expF *types.Var) (*types.Var, string) {
	if expF == nil {
		return nil, ""
	}
	named := namedType(c, c06sig, "SigningContext")
	if named == nil {
		return nil, ""
	}
	st, _ := named.Underlying().(*types.Struct)
	type cand struct {
		n     int
		value string
		same  bool
	}
	cands := map[*types.Var]*cand{}
	funcs := 0
	for _, g := range funcsByRole(c, c06sig, func(g *flow.Func, fd *ast.FuncDecl) bool { return true }) {
		assignsExp := false
		consts := map[*types.Var]string{}
		ast.Inspect(g.Body, func(n ast.Node) bool {
			as, ok := n.(*ast.AssignStmt)
			if !ok || len(as.Lhs) != len(as.Rhs) {
				return true
			}
			for i, l := range as.Lhs {
				fld := c06FieldSel(g, l)
				if fld == nil {
					continue
				}
				if fld == expF {
					assignsExp = true
				}
				if tv, ok := g.Info.Types[as.Rhs[i]]; ok && tv.Value != nil {
					if b, ok := fld.Type().Underlying().(*types.Basic); ok && (b.Info()&types.IsBoolean != 0 || b.Info()&types.IsInteger != 0) {
						consts[fld] = tv.Value.ExactString()
					}
				}
			}
			return true
		})
		if !assignsExp {
			continue
		}
		funcs++
		for fld, v := range consts {
			cd := cands[fld]
			if cd == nil {
				cd = &cand{value: v, same: true}
				cands[fld] = cd
			}
			cd.n++
			if cd.value != v {
				cd.same = false
			}
		}
	}
	var found *types.Var
	value := ""
	for fld, cd := range cands {
		inStruct := false
		for i := 0; st != nil && i < st.NumFields(); i++ {
			if st.Field(i) == fld {
				inStruct = true
			}
		}
		if !inStruct || cd.n != funcs || !cd.same || funcs == 0 {
			continue
		}
		if found != nil {
			c.Errorf("R-C06-6: anchor: two fields of SigningContext play the presign-indicator role (%s, %s)", found.Name(), fld.Name())
			return nil, ""
		}
		found, value = fld, cd.value
	}
	if found == nil {
		c.Errorf("R-C06-6: anchor: cannot resolve the presign indicator of SigningContext (a bool / enum field set together with ExpireTime)")
		return nil, ""
	}
	if b, ok := found.Type().Underlying().(*types.Basic); ok && b.Info()&types.IsBoolean != 0 {
		return found, ""
	}
	return found, value
}

func c06Signer(c *core.Ctx) {
	c06Canonical(c)
	c06Sign(c)
	c06HashBody(c)
	c06Verify(c)
}

// ---------------------------------------------------------------------------------------
// R-C06-4 (a): the canonical request covers the six parts

func c06Canonical(c *core.Ctx) {
	const rule = "R-C06-4"
	f := c06SignerRole(c, "canon")
	if f == nil {
		return
	}
	cons := fname(c06sig, "SigningContext", "hashCanonicalRequest")
	method := c06StdField(c, "net/http", "Request", "Method")
	urlF := c06StdField(c, "net/http", "Request", "URL")
	uPath := c06StdField(c, "net/url", "URL", "Path")
	uRawPath := c06StdField(c, "net/url", "URL", "RawPath")
	uOpaque := c06StdField(c, "net/url", "URL", "Opaque")
	uRawQuery := c06StdField(c, "net/url", "URL", "RawQuery")
	queryF := structField(c, c06sig, "SigningContext", "Query")
	canonF := structField(c, c06sig, "SigningContext", "CanonicalHeaders")
	signedF := structField(c, c06sig, "SigningContext", "SignedHeaders")
	bodyF := structField(c, c06sig, "SigningContext", "BodyHash")
	if method == nil || urlF == nil || uPath == nil || uRawPath == nil || uOpaque == nil || uRawQuery == nil || queryF == nil || canonF == nil || signedF == nil || bodyF == nil {
		return
	}
	defs := c06SingleDefs(f, f.Body)

	// the digested buffer: a writer-typed local the returned value is computed from
	var digestAt ast.Node
	var roots []ast.Expr
	ast.Inspect(f.Body, func(n ast.Node) bool {
		switch x := n.(type) {
		case *ast.FuncLit:
			return false
		case *ast.ReturnStmt:
			if len(x.Results) == 1 {
				roots = append(roots, x.Results[0])
				digestAt = x
			}
		}
		return true
	})
	// everything that flows into the returned digest: buffer writes, joined slices, arrays of
	// parts written in a loop, locals — conditions are not followed
	parts := c06ValueClosure(f, roots)
	if len(parts) == 0 {
		c.Undecide(rule, cons+"|canonical request parts", pos(c, f.Body), "cannot identify what the returned digest is computed from")
		return
	}
	// roles
	// a role predicate holds for a node or, when the node is the body of a declared function,
	// for one of the same-package functions it calls (a helper split in two)
	overReach := func(g *flow.Func, n ast.Node, pred func(h *flow.Func, x ast.Node) bool) bool {
		if pred(g, n) {
			return true
		}
		if n == ast.Node(g.Body) {
			for _, h := range reach(g, 2) {
				if h.Body != g.Body && pred(h, h.Body) {
					return true
				}
			}
		}
		return false
	}
	pathOf := func(g *flow.Func, n ast.Node) bool {
		return overReach(g, n, func(h *flow.Func, x ast.Node) bool {
			return c06MentionsField(h, x, uPath, uRawPath, uOpaque) ||
				c06MentionsCall(h, x, "(*net/url.URL).EscapedPath", "(*net/url.URL).RequestURI")
		})
	}
	queryOf := func(g *flow.Func, n ast.Node) bool {
		return overReach(g, n, func(h *flow.Func, x ast.Node) bool {
			return c06MentionsField(h, x, uRawQuery, queryF) ||
				c06MentionsCall(h, x, "(*net/url.URL).Query", "(*net/url.URL).RequestURI")
		})
	}
	viaCallee := func(e ast.Expr, pred func(g *flow.Func, n ast.Node) bool) bool {
		if pred(f, e) {
			return true
		}
		ok := false
		ast.Inspect(e, func(x ast.Node) bool {
			call, isCall := x.(*ast.CallExpr)
			if !isCall || ok {
				return !ok
			}
			if fnObj, isFn := f.Callee(call).(*types.Func); isFn && fnObj.Pkg() == f.Pkg.Types {
				if g := c06FuncDeclOf(c, fnObj); g != nil && pred(g, g.Body) {
					// the callee must be handed the request URL or be a method of the signing context
					handed := fnObj.Type().(*types.Signature).Recv() != nil
					for _, src := range c06ValueClosure(f, call.Args) {
						if c06MentionsField(f, src, urlF) {
							handed = true
						}
					}
					if handed {
						ok = true
					}
				}
			}
			return !ok
		})
		return ok
	}
	type role struct {
		name string
		is   func(e ast.Expr) bool
		miss string
	}
	roles := []role{
		{"method", func(e ast.Expr) bool { return c06MentionsField(f, e, method) }, "the request method is not part of the signed canonical request: a signature made for GET also authorises DELETE on the same URL"},
		{"path", func(e ast.Expr) bool { return viaCallee(e, pathOf) }, "the request path is not part of the signed canonical request: a signature can be replayed against any other path"},
		{"query", func(e ast.Expr) bool { return viaCallee(e, queryOf) }, "the query string is not part of the signed canonical request: parameters can be altered without invalidating the signature"},
		{"canonical headers", func(e ast.Expr) bool { return c06MentionsField(f, e, canonF) }, "the canonical (signed) header values are not part of the signed canonical request: signed headers can be altered"},
		{"signed header list", func(e ast.Expr) bool { return c06MentionsField(f, e, signedF) }, "the list of signed header names is not part of the signed canonical request"},
		{"body hash", func(e ast.Expr) bool { return c06MentionsField(f, e, bodyF) }, "the body hash is not part of the signed canonical request: the body can be replaced without invalidating the signature"},
	}
	for _, r := range roles {
		n := 0
		for _, p := range parts {
			if r.is(c06Resolve(f, defs, p)) {
				n++
			}
		}
		c.Check(n > 0, rule, cons+"|canonical request covers "+r.name, pos(c, digestAt),
			sprintf("%d write(s) of the %s into the digested buffer", n, r.name), r.miss)
	}
	c.Count("functions_analysed", 1)

	// the path part is the wire (escaped) form of the path: everything that flows into it —
	// here and in the same-package helper computing it — comes from EscapedPath()/RawPath/
	// Opaque/RequestURI(), never from the decoded URL.Path and never through an unescape
	{
		type src struct {
			g *flow.Func
			e ast.Expr
		}
		var flows []src
		seenFn := map[*types.Func]bool{}
		var collect func(g *flow.Func, roots []ast.Expr, depth int)
		collect = func(g *flow.Func, roots []ast.Expr, depth int) {
			for _, e := range c06ValueClosure(g, roots) {
				flows = append(flows, src{g, e})
				if depth >= 3 {
					continue
				}
				for _, call := range calls(e, false) {
					fnObj, ok := g.Callee(call).(*types.Func)
					if !ok || fnObj.Pkg() != g.Pkg.Types || seenFn[fnObj] {
						continue
					}
					h := c06FuncDeclOf(c, fnObj)
					if h == nil {
						continue
					}
					seenFn[fnObj] = true
					var rets []ast.Expr
					ast.Inspect(h.Body, func(x ast.Node) bool {
						switch t := x.(type) {
						case *ast.FuncLit:
							return false
						case *ast.ReturnStmt:
							rets = append(rets, t.Results...)
						}
						return true
					})
					collect(h, rets, depth+1)
				}
			}
		}
		var pathParts []ast.Expr
		for _, p := range parts {
			if viaCallee(c06Resolve(f, defs, p), pathOf) {
				pathParts = append(pathParts, p)
			}
		}
		if len(pathParts) > 0 {
			collect(f, pathParts, 0)
			var badAt ast.Node
			why := ""
			wire := 0
			for _, fl := range flows {
				switch {
				case c06MentionsCall(fl.g, fl.e, "net/url.PathUnescape", "net/url.QueryUnescape"):
					if badAt == nil {
						badAt, why = fl.e, "the canonical URI is computed from an unescaped (decoded) path"
					}
				case c06MentionsField(fl.g, fl.e, uPath):
					if badAt == nil {
						badAt, why = fl.e, "the canonical URI is computed from the decoded URL.Path"
					}
				case c06MentionsField(fl.g, fl.e, uRawPath, uOpaque) || c06MentionsCall(fl.g, fl.e, "(*net/url.URL).EscapedPath", "(*net/url.URL).RequestURI"):
					wire++
				}
			}
			wcons := cons + "|canonical path is the wire (escaped) form"
			switch {
			case badAt != nil:
				c.Violate(rule, wcons, pos(c, badAt), why+": decoding is not injective on wire paths (/files/a%2Fb and /files/a/b decode to the same string), so a signature made for one path is accepted on another, and paths that need escaping no longer verify against signatures made by other implementations of the scheme (which sign the escaped path)")
			case wire == 0:
				c.Undecide(rule, wcons, pos(c, digestAt), "cannot find the URL component from which the canonical URI is computed")
			default:
				c.Discharge(rule, wcons, pos(c, digestAt), sprintf("%d wire-form source(s) (EscapedPath/RawPath/Opaque/RequestURI), no use of the decoded Path, no unescape", wire))
			}
		}
	}

	// the query used on verify comes from the request URL (searched over the reach of Verify)
	if v := fn(c, c06sig, "Signer", "Verify"); v != nil {
		gcons := fname(c06sig, "SigningContext", "initFromSignedRequest")
		n, good := 0, 0
		var at ast.Node = v.Body
		for _, g := range reach(v, 3) {
			g := g
			gdefs := c06DefsOf(g)
			ast.Inspect(g.Body, func(x ast.Node) bool {
				as, ok := x.(*ast.AssignStmt)
				if !ok || len(as.Lhs) != len(as.Rhs) {
					return true
				}
				for i, l := range as.Lhs {
					if c06FieldSel(g, l) != queryF {
						continue
					}
					n++
					at = as
					r := c06Resolve(g, gdefs, as.Rhs[i])
					if c06MentionsField(g, r, urlF) && (c06MentionsCall(g, r, "(*net/url.URL).Query") || c06MentionsField(g, r, uRawQuery)) {
						good++
					}
				}
				return true
			})
		}
		c.Check(n > 0 && n == good, rule, gcons+"|verify takes the query from the request URL", pos(c, at),
			"SigningContext.Query is assigned req.URL.Query()", "on verify the query fed into the canonical request is not taken from the request URL: the signature does not bind the query the backend will see")
	}
}

// c06ValueClosure returns the value expressions that may flow into the roots inside g,
// flow-insensitively: the roots themselves, every right-hand side assigned (by any statement,
// any number of times) to a local mentioned in them, the ranged expression of range variables,
// and the arguments of method calls on / writer-style calls into such a local
// (buf.WriteString(x), fmt.Fprintf(&buf, ...)). Conditions are not followed (data flow only).
func c06ValueClosure(g *flow.Func, roots []ast.Expr) []ast.Expr {
	return c06ValueClosureStop(g, roots, nil)
}

// c06ValueClosureStop is c06ValueClosure with a barrier: the sub-expressions of a node for
// which stop returns true are not followed (the node itself stays part of its expression).
func c06ValueClosureStop(g *flow.Func, roots []ast.Expr, stop func(n ast.Node) bool) []ast.Expr {
	type feed struct {
		obj types.Object
		e   ast.Expr
	}
	var feeds []feed
	local := func(e ast.Expr) types.Object {
		e = ast.Unparen(e)
		if u, ok := e.(*ast.UnaryExpr); ok && u.Op == token.AND {
			e = ast.Unparen(u.X)
		}
		for {
			switch x := e.(type) {
			case *ast.IndexExpr:
				e = ast.Unparen(x.X)
				continue
			case *ast.SliceExpr:
				e = ast.Unparen(x.X)
				continue
			case *ast.StarExpr:
				e = ast.Unparen(x.X)
				continue
			}
			break
		}
		if v, ok := c06Obj(g, e).(*types.Var); ok && !v.IsField() && v.Pkg() == g.Pkg.Types && v.Parent() != g.Pkg.Types.Scope() {
			return v
		}
		return nil
	}
	ast.Inspect(g.Body, func(n ast.Node) bool {
		switch s := n.(type) {
		case *ast.AssignStmt:
			for i, l := range s.Lhs {
				o := local(l)
				if o == nil {
					continue
				}
				if len(s.Lhs) == len(s.Rhs) {
					feeds = append(feeds, feed{o, s.Rhs[i]})
				} else {
					for _, r := range s.Rhs {
						feeds = append(feeds, feed{o, r})
					}
				}
			}
		case *ast.ValueSpec:
			for i, nm := range s.Names {
				o := local(nm)
				if o == nil {
					continue
				}
				if len(s.Values) == len(s.Names) {
					feeds = append(feeds, feed{o, s.Values[i]})
				} else {
					for _, r := range s.Values {
						feeds = append(feeds, feed{o, r})
					}
				}
			}
		case *ast.RangeStmt:
			for _, kv := range []ast.Expr{s.Key, s.Value} {
				if kv != nil {
					if o := local(kv); o != nil {
						feeds = append(feeds, feed{o, s.X})
					}
				}
			}
		case *ast.CallExpr:
			if sel, ok := ast.Unparen(s.Fun).(*ast.SelectorExpr); ok {
				if o := local(sel.X); o != nil {
					if _, isMethod := g.Info.Selections[sel]; isMethod {
						for _, a := range s.Args {
							feeds = append(feeds, feed{o, a})
						}
					}
				}
			}
			if len(s.Args) >= 2 {
				if o := local(s.Args[0]); o != nil {
					if t := o.Type(); c06IsWriter(t) {
						for _, a := range s.Args[1:] {
							feeds = append(feeds, feed{o, a})
						}
					}
				}
			}
		}
		return true
	})
	var out []ast.Expr
	seen := map[types.Object]bool{}
	var visit func(e ast.Expr)
	visit = func(e ast.Expr) {
		out = append(out, e)
		ast.Inspect(e, func(x ast.Node) bool {
			if _, isLit := x.(*ast.FuncLit); isLit {
				return false
			}
			if x != nil && stop != nil && stop(x) {
				return false
			}
			id, ok := x.(*ast.Ident)
			if !ok {
				return true
			}
			o := g.Info.Uses[id]
			if o == nil {
				o = g.Info.Defs[id]
			}
			v, ok := o.(*types.Var)
			if !ok || seen[v] {
				return true
			}
			seen[v] = true
			for _, fd := range feeds {
				if fd.obj == v {
					visit(fd.e)
				}
			}
			return true
		})
	}
	for _, r := range roots {
		visit(r)
	}
	return out
}

// c06IsWriter reports whether t (or *t) has a Write or WriteString method.
func c06IsWriter(t types.Type) bool {
	for _, tt := range []types.Type{t, types.NewPointer(t)} {
		ms := types.NewMethodSet(tt)
		for i := 0; i < ms.Len(); i++ {
			if n := ms.At(i).Obj().Name(); n == "Write" || n == "WriteString" {
				return true
			}
		}
	}
	return false
}

// c06BufferParts finds the writer-typed local (bytes.Buffer, strings.Builder, hash.Hash ...)
// from which the root expressions are computed — following single-definition locals — and
// returns everything written into it (arguments of its methods and of fmt.Fprint*/io.WriteString
// style calls taking it as first argument).
func c06BufferParts(f *flow.Func, defs map[types.Object]ast.Expr, roots []ast.Expr) (types.Object, []ast.Expr) {
	isWriter := func(t types.Type) bool {
		for _, tt := range []types.Type{t, types.NewPointer(t)} {
			ms := types.NewMethodSet(tt)
			for i := 0; i < ms.Len(); i++ {
				if n := ms.At(i).Obj().Name(); n == "Write" || n == "WriteString" {
					return true
				}
			}
		}
		return false
	}
	var buf types.Object
	seen := map[types.Object]bool{}
	var walk func(e ast.Node)
	walk = func(e ast.Node) {
		ast.Inspect(e, func(x ast.Node) bool {
			id, ok := x.(*ast.Ident)
			if !ok {
				return true
			}
			v, ok := f.Info.Uses[id].(*types.Var)
			if !ok || v.IsField() || seen[v] || v.Pkg() != f.Pkg.Types || v.Parent() == f.Pkg.Types.Scope() {
				return true
			}
			seen[v] = true
			if buf == nil && isWriter(v.Type()) {
				buf = v
			}
			if d := defs[v]; d != nil {
				walk(d)
			}
			return true
		})
	}
	for _, r := range roots {
		walk(r)
	}
	if buf == nil {
		return nil, nil
	}
	isBuf := func(e ast.Expr) bool {
		e = ast.Unparen(e)
		if u, ok := e.(*ast.UnaryExpr); ok && u.Op == token.AND {
			e = ast.Unparen(u.X)
		}
		return c06Obj(f, e) == buf
	}
	var parts []ast.Expr
	for _, call := range calls(f.Body, false) {
		if sel, ok := ast.Unparen(call.Fun).(*ast.SelectorExpr); ok && isBuf(sel.X) {
			parts = append(parts, call.Args...)
			continue
		}
		if len(call.Args) >= 2 && isBuf(call.Args[0]) {
			parts = append(parts, call.Args[1:]...)
		}
	}
	return buf, parts
}

// c06Sign: the string to sign, i.e. what SigningContext.sign feeds into the HMAC whose value
// becomes SigningContext.Signature, contains the canonical request hash and the timestamp.
func c06Sign(c *core.Ctx) {
	const rule = "R-C06-4"
	f := c06SignerRole(c, "sign")
	canon := c06SignerRole(c, "canon")
	sigF := structField(c, c06sig, "SigningContext", "Signature")
	timeF := structField(c, c06sig, "SigningContext", "Time")
	secretF := structField(c, c06sig, "SigningContext", "AccessKeySecret")
	if f == nil || canon == nil || sigF == nil || timeF == nil || secretF == nil {
		return
	}
	canonObj, _ := c06FuncObj(canon).(*types.Func)
	cons := fname(c06sig, "SigningContext", "sign")
	defs := c06SingleDefs(f, f.Body)
	var roots []ast.Expr
	var at ast.Node = f.Body
	ast.Inspect(f.Body, func(n ast.Node) bool {
		if as, ok := n.(*ast.AssignStmt); ok && len(as.Lhs) == len(as.Rhs) {
			for i, l := range as.Lhs {
				if c06FieldSel(f, l) == sigF {
					roots = append(roots, as.Rhs[i])
					at = as
				}
			}
		}
		return true
	})
	if len(roots) == 0 {
		// the signature is returned instead of stored
		ast.Inspect(f.Body, func(n ast.Node) bool {
			switch x := n.(type) {
			case *ast.FuncLit:
				return false
			case *ast.ReturnStmt:
				for _, r := range x.Results {
					if tv, ok := f.Info.Types[r]; ok && tv.Type != nil && tv.Type.String() == "string" {
						roots = append(roots, r)
						at = x
					}
				}
			}
			return true
		})
	}
	if len(roots) == 0 {
		c.Errorf("%s: anchor: SigningContext.sign neither assigns SigningContext.Signature nor returns a string", rule)
		return
	}
	parts := c06ValueClosure(f, roots)
	hashed, timed := 0, 0
	for _, p := range parts {
		r := c06Resolve(f, defs, p)
		if canonObj != nil && c06MentionsCall(f, r, canonObj.FullName()) {
			hashed++
		}
		if c06MentionsField(f, r, timeF) {
			timed++
		}
	}
	c.Check(hashed > 0, rule, cons+"|signature covers the canonical request hash", pos(c, at),
		"the hash of the canonical request is written into the string to sign",
		"the hash of the canonical request is not part of the string that is signed: the signature covers neither method, path, query, headers nor body — any request with the same date and scope verifies")
	keyed := false
	seen := map[types.Object]bool{}
	var walk func(e ast.Node)
	walk = func(e ast.Node) {
		ast.Inspect(e, func(x ast.Node) bool {
			switch t := x.(type) {
			case *ast.Ident:
				if v, ok := f.Info.Uses[t].(*types.Var); ok && !seen[v] {
					seen[v] = true
					if d := defs[v]; d != nil {
						walk(d)
					}
				}
			case *ast.CallExpr:
				if fnObj, ok := f.Callee(t).(*types.Func); ok && fnObj.Pkg() == f.Pkg.Types {
					if g := c06FuncDeclOf(c, fnObj); g != nil && c06MentionsField(g, g.Body, secretF) {
						keyed = true
					}
				}
			default:
				if e, ok := x.(ast.Expr); ok && c06FieldSel(f, e) == secretF {
					keyed = true
				}
			}
			return true
		})
	}
	for _, r := range roots {
		walk(r)
	}
	c.Check(keyed, rule, cons+"|signature keyed with the access key secret", pos(c, at),
		"the HMAC key is derived from SigningContext.AccessKeySecret",
		"the value assigned to SigningContext.Signature does not depend on SigningContext.AccessKeySecret: anybody can compute a valid signature")
	c.Check(timed > 0, rule, cons+"|signature covers the timestamp", pos(c, at),
		"the request time is written into the string to sign",
		"the request time is not part of the string that is signed: the date presented by the client (which the TTL test trusts) is not bound by the signature")
}

// ---------------------------------------------------------------------------------------
// R-C06-4 (b): on verify the body hash never comes from a request header

func c06HeaderRead(f *flow.Func, n ast.Node) bool {
	found := false
	ast.Inspect(n, func(x ast.Node) bool {
		switch e := x.(type) {
		case *ast.CallExpr:
			switch calleeFull(f, e) {
			case "(net/http.Header).Get", "(net/http.Header).Values", "(net/textproto.MIMEHeader).Get", "(net/textproto.MIMEHeader).Values":
				found = true
			}
		case *ast.IndexExpr:
			if tv, ok := f.Info.Types[e.X]; ok && tv.Type != nil {
				switch tv.Type.String() {
				case "net/http.Header", "net/textproto.MIMEHeader":
					found = true
				}
			}
		}
		return !found
	})
	return found
}

func c06HashBody(c *core.Ctx) {
	const rule = "R-C06-4"
	f := c06SignerRole(c, "hashBody")
	v := fn(c, c06sig, "Signer", "Verify")
	bodyF := structField(c, c06sig, "SigningContext", "BodyHash")
	if f == nil || v == nil || bodyF == nil {
		return
	}
	cons := fname(c06sig, "SigningContext", "hashBody") + "|body hash not taken from a header on verify"
	// the verify flag: the only bool parameter
	var verify *ast.Ident
	verifyIdx, idx := -1, 0
	for _, fld := range f.Type.Params.List {
		for _, nm := range fld.Names {
			if b, ok := f.Info.Defs[nm].Type().Underlying().(*types.Basic); ok && b.Info()&types.IsBoolean != 0 {
				if verify != nil {
					c.Undecide(rule, cons, pos(c, f.Body), "hashBody has more than one bool parameter")
					return
				}
				verify, verifyIdx = nm, idx
			}
			idx++
		}
	}
	// Verify must compute the body hash in verify mode
	var hcalls []*ast.CallExpr
	if f != nil && v != nil {
		for _, rc := range callsToReach(v, 3, c06FullName(f)) {
			hcalls = append(hcalls, rc.Call)
		}
	}
	vcons := fname(c06sig, "Signer", "Verify") + "|body hash computed in verify mode"
	switch {
	case len(hcalls) == 0:
		c.Violate(rule, vcons, pos(c, v.Body), "Verify does not compute the hash of the body: the signature does not bind the body")
	case verify == nil:
		c.Discharge(rule, vcons, pos(c, hcalls[0]), "hashBody has no sign/verify mode")
	default:
		ok := true
		for _, hc := range hcalls {
			if verifyIdx >= len(hc.Args) {
				ok = false
				continue
			}
			if val, isConst := v.Info.Types[hc.Args[verifyIdx]]; !isConst || val.Value == nil || val.Value.ExactString() != "true" {
				ok = false
			}
		}
		c.Check(ok, rule, vcons, pos(c, hcalls[0]), "Verify calls hashBody(req, true)",
			"Verify computes the body hash in signing mode: the hash is taken from the X-Me-Content-Sha256 request header, so an attacker keeps a valid signature while replacing the body")
	}
	// the entry together with the same-package functions it delegates to (a shared tail,
	// a digest helper): searched as one and interpreted in place
	gs := reach(f, 3)
	defs := map[types.Object]ast.Expr{}
	for _, g := range gs {
		for o, d := range c06DefsOf(g) {
			defs[o] = d
		}
	}
	verifyKey := ""
	if verify != nil {
		verifyKey = f.VarKey(verify)
	}
	signing := func(st *flow.State) bool { return verifyKey != "" && st.Is(verifyKey, flow.False) }
	// locals that hold data read from the request body: assigned from a call one of whose
	// arguments mentions req.Body (io.ReadAll(req.Body), io.Copy(&b, req.Body) ...)
	reqBodyF := c06StdField(c, "net/http", "Request", "Body")
	excludeF := structField(c, c06sig, "Signer", "excludeBody")
	if reqBodyF == nil || excludeF == nil {
		return
	}
	fromBody := map[types.Object]bool{}
	readsBody := func(g *flow.Func, call *ast.CallExpr) bool {
		for _, a := range call.Args {
			if c06MentionsField(g, a, reqBodyF) {
				return true
			}
		}
		// a same-package helper handed the request whose results are computed from the bytes
		// it reads from the request's Body (`digest, e := bodyDigest(req)`)
		if fo, ok := g.Callee(call).(*types.Func); ok && fo.Pkg() == g.Pkg.Types {
			takesReq := false
			for _, a := range call.Args {
				if tv, ok := g.Info.Types[a]; ok && tv.Type != nil && tv.Type.String() == "*net/http.Request" {
					takesReq = true
				}
			}
			if h := c06FuncDeclOf(c, fo); takesReq && h != nil && h.Body != g.Body {
				return c06ReturnsBodyBytes(h, reqBodyF)
			}
		}
		return false
	}
	var excludeKeys, bodyNilKeys []string
	for _, g := range gs {
		g := g
		ast.Inspect(g.Body, func(x ast.Node) bool {
			switch t := x.(type) {
			case *ast.AssignStmt:
				if len(t.Rhs) == 1 {
					if call, ok := ast.Unparen(t.Rhs[0]).(*ast.CallExpr); ok && readsBody(g, call) {
						if o := c06Obj(g, t.Lhs[0]); o != nil {
							fromBody[o] = true
						}
					}
				}
			case *ast.CallExpr:
				if !readsBody(g, t) {
					return true
				}
				// destinations handed to the reading call: io.Copy(&buf, req.Body)
				for _, a := range t.Args {
					if c06MentionsField(g, a, reqBodyF) {
						continue
					}
					a = ast.Unparen(a)
					if u, ok := a.(*ast.UnaryExpr); ok && u.Op == token.AND {
						a = ast.Unparen(u.X)
					}
					if v, ok := c06Obj(g, a).(*types.Var); ok && !v.IsField() && v.Parent() != g.Pkg.Types.Scope() && !isParam(g, v) {
						fromBody[v] = true
					}
				}
			case *ast.SelectorExpr:
				switch c06FieldSel(g, t) {
				case excludeF:
					if k, neg := g.Atom(t); !neg {
						excludeKeys = append(excludeKeys, k)
					}
				case reqBodyF:
					bodyNilKeys = append(bodyNilKeys, g.NilKey(t))
				}
			}
			return true
		})
	}
	for changed := true; changed; {
		changed = false
		for o, d := range defs {
			if d != nil && !fromBody[o] && c06Mentions(f, d, fromBody) {
				fromBody[o] = true
				changed = true
			}
		}
	}
	res := analyze(c, f, flow.Config{NoHavoc: true, Inline: inlineSamePkg(f),
		OnNode: func(st *flow.State, node ast.Node) {
			c06TrackNonNil(f, st, node)
			as, ok := node.(*ast.AssignStmt)
			if !ok || len(as.Lhs) != len(as.Rhs) {
				return
			}
			for i, l := range as.Lhs {
				if c06FieldSel(f, l) != bodyF {
					continue
				}
				r := c06Resolve(f, defs, as.Rhs[i])
				kind := "other"
				if c06Mentions(f, r, fromBody) {
					kind = "frombody"
				} else if tv, ok := f.Info.Types[r]; ok && tv.Value != nil {
					kind = "const"
				}
				for _, k := range []string{"frombody", "const", "other"} {
					if k == kind {
						st.Set("ev:bh:"+k, flow.True)
					} else {
						st.Set("ev:bh:"+k, flow.Unknown)
					}
				}
			}
		},
	})
	if res == nil {
		return
	}
	// on verify, unless the body is excluded by configuration, the hash is computed from
	// the bytes read from the request body (or is the constant hash of "" when Body is nil)
	{
		vcons := fname(c06sig, "SigningContext", "hashBody") + "|on verify the body hash is computed from the body"
		var badEx *flow.Exit
		exits := 0
		for _, ex := range res.Exits {
			rs := c06Results(f, ex)
			if ex.Kind != flow.ExitReturn || len(rs) != 1 {
				continue
			}
			st := ex.State
			if c06ReturnedNilness(f, st, rs[0]) == flow.False || signing(st) {
				continue
			}
			if r := ex.Ret(); r != nil && r != ex.Return && len(r.Results) == 1 && c06ReturnedNilness(f, st, r.Results[0]) == flow.False {
				continue // `return helper(req)`: the helper's own return yields a non-nil error
			}
			exits++
			okExit := st.Is("ev:bh:frombody", flow.True)
			for _, k := range excludeKeys {
				if st.Is(k, flow.True) {
					okExit = true
				}
			}
			if st.Is("ev:bh:const", flow.True) {
				for _, k := range bodyNilKeys {
					if st.Is(k, flow.True) {
						okExit = true
					}
				}
			}
			if !okExit && badEx == nil {
				badEx = ex
			}
		}
		if badEx != nil {
			c.Violate(rule, vcons, pos(c, badEx.At), "while verifying (body not excluded) hashBody can succeed without BodyHash having been computed from the bytes of the request body: the signature does not bind the body", witness(badEx.State)...)
		} else if exits > 0 {
			c.Discharge(rule, vcons, pos(c, f.Body), sprintf("%d successful verify-mode exits: body excluded by configuration, Body nil with the constant empty hash, or hash of the bytes read from Body", exits))
		} else {
			c.Violate(rule, vcons, pos(c, f.Body), "hashBody has no successful exit in verify mode")
		}
	}
	n := 0
	var bad *flow.State
	var badAt ast.Node
	for node, sts := range res.At {
		as, ok := node.(*ast.AssignStmt)
		if !ok || len(as.Lhs) != len(as.Rhs) {
			continue
		}
		for i, l := range as.Lhs {
			if c06FieldSel(f, l) != bodyF || !c06HeaderRead(f, c06Resolve(f, defs, as.Rhs[i])) {
				continue
			}
			n++
			for _, st := range sts {
				if !signing(st) && bad == nil {
					bad, badAt = st, as
				}
			}
		}
	}
	if bad != nil {
		c.Violate(rule, cons, pos(c, badAt), "the body hash can be taken from a request header while verifying: an attacker re-uses the hash (and signature) of an old body with a new body", witness(bad)...)
	} else {
		c.Discharge(rule, cons, pos(c, f.Body), sprintf("%d header-sourced assignment(s) of BodyHash on the verification side, none reachable while verifying", n))
	}
}

// c06ReturnsBodyBytes reports whether a non-error result of h is computed from data read from
// the Body of a request (io.ReadAll(req.Body), io.Copy(&buf, req.Body) ...).
func c06ReturnsBodyBytes(h *flow.Func, reqBodyF *types.Var) bool {
	from := map[types.Object]bool{}
	reads := func(call *ast.CallExpr) bool {
		for _, a := range call.Args {
			if c06MentionsField(h, a, reqBodyF) {
				return true
			}
		}
		return false
	}
	ast.Inspect(h.Body, func(x ast.Node) bool {
		switch t := x.(type) {
		case *ast.AssignStmt:
			if len(t.Rhs) == 1 {
				if call, ok := ast.Unparen(t.Rhs[0]).(*ast.CallExpr); ok && reads(call) {
					if o := c06Obj(h, t.Lhs[0]); o != nil {
						from[o] = true
					}
				}
			}
		case *ast.CallExpr:
			if reads(t) {
				for _, a := range t.Args {
					if c06MentionsField(h, a, reqBodyF) {
						continue
					}
					a = ast.Unparen(a)
					if u, ok := a.(*ast.UnaryExpr); ok && u.Op == token.AND {
						a = ast.Unparen(u.X)
					}
					if v, ok := c06Obj(h, a).(*types.Var); ok && !v.IsField() && !isParam(h, v) {
						from[v] = true
					}
				}
			}
		}
		return true
	})
	if len(from) == 0 {
		return false
	}
	var rets []ast.Expr
	ast.Inspect(h.Body, func(x ast.Node) bool {
		switch t := x.(type) {
		case *ast.FuncLit:
			return false
		case *ast.ReturnStmt:
			for _, r := range t.Results {
				if tv, ok := h.Info.Types[r]; ok && tv.Type != nil && !isErrorTypeC06(tv.Type) && !tv.IsNil() && tv.Value == nil {
					rets = append(rets, r)
				}
			}
			if len(t.Results) == 0 && h.Type != nil && h.Type.Results != nil {
				for _, fld := range h.Type.Results.List {
					for _, nm := range fld.Names {
						if o := h.Info.Defs[nm]; o != nil && !isErrorTypeC06(o.Type()) {
							rets = append(rets, nm)
						}
					}
				}
			}
		}
		return true
	})
	for _, e := range c06ValueClosure(h, rets) {
		if c06Mentions(h, e, from) {
			return true
		}
	}
	return false
}

// ---------------------------------------------------------------------------------------
// R-C06-4 (c) and R-C06-6: acceptance conditions of Signer.Verify

type c06Atom struct {
	key  string
	want flow.Val // value of the key that means "equal" / "inside the window" / "enabled"
}

func c06Verify(c *core.Ctx) {
	f := fn(c, c06sig, "Signer", "Verify")
	if f == nil {
		return
	}
	cons := fname(c06sig, "Signer", "Verify")
	sigF := structField(c, c06sig, "SigningContext", "Signature")
	timeF := structField(c, c06sig, "SigningContext", "Time")
	expF := structField(c, c06sig, "SigningContext", "ExpireTime")
	preF, preConst := c06PresignField(c, expF)
	ttlF := structField(c, c06sig, "Signer", "ttl")
	secretF := structField(c, c06sig, "SigningContext", "AccessKeySecret")
	signFn := c06SignerRole(c, "sign")
	if sigF == nil || timeF == nil || expF == nil || preF == nil || ttlF == nil || secretF == nil || signFn == nil {
		return
	}
	// everything below looks at Verify together with the same-package functions it calls
	// (extracted helpers); objects are distinct per function, so one merged map of
	// single-definition locals serves all of them
	fns := reach(f, 3)
	defs := map[types.Object]ast.Expr{}
	for _, g := range fns {
		for o, d := range c06DefsOf(g) {
			defs[o] = d
		}
	}
	inspectAll := func(visit func(n ast.Node) bool) {
		for _, g := range fns {
			ast.Inspect(g.Body, visit)
		}
	}
	isField := func(e ast.Expr, fld *types.Var) bool { return c06FieldSel(f, ast.Unparen(e)) == fld }
	strip := func(e ast.Expr) ast.Expr { // conversions []byte(x), string(x)
		for {
			e = ast.Unparen(e)
			call, ok := e.(*ast.CallExpr)
			if !ok || len(call.Args) != 1 {
				return e
			}
			if tv, ok := f.Info.Types[call.Fun]; !ok || !tv.IsType() {
				return e
			}
			e = call.Args[0]
		}
	}
	// presented signature: a local saved from the Signature field; recomputed: the field itself
	savedStmt := map[types.Object]ast.Node{}
	savedObjs := map[types.Object]bool{}
	for o, d := range defs {
		if d != nil && isField(d, sigF) {
			savedObjs[o] = true
		}
	}
	// a parameter of a helper that is handed such a value at a call in the reach denotes the
	// same value (`if !ctx.signatureIs(req, claimed)`, `if ctx.expired(age)`), unless the helper
	// reassigns it
	aliasParams := func(objs map[types.Object]bool, direct func(e ast.Expr) bool) {
		for round := 0; round < 2; round++ {
			inspectAll(func(n ast.Node) bool {
				call, ok := n.(*ast.CallExpr)
				if !ok {
					return true
				}
				fo, ok := f.Callee(call).(*types.Func)
				if !ok || fo.Pkg() != f.Pkg.Types {
					return true
				}
				fd := declOf(f.Pkg, fo)
				if fd == nil || fd.Type.Params == nil {
					return true
				}
				idx := 0
				for _, fld := range fd.Type.Params.List {
					for _, nm := range fld.Names {
						if idx < len(call.Args) {
							ao := c06Obj(f, strip(call.Args[idx]))
							if (ao != nil && objs[ao]) || (direct != nil && direct(call.Args[idx])) {
								if po := f.Info.Defs[nm]; po != nil {
									if _, assigned := defs[po]; !assigned {
										objs[po] = true
									}
								}
							}
						}
						idx++
					}
				}
				return true
			})
		}
	}
	aliasParams(savedObjs, nil)
	isSaved := func(e ast.Expr) bool {
		o := c06Obj(f, strip(e))
		return o != nil && savedObjs[o]
	}
	inspectAll(func(n ast.Node) bool {
		switch s := n.(type) {
		case *ast.AssignStmt:
			if len(s.Lhs) == len(s.Rhs) {
				for i, l := range s.Lhs {
					if o := c06Obj(f, l); o != nil && isSaved(l) && isField(s.Rhs[i], sigF) {
						savedStmt[o] = s
					}
				}
			}
		case *ast.ValueSpec:
			for i, nm := range s.Names {
				if i < len(s.Values) && isSaved(nm) {
					savedStmt[c06Obj(f, nm)] = s
				}
			}
		}
		return true
	})
	signObj := c06FuncObj(signFn)
	isSignCall := func(e ast.Expr) bool {
		call, ok := ast.Unparen(e).(*ast.CallExpr)
		return ok && signObj != nil && f.Callee(call) == signObj
	}
	// the recomputed signature: the Signature field (after sign), the result of sign, or a
	// local holding that result
	isSigField := func(e ast.Expr) bool {
		e = strip(e)
		if isField(e, sigF) || isSignCall(e) {
			return true
		}
		if o := c06Obj(f, e); o != nil {
			if d := defs[o]; d != nil && isSignCall(d) {
				return true
			}
		}
		return false
	}

	// the presented signature: a local saved from the Signature field before sign ran — or,
	// when sign returns the signature and nothing in the reach stores that result back into
	// the field, the field itself (`ctx.Signature == ctx.computeSignature(req)`)
	fieldStaysPresented := true
	for _, g := range reach(signFn, 2) {
		ast.Inspect(g.Body, func(n ast.Node) bool {
			if as, ok := n.(*ast.AssignStmt); ok {
				for _, l := range as.Lhs {
					if c06FieldSel(g, l) == sigF {
						fieldStaysPresented = false // sign stores the signature itself
					}
				}
			}
			return true
		})
	}
	inspectAll(func(n ast.Node) bool {
		if as, ok := n.(*ast.AssignStmt); ok && len(as.Lhs) == len(as.Rhs) {
			for i, l := range as.Lhs {
				if c06FieldSel(f, l) == sigF && isSignCall(as.Rhs[i]) {
					fieldStaysPresented = false
				}
			}
		}
		return true
	})
	isPresented := func(e ast.Expr) bool {
		return isSaved(e) || (fieldStaysPresented && isField(strip(e), sigF))
	}
	isRecomputed := func(e ast.Expr) bool {
		if fieldStaysPresented {
			e = strip(e)
			if isSignCall(e) {
				return true
			}
			if o := c06Obj(f, e); o != nil {
				if d := defs[o]; d != nil && isSignCall(d) {
					return true
				}
			}
			return false
		}
		return isSigField(e)
	}
	// ---- atoms
	var eqAtoms, upper, lower, expire, enabled []c06Atom
	var presignKeys, otherKeys []string
	var notPresign []c06Atom // key/value pairs that establish "not presigned"
	var ageObjs = map[types.Object]bool{}
	// the age of the signature: now.Sub(ctx.Time) / time.Since(ctx.Time)
	isAgeExpr := func(e ast.Expr) bool {
		call, ok := ast.Unparen(e).(*ast.CallExpr)
		if !ok || len(call.Args) != 1 || !isField(call.Args[0], timeF) {
			return false
		}
		switch calleeFull(f, call) {
		case "(time.Time).Sub":
			sel, ok := ast.Unparen(call.Fun).(*ast.SelectorExpr)
			return ok && !c06MentionsField(f, sel.X, timeF)
		case "time.Since":
			return true
		}
		return false
	}
	for o, d := range defs {
		if d != nil && isAgeExpr(d) {
			ageObjs[o] = true
		}
	}
	aliasParams(ageObjs, isAgeExpr)
	isAge := func(e ast.Expr) bool { return ageObjs[c06Obj(f, ast.Unparen(e))] }
	// bound classifies e as +ttl (1), -ttl (-1), expire time (2) or 0
	bound := func(e ast.Expr) int {
		e = ast.Unparen(e)
		if u, ok := e.(*ast.UnaryExpr); ok && u.Op == token.SUB {
			if isField(c06Resolve(f, defs, u.X), ttlF) {
				return -1
			}
			return 0
		}
		r := c06Resolve(f, defs, e)
		if u, ok := ast.Unparen(r).(*ast.UnaryExpr); ok && u.Op == token.SUB && isField(u.X, ttlF) {
			return -1
		}
		switch {
		case isField(r, ttlF):
			return 1
		case isField(r, expF):
			return 2
		}
		return 0
	}
	val := func(b bool) flow.Val {
		if b {
			return flow.True
		}
		return flow.False
	}
	inspectAll(func(n ast.Node) bool {
		switch x := n.(type) {
		case *ast.SelectorExpr:
			if c06FieldSel(f, x) == preF && preConst == "" {
				k, neg := f.Atom(x)
				if !neg {
					presignKeys = append(presignKeys, k)
					notPresign = append(notPresign, c06Atom{k, flow.False})
				}
			}
		case *ast.CallExpr:
			// hmac.Equal / bytes.Equal / subtle.ConstantTimeCompare(presented, recomputed)
			switch calleeFull(f, x) {
			case "crypto/hmac.Equal", "bytes.Equal":
				if len(x.Args) == 2 && ((isPresented(x.Args[0]) && isRecomputed(x.Args[1])) || (isPresented(x.Args[1]) && isRecomputed(x.Args[0]))) {
					eqAtoms = append(eqAtoms, c06Atom{f.CallKey(x), flow.True})
				}
			}
		case *ast.BinaryExpr:
			switch x.Op {
			case token.EQL, token.NEQ:
				// the presign indicator as an enum: location == inQuery
				if preConst != "" {
					for _, pair := range [][2]ast.Expr{{x.X, x.Y}, {x.Y, x.X}} {
						if c06FieldSel(f, ast.Unparen(pair[0])) != preF {
							continue
						}
						if tv, ok := f.Info.Types[pair[1]]; ok && tv.Value != nil {
							k := f.EqKey(x.X, x.Y)
							if tv.Value.ExactString() == preConst {
								presignKeys = append(presignKeys, k)
								notPresign = append(notPresign, c06Atom{k, flow.False})
							} else {
								// equal to another constant of the enumeration: not presigned
								otherKeys = append(otherKeys, k)
								notPresign = append(notPresign, c06Atom{k, flow.True})
							}
						}
					}
				}
				if (isPresented(x.X) && isRecomputed(x.Y)) || (isPresented(x.Y) && isRecomputed(x.X)) {
					eqAtoms = append(eqAtoms, c06Atom{f.EqKey(x.X, x.Y), flow.True})
				}
				// subtle.ConstantTimeCompare(a, b) == 1
				for _, pair := range [][2]ast.Expr{{x.X, x.Y}, {x.Y, x.X}} {
					call, ok := ast.Unparen(pair[0]).(*ast.CallExpr)
					if !ok || calleeFull(f, call) != "crypto/subtle.ConstantTimeCompare" || len(call.Args) != 2 {
						continue
					}
					if v, ok := c06ConstInt(f, pair[1]); !ok || v != "1" {
						continue
					}
					if (isPresented(call.Args[0]) && isRecomputed(call.Args[1])) || (isPresented(call.Args[1]) && isRecomputed(call.Args[0])) {
						eqAtoms = append(eqAtoms, c06Atom{f.EqKey(x.X, x.Y), flow.True})
					}
				}
				// ttl == 0 / ttl != 0
				for _, pair := range [][2]ast.Expr{{x.X, x.Y}, {x.Y, x.X}} {
					if isField(c06Resolve(f, defs, pair[0]), ttlF) {
						if v, ok := c06ConstInt(f, pair[1]); ok && v == "0" {
							enabled = append(enabled, c06Atom{f.EqKey(x.X, x.Y), flow.False})
						}
					}
				}
			case token.LSS, token.GTR, token.LEQ, token.GEQ:
				key, neg := f.Atom(x)
				// normalise to  L op R  with op in {<, <=}:  small ≤ large
				small, large := x.X, x.Y
				if x.Op == token.GTR || x.Op == token.GEQ {
					small, large = x.Y, x.X
				}
				// expression true means small < large
				exprTrue := val(!neg) // value of key when the expression is true
				exprFalse := val(neg)
				switch {
				case isAge(large) && bound(small) == 1: // ttl < age : outside (too old) when true
					upper = append(upper, c06Atom{key, exprFalse})
				case isAge(small) && bound(large) == 1: // age < ttl : inside when true
					upper = append(upper, c06Atom{key, exprTrue})
				case isAge(small) && bound(large) == -1: // age < -ttl : outside (future) when true
					lower = append(lower, c06Atom{key, exprFalse})
				case isAge(large) && bound(small) == -1: // -ttl < age : inside when true
					lower = append(lower, c06Atom{key, exprTrue})
				case isAge(large) && bound(small) == 2: // expire < age : expired when true
					expire = append(expire, c06Atom{key, exprFalse})
				case isAge(small) && bound(large) == 2: // age < expire : inside when true
					expire = append(expire, c06Atom{key, exprTrue})
				default:
					// ttl compared with 0
					if v, ok := c06ConstInt(f, small); ok && v == "0" && isField(c06Resolve(f, defs, large), ttlF) { // 0 < ttl
						enabled = append(enabled, c06Atom{key, exprTrue})
					}
					if v, ok := c06ConstInt(f, large); ok && v == "0" && isField(c06Resolve(f, defs, small), ttlF) { // ttl < 0 / ttl <= 0
						if x.Op == token.LEQ || x.Op == token.GEQ {
							enabled = append(enabled, c06Atom{key, exprFalse})
						}
					}
				}
			}
		}
		return true
	})

	var signCalls []*ast.CallExpr
	for _, rc := range callsToReach(f, 3, c06FullName(signFn)) {
		signCalls = append(signCalls, rc.Call)
	}
	// the secret of the access key: secret, ok := store.GetSecret(id); ctx.AccessKeySecret = secret
	secretObjs := map[types.Object]bool{}
	var okKeys []string
	lookups := 0
	inspectAll(func(n ast.Node) bool {
		as, ok := n.(*ast.AssignStmt)
		if !ok || len(as.Rhs) != 1 || len(as.Lhs) != 2 {
			return true
		}
		call, ok := ast.Unparen(as.Rhs[0]).(*ast.CallExpr)
		if !ok || !ifaceMethodCall(f, call, c06sig, "AccessKeyStore", "GetSecret") {
			return true
		}
		lookups++
		if o := c06Obj(f, as.Lhs[0]); o != nil {
			secretObjs[o] = true
		}
		if id, ok := as.Lhs[1].(*ast.Ident); ok && id.Name != "_" {
			okKeys = append(okKeys, f.VarKey(id))
		}
		return true
	})
	// interpret in place the helpers that hold one of the constructs above (or lead to one);
	// everything else stays an opaque call as before
	interesting := map[*ast.BlockStmt]bool{}
	mark := func(n ast.Node) {
		for _, g := range fns {
			if contains(g.Body, n) {
				interesting[g.Body] = true
			}
		}
	}
	inspectAll(func(n ast.Node) bool {
		switch x := n.(type) {
		case *ast.BinaryExpr:
			switch x.Op {
			case token.EQL, token.NEQ, token.LSS, token.GTR, token.LEQ, token.GEQ:
				k1 := f.EqKey(x.X, x.Y)
				k2, _ := f.Atom(x)
				for _, lst := range [][]c06Atom{eqAtoms, upper, lower, expire, enabled, notPresign} {
					for _, a := range lst {
						if a.key == k1 || a.key == k2 {
							mark(x)
						}
					}
				}
			}
		case *ast.CallExpr:
			for _, sc := range signCalls {
				if sc == x {
					mark(x)
				}
			}
			for _, a := range eqAtoms {
				if a.key == f.CallKey(x) {
					mark(x)
				}
			}
			if ifaceMethodCall(f, x, c06sig, "AccessKeyStore", "GetSecret") {
				mark(x)
			}
		case *ast.AssignStmt:
			for _, l := range x.Lhs {
				if c06FieldSel(f, l) == secretF {
					mark(x)
				}
			}
			for _, st := range savedStmt {
				if st == n {
					mark(x)
				}
			}
		}
		return true
	})
	for changed := true; changed; {
		changed = false
		for _, g := range fns {
			if interesting[g.Body] {
				continue
			}
			for _, call := range calls(g.Body, true) {
				if fo, ok := f.Callee(call).(*types.Func); ok && fo.Pkg() == f.Pkg.Types {
					if fd := declOf(f.Pkg, fo); fd != nil && interesting[fd.Body] {
						interesting[g.Body] = true
						changed = true
					}
				}
			}
		}
	}
	var opaque []types.Object
	for _, g := range fns {
		if !interesting[g.Body] || g.Body == signFn.Body {
			if o := c06FuncObj(g); o != nil {
				opaque = append(opaque, o)
			}
		}
	}
	isOpaque := map[types.Object]bool{}
	for _, o := range opaque {
		isOpaque[o] = true
	}
	writes := map[types.Object][]string{}
	writesOf := func(fo *types.Func) []string {
		if w, ok := writes[fo]; ok {
			return w
		}
		var out []string
		if fd := declOf(f.Pkg, fo); fd != nil {
			for _, g := range reach(c06FuncOfDecl(f.Pkg, fd), 3) {
				ast.Inspect(g.Body, func(n ast.Node) bool {
					switch x := n.(type) {
					case *ast.AssignStmt:
						for _, l := range x.Lhs {
							if fld := c06FieldSel(g, l); fld != nil {
								out = append(out, fld.Name())
							}
						}
					case *ast.IncDecStmt:
						if fld := c06FieldSel(g, x.X); fld != nil {
							out = append(out, fld.Name())
						}
					}
					return true
				})
			}
		}
		writes[fo] = out
		return out
	}
	feas := c06NewFeasible(f)
	// The decided atoms are mirrored into event facts ("ev:atom:<key>"): the engine may drop the
	// caller's facts when a second state enters a helper interpreted in place (the parameter is
	// merged into the dependencies of the caller-named key on the first exit and killed on the
	// next entry). The mirror is cleared by hand whenever a local or field it mentions is assigned.
	var atomKeys []string
	for _, lst := range [][]c06Atom{eqAtoms, upper, lower, expire, enabled} {
		for _, a := range lst {
			atomKeys = append(atomKeys, a.key)
		}
	}
	atomKeys = append(atomKeys, presignKeys...)
	atomKeys = append(atomKeys, otherKeys...)
	atomKeys = append(atomKeys, okKeys...)
	ev := func(k string) string { return "ev:atom:" + k }
	mirror := func(st *flow.State) {
		for _, k := range atomKeys {
			if v := st.Get(k); v != flow.Unknown {
				st.Set(ev(k), v)
			}
		}
	}
	forget := func(st *flow.State, token string) {
		for _, k := range atomKeys {
			if strings.Contains(k, token) {
				st.Set(ev(k), flow.Unknown)
			}
		}
	}
	// the secret handed on by a lookup helper: `secret, e := signer.lookupSecret(id)` where the
	// helper returns the store's value at that result position on all its non-error returns
	for round := 0; round < 2; round++ {
		inspectAll(func(n ast.Node) bool {
			as, ok := n.(*ast.AssignStmt)
			if !ok || len(as.Rhs) != 1 {
				return true
			}
			call, ok := ast.Unparen(as.Rhs[0]).(*ast.CallExpr)
			if !ok {
				return true
			}
			fo, ok := f.Callee(call).(*types.Func)
			if !ok || fo.Pkg() != f.Pkg.Types {
				return true
			}
			fd := declOf(f.Pkg, fo)
			if fd == nil {
				return true
			}
			for i, l := range as.Lhs {
				carries, n := true, 0
				ast.Inspect(fd.Body, func(y ast.Node) bool {
					switch r := y.(type) {
					case *ast.FuncLit:
						return false
					case *ast.ReturnStmt:
						if i >= len(r.Results) {
							carries = false
							return true
						}
						if tv, ok := f.Info.Types[r.Results[i]]; ok && tv.Value != nil {
							return true // constant ("" on the error path)
						}
						n++
						if !secretObjs[c06Obj(f, r.Results[i])] {
							carries = false
						}
					}
					return true
				})
				if carries && n > 0 {
					if o := c06Obj(f, l); o != nil {
						secretObjs[o] = true
					}
				}
			}
			return true
		})
	}
	res := analyze(c, f, flow.Config{
		NoHavoc: true,
		Inline:  inlineSamePkg(f, opaque...),
		AfterAssume: func(st *flow.State, cond ast.Expr, outcome bool) {
			feas.afterAssume(st)
			mirror(st)
		},
		OnCall: func(st *flow.State, call *ast.CallExpr, callee types.Object, deferred bool) {
			// NoHavoc keeps facts about ctx's fields across calls; a same-package callee that
			// stays opaque may assign them (initFromSignedRequest sets isPresign, ExpireTime,
			// Time — and the engine now learns `isPresign == false` from the composite literal
			// that creates ctx): forget what such a callee may write
			if fo, ok := callee.(*types.Func); ok && fo.Pkg() == f.Pkg.Types && isOpaque[fo] {
				for _, name := range writesOf(fo) {
					for _, k := range atomKeys {
						if strings.Contains(k, "."+name) {
							st.Set(k, flow.Unknown)
							st.Set(ev(k), flow.Unknown)
						}
					}
				}
			}
			for _, sc := range signCalls {
				if sc == call {
					if !st.Is("ev:secret", flow.True) {
						st.Set("ev:signednosecret", flow.True)
					}
					st.Set("ev:signed", flow.True)
					// the recomputation overwrites SigningContext.Signature: earlier comparisons are void
					for _, a := range eqAtoms {
						st.Set(a.key, flow.Unknown)
						st.Set(ev(a.key), flow.Unknown)
					}
				}
			}
		},
		OnNode: func(st *flow.State, n ast.Node) {
			feas.onNode(st, n)
			c06TrackNonNil(f, st, n)
			mirror(st)
			var lhs []ast.Expr
			switch a := n.(type) {
			case *ast.AssignStmt:
				lhs = a.Lhs
			case *ast.IncDecStmt:
				lhs = []ast.Expr{a.X}
			case *ast.ValueSpec:
				for _, nm := range a.Names {
					lhs = append(lhs, nm)
				}
			}
			for _, l := range lhs {
				if fld := c06FieldSel(f, l); fld != nil {
					forget(st, "."+fld.Name())
				} else if id, ok := ast.Unparen(l).(*ast.Ident); ok && id.Name != "_" {
					forget(st, f.Render(id))
				}
			}
			for _, s := range savedStmt {
				if s == n && st.Is("ev:signed", flow.True) {
					st.Set("ev:savedlate", flow.True)
				}
			}
			if as, ok := n.(*ast.AssignStmt); ok && len(as.Lhs) == len(as.Rhs) {
				for i, l := range as.Lhs {
					if c06FieldSel(f, l) == secretF {
						if secretObjs[c06Obj(f, c06Resolve(f, defs, as.Rhs[i]))] {
							st.Set("ev:secret", flow.True)
						} else {
							st.Set("ev:secret", flow.False)
						}
					}
				}
			}
		},
	})
	if res == nil {
		return
	}
	holds := func(st *flow.State, atoms []c06Atom) bool {
		for _, a := range atoms {
			if st.Get(ev(a.key)) == a.want {
				return true
			}
		}
		return false
	}
	ttlOff := func(st *flow.State) bool {
		for _, a := range enabled {
			v := st.Get(ev(a.key))
			if v != flow.Unknown && v != a.want {
				return true
			}
		}
		return false
	}
	notPresigned := func(st *flow.State) bool {
		for _, a := range notPresign {
			if st.Get(ev(a.key)) == a.want {
				return true
			}
		}
		return false
	}
	type verdict struct {
		bad *flow.Exit
		why string
	}
	var eqV, ttlV, expV, keyV verdict
	accepts := 0
	for _, ex := range res.Exits {
		if ex.Kind != flow.ExitReturn || feas.infeasible(ex.State) {
			continue
		}
		rs := c06Results(f, ex)
		if len(rs) != 1 {
			c.Undecide("R-C06-4", cons+"|accept only on signature equality", pos(c, ex.At), "a return of Verify without an explicit result")
			return
		}
		st := ex.State
		result := rs[0]
		if c06ReturnedNilness(f, st, result) == flow.False {
			continue
		}
		if r := ex.Ret(); r != ex.Return && r != nil && len(r.Results) == 1 && c06ReturnedNilness(f, st, r.Results[0]) == flow.False {
			continue // `return helper(..)`: the helper's own return yields a non-nil error
		}
		accepts++
		if eqV.bad == nil {
			switch {
			case len(eqAtoms) == 0:
				eqV = verdict{ex, "Verify never compares the signature presented by the request with the recomputed SigningContext.Signature: any signature is accepted"}
			case !st.Is("ev:signed", flow.True):
				eqV = verdict{ex, "Verify can accept without recomputing the signature (SigningContext.sign not called on the path)"}
			case st.Is("ev:savedlate", flow.True):
				eqV = verdict{ex, "the presented signature is saved only after sign() has overwritten it: the comparison is recomputed == recomputed and any signature is accepted"}
			case !holds(st, eqAtoms):
				eqV = verdict{ex, "Verify can accept on a path where presented signature == recomputed signature has not been established after sign(): a request with a wrong signature (tampered method, path, query, header or body) is admitted"}
			}
		}
		if keyV.bad == nil {
			okKnown := false
			for _, k := range okKeys {
				if st.Is(ev(k), flow.True) {
					okKnown = true
				}
			}
			switch {
			case lookups == 0:
				keyV = verdict{ex, "Verify never asks the access key store for the secret of the presented access key id"}
			case !okKnown:
				keyV = verdict{ex, "Verify can accept although the access key store did not confirm the access key id (ok result not established true): unknown keys verify against the empty secret"}
			case !st.Is("ev:secret", flow.True) || st.Is("ev:signednosecret", flow.True):
				keyV = verdict{ex, "Verify recomputes the signature before (or without) SigningContext.AccessKeySecret having been set to the secret returned by the access key store"}
			}
		}
		if ttlV.bad == nil && !ttlOff(st) {
			switch {
			case !holds(st, upper):
				ttlV = verdict{ex, "Verify can accept although age <= ttl has not been established (ttl enabled): signatures older than the TTL stay valid and can be replayed"}
			case !holds(st, lower):
				ttlV = verdict{ex, "Verify can accept although age >= -ttl has not been established (ttl enabled): a signature dated in the future is valid for an unbounded time"}
			}
		}
		if expV.bad == nil && !notPresigned(st) && !holds(st, expire) {
			expV = verdict{ex, "Verify can accept a presigned request although age <= X-Me-Expires has not been established: presigned URLs never expire"}
		}
	}
	if !c.RequireCount("R-C06-4", "accepting exits of Signer.Verify", accepts, 1) {
		return
	}
	if len(ageObjs) == 0 {
		c.Undecide("R-C06-6", cons+"|TTL window", pos(c, f.Body), "cannot identify the age of the signature (time.Now().Sub(ctx.Time) / time.Since(ctx.Time) assigned to a local)")
	} else {
		if ttlV.bad != nil {
			c.Violate("R-C06-6", cons+"|TTL window", pos(c, ttlV.bad.At), ttlV.why, witness(ttlV.bad.State)...)
		} else {
			c.Discharge("R-C06-6", cons+"|TTL window", pos(c, f.Body), sprintf("%d accepting exits: ttl disabled or -ttl <= age <= ttl", accepts))
		}
		if expV.bad != nil {
			c.Violate("R-C06-6", cons+"|presign expiry", pos(c, expV.bad.At), expV.why, witness(expV.bad.State)...)
		} else {
			c.Discharge("R-C06-6", cons+"|presign expiry", pos(c, f.Body), sprintf("%d accepting exits: not presigned or age <= expire time", accepts))
		}
	}
	if keyV.bad != nil {
		c.Violate("R-C06-4", cons+"|keyed with the secret of a known access key", pos(c, keyV.bad.At), keyV.why, witness(keyV.bad.State)...)
	} else {
		c.Discharge("R-C06-4", cons+"|keyed with the secret of a known access key", pos(c, f.Body), sprintf("%d accepting exits: GetSecret ok, AccessKeySecret set before sign()", accepts))
	}
	if eqV.bad != nil {
		c.Violate("R-C06-4", cons+"|accept only on signature equality", pos(c, eqV.bad.At), eqV.why, witness(eqV.bad.State)...)
	} else {
		c.Discharge("R-C06-4", cons+"|accept only on signature equality", pos(c, f.Body), sprintf("%d accepting exits: sign() called, presented == recomputed", accepts))
	}
}
