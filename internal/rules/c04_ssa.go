package rules

// SSA half of C04: value flow of returned servers (R-C04-2), who-may-write of the balancer
// fields and of ServerPool's atomic.Value (R-C04-3), the round-robin counter discipline and
// index derivation (R-C04-4), effect analysis of the hash policies (R-C04-5).

import (
	"go/constant"
	"go/token"
	"go/types"
	"sort"
	"strings"

	"golang.org/x/tools/go/ssa"
	"golang.org/x/tools/go/ssa/ssautil"

	"verif/internal/core"
	"verif/internal/load"
)

type c04Access struct {
	fn   *ssa.Function
	ins  ssa.Instruction
	what string
}

type c04Scan struct {
	c        *core.Ctx
	info     *c04Info
	tracked  map[*types.Var]bool
	lists    map[*types.Var]bool
	structs  map[types.Type]bool // implementation structs and embedded base structs
	parts    map[*types.Var]bool // fields holding the common part (embedded or named struct field)
	fresh    map[*types.Var][]c04Access
	writes   map[*types.Var][]c04Access // stores into objects that are not freshly allocated
	reads    map[*types.Var][]c04Access
	atomics  map[*types.Var][]c04Access // address handed to a sync/atomic function as operand 0
	escapes  map[*types.Var][]c04Access // any other use of the field's address
	listBad  []c04Access                // element stores / escaping uses of a list value
	listUses int
	whole    []c04Access // whole-struct overwrites of a published balancer
	mutGlob  map[*ssa.Global]c04Access
	cnt      *types.Var // round-robin counter (nil if unresolved)
	// value-flow context of the current ChooseServer: parameters of same-module helpers that are
	// bound to the receiver / to the receiver's list at the calls being followed
	holderOuter []*types.Var // fields of ServerPool that contain the slot holding the atomic.Value
	recvParams  map[*ssa.Parameter]bool
	listParams  map[*ssa.Parameter]bool
	elemParams  map[*ssa.Parameter]bool
}

func c04Deref(t types.Type) types.Type {
	if p, ok := t.Underlying().(*types.Pointer); ok {
		return p.Elem()
	}
	return t
}

func c04FieldOf(t types.Type, i int) *types.Var {
	st, ok := c04Deref(t).Underlying().(*types.Struct)
	if !ok || i >= st.NumFields() {
		return nil
	}
	return st.Field(i)
}

// c04Root follows field/index address computations to the object they are based on.
func c04Root(v ssa.Value) ssa.Value {
	for i := 0; i < 16; i++ {
		switch x := v.(type) {
		case *ssa.FieldAddr:
			v = x.X
		case *ssa.IndexAddr:
			v = x.X
		case *ssa.Field:
			v = x.X
		default:
			return v
		}
	}
	return v
}

// c04Fresh: the address is based on an object allocated in this function (directly, or through
// the cell a closure-captured local pointer was spilled to).
func c04Fresh(v ssa.Value) bool {
	r := c04Root(v)
	if _, ok := r.(*ssa.Alloc); ok {
		return true
	}
	u, ok := r.(*ssa.UnOp)
	if !ok || u.Op != token.MUL {
		return false
	}
	cell := c04Cell(u.X)
	if cell == nil || cell.Referrers() == nil {
		return false
	}
	stores := 0
	for _, ref := range *cell.Referrers() {
		if st, ok := ref.(*ssa.Store); ok && st.Addr == ssa.Value(cell) {
			stores++
			if _, isAlloc := st.Val.(*ssa.Alloc); !isAlloc {
				return false
			}
		}
	}
	return stores == 1
}

// c04Cell resolves the cell of a closure-captured variable: the Alloc itself, or for a free
// variable of a function literal the Alloc bound by the (single) MakeClosure in its parent.
func c04Cell(v ssa.Value) *ssa.Alloc {
	for depth := 0; depth < 4; depth++ {
		switch x := v.(type) {
		case *ssa.Alloc:
			return x
		case *ssa.FreeVar:
			fn := x.Parent()
			par := fn.Parent()
			if par == nil {
				return nil
			}
			idx := -1
			for i, fv := range fn.FreeVars {
				if fv == x {
					idx = i
				}
			}
			var bound ssa.Value
			n := 0
			for _, b := range par.Blocks {
				for _, ins := range b.Instrs {
					if mc, ok := ins.(*ssa.MakeClosure); ok && mc.Fn == ssa.Value(fn) && idx >= 0 && idx < len(mc.Bindings) {
						bound = mc.Bindings[idx]
						n++
					}
				}
			}
			if n != 1 {
				return nil
			}
			v = bound
		default:
			return nil
		}
	}
	return nil
}

func c04CalleePkg(cc *ssa.CallCommon) (pkg, name string) {
	if cc.IsInvoke() {
		if cc.Method != nil && cc.Method.Pkg() != nil {
			return cc.Method.Pkg().Path(), cc.Method.Name()
		}
		return "", ""
	}
	if b, ok := cc.Value.(*ssa.Builtin); ok {
		return "builtin", b.Name()
	}
	if f := cc.StaticCallee(); f != nil {
		if o := f.Object(); o != nil && o.Pkg() != nil {
			return o.Pkg().Path(), o.Name()
		}
		if f.Pkg != nil {
			return f.Pkg.Pkg.Path(), f.Name()
		}
	}
	return "", ""
}

// c04FnName renders an SSA function as a construct name.
func c04FnName(fn *ssa.Function) string {
	lit := ""
	for fn.Parent() != nil {
		fn = fn.Parent()
		lit = "$lit"
	}
	if o, ok := fn.Object().(*types.Func); ok && o.Pkg() != nil {
		recv := ""
		if r := o.Type().(*types.Signature).Recv(); r != nil {
			if n, ok := c04Deref(r.Type()).(*types.Named); ok {
				recv = n.Obj().Name()
			}
		}
		return fname(relPkg(o.Pkg().Path()), recv, o.Name()) + lit
	}
	return fn.String() + lit
}

func (s *c04Scan) posOf(a c04Access) string {
	p := a.ins.Pos()
	if !p.IsValid() {
		p = a.fn.Pos()
	}
	return s.c.Prog.Rel(p)
}

func c04ModuleFuncs(prog *ssa.Program) []*ssa.Function {
	var out []*ssa.Function
	for fn := range ssautil.AllFunctions(prog) {
		if fn.Pkg == nil || fn.Blocks == nil {
			continue
		}
		if !strings.HasPrefix(fn.Pkg.Pkg.Path(), load.ModulePath) {
			continue
		}
		out = append(out, fn)
	}
	sort.Slice(out, func(i, j int) bool {
		if out[i].Pos() != out[j].Pos() {
			return out[i].Pos() < out[j].Pos()
		}
		return out[i].String() < out[j].String()
	})
	return out
}

func c04SSA(c *core.Ctx, info *c04Info) {
	prog, _ := c.Prog.SSA()
	s := &c04Scan{c: c, info: info, tracked: map[*types.Var]bool{}, lists: map[*types.Var]bool{}, structs: map[types.Type]bool{}, parts: map[*types.Var]bool{},
		fresh: map[*types.Var][]c04Access{}, writes: map[*types.Var][]c04Access{}, reads: map[*types.Var][]c04Access{},
		atomics: map[*types.Var][]c04Access{}, escapes: map[*types.Var][]c04Access{}, mutGlob: map[*ssa.Global]c04Access{}}
	for _, im := range info.impls {
		s.structs[im.named] = true
		for _, f := range im.fields {
			s.tracked[f] = true
			if _, isStruct := c04Deref(f.Type()).Underlying().(*types.Struct); isStruct && (f.Embedded() || c04HasList(c04Deref(f.Type()), info.listType, 0)) {
				s.structs[c04Deref(f.Type())] = true
				s.parts[f] = true
			}
		}
		s.lists[im.list] = true
	}
	// ServerPool's atomic.Value (possibly inside a slot struct of its own)
	hpath := c04HolderPath(c)
	var holder *types.Var
	if len(hpath) > 0 {
		holder = hpath[len(hpath)-1]
		for _, outer := range hpath[:len(hpath)-1] {
			s.tracked[outer] = true
			s.parts[outer] = true
			s.holderOuter = append(s.holderOuter, outer)
		}
	}
	if holder != nil {
		s.tracked[holder] = true
	}

	fns := c04ModuleFuncs(prog)
	c.Count("ssa_functions_scanned", len(fns))
	for _, fn := range fns {
		for _, b := range fn.Blocks {
			for _, ins := range b.Instrs {
				switch x := ins.(type) {
				case *ssa.FieldAddr:
					if fld := c04FieldOf(x.X.Type(), x.Field); fld != nil && s.tracked[fld] {
						s.classify(fn, x, fld)
					}
				case *ssa.Field:
					if fld := c04FieldOf(x.X.Type(), x.Field); fld != nil && s.tracked[fld] {
						s.reads[fld] = append(s.reads[fld], c04Access{fn, x, "read"})
						if s.lists[fld] {
							s.listValue(fn, x, map[ssa.Value]bool{})
						}
					}
				case *ssa.Store:
					if g, ok := x.Addr.(*ssa.Global); ok && fn.Synthetic == "" {
						if _, seen := s.mutGlob[g]; !seen {
							s.mutGlob[g] = c04Access{fn, x, "store"}
						}
					}
					if _, isFA := x.Addr.(*ssa.FieldAddr); !isFA {
						if s.structs[c04Deref(x.Addr.Type())] && !c04Fresh(x.Addr) {
							s.whole = append(s.whole, c04Access{fn, x, "whole-struct store"})
						}
					}
				}
			}
		}
	}

	s.cnt = s.resolveCounter()
	s.reportImmutability()
	s.reportHolder(holder)
	s.roundRobin(prog)
	s.elements(prog)
	s.purity(prog)
	s.sharedObjects(prog)
}

// classify records what is done with the address of a tracked field.
func (s *c04Scan) classify(fn *ssa.Function, fa *ssa.FieldAddr, fld *types.Var) {
	refs := fa.Referrers()
	if refs == nil {
		return
	}
	for _, r := range *refs {
		switch x := r.(type) {
		case *ssa.DebugRef:
		case *ssa.FieldAddr:
			// address of a nested field: classified on its own
			if x.X != fa {
				s.escapes[fld] = append(s.escapes[fld], c04Access{fn, x, "address used"})
			} else if !fld.Embedded() && !s.parts[fld] && !s.tracked[c04FieldOf(x.X.Type(), x.Field)] {
				// field of a struct-typed field (e.g. atomic.Uint64's inner value): treat as access
				s.escapes[fld] = append(s.escapes[fld], c04Access{fn, x, "inner field addressed"})
			}
		case *ssa.UnOp:
			if x.Op == token.MUL {
				s.reads[fld] = append(s.reads[fld], c04Access{fn, x, "read"})
				if s.lists[fld] {
					s.listValue(fn, x, map[ssa.Value]bool{})
				}
			} else {
				s.escapes[fld] = append(s.escapes[fld], c04Access{fn, x, "address used"})
			}
		case *ssa.Store:
			if x.Addr == fa {
				if c04Fresh(fa) {
					s.fresh[fld] = append(s.fresh[fld], c04Access{fn, x, "store into fresh object"})
				} else {
					s.writes[fld] = append(s.writes[fld], c04Access{fn, x, "store"})
				}
			} else {
				s.escapes[fld] = append(s.escapes[fld], c04Access{fn, x, "address stored"})
			}
		case ssa.CallInstruction:
			cc := x.Common()
			pkg, name := c04CalleePkg(cc)
			first := ssa.Value(nil)
			if len(cc.Args) > 0 && !cc.IsInvoke() {
				first = cc.Args[0]
			}
			callee := cc.StaticCallee()
			if pkg == "sync/atomic" && first == fa {
				s.atomics[fld] = append(s.atomics[fld], c04Access{fn, x, name})
			} else if (fld.Embedded() || s.parts[fld]) && callee != nil && callee.Blocks != nil && callee.Pkg != nil && strings.HasPrefix(callee.Pkg.Pkg.Path(), load.ModulePath) && c04OnlyFieldUse(callee, cc.Args, fa) {
				// `lb.empty()` with empty declared on the embedded base: the callee's accesses to
				// the base's fields are audited by this same scan (they are FieldAddr on its
				// parameter); the parameter itself is only used to address fields
				s.reads[fld] = append(s.reads[fld], c04Access{fn, x, "passed to " + name})
			} else {
				s.escapes[fld] = append(s.escapes[fld], c04Access{fn, x, "address passed to " + pkg + "." + name})
			}
		default:
			s.escapes[fld] = append(s.escapes[fld], c04Access{fn, r, "address used by " + strings.TrimPrefix(sprintf("%T", r), "*ssa.")})
		}
	}
}

// c04OnlyFieldUse: the parameter of callee that receives v is used only to address/read fields
// (and in further calls of the same kind).
func c04OnlyFieldUse(callee *ssa.Function, args []ssa.Value, v ssa.Value) bool {
	for i, a := range args {
		if a != v || i >= len(callee.Params) {
			continue
		}
		refs := callee.Params[i].Referrers()
		if refs == nil {
			continue
		}
		for _, r := range *refs {
			switch x := r.(type) {
			case *ssa.FieldAddr, *ssa.DebugRef:
			case *ssa.UnOp:
				if x.Op != token.MUL {
					return false
				}
				// *p read as a whole (copy): harmless
			case *ssa.BinOp:
			default:
				return false
			}
		}
	}
	return true
}

// listValue audits the uses of a loaded list: only len/cap, element loads, nil comparison,
// re-slicing, logging and storing into a fresh balancer are accepted.
func (s *c04Scan) listValue(fn *ssa.Function, v ssa.Value, seen map[ssa.Value]bool) {
	if seen[v] {
		return
	}
	seen[v] = true
	refs := v.Referrers()
	if refs == nil {
		return
	}
	bad := func(ins ssa.Instruction, what string) {
		s.listBad = append(s.listBad, c04Access{fn, ins, what})
	}
	for _, r := range *refs {
		s.listUses++
		switch x := r.(type) {
		case *ssa.DebugRef, *ssa.BinOp:
		case *ssa.Phi:
			s.listValue(fn, x, seen)
		case *ssa.Slice:
			s.listValue(fn, x, seen)
		case *ssa.IndexAddr:
			if er := x.Referrers(); er != nil {
				for _, e := range *er {
					switch y := e.(type) {
					case *ssa.DebugRef:
					case *ssa.UnOp:
						if y.Op != token.MUL {
							bad(y, "element address used")
						}
					case *ssa.Store:
						if y.Addr == x {
							bad(y, "an element of the server list is overwritten")
						} else {
							bad(y, "element address stored")
						}
					default:
						bad(e, "element address escapes")
					}
				}
			}
		case *ssa.MakeInterface:
			s.listValue(fn, x, seen)
		case *ssa.Store:
			ok := false
			if fa, isFA := x.Addr.(*ssa.FieldAddr); isFA && x.Val == v {
				if fld := c04FieldOf(fa.X.Type(), fa.Field); fld != nil && s.lists[fld] && c04Fresh(fa) {
					ok = true
				}
			}
			if !ok {
				bad(x, "the server list is stored where other code may modify it")
			}
		case ssa.CallInstruction:
			pkg, name := c04CalleePkg(x.Common())
			callee := x.Common().StaticCallee()
			switch {
			case pkg == "builtin" && (name == "len" || name == "cap"):
			case pkg == "fmt" || pkg == "log" || pkg == Mod+"pkg/logger":
			case !x.Common().IsInvoke() && callee != nil && callee.Blocks != nil && callee.Pkg != nil && strings.HasPrefix(callee.Pkg.Pkg.Path(), load.ModulePath):
				// a same-module helper (pickUniform(lb.Servers)): audit what it does with the list
				for i, a := range x.Common().Args {
					if a == v && i < len(callee.Params) {
						s.listValue(callee, callee.Params[i], seen)
					}
				}
			default:
				bad(x, "the server list is handed to "+pkg+"."+name+", which may reorder or modify the shared list")
			}
		default:
			bad(r, "the server list is used by "+strings.TrimPrefix(sprintf("%T", r), "*ssa."))
		}
	}
}

func (s *c04Scan) fieldName(f *types.Var) string {
	if o := s.info.owner[f]; o != "" {
		return o + "." + f.Name()
	}
	return f.Name()
}

func (s *c04Scan) resolveCounter() *types.Var {
	rr := s.info.byPolicy["roundRobin"]
	if rr == nil {
		return nil
	}
	st, ok := rr.named.Underlying().(*types.Struct)
	if !ok {
		return nil
	}
	var out []*types.Var
	for i := 0; i < st.NumFields(); i++ {
		f := st.Field(i)
		if f.Embedded() {
			continue
		}
		if b, ok := f.Type().Underlying().(*types.Basic); ok && b.Info()&types.IsInteger != 0 {
			out = append(out, f)
		} else if n, ok := f.Type().(*types.Named); ok && n.Obj().Pkg() != nil && n.Obj().Pkg().Path() == "sync/atomic" {
			out = append(out, f)
		}
	}
	if len(out) != 1 {
		s.c.Errorf("R-C04-4: anchor: the roundRobin implementation %s declares %d integer/atomic fields, expected exactly 1 (the selection counter)", rr.named.Obj().Name(), len(out))
		return nil
	}
	return out[0]
}

func (s *c04Scan) reportImmutability() {
	c := s.c
	cnt := s.cnt
	var fields []*types.Var
	for f := range s.tracked {
		if s.info.owner[f] != "" && f != cnt {
			fields = append(fields, f)
		}
	}
	sort.Slice(fields, func(i, j int) bool { return s.fieldName(fields[i]) < s.fieldName(fields[j]) })
	c.RequireCount("R-C04-3", "balancer fields audited", len(fields), 4)
	inits := 0
	for _, f := range fields {
		cons := s.fieldName(f) + "|stored only into fresh objects"
		inits += len(s.fresh[f])
		var bad *c04Access
		why := ""
		switch {
		case len(s.writes[f]) > 0:
			bad = &s.writes[f][0]
			why = sprintf("field %s of a balancer is assigned in %s after construction: selectors running concurrently (and the facts the other rules rely on: guard, stickiness, element-of-list) see the list/key/weight change under them", f.Name(), c04FnName(bad.fn))
		case len(s.atomics[f]) > 0:
			bad = &s.atomics[f][0]
			why = sprintf("field %s is modified through sync/atomic.%s in %s: it is mutable state of a balancer that is not the round-robin counter", f.Name(), bad.what, c04FnName(bad.fn))
		case len(s.escapes[f]) > 0:
			bad = &s.escapes[f][0]
			why = sprintf("the address of field %s escapes in %s (%s): it can be written after publication", f.Name(), c04FnName(bad.fn), bad.what)
		}
		if bad != nil {
			c.Violate("R-C04-3", cons, s.posOf(*bad), why)
		} else {
			c.Discharge("R-C04-3", cons, s.c.Prog.Rel(f.Pos()), sprintf("%d initialising stores (all into fresh allocations), %d reads, no other access to the address", len(s.fresh[f]), len(s.reads[f])))
		}
	}
	c.RequireCount("R-C04-3", "initialising stores of balancer fields", inits, 5)
	// list contents
	c.RequireCount("R-C04-3", "uses of loaded server lists audited", s.listUses, 8)
	if len(s.listBad) > 0 {
		b := s.listBad[0]
		c.Violate("R-C04-3", c04FnName(b.fn)+"|list only measured, indexed, ranged", s.posOf(b),
			b.what+": the published list is shared by all concurrent selections (and with the pool spec); changing it breaks round-robin fairness and hash stickiness and races with readers")
	} else {
		c.Discharge("R-C04-3", c04pkg+".LoadBalancer implementations|list only measured, indexed, ranged", c.Prog.Rel(s.info.iface.Obj().Pos()), sprintf("%d uses of loaded lists: len/cap, element loads, nil comparison, logging", s.listUses))
	}
	if len(s.whole) > 0 {
		b := s.whole[0]
		c.Violate("R-C04-3", c04FnName(b.fn)+"|balancer never overwritten as a whole", s.posOf(b), "a balancer struct that is not freshly allocated is overwritten as a whole (list, key and weights change under concurrent selectors)")
	} else {
		c.Discharge("R-C04-3", c04pkg+".LoadBalancer implementations|balancer never overwritten as a whole", c.Prog.Rel(s.info.iface.Obj().Pos()), "no store through a pointer to an implementation struct other than into fresh allocations")
	}
}

func (s *c04Scan) reportHolder(holder *types.Var) {
	c := s.c
	if holder == nil {
		return // c04Published reported the anchor
	}
	cons := c04pkg + ".ServerPool." + holder.Name()
	var bad *c04Access
	why := ""
	switch {
	case len(s.writes[holder]) > 0:
		bad, why = &s.writes[holder][0], "the atomic.Value holding the current balancer is assigned directly"
	case len(s.reads[holder]) > 0:
		bad, why = &s.reads[holder][0], "the atomic.Value holding the current balancer is read/copied directly"
	case len(s.escapes[holder]) > 0:
		bad, why = &s.escapes[holder][0], "the address of the atomic.Value holding the current balancer is used outside sync/atomic ("+s.escapes[holder][0].what+")"
	}
	for _, outer := range s.holderOuter {
		switch {
		case bad != nil:
		case len(s.writes[outer]) > 0:
			bad, why = &s.writes[outer][0], "the slot struct holding the current balancer is assigned as a whole"
		case len(s.reads[outer]) > 0 && s.reads[outer][0].what == "read":
			bad, why = &s.reads[outer][0], "the slot struct holding the current balancer is copied"
		case len(s.escapes[outer]) > 0:
			bad, why = &s.escapes[outer][0], "the address of the slot struct holding the current balancer escapes ("+s.escapes[outer][0].what+")"
		}
	}
	if bad != nil {
		c.Violate("R-C04-3", cons+"|accessed only through sync/atomic", s.posOf(*bad), why+" in "+c04FnName(bad.fn)+": a request selecting concurrently with a discovery update can observe a torn or stale balancer (data race)")
	} else {
		c.Discharge("R-C04-3", cons+"|accessed only through sync/atomic", c.Prog.Rel(holder.Pos()), sprintf("%d accesses, all methods of atomic.Value", len(s.atomics[holder])))
	}
	stores, loads := 0, 0
	var badStore *c04Access
	for i, a := range s.atomics[holder] {
		switch a.what {
		case "Load":
			loads++
		case "Store", "Swap", "CompareAndSwap":
			stores++
			args := a.ins.(ssa.CallInstruction).Common().Args
			vals := args[1:]
			if a.what == "CompareAndSwap" && len(args) == 3 {
				vals = args[2:]
			}
			for _, v := range vals {
				for {
					if mi, ok := v.(*ssa.MakeInterface); ok {
						v = mi.X
						continue
					}
					if ci, ok := v.(*ssa.ChangeInterface); ok {
						v = ci.X
						continue
					}
					break
				}
				if !types.Implements(v.Type(), s.info.ifaceT) && !types.Implements(types.NewPointer(v.Type()), s.info.ifaceT) {
					badStore = &s.atomics[holder][i]
				}
			}
		}
	}
	c.RequireCount("R-C04-3", "atomic stores of the balancer", stores, 1)
	c.RequireCount("R-C04-3", "atomic loads of the balancer", loads, 1)
	if badStore != nil {
		c.Violate("R-C04-3", cons+"|only LoadBalancer values stored", s.posOf(*badStore), "a value that does not implement LoadBalancer is stored: ServerPool.LoadBalancer() asserts the loaded value to LoadBalancer and panics on the next request")
	} else if stores > 0 {
		c.Discharge("R-C04-3", cons+"|only LoadBalancer values stored", c.Prog.Rel(holder.Pos()), sprintf("%d store sites, all with a static type implementing LoadBalancer", stores))
	}
}

// ----------------------------------------------------------------------------------------
// R-C04-4

func c04StripConv(v ssa.Value) ssa.Value {
	for {
		switch x := v.(type) {
		case *ssa.Convert:
			v = x.X
		case *ssa.ChangeType:
			v = x.X
		default:
			return v
		}
	}
}

func (s *c04Scan) roundRobin(prog *ssa.Program) {
	c := s.c
	cnt := s.cnt
	rr := s.info.byPolicy["roundRobin"]
	if cnt == nil || rr == nil {
		return
	}
	cons := s.fieldName(cnt)
	// every access is atomic
	n := len(s.atomics[cnt]) + len(s.writes[cnt]) + len(s.reads[cnt]) + len(s.escapes[cnt])
	if !c.RequireCount("R-C04-4", "accesses to the round-robin counter", n, 1) {
		return
	}
	var bad *c04Access
	switch {
	case len(s.writes[cnt]) > 0:
		bad = &s.writes[cnt][0]
	case len(s.reads[cnt]) > 0:
		bad = &s.reads[cnt][0]
	case len(s.escapes[cnt]) > 0:
		bad = &s.escapes[cnt][0]
	}
	if bad != nil {
		c.Violate("R-C04-4", cons+"|accessed only through sync/atomic", s.posOf(*bad),
			sprintf("the round-robin counter is accessed non-atomically (%s) in %s: two concurrent selections can read the same value, so a server is chosen twice and another skipped — the floor(k/n)/ceil(k/n) bound fails under concurrency (and it is a data race)", bad.what, c04FnName(bad.fn)))
	} else {
		c.Discharge("R-C04-4", cons+"|accessed only through sync/atomic", c.Prog.Rel(cnt.Pos()), sprintf("%d accesses, all sync/atomic operations on the field's address", len(s.atomics[cnt])))
	}

	fn := prog.FuncValue(rr.method)
	if fn == nil || fn.Blocks == nil {
		c.Errorf("R-C04-4: no SSA body for %s", rr.method.FullName())
		return
	}
	// exactly one fetch-add of constant 1 in ChooseServer
	var adds []ssa.CallInstruction
	other := 0
	for _, a := range s.atomics[cnt] {
		if a.fn != fn && !c04Within(a.fn, fn) {
			continue
		}
		if strings.HasPrefix(a.what, "Add") {
			adds = append(adds, a.ins.(ssa.CallInstruction))
		} else {
			other++
		}
	}
	consF := rr.cons + "|single fetch-add of 1"
	okAdd := false
	var theAdd ssa.Value
	switch {
	case len(adds) != 1 || other > 0:
		c.Violate("R-C04-4", consF, c.Prog.Rel(fn.Pos()), sprintf("ChooseServer performs %d atomic adds and %d other atomic operations on the counter; the ticket must come from exactly one fetch-add (separate load/store or two adds let concurrent selectors obtain the same or skipped tickets)", len(adds), other))
	default:
		call := adds[0]
		args := call.Common().Args
		delta := args[len(args)-1]
		k, isConst := delta.(*ssa.Const)
		inLoop := c04InCycle(call.Block())
		switch {
		case !isConst || k.Value == nil || constant.Compare(constant.ToInt(k.Value), token.NEQ, constant.MakeInt64(1)):
			c.Violate("R-C04-4", consF, c.Prog.Rel(call.Pos()), "the counter is not advanced by the constant 1: successive tickets skip servers, so some servers are chosen more than ceil(k/n) times")
		case inLoop:
			c.Violate("R-C04-4", consF, c.Prog.Rel(call.Pos()), "the fetch-add sits in a loop: one selection may consume several tickets")
		default:
			okAdd = true
			theAdd, _ = call.(ssa.Value)
			c.Discharge("R-C04-4", consF, c.Prog.Rel(call.Pos()), "one sync/atomic add of constant 1 on &counter, not in a loop")
		}
	}
	// index = (add ± const) % len(list); the indexing may sit in a same-module helper that is
	// handed the ticket (`lb.pick(ticket)`, `at(lb.Servers, ticket)`)
	consI := rr.cons + "|index = ticket % len(list)"
	consW := rr.cons + "|ticket stays 64 bits wide up to the modulo"
	sizes := types.SizesFor("gc", "amd64")
	minBits := int64(64)
	var narrowAt token.Pos
	narrowWhat := ""
	noteWidth := func(t types.Type, pos token.Pos, what string) {
		b, ok := t.Underlying().(*types.Basic)
		if !ok || b.Info()&types.IsInteger == 0 {
			return
		}
		if bits := sizes.Sizeof(t) * 8; bits < minBits {
			minBits, narrowAt, narrowWhat = bits, pos, what
		}
	}
	// strip follows conversions and +/- constants back towards the ticket, recording widths
	strip := func(v ssa.Value) ssa.Value {
		for i := 0; i < 12; i++ {
			switch x := v.(type) {
			case *ssa.Convert:
				noteWidth(x.Type(), x.Pos(), "a conversion to "+x.Type().String())
				v = x.X
			case *ssa.ChangeType:
				v = x.X
			case *ssa.BinOp:
				if x.Op != token.SUB && x.Op != token.ADD {
					return v
				}
				if _, isK := x.Y.(*ssa.Const); isK {
					v = x.X
				} else if _, isK := x.X.(*ssa.Const); isK && x.Op == token.ADD {
					v = x.Y
				} else {
					return v
				}
			default:
				return v
			}
		}
		return v
	}
	s.recvParams = map[*ssa.Parameter]bool{}
	s.listParams = map[*ssa.Parameter]bool{}
	if len(fn.Params) > 0 {
		s.recvParams[fn.Params[0]] = true
	}
	defer func() { s.recvParams, s.listParams = nil, nil }()
	nIdx := 0
	var badWhy string
	var badPos token.Pos
	var scan func(cur *ssa.Function, ticket ssa.Value, depth int)
	scan = func(cur *ssa.Function, ticket ssa.Value, depth int) {
		for _, b := range cur.Blocks {
			for _, ins := range b.Instrs {
				// a helper that receives the ticket
				if call, ok := ins.(*ssa.Call); ok && depth < 2 {
					callee := call.Call.StaticCallee()
					if !call.Call.IsInvoke() && callee != nil && callee.Blocks != nil && callee.Pkg != nil && strings.HasPrefix(callee.Pkg.Pkg.Path(), load.ModulePath) {
						for i, a := range call.Call.Args {
							if i >= len(callee.Params) || ticket == nil || strip(a) != ticket {
								continue
							}
							for j, a2 := range call.Call.Args {
								if j >= len(callee.Params) {
									break
								}
								if len(cur.Params) > 0 && s.recvParams[cur.Params[0]] {
									if c04IsRecv(a2, cur.Params[0]) {
										s.recvParams[callee.Params[j]] = true
									} else if fa, isFA := a2.(*ssa.FieldAddr); isFA && c04IsRecv(c04Root(fa), cur.Params[0]) {
										s.recvParams[callee.Params[j]] = true
									}
								}
								if s.isRecvList(cur, rr, a2, map[ssa.Value]bool{}) {
									s.listParams[callee.Params[j]] = true
								}
							}
							noteWidth(callee.Params[i].Type(), callee.Params[i].Pos(), "parameter "+callee.Params[i].Name()+" "+callee.Params[i].Type().String()+" of "+callee.Name())
							scan(callee, callee.Params[i], depth+1)
						}
					}
				}
				ia, ok := ins.(*ssa.IndexAddr)
				if !ok || !s.isRecvList(cur, rr, ia.X, map[ssa.Value]bool{}) {
					continue
				}
				nIdx++
				rem, ok := c04StripConv(ia.Index).(*ssa.BinOp)
				if !ok || rem.Op != token.REM {
					badWhy, badPos = "the index into the list is not `ticket % len(list)`", ia.Pos()
					continue
				}
				x := strip(rem.X)
				if okAdd && x != ticket {
					badWhy, badPos = "the index is not computed from the value returned by the atomic add (e.g. from a second read of the counter): concurrent selectors can compute the same index, one server is chosen twice and another skipped", ia.Pos()
					continue
				}
				y := c04StripConv(rem.Y)
				lenOK := false
				if call, ok := y.(*ssa.Call); ok {
					if pkg, name := c04CalleePkg(call.Common()); pkg == "builtin" && name == "len" && len(call.Call.Args) == 1 {
						lenOK = s.isRecvList(cur, rr, call.Call.Args[0], map[ssa.Value]bool{})
					}
				}
				if !lenOK {
					badWhy, badPos = "the ticket is not reduced modulo the length of the server list: some servers are never or too often chosen", ia.Pos()
				}
			}
		}
	}
	scan(fn, theAdd, 0)
	switch {
	case nIdx == 0:
		c.Violate("R-C04-4", consI, c.Prog.Rel(fn.Pos()), "the round-robin ChooseServer (and the helpers it hands the ticket to) never indexes its server list")
	case badWhy != "":
		c.Violate("R-C04-4", consI, c.Prog.Rel(badPos), badWhy)
	case okAdd:
		c.Discharge("R-C04-4", consI, c.Prog.Rel(fn.Pos()), sprintf("%d index site(s): (result of the fetch-add +/- const) %% len(receiver's list)", nIdx))
	}
	// width: the counter and every value on the way from the fetch-add to the modulo
	cw := cnt.Type()
	if n, ok := cw.(*types.Named); ok && n.Obj().Pkg() != nil && n.Obj().Pkg().Path() == "sync/atomic" {
		switch n.Obj().Name() {
		case "Uint32", "Int32":
			minBits, narrowAt, narrowWhat = 32, cnt.Pos(), "the counter field of type "+cw.String()
		}
	} else {
		noteWidth(cw, cnt.Pos(), "the counter field of type "+cw.String())
	}
	if theAdd != nil {
		noteWidth(theAdd.Type(), theAdd.Pos(), "the result of the atomic add")
	}
	if okAdd && nIdx > 0 && badWhy == "" {
		if minBits < 64 {
			c.Violate("R-C04-4", consW, c.Prog.Rel(narrowAt), sprintf("the round-robin ticket is only %d bits wide (%s): it wraps after 2^%d selections — days of traffic on a static pool — and 2^%d is not a multiple of the list size unless that is a power of two, so at every wrap the rotation jumps and a server is chosen floor(k/n)-1 or ceil(k/n)+1 times", minBits, narrowWhat, minBits, minBits))
		} else {
			c.Discharge("R-C04-4", consW, c.Prog.Rel(cnt.Pos()), "counter, fetch-add result, conversions and helper parameters up to the modulo are all 64 bits wide")
		}
	}
}

func c04Within(inner, outer *ssa.Function) bool {
	for p := inner.Parent(); p != nil; p = p.Parent() {
		if p == outer {
			return true
		}
	}
	return false
}

// c04InCycle reports whether block b can reach itself.
func c04InCycle(b *ssa.BasicBlock) bool {
	seen := map[*ssa.BasicBlock]bool{}
	var stack []*ssa.BasicBlock
	stack = append(stack, b.Succs...)
	for len(stack) > 0 {
		x := stack[len(stack)-1]
		stack = stack[:len(stack)-1]
		if x == b {
			return true
		}
		if seen[x] {
			continue
		}
		seen[x] = true
		stack = append(stack, x.Succs...)
	}
	return false
}

// isRecvList: v is (a re-slice of) the value of the receiver's list field.
func (s *c04Scan) isRecvList(fn *ssa.Function, im *c04Impl, v ssa.Value, seen map[ssa.Value]bool) bool {
	if seen[v] {
		return true
	}
	seen[v] = true
	if len(fn.Params) == 0 {
		return false
	}
	recv := fn.Params[0]
	if s.recvParams != nil && !s.recvParams[recv] {
		recv = nil // inside a helper whose first parameter is not the balancer
	}
	switch x := v.(type) {
	case *ssa.Parameter:
		return s.listParams[x]
	case *ssa.UnOp:
		if x.Op != token.MUL {
			return false
		}
		fa, ok := x.X.(*ssa.FieldAddr)
		if !ok {
			return false
		}
		return c04FieldOf(fa.X.Type(), fa.Field) == im.list && c04IsRecv(c04Root(fa), recv)
	case *ssa.Field:
		return c04FieldOf(x.X.Type(), x.Field) == im.list && c04IsRecv(c04RootVal(x), recv)
	case *ssa.Slice:
		return s.isRecvList(fn, im, x.X, seen)
	case *ssa.Phi:
		for _, e := range x.Edges {
			if !s.isRecvList(fn, im, e, seen) {
				return false
			}
		}
		return true
	}
	return false
}

// c04IsRecv: v is the receiver parameter, or a load of the cell the receiver was spilled to
// because a closure captures it (the cell is only ever assigned the parameter).
func c04IsRecv(v ssa.Value, recv *ssa.Parameter) bool {
	if recv == nil {
		return false
	}
	if v == ssa.Value(recv) {
		return true
	}
	u, ok := v.(*ssa.UnOp)
	if !ok || u.Op != token.MUL {
		return false
	}
	a := c04Cell(u.X)
	if a == nil || a.Referrers() == nil {
		return false
	}
	stores := 0
	for _, r := range *a.Referrers() {
		if st, ok := r.(*ssa.Store); ok && st.Addr == ssa.Value(a) {
			stores++
			if st.Val != ssa.Value(recv) {
				return false
			}
		}
	}
	return stores == 1
}

// c04RootVal follows value-struct field reads and loads of the receiver copy.
func c04RootVal(v ssa.Value) ssa.Value {
	for i := 0; i < 16; i++ {
		switch x := v.(type) {
		case *ssa.Field:
			v = x.X
		case *ssa.UnOp:
			if x.Op != token.MUL {
				return v
			}
			v = c04Root(x.X)
		default:
			return v
		}
	}
	return v
}

// ----------------------------------------------------------------------------------------
// R-C04-2 (value-flow half)

func (s *c04Scan) elements(prog *ssa.Program) {
	c := s.c
	for _, im := range s.info.impls {
		fn := prog.FuncValue(im.method)
		if fn == nil || fn.Blocks == nil {
			c.Errorf("R-C04-2: no SSA body for %s", im.method.FullName())
			continue
		}
		cons := im.cons + "|returns nil or an element of its list"
		rets, elems, nils := 0, 0, 0
		var badPos token.Pos
		s.recvParams = map[*ssa.Parameter]bool{}
		s.listParams = map[*ssa.Parameter]bool{}
		s.elemParams = map[*ssa.Parameter]bool{}
		if len(fn.Params) > 0 {
			s.recvParams[fn.Params[0]] = true
		}
		depth := 0
		var classifyIn func(fn *ssa.Function, v ssa.Value, seen map[ssa.Value]bool) bool
		// follow: the value is result idx of a call to a same-module helper; every return of the
		// helper must qualify, with its parameters bound to the receiver / the receiver's list
		follow := func(cur *ssa.Function, call *ssa.Call, idx int, seen map[ssa.Value]bool) bool {
			callee := call.Call.StaticCallee()
			if call.Call.IsInvoke() || callee == nil || callee.Blocks == nil || callee.Pkg == nil || !strings.HasPrefix(callee.Pkg.Pkg.Path(), load.ModulePath) || depth >= 3 {
				return false
			}
			for i, a := range call.Call.Args {
				if i >= len(callee.Params) {
					break
				}
				if len(cur.Params) > 0 && s.recvParams[cur.Params[0]] {
					if c04IsRecv(a, cur.Params[0]) {
						s.recvParams[callee.Params[i]] = true
					} else if fa, isFA := a.(*ssa.FieldAddr); isFA && c04IsRecv(c04Root(fa), cur.Params[0]) {
						s.recvParams[callee.Params[i]] = true // &lb.BaseLoadBalancer: a part of the receiver
					}
				}
				if s.isRecvList(cur, im, a, map[ssa.Value]bool{}) {
					s.listParams[callee.Params[i]] = true
				}
			}
			depth++
			defer func() { depth-- }()
			n := 0
			for _, b := range callee.Blocks {
				for _, ins := range b.Instrs {
					r, ok := ins.(*ssa.Return)
					if !ok {
						continue
					}
					n++
					if idx >= len(r.Results) || !classifyIn(callee, r.Results[idx], seen) {
						return false
					}
				}
			}
			return n > 0
		}
		classifyIn = func(fn *ssa.Function, v ssa.Value, seen map[ssa.Value]bool) bool {
			if seen[v] {
				return true
			}
			seen[v] = true
			switch x := v.(type) {
			case *ssa.Parameter:
				return s.elemParams[x]
			case *ssa.Call:
				return follow(fn, x, 0, seen)
			case *ssa.Extract:
				if call, ok := x.Tuple.(*ssa.Call); ok {
					return follow(fn, call, x.Index, seen)
				}
			case *ssa.Const:
				if x.IsNil() {
					nils++
					return true
				}
			case *ssa.Phi:
				for _, e := range x.Edges {
					if !classifyIn(fn, e, seen) {
						return false
					}
				}
				return true
			case *ssa.UnOp:
				if x.Op == token.MUL {
					if ia, ok := x.X.(*ssa.IndexAddr); ok && s.isRecvList(fn, im, ia.X, map[ssa.Value]bool{}) {
						elems++
						return true
					}
					// a local cell (result variable of a function with defer, or a local whose
					// address is taken): every value stored into it must qualify
					if cell, ok := x.X.(*ssa.Alloc); ok && cell.Referrers() != nil {
						for _, ref := range *cell.Referrers() {
							switch y := ref.(type) {
							case *ssa.Store:
								if y.Addr != ssa.Value(cell) || !classifyIn(fn, y.Val, seen) {
									return false
								}
							case *ssa.UnOp, *ssa.DebugRef:
							case *ssa.MakeClosure:
								// the variable is captured by a closure (the visitor of a callback
								// iterator): what the closure stores into it must qualify too
								cf, _ := y.Fn.(*ssa.Function)
								if cf == nil || !s.bindVisitor(fn, im, y, cf) {
									return false
								}
								for bi, bnd := range y.Bindings {
									if bnd != ssa.Value(cell) || bi >= len(cf.FreeVars) || cf.FreeVars[bi].Referrers() == nil {
										continue
									}
									for _, r2 := range *cf.FreeVars[bi].Referrers() {
										switch z := r2.(type) {
										case *ssa.Store:
											if z.Addr != ssa.Value(cf.FreeVars[bi]) || !classifyIn(cf, z.Val, seen) {
												return false
											}
										case *ssa.UnOp, *ssa.DebugRef:
										default:
											return false
										}
									}
								}
							default:
								return false
							}
						}
						return true
					}
				}
			}
			return false
		}
		classify := func(v ssa.Value, seen map[ssa.Value]bool) bool { return classifyIn(fn, v, seen) }
		for _, b := range fn.Blocks {
			for _, ins := range b.Instrs {
				r, ok := ins.(*ssa.Return)
				if !ok || len(r.Results) != 1 {
					continue
				}
				rets++
				if !classify(r.Results[0], map[ssa.Value]bool{}) && !badPos.IsValid() {
					badPos = r.Pos()
					if !badPos.IsValid() {
						badPos = fn.Pos()
					}
				}
			}
		}
		if !c.RequireCount("R-C04-2", "return instructions of "+im.named.Obj().Name()+".ChooseServer", rets, 1) {
			continue
		}
		if badPos.IsValid() {
			c.Violate("R-C04-2", cons, c.Prog.Rel(badPos), "a returned server is not an element loaded from the receiver's own list (a copy, a server of another list, or a freshly built Server): requests can be sent to a server that is not a member of the pool's current list")
		} else {
			c.Discharge("R-C04-2", cons, c.Prog.Rel(fn.Pos()), sprintf("%d returns: %d element loads of the receiver's list, %d nil", rets, elems, nils))
		}
	}
	s.recvParams, s.listParams, s.elemParams = nil, nil, nil
}

// bindVisitor: closure value mc (function cf) is handed, together with the receiver's list, to a
// same-module iterator h that calls it with elements of that list; the closure's parameters that
// receive the element are recorded in s.elemParams. false if the closure is used in any other way.
func (s *c04Scan) bindVisitor(fn *ssa.Function, im *c04Impl, mc *ssa.MakeClosure, cf *ssa.Function) bool {
	refs := mc.Referrers()
	if refs == nil {
		return false
	}
	bound := false
	for _, r := range *refs {
		call, ok := r.(*ssa.Call)
		if !ok {
			if _, dbg := r.(*ssa.DebugRef); dbg {
				continue
			}
			return false
		}
		h := call.Call.StaticCallee()
		if call.Call.IsInvoke() || h == nil || h.Blocks == nil || h.Pkg == nil || !strings.HasPrefix(h.Pkg.Pkg.Path(), load.ModulePath) {
			return false
		}
		visit := -1
		for i, a := range call.Call.Args {
			if i >= len(h.Params) {
				break
			}
			if a == ssa.Value(mc) {
				visit = i
			}
			if s.isRecvList(fn, im, a, map[ssa.Value]bool{}) {
				s.listParams[h.Params[i]] = true
			}
		}
		if visit < 0 {
			return false
		}
		// every call of the visitor inside h passes element loads of the list
		vrefs := h.Params[visit].Referrers()
		if vrefs == nil {
			return false
		}
		for _, vr := range *vrefs {
			vc, ok := vr.(*ssa.Call)
			if !ok {
				if _, dbg := vr.(*ssa.DebugRef); dbg {
					continue
				}
				return false
			}
			if vc.Call.Value != ssa.Value(h.Params[visit]) {
				return false
			}
			for k, a := range vc.Call.Args {
				if k >= len(cf.Params) {
					break
				}
				if u, ok := a.(*ssa.UnOp); ok && u.Op == token.MUL {
					if ia, ok := u.X.(*ssa.IndexAddr); ok && s.isRecvList(h, im, ia.X, map[ssa.Value]bool{}) {
						s.elemParams[cf.Params[k]] = true
						bound = true
					}
				}
			}
		}
	}
	return bound
}

// ----------------------------------------------------------------------------------------
// R-C04-5

var c04Nondet = map[string]string{
	"math/rand":    "a random source",
	"math/rand/v2": "a random source",
	"crypto/rand":  "a random source",
	"time":         "the clock",
	"sync/atomic":  "shared mutable state",
	"hash/maphash": "a per-process random seed",
	"runtime":      "the scheduler/runtime state",
	"os":           "the process environment",
}

func (s *c04Scan) purity(prog *ssa.Program) {
	c := s.c
	mutable := func(f *types.Var) bool {
		return len(s.writes[f]) > 0 || len(s.atomics[f]) > 0 || len(s.escapes[f]) > 0
	}
	// stores to fields that are not tracked: collect lazily, module-wide, for fields read here
	var otherWrites map[*types.Var]bool
	collectWrites := func() {
		otherWrites = map[*types.Var]bool{}
		for _, fn := range c04ModuleFuncs(prog) {
			for _, b := range fn.Blocks {
				for _, ins := range b.Instrs {
					st, ok := ins.(*ssa.Store)
					if !ok {
						continue
					}
					if fa, ok := st.Addr.(*ssa.FieldAddr); ok && !c04Fresh(fa) {
						if f := c04FieldOf(fa.X.Type(), fa.Field); f != nil {
							otherWrites[f] = true
						}
					}
				}
			}
		}
	}
	type polImpl struct {
		pol string
		im  *c04Impl
	}
	var todo []polImpl
	done := map[*c04Impl]bool{}
	for _, pol := range []string{"ipHash", "headerHash"} {
		for _, im := range s.info.policyImpls[pol] {
			if !done[im] {
				done[im] = true
				todo = append(todo, polImpl{pol, im})
			}
		}
	}
	for _, pi := range todo {
		pol, im := pi.pol, pi.im
		root := prog.FuncValue(im.method)
		if root == nil || root.Blocks == nil {
			c.Errorf("R-C04-5: no SSA body for %s", im.method.FullName())
			continue
		}
		cons := im.cons + "|pure function of key and list"
		work := []*ssa.Function{root}
		seen := map[*ssa.Function]bool{root: true}
		var badWhy string
		var badPos token.Pos
		flag := func(fn *ssa.Function, ins ssa.Instruction, why string) {
			if badWhy != "" {
				return
			}
			badWhy = why
			if fn != root {
				badWhy += " (in " + c04FnName(fn) + ", reached from ChooseServer)"
			}
			badPos = ins.Pos()
			if !badPos.IsValid() {
				badPos = fn.Pos()
			}
		}
		instrs, callsSeen := 0, 0
		for len(work) > 0 {
			fn := work[len(work)-1]
			work = work[:len(work)-1]
			for _, af := range fn.AnonFuncs {
				if !seen[af] {
					seen[af] = true
					work = append(work, af)
				}
			}
			for _, b := range fn.Blocks {
				for _, ins := range b.Instrs {
					instrs++
					switch x := ins.(type) {
					case *ssa.Go:
						flag(fn, x, "the selection starts a goroutine")
					case *ssa.Send, *ssa.Select:
						flag(fn, x, "the selection performs a channel operation")
					case *ssa.MapUpdate:
						if !c04Fresh(x.Map) {
							if _, local := x.Map.(*ssa.MakeMap); !local {
								flag(fn, x, "the selection updates a map that is not local")
							}
						}
					case *ssa.Store:
						if !c04Fresh(x.Addr) {
							flag(fn, x, "the selection writes memory that is not local to the call (state carried from one selection to the next)")
						}
					case *ssa.UnOp:
						if x.Op == token.MUL {
							if g, ok := x.X.(*ssa.Global); ok {
								if a, mut := s.mutGlob[g]; mut && strings.HasPrefix(g.Pkg.Pkg.Path(), load.ModulePath) {
									flag(fn, x, "the selection reads package variable "+g.Name()+", which is assigned in "+c04FnName(a.fn))
								}
							}
							if fa, ok := x.X.(*ssa.FieldAddr); ok {
								f := c04FieldOf(fa.X.Type(), fa.Field)
								if f != nil && !c04Fresh(fa) {
									if s.tracked[f] {
										if mutable(f) || f == s.cnt {
											flag(fn, x, "the selection reads field "+f.Name()+", which is modified after construction")
										}
									} else if f.Pkg() != nil && strings.HasPrefix(f.Pkg().Path(), load.ModulePath) {
										if otherWrites == nil {
											collectWrites()
										}
										if otherWrites[f] {
											flag(fn, x, "the selection reads field "+f.Name()+", which is assigned elsewhere in the module after construction")
										}
									}
								}
							}
						} else if x.Op == token.ARROW {
							flag(fn, x, "the selection receives from a channel")
						}
					}
					if ci, ok := ins.(ssa.CallInstruction); ok {
						callsSeen++
						pkg, name := c04CalleePkg(ci.Common())
						if what, nd := c04Nondet[pkg]; nd {
							flag(fn, ins, sprintf("the selection calls %s.%s (%s): equal keys are no longer sent to the same server", pkg, name, what))
						}
						if callee := ci.Common().StaticCallee(); callee != nil && callee.Pkg != nil && callee.Blocks != nil &&
							callee.Pkg.Pkg.Path() == Mod+c04pkg && !seen[callee] {
							seen[callee] = true
							work = append(work, callee)
						}
					}
				}
			}
		}
		c.Count("R-C04-5:instructions audited", instrs)
		if !c.RequireCount("R-C04-5", "calls in "+im.named.Obj().Name()+".ChooseServer", callsSeen, 2) {
			continue
		}
		if badWhy != "" {
			c.Violate("R-C04-5", cons, c.Prog.Rel(badPos), "policy "+pol+": "+badWhy+"; stickiness (equal keys -> same server while the list is unchanged) is lost")
		} else {
			c.Discharge("R-C04-5", cons, c.Prog.Rel(root.Pos()), sprintf("%d functions, %d instructions, %d calls: no nondeterministic source, no non-local write, only immutable fields read", len(seen), instrs, callsSeen))
		}
	}
}
