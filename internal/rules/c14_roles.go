package rules

import (
	"go/ast"
	"go/types"

	"verif/internal/core"
	"verif/internal/flow"
)

// Role resolution for C14 (robustness pass): types, fields and functions of the topic trie are
// found by what they are / do, the current name is only a tie-breaker. Renaming an unexported
// identifier, moving a declaration to another file of the package, inlining the getLevels wrapper
// or splitting insert/remove into helpers does not lose an anchor.
//
//	node type      the struct type with a field of type map[string]*<itself>          (topicNode)
//	nodes/clients  that field / its field of type map[string]<integer>
//	root           the field of TopicManager of type *<node type>
//	level manager  the struct type (field of TopicManager) with a field of type *lru.Cache
//	split          the package function func(string) ([]string, bool)                   (splitTopic)
//	get            the level manager's method func(string) ([]string, error) calling split
//	level sources  get and every func(string) ([]string, error) that only returns a source's result
//	find / subscribe / unsubscribe / insert / remove   TopicManager methods, by signature
//	allSubscribes  the Session method returning ([]string, []byte, error)

type c14fn struct {
	f    *flow.Func
	fd   *ast.FuncDecl
	obj  *types.Func
	cons string
}

type c14roleSet struct {
	nodeT, lvlT *types.Named
	split, get  *c14fn
	sources     map[*types.Func]bool
	fns         map[string]*c14fn // find, subscribe, unsubscribe, insert, remove, allSubscribes
}

func c14isStr(t types.Type) bool {
	b, ok := t.Underlying().(*types.Basic)
	return ok && b.Info()&types.IsString != 0
}

func c14isByte(t types.Type) bool {
	b, ok := t.Underlying().(*types.Basic)
	return ok && b.Info()&types.IsInteger != 0
}

func c14isSliceOf(t types.Type, elem func(types.Type) bool) bool {
	s, ok := t.Underlying().(*types.Slice)
	return ok && elem(s.Elem())
}

func c14isError(t types.Type) bool {
	return t != nil && types.Identical(t, types.Universe.Lookup("error").Type())
}

// c14sig matches a signature against predicates for parameters and results.
func c14sig(sig *types.Signature, params, results []func(types.Type) bool) bool {
	if sig == nil || sig.Variadic() || sig.Params().Len() != len(params) || sig.Results().Len() != len(results) {
		return false
	}
	for i, p := range params {
		if !p(sig.Params().At(i).Type()) {
			return false
		}
	}
	for i, r := range results {
		if !r(sig.Results().At(i).Type()) {
			return false
		}
	}
	return true
}

func (e *c14env) mkfn(fd *ast.FuncDecl) *c14fn {
	if fd == nil {
		return nil
	}
	return &c14fn{f: flow.NewFunc(e.pkg, fd), fd: fd, obj: e.funcObj(fd), cons: declName(e.pkg, fd)}
}

// pick chooses among candidates: a single one, or the one carrying the current name.
func (e *c14env) pick(what, name string, cands []*ast.FuncDecl) *c14fn {
	if len(cands) == 1 {
		return e.mkfn(cands[0])
	}
	for _, fd := range cands {
		if fd.Name.Name == name {
			return e.mkfn(fd)
		}
	}
	e.c.Errorf("anchor: %s: %d candidate functions play the role of %s (expected exactly 1, or one named %s)", mq, len(cands), what, name)
	return nil
}

func (e *c14env) recvNamed(fd *ast.FuncDecl) *types.Named {
	if fd.Recv == nil || len(fd.Recv.List) != 1 {
		return nil
	}
	tv, ok := e.pkg.TypesInfo.Types[fd.Recv.List[0].Type]
	if !ok {
		return nil
	}
	t := tv.Type
	if p, ok := t.(*types.Pointer); ok {
		t = p.Elem()
	}
	n, _ := t.(*types.Named)
	return n
}

// resolveRoles fills e.roles and the field anchors; false (with errors recorded) when an anchor
// cannot be resolved.
func (e *c14env) resolveRoles() bool {
	c := e.c
	r := &c14roleSet{sources: map[*types.Func]bool{}, fns: map[string]*c14fn{}}
	e.roles = r
	scope := e.pkg.Types.Scope()
	// node type
	var nodeCands []*types.Named
	for _, name := range scope.Names() {
		tn, ok := scope.Lookup(name).(*types.TypeName)
		if !ok {
			continue
		}
		n, ok := tn.Type().(*types.Named)
		if !ok {
			continue
		}
		st, ok := n.Underlying().(*types.Struct)
		if !ok {
			continue
		}
		for i := 0; i < st.NumFields(); i++ {
			if m, ok := st.Field(i).Type().Underlying().(*types.Map); ok && c14isStr(m.Key()) {
				if p, ok := m.Elem().(*types.Pointer); ok && types.Identical(p.Elem(), n) {
					nodeCands = append(nodeCands, n)
				}
			}
		}
	}
	if len(nodeCands) != 1 {
		c.Errorf("anchor: %s: %d struct types have a field map[string]*<self> (the trie node), expected exactly 1", mq, len(nodeCands))
		return false
	}
	r.nodeT = nodeCands[0]
	st := r.nodeT.Underlying().(*types.Struct)
	for i := 0; i < st.NumFields(); i++ {
		fld := st.Field(i)
		m, ok := fld.Type().Underlying().(*types.Map)
		if !ok || !c14isStr(m.Key()) {
			continue
		}
		if p, ok := m.Elem().(*types.Pointer); ok && types.Identical(p.Elem(), r.nodeT) {
			e.nodesF = fld
		} else if c14isByte(m.Elem()) {
			e.clientsF = fld
		}
	}
	mgr := namedType(c, mq, "TopicManager")
	if mgr == nil || e.nodesF == nil || e.clientsF == nil {
		c.Errorf("anchor: %s: trie node fields (children map, clients map) or TopicManager not found", mq)
		return false
	}
	mst, _ := mgr.Underlying().(*types.Struct)
	for i := 0; mst != nil && i < mst.NumFields(); i++ {
		fld := mst.Field(i)
		p, ok := fld.Type().(*types.Pointer)
		if !ok {
			continue
		}
		if types.Identical(p.Elem(), r.nodeT) {
			e.rootF = fld
		}
	}
	// the level cache: the struct type of the package with a *lru.Cache field (TopicManager may hold
	// it directly or behind an interface)
	for _, name := range scope.Names() {
		tn, ok := scope.Lookup(name).(*types.TypeName)
		if !ok {
			continue
		}
		n, ok := tn.Type().(*types.Named)
		if !ok {
			continue
		}
		if s2, ok := n.Underlying().(*types.Struct); ok {
			for j := 0; j < s2.NumFields(); j++ {
				if s2.Field(j).Type().String() == "*github.com/hashicorp/golang-lru.Cache" {
					if r.lvlT != nil && r.lvlT != n {
						c.Errorf("anchor: %s: more than one struct type holds a *lru.Cache", mq)
						return false
					}
					r.lvlT = n
					e.dataF = s2.Field(j)
				}
			}
		}
	}
	if e.rootF == nil || e.dataF == nil {
		c.Errorf("anchor: %s.TopicManager: root field (*%s) or level cache (struct with *lru.Cache) not found", mq, r.nodeT.Obj().Name())
		return false
	}

	str := c14isStr
	strs := func(t types.Type) bool { return c14isSliceOf(t, c14isStr) }
	bytes := func(t types.Type) bool { return c14isSliceOf(t, c14isByte) }
	boolT := func(t types.Type) bool {
		b, ok := t.Underlying().(*types.Basic)
		return ok && b.Info()&types.IsBoolean != 0
	}
	resMap := func(t types.Type) bool {
		m, ok := t.Underlying().(*types.Map)
		return ok && c14isStr(m.Key()) && c14isByte(m.Elem())
	}
	var splitC, getC, findC, subC, unsubC, insC, remC, allC []*ast.FuncDecl
	e.decls(func(f *flow.Func, fd *ast.FuncDecl) {
		o := e.funcObj(fd)
		if o == nil {
			return
		}
		sig := o.Type().(*types.Signature)
		recv := e.recvNamed(fd)
		switch {
		case recv == nil:
			if c14sig(sig, []func(types.Type) bool{str}, []func(types.Type) bool{strs, boolT}) {
				splitC = append(splitC, fd)
			}
		case recv == r.lvlT:
			if c14sig(sig, []func(types.Type) bool{str}, []func(types.Type) bool{strs, c14isError}) {
				getC = append(getC, fd)
			}
		case recv == mgr:
			switch {
			case c14sig(sig, []func(types.Type) bool{str}, []func(types.Type) bool{resMap, c14isError}):
				findC = append(findC, fd)
			case c14sig(sig, []func(types.Type) bool{strs, bytes, str}, []func(types.Type) bool{c14isError}):
				subC = append(subC, fd)
			case c14sig(sig, []func(types.Type) bool{strs, str}, []func(types.Type) bool{c14isError}):
				unsubC = append(unsubC, fd)
			}
		case recv != nil && recv.Obj().Name() == "Session":
			if c14sig(sig, nil, []func(types.Type) bool{strs, bytes, c14isError}) {
				allC = append(allC, fd)
			}
		}
	})
	r.split = e.pick("the topic splitter func(string) ([]string, bool)", "splitTopic", splitC)
	// get must reach the call of split (directly, or through a wrapper such as parseTopic)
	var getC2 []*ast.FuncDecl
	for _, fd := range getC {
		if r.split != nil && reachContains(funcOf(e.pkg, fd), 2, func(h *flow.Func, n ast.Node) bool {
			call, ok := n.(*ast.CallExpr)
			return ok && c14calleeOf(h, call) == r.split.obj
		}) {
			getC2 = append(getC2, fd)
		}
	}
	// several methods of the level manager may share the work (get -> splitAndCache): the cache
	// lookup is the outermost one, i.e. the one no other candidate calls
	if len(getC) > 1 {
		called := map[*ast.FuncDecl]bool{}
		for _, fd := range getC {
			g := flow.NewFunc(e.pkg, fd)
			for _, call := range calls(fd.Body, false) {
				fo := c14calleeOf(g, call)
				for _, other := range getC {
					if other != fd && fo != nil && fo == e.funcObj(other) {
						called[other] = true
					}
				}
			}
		}
		var outer []*ast.FuncDecl
		for _, fd := range getC {
			if !called[fd] {
				outer = append(outer, fd)
			}
		}
		getC2 = nil
		for _, fd := range outer {
			if r.split != nil && reachContains(funcOf(e.pkg, fd), 2, func(h *flow.Func, n ast.Node) bool {
				call, ok := n.(*ast.CallExpr)
				return ok && c14calleeOf(h, call) == r.split.obj
			}) {
				getC2 = append(getC2, fd)
			}
		}
	}
	r.get = e.pick("the validating level cache lookup", "get", getC2)
	// insert / remove by what they do: the outermost function with a byte and a string parameter
	// that records <node>.clients[..] = .. (itself or in a helper), resp. with a string parameter
	// that deletes from <node>.clients; the batch operations (slice parameters) are not candidates
	hasParam := func(sig *types.Signature, pred func(types.Type) bool) bool {
		for i := 0; i < sig.Params().Len(); i++ {
			t := sig.Params().At(i).Type()
			if pred(t) {
				return true
			}
			// a parameter object of this package: its fields count (insert(sub topicSub))
			if pt, ok := t.(*types.Pointer); ok {
				t = pt.Elem()
			}
			if n, ok := t.(*types.Named); ok && n.Obj().Pkg() == e.pkg.Types {
				if st, ok := n.Underlying().(*types.Struct); ok {
					for j := 0; j < st.NumFields(); j++ {
						if pred(st.Field(j).Type()) {
							return true
						}
					}
				}
			}
		}
		return false
	}
	var insAll, remAll []*ast.FuncDecl
	e.decls(func(f *flow.Func, fd *ast.FuncDecl) {
		o := e.funcObj(fd)
		if o == nil {
			return
		}
		sig := o.Type().(*types.Signature)
		if hasParam(sig, bytes) || !hasParam(sig, str) {
			return
		}
		if rn := e.recvNamed(fd); rn != nil && rn != mgr && rn != r.nodeT {
			return
		}
		for _, b := range append(append([]*ast.FuncDecl{}, subC...), unsubC...) {
			if b == fd {
				return // a batch operation
			}
		}
		stores, deletes := false, false
		for _, g := range reach(f, 1) {
			for _, w := range e.trieWrites(g, g.Body) {
				if w.field != e.clientsF {
					continue
				}
				if w.store {
					stores = true
				} else if w.key != nil {
					deletes = true
				}
			}
		}
		if stores && hasParam(sig, c14isByte) {
			insAll = append(insAll, fd)
		}
		if deletes && !stores {
			remAll = append(remAll, fd)
		}
	})
	outermost := func(cands []*ast.FuncDecl) []*ast.FuncDecl {
		called := map[*ast.FuncDecl]bool{}
		for _, fd := range cands {
			g := funcOf(e.pkg, fd)
			for _, call := range calls(fd.Body, true) {
				fo := c14calleeOf(g, call)
				for _, other := range cands {
					if other != fd && fo != nil && fo == e.funcObj(other) {
						called[other] = true
					}
				}
			}
		}
		var out []*ast.FuncDecl
		for _, fd := range cands {
			if !called[fd] {
				out = append(out, fd)
			}
		}
		return out
	}
	insC, remC = outermost(insAll), outermost(remAll)
	r.fns["find"] = e.pick("TopicManager's matcher func(string) (map[string]byte, error)", "findSubscribers", findC)
	r.fns["subscribe"] = e.pick("TopicManager's batch subscribe func([]string, []byte, string) error", "subscribe", subC)
	r.fns["unsubscribe"] = e.pick("TopicManager's batch unsubscribe func([]string, string) error", "unsubscribe", unsubC)
	r.fns["insert"] = e.pick("the single-filter insert (records <node>.clients[client] = qos)", "insert", insC)
	r.fns["remove"] = e.pick("the single-filter remove (deletes from <node>.clients)", "remove", remC)
	r.fns["allSubscribes"] = e.pick("Session's subscription list func() ([]string, []byte, error)", "allSubscribes", allC)
	if r.split == nil || r.get == nil {
		return false
	}
	for _, k := range []string{"find", "subscribe", "unsubscribe", "insert", "remove", "allSubscribes"} {
		if r.fns[k] == nil {
			return false
		}
	}
	// level sources: every func(string) ([]string, error) whose reach contains the call of split
	// (get, a helper it delegates to, and wrappers such as getLevels)
	e.decls(func(f *flow.Func, fd *ast.FuncDecl) {
		o := e.funcObj(fd)
		if o == nil {
			return
		}
		sig := o.Type().(*types.Signature)
		if !c14sig(sig, []func(types.Type) bool{str}, []func(types.Type) bool{strs, c14isError}) {
			return
		}
		if reachContains(f, 3, func(h *flow.Func, n ast.Node) bool {
			call, ok := n.(*ast.CallExpr)
			return ok && c14calleeOf(h, call) == r.split.obj
		}) {
			r.sources[o] = true
		}
	})
	// ... and those that reach a source through a call the shared reach does not follow (a method of
	// an interface with a single implementation)
	for changed := true; changed; {
		changed = false
		e.decls(func(f *flow.Func, fd *ast.FuncDecl) {
			o := e.funcObj(fd)
			if o == nil || r.sources[o] {
				return
			}
			if !c14sig(o.Type().(*types.Signature), []func(types.Type) bool{str}, []func(types.Type) bool{strs, c14isError}) {
				return
			}
			for _, call := range calls(fd.Body, false) {
				if fo := c14calleeOf(f, call); fo != nil && r.sources[fo] {
					r.sources[o] = true
					changed = true
					return
				}
			}
		})
	}
	return true
}

// role returns the function playing a role (never nil after resolveRoles succeeded).
func (e *c14env) role(name string) *c14fn { return e.roles.fns[name] }

// isSource reports whether call invokes a level source.
func (e *c14env) isSource(g *flow.Func, call *ast.CallExpr) bool {
	fo := c14calleeOf(g, call)
	return fo != nil && e.roles.sources[fo]
}

// sourceCalls lists the level-source calls below root.
func (e *c14env) sourceCalls(g *flow.Func, root ast.Node, lits bool) []*ast.CallExpr {
	var out []*ast.CallExpr
	for _, call := range calls(root, lits) {
		if e.isSource(g, call) {
			out = append(out, call)
		}
	}
	return out
}

// callsToFn lists the calls below root whose (resolved) callee is one of objs.
func c14callsToFn(g *flow.Func, root ast.Node, lits bool, objs ...*types.Func) []*ast.CallExpr {
	var out []*ast.CallExpr
	for _, call := range calls(root, lits) {
		fo := c14calleeOf(g, call)
		for _, o := range objs {
			if fo != nil && fo == o {
				out = append(out, call)
			}
		}
	}
	return out
}

// ---------------------------------------------------------------------------------------
// method values: `h := x.m; h(..)` resolves to m with receiver x

// c14funcValue resolves a local function-valued variable through its single assignment.
func c14funcValue(g *flow.Func, id *ast.Ident) (*types.Func, ast.Expr) {
	v, ok := g.Info.Uses[id].(*types.Var)
	if !ok {
		v, ok = g.Info.Defs[id].(*types.Var)
	}
	if !ok || v.IsField() || v.Parent() == nil || v.Pkg() == nil || v.Parent() == v.Pkg().Scope() {
		return nil, nil
	}
	var rhs ast.Expr
	n := 0
	ast.Inspect(g.Body, func(x ast.Node) bool {
		switch t := x.(type) {
		case *ast.AssignStmt:
			for i, l := range t.Lhs {
				if lid, ok := l.(*ast.Ident); ok && (g.Info.Defs[lid] == v || g.Info.Uses[lid] == v) {
					n++
					if len(t.Lhs) == len(t.Rhs) {
						rhs = t.Rhs[i]
					}
				}
			}
		case *ast.ValueSpec:
			for i, nm := range t.Names {
				if g.Info.Defs[nm] == v {
					n++
					if i < len(t.Values) {
						rhs = t.Values[i]
					}
				}
			}
		}
		return true
	})
	if n != 1 || rhs == nil {
		return nil, nil
	}
	switch r := ast.Unparen(rhs).(type) {
	case *ast.SelectorExpr:
		if s := g.Info.Selections[r]; s != nil && s.Kind() == types.MethodVal {
			if fo, ok := s.Obj().(*types.Func); ok {
				return fo, r.X
			}
		}
		if fo, ok := g.Info.Uses[r.Sel].(*types.Func); ok {
			return fo, nil
		}
	case *ast.Ident:
		if fo, ok := g.Info.Uses[r].(*types.Func); ok {
			return fo, nil
		}
	}
	return nil, nil
}

// c14calleeOf is flow.Func.Callee that also sees through a method value held in a local.
func c14calleeOf(g *flow.Func, call *ast.CallExpr) *types.Func {
	if fo, ok := g.Callee(call).(*types.Func); ok {
		return c14ifaceImpl(fo)
	}
	if id, ok := ast.Unparen(call.Fun).(*ast.Ident); ok {
		fo, _ := c14funcValue(g, id)
		return fo
	}
	return nil
}

// c14recvOf returns the receiver expression of a (possibly method-value) call.
func c14recvOf(g *flow.Func, call *ast.CallExpr) ast.Expr {
	switch fn := ast.Unparen(call.Fun).(type) {
	case *ast.SelectorExpr:
		if s := g.Info.Selections[fn]; s != nil {
			return fn.X
		}
	case *ast.Ident:
		_, x := c14funcValue(g, fn)
		return x
	}
	return nil
}

// ---------------------------------------------------------------------------------------
// loops: range-with-value, range-with-key + `v := s[k]`, and `for i := 0; i < len(s); i++` + `v := s[i]`

type c14iter struct {
	stmt  ast.Stmt
	body  *ast.BlockStmt
	slice ast.Expr     // the iterated expression
	elem  types.Object // the element variable (nil if none is bound)
	key   types.Object
}

// c14iterOf describes what a loop iterates over (nil when it is not an element-wise loop over
// one expression).
func c14iterOf(g *flow.Func, loop ast.Stmt) *c14iter {
	bindElem := func(body *ast.BlockStmt, slice ast.Expr, key types.Object) types.Object {
		if key == nil {
			return nil
		}
		want := g.Render(slice)
		var elem types.Object
		for _, s := range body.List {
			as, ok := s.(*ast.AssignStmt)
			if !ok || len(as.Lhs) != len(as.Rhs) {
				continue
			}
			for i, r := range as.Rhs {
				if ix, ok := ast.Unparen(r).(*ast.IndexExpr); ok && g.Render(ix.X) == want && c14obj(g, ix.Index) == key {
					if o := c14obj(g, as.Lhs[i]); o != nil && elem == nil {
						elem = o
					}
				}
			}
		}
		return elem
	}
	switch l := loop.(type) {
	case *ast.RangeStmt:
		it := &c14iter{stmt: l, body: l.Body, slice: l.X}
		if l.Key != nil {
			if id, ok := l.Key.(*ast.Ident); ok && id.Name != "_" {
				it.key = c14obj(g, id)
			}
		}
		if l.Value != nil {
			if id, ok := l.Value.(*ast.Ident); ok && id.Name != "_" {
				it.elem = c14obj(g, id)
			}
		}
		if _, isSlice := g.Info.Types[l.X].Type.Underlying().(*types.Slice); isSlice && it.elem == nil {
			it.elem = bindElem(l.Body, l.X, it.key)
		}
		return it
	case *ast.ForStmt:
		init, ok1 := l.Init.(*ast.AssignStmt)
		post, ok2 := l.Post.(*ast.IncDecStmt)
		cond, ok3 := ast.Unparen(l.Cond).(*ast.BinaryExpr)
		if !ok1 || !ok2 || !ok3 || len(init.Lhs) != 1 || len(init.Rhs) != 1 || post.Tok.String() != "++" {
			return nil
		}
		iv := c14obj(g, init.Lhs[0])
		if iv == nil || c14obj(g, post.X) != iv {
			return nil
		}
		if tv, ok := g.Info.Types[init.Rhs[0]]; !ok || tv.Value == nil || tv.Value.ExactString() != "0" {
			return nil
		}
		lenArg := func(x ast.Expr) ast.Expr {
			c, ok := ast.Unparen(x).(*ast.CallExpr)
			if ok && c14isBuiltin(g, c, "len") && len(c.Args) == 1 {
				return c.Args[0]
			}
			return nil
		}
		var slice ast.Expr
		switch {
		case (cond.Op.String() == "<" || cond.Op.String() == "!=") && c14obj(g, cond.X) == iv:
			slice = lenArg(cond.Y)
		case cond.Op.String() == ">" && c14obj(g, cond.Y) == iv:
			slice = lenArg(cond.X)
		}
		if slice == nil {
			return nil
		}
		// the index variable is not written in the body
		written := false
		ast.Inspect(l.Body, func(n ast.Node) bool {
			switch t := n.(type) {
			case *ast.AssignStmt:
				for _, x := range t.Lhs {
					if c14obj(g, x) == iv {
						written = true
					}
				}
			case *ast.IncDecStmt:
				if c14obj(g, t.X) == iv {
					written = true
				}
			}
			return true
		})
		if written {
			return nil
		}
		it := &c14iter{stmt: l, body: l.Body, slice: slice, key: iv}
		it.elem = bindElem(l.Body, slice, iv)
		return it
	}
	return nil
}

// c14loops lists the for/range statements below root (function literals excluded).
func c14loops(root ast.Node) []ast.Stmt {
	var out []ast.Stmt
	ast.Inspect(root, func(n ast.Node) bool {
		switch t := n.(type) {
		case *ast.FuncLit:
			return false
		case *ast.RangeStmt:
			out = append(out, t)
		case *ast.ForStmt:
			out = append(out, t)
		}
		return true
	})
	return out
}

// ---------------------------------------------------------------------------------------
// aliases across helper calls: which caller expressions a parameter stands for

type c14binding struct {
	in  *flow.Func
	arg ast.Expr
}

// c14bindings maps every parameter / receiver variable of the same-package functions reached
// from f to the argument expressions it is bound to at the call sites within that reach.
func c14bindings(f *flow.Func, depth int) map[types.Object][]c14binding {
	out := map[types.Object][]c14binding{}
	for _, g := range reach(f, depth) {
		g := g
		for _, call := range calls(g.Body, true) {
			fo := c14calleeOf(g, call)
			if fo == nil || fo.Pkg() != g.Pkg.Types {
				continue
			}
			fd := declOf(g.Pkg, fo)
			if fd == nil {
				continue
			}
			if fd.Recv != nil && len(fd.Recv.List) == 1 && len(fd.Recv.List[0].Names) == 1 {
				if x := c14recvOf(g, call); x != nil {
					if o := g.Info.Defs[fd.Recv.List[0].Names[0]]; o != nil {
						out[o] = append(out[o], c14binding{g, x})
					}
				}
			}
			i := 0
			for _, fld := range fd.Type.Params.List {
				for _, nm := range fld.Names {
					if i < len(call.Args) {
						if o := g.Info.Defs[nm]; o != nil {
							out[o] = append(out[o], c14binding{g, call.Args[i]})
						}
					}
					i++
				}
				if len(fld.Names) == 0 {
					i++
				}
			}
		}
	}
	return out
}

// c14denotes reports whether variable o (of any function in the reach) stands for target: it is
// target, a parameter bound to expressions that denote target at every call site, or a local
// defined once from an identifier that denotes target.
func c14denotes(b map[types.Object][]c14binding, g *flow.Func, o, target types.Object, depth int) bool {
	if o == nil || target == nil {
		return false
	}
	if o == target {
		return true
	}
	if depth <= 0 {
		return false
	}
	if bs := b[o]; len(bs) > 0 {
		for _, bd := range bs {
			if !c14denotes(b, bd.in, c14obj(bd.in, bd.arg), target, depth-1) {
				return false
			}
		}
		return true
	}
	return false
}

// c14fieldByType returns the single field of the named struct type (of the mqttproxy package)
// whose type satisfies pred; a missing or ambiguous field is a checker error.
func c14fieldByType(c *core.Ctx, typ string, pred func(types.Type) bool) *types.Var {
	n := namedType(c, mq, typ)
	if n == nil {
		return nil
	}
	st, ok := n.Underlying().(*types.Struct)
	if !ok {
		c.Errorf("anchor: %s.%s is not a struct", mq, typ)
		return nil
	}
	var found []*types.Var
	for i := 0; i < st.NumFields(); i++ {
		if pred(st.Field(i).Type()) {
			found = append(found, st.Field(i))
		}
	}
	if len(found) != 1 {
		c.Errorf("anchor: %s.%s: %d fields of the expected type, want exactly 1", mq, typ, len(found))
		return nil
	}
	return found[0]
}

// c14selectiveInline returns a flow.Config.Inline function that interprets in place only the
// same-package functions reached from f for which direct reports true, and the functions on the
// call paths to them (keeps the state space small: unrelated callees stay opaque).
func (e *c14env) selectiveInline(f *flow.Func, depth int, direct func(g *flow.Func) bool) func(*ast.CallExpr, *types.Func) *flow.Func {
	relevant := map[types.Object]bool{}
	rfs := reach(f, depth)
	objOf := func(g *flow.Func) types.Object {
		if gd, ok := g.Node.(*ast.FuncDecl); ok {
			return e.funcObj(gd)
		}
		return nil
	}
	for _, g := range rfs {
		if g != f && direct(g) {
			if o := objOf(g); o != nil {
				relevant[o] = true
			}
		}
	}
	for changed := true; changed; {
		changed = false
		for _, g := range rfs {
			o := objOf(g)
			if g == f || o == nil || relevant[o] {
				continue
			}
			for _, call := range calls(g.Body, false) {
				if fo := c14calleeOf(g, call); fo != nil && relevant[fo] {
					relevant[o] = true
					changed = true
					break
				}
			}
		}
	}
	base := inlineSamePkg(f)
	return func(call *ast.CallExpr, callee *types.Func) *flow.Func {
		if callee == nil || !relevant[callee] {
			return nil
		}
		return base(call, callee)
	}
}

// sessionTopicFns returns the Session methods that (directly or through a helper they call) add
// an element to SessionInfo.Topics (records) and those that delete one (forgets).
func (e *c14env) sessionTopicFns() (records, forgets map[*types.Func]bool) {
	records, forgets = map[*types.Func]bool{}, map[*types.Func]bool{}
	topicsF := structField(e.c, mq, "SessionInfo", "Topics")
	if topicsF == nil {
		return
	}
	e.decls(func(f *flow.Func, fd *ast.FuncDecl) {
		recv := c14recvObj(f, fd)
		o := e.funcObj(fd)
		if recv == nil || o == nil || !c14isNamed(recv.Type(), mq, "Session") {
			return
		}
		for _, g := range reach(f, 1) {
			g := g
			ast.Inspect(g.Body, func(n ast.Node) bool {
				switch t := n.(type) {
				case *ast.AssignStmt:
					for _, l := range t.Lhs {
						if ix, ok := ast.Unparen(l).(*ast.IndexExpr); ok {
							if _, isT := c14fieldRecv(g, ix.X, topicsF); isT {
								records[o] = true
							}
						}
					}
				case *ast.CallExpr:
					if c14isBuiltin(g, t, "delete", "clear") && len(t.Args) >= 1 {
						if _, isT := c14fieldRecv(g, t.Args[0], topicsF); isT {
							forgets[o] = true
						}
					}
				}
				return true
			})
		}
	})
	return
}

// ---------------------------------------------------------------------------------------
// lock wrappers: `func (mgr *TopicManager) withWriteLock(f func() error) error { mgr.Lock(); defer mgr.Unlock(); return f() }`

type c14wrapper struct {
	param int  // index of the function-typed parameter
	write bool // takes the write lock (else the read lock)
}

// lockWrappers finds the same-package functions that take the manager's lock, call their
// function-typed parameter exactly once while holding it and hand its result back.
func (e *c14env) lockWrappers() map[*types.Func]c14wrapper {
	if e.wrappers != nil {
		return e.wrappers
	}
	e.wrappers = map[*types.Func]c14wrapper{}
	e.decls(func(f *flow.Func, fd *ast.FuncDecl) {
		o := e.funcObj(fd)
		if o == nil {
			return
		}
		params := c14params(f)
		pi := -1
		for i, p := range params {
			if sig, ok := p.Type().Underlying().(*types.Signature); ok && sig.Params().Len() == 0 {
				if pi >= 0 {
					return
				}
				pi = i
			}
		}
		if pi < 0 {
			return
		}
		var pcalls []*ast.CallExpr
		locks := false
		for _, call := range calls(fd.Body, true) {
			if id, ok := ast.Unparen(call.Fun).(*ast.Ident); ok && f.Info.Uses[id] == params[pi] {
				pcalls = append(pcalls, call)
			}
			if _, m := c14lockRecv(f, call, f.Callee(call)); m == "Lock" || m == "RLock" {
				locks = true
			}
		}
		if len(pcalls) != 1 || !locks {
			return
		}
		// the parameter's result is what the wrapper returns
		if fd.Type.Results != nil && len(fd.Type.Results.List) > 0 {
			direct := false
			ast.Inspect(fd.Body, func(n ast.Node) bool {
				if r, ok := n.(*ast.ReturnStmt); ok && len(r.Results) == 1 && ast.Unparen(r.Results[0]) == ast.Expr(pcalls[0]) {
					direct = true
				}
				return true
			})
			if !direct {
				return
			}
		}
		res := analyze(e.c, f, flow.Config{NoHavoc: true,
			OnCall: func(st *flow.State, call *ast.CallExpr, callee types.Object, d bool) {
				c14lockEvent(f, st, call, callee)
			}})
		if res == nil || len(res.At[pcalls[0]]) == 0 {
			return
		}
		w, r := true, true
		for _, st := range res.At[pcalls[0]] {
			if !c14held(st, true) {
				w = false
			}
			if !c14held(st, false) {
				r = false
			}
		}
		if r {
			e.wrappers[o] = c14wrapper{param: pi, write: w}
		}
	})
	return e.wrappers
}

// wrappedLit reports whether lit is the closure handed to a lock wrapper by call.
func (e *c14env) wrappedLit(g *flow.Func, call *ast.CallExpr, lit *ast.FuncLit) (c14wrapper, bool) {
	fo := c14calleeOf(g, call)
	if fo == nil {
		return c14wrapper{}, false
	}
	w, ok := e.lockWrappers()[fo]
	if !ok || w.param >= len(call.Args) || ast.Unparen(call.Args[w.param]) != ast.Expr(lit) {
		return c14wrapper{}, false
	}
	return w, true
}

// lockedBody: when the body of f is `return <wrapper>(func() T { ... })` (or the call as its only
// statement) the closure is f's effective body, run under the wrapper's lock.
func (e *c14env) lockedBody(f *flow.Func) (*flow.Func, c14wrapper, bool) {
	if f == nil || f.Body == nil || len(f.Body.List) != 1 {
		return nil, c14wrapper{}, false
	}
	var call *ast.CallExpr
	switch s := f.Body.List[0].(type) {
	case *ast.ReturnStmt:
		if len(s.Results) == 1 {
			call, _ = ast.Unparen(s.Results[0]).(*ast.CallExpr)
		}
	case *ast.ExprStmt:
		call, _ = ast.Unparen(s.X).(*ast.CallExpr)
	}
	if call == nil {
		return nil, c14wrapper{}, false
	}
	for _, a := range call.Args {
		if lit, ok := ast.Unparen(a).(*ast.FuncLit); ok {
			if w, ok := e.wrappedLit(f, call, lit); ok {
				return f.Lit(lit), w, true
			}
		}
	}
	return nil, c14wrapper{}, false
}

// c14readOnlyAlias: id is a local variable assigned exactly once, from a selection of field fld
// (`clients := node.clients`), and only read afterwards (ranged over, indexed on the right-hand side,
// measured) — a spelling of the field, not an escape. Returns the receiver of the selection.
func c14readOnlyAlias(f *flow.Func, x ast.Expr, fld *types.Var) (ast.Expr, bool) {
	id, ok := ast.Unparen(x).(*ast.Ident)
	if !ok {
		return nil, false
	}
	v, _ := f.Info.Uses[id].(*types.Var)
	if v == nil {
		v, _ = f.Info.Defs[id].(*types.Var)
	}
	if v == nil || v.IsField() || v.Pkg() == nil || v.Parent() == v.Pkg().Scope() {
		return nil, false
	}
	var rhs ast.Expr
	defs, written := 0, false
	pm := parentMap(f.Body)
	ast.Inspect(f.Body, func(n ast.Node) bool {
		switch t := n.(type) {
		case *ast.AssignStmt:
			for i, l := range t.Lhs {
				l = ast.Unparen(l)
				if lid, ok := l.(*ast.Ident); ok && (f.Info.Defs[lid] == v || f.Info.Uses[lid] == v) {
					defs++
					if len(t.Lhs) == len(t.Rhs) {
						rhs = t.Rhs[i]
					}
				}
				if ix, ok := l.(*ast.IndexExpr); ok && c14obj(f, ix.X) == v {
					written = true
				}
			}
		case *ast.IncDecStmt:
			if ix, ok := ast.Unparen(t.X).(*ast.IndexExpr); ok && c14obj(f, ix.X) == v {
				written = true
			}
		case *ast.Ident:
			if f.Info.Uses[t] != v {
				return true
			}
			switch p := pm[t].(type) {
			case *ast.CallExpr:
				if !c14isBuiltin(f, p, "len") {
					written = true // delete / clear / handed to another function
				}
			case *ast.UnaryExpr, *ast.ReturnStmt, *ast.CompositeLit, *ast.KeyValueExpr:
				written = true
			case *ast.AssignStmt:
				for _, r := range p.Rhs {
					if ast.Unparen(r) == ast.Expr(t) {
						written = true // aliased further
					}
				}
			}
		}
		return true
	})
	if defs != 1 || written || rhs == nil {
		return nil, false
	}
	return c14fieldRecv(f, rhs, fld)
}

// c14fieldOrAlias is c14fieldRecv that also accepts a read-only local alias of the field.
func c14fieldOrAlias(f *flow.Func, x ast.Expr, fld *types.Var) (ast.Expr, bool) {
	if r, ok := c14fieldRecv(f, x, fld); ok {
		return r, true
	}
	return c14readOnlyAlias(f, x, fld)
}

var c14implMemo = map[*types.Func]*types.Func{}

// c14ifaceImpl resolves a method of an unexported interface declared in its own package to the
// method of the single named type of that package that implements the interface (an interface put
// in front of a dependency with one implementation behind it); any other function is returned as is.
func c14ifaceImpl(fo *types.Func) *types.Func {
	if fo == nil || fo.Pkg() == nil {
		return fo
	}
	sig, _ := fo.Type().(*types.Signature)
	if sig == nil || sig.Recv() == nil {
		return fo
	}
	named, ok := sig.Recv().Type().(*types.Named)
	if !ok || named.Obj().Pkg() != fo.Pkg() || named.Obj().Exported() {
		return fo
	}
	iface, ok := named.Underlying().(*types.Interface)
	if !ok {
		return fo
	}
	if r, seen := c14implMemo[fo]; seen {
		return r
	}
	var impl []*types.Func
	scope := fo.Pkg().Scope()
	for _, name := range scope.Names() {
		tn, ok := scope.Lookup(name).(*types.TypeName)
		if !ok || tn.IsAlias() {
			continue
		}
		t, ok := tn.Type().(*types.Named)
		if !ok || t == named {
			continue
		}
		if _, isIface := t.Underlying().(*types.Interface); isIface {
			continue
		}
		for _, cand := range []types.Type{t, types.NewPointer(t)} {
			if types.Implements(cand, iface) {
				if o, _, _ := types.LookupFieldOrMethod(cand, true, fo.Pkg(), fo.Name()); o != nil {
					if m, ok := o.(*types.Func); ok {
						impl = append(impl, m)
					}
				}
				break
			}
		}
	}
	res := fo
	if len(impl) == 1 {
		res = impl[0]
	}
	c14implMemo[fo] = res
	return res
}

// ---------------------------------------------------------------------------------------
// callback iterators: `func (n *topicNode) forEachClient(fn func(string, byte)) { for k, v := range n.clients { fn(k, v) } }`

type c14iterator struct {
	field *types.Var // clients or nodes
	node  int        // index of the node parameter (-1 = receiver)
	fn    int        // index of the function parameter
}

// findIterators resolves the iterator role: a function whose body ranges over <node>.clients /
// <node>.nodes (node = receiver or parameter) and hands exactly (key, value) of every entry to its
// function-typed parameter.
func (e *c14env) findIterators() {
	e.iterators = map[*types.Func]c14iterator{}
	e.decls(func(f *flow.Func, fd *ast.FuncDecl) {
		o := e.funcObj(fd)
		if o == nil {
			return
		}
		recv := c14recvObj(f, fd)
		params := c14params(f)
		for _, rs := range c14ranges(fd.Body) {
			for _, fld := range []*types.Var{e.clientsF, e.nodesF} {
				x, ok := c14fieldOrAlias(f, rs.X, fld)
				if !ok || rs.Key == nil || rs.Value == nil {
					continue
				}
				no := c14obj(f, x)
				ni := -2
				if no != nil && no == recv {
					ni = -1
				}
				for i, p := range params {
					if p == no {
						ni = i
					}
				}
				if ni == -2 || len(rs.Body.List) != 1 {
					continue
				}
				// the body is exactly fn(key, value) (possibly `if !fn(k, v) { return/break }` is NOT accepted)
				es, ok := rs.Body.List[0].(*ast.ExprStmt)
				if !ok {
					continue
				}
				call, ok := es.X.(*ast.CallExpr)
				if !ok || len(call.Args) != 2 || c14obj(f, call.Args[0]) != c14obj(f, rs.Key) || c14obj(f, call.Args[1]) != c14obj(f, rs.Value) {
					continue
				}
				id, ok := ast.Unparen(call.Fun).(*ast.Ident)
				if !ok {
					continue
				}
				for i, p := range params {
					if f.Info.Uses[id] == p {
						if _, isFn := p.Type().Underlying().(*types.Signature); isFn {
							e.iterators[o] = c14iterator{field: fld, node: ni, fn: i}
						}
					}
				}
			}
		}
	})
}

// c14litOf resolves x to a function literal: the literal itself, or a local assigned exactly once
// from one (`visit := func(..) {..}`).
func c14litOf(g *flow.Func, x ast.Expr) *ast.FuncLit {
	x = ast.Unparen(x)
	if lit, ok := x.(*ast.FuncLit); ok {
		return lit
	}
	id, ok := x.(*ast.Ident)
	if !ok {
		return nil
	}
	v := c14obj(g, id)
	if v == nil {
		return nil
	}
	var lit *ast.FuncLit
	defs := 0
	ast.Inspect(g.Body, func(n ast.Node) bool {
		switch t := n.(type) {
		case *ast.AssignStmt:
			for i, l := range t.Lhs {
				if c14obj(g, l) == v {
					defs++
					if len(t.Lhs) == len(t.Rhs) {
						lit, _ = ast.Unparen(t.Rhs[i]).(*ast.FuncLit)
					}
				}
			}
		case *ast.ValueSpec:
			for i, nm := range t.Names {
				if g.Info.Defs[nm] == v {
					defs++
					if i < len(t.Values) {
						lit, _ = ast.Unparen(t.Values[i]).(*ast.FuncLit)
					}
				}
			}
		}
		return true
	})
	if defs != 1 {
		return nil
	}
	return lit
}

// iterCall describes a call of an iterator over field fld: the node it iterates and the closure it runs.
func (e *c14env) iterCall(g *flow.Func, call *ast.CallExpr, fld *types.Var) (node ast.Expr, lit *ast.FuncLit, ok bool) {
	fo := c14calleeOf(g, call)
	if fo == nil {
		return nil, nil, false
	}
	it, isIt := e.iterators[fo]
	if !isIt || it.field != fld || it.fn >= len(call.Args) {
		return nil, nil, false
	}
	if it.node == -1 {
		node = c14recvOf(g, call)
	} else if it.node < len(call.Args) {
		node = call.Args[it.node]
	}
	lit = c14litOf(g, call.Args[it.fn])
	return node, lit, node != nil && lit != nil
}

// collectLit: the closure stores exactly m[p0] = p1 (its two parameters) into a map m.
func c14collectLit(g *flow.Func, lit *ast.FuncLit) (dst ast.Expr, ok bool) {
	var ps []types.Object
	for _, fld := range lit.Type.Params.List {
		for _, nm := range fld.Names {
			ps = append(ps, g.Info.Defs[nm])
		}
	}
	if len(ps) != 2 || len(lit.Body.List) != 1 {
		return nil, false
	}
	as, isAs := lit.Body.List[0].(*ast.AssignStmt)
	if !isAs || len(as.Lhs) != 1 || len(as.Rhs) != 1 {
		return nil, false
	}
	ix, isIx := ast.Unparen(as.Lhs[0]).(*ast.IndexExpr)
	if !isIx || c14obj(g, ix.Index) != ps[0] || c14obj(g, as.Rhs[0]) != ps[1] {
		return nil, false
	}
	return ix.X, true
}

// ---------------------------------------------------------------------------------------
// primitives of a named map type (`type subscriberSet map[string]byte` with put / drop / copyTo):
// a method whose receiver is the map and whose body is `s[k] = v`, `delete(s, k)` or a range over
// s copying into a map parameter is the store / delete / collect primitive at its call site.

type c14prim struct {
	kind     string // "put", "drop", "copy"
	key, val int    // parameter indexes (put: key, val; drop: key; copy: val = destination map)
}

func (e *c14env) mapPrim(fo *types.Func) (c14prim, bool) {
	if fo == nil || fo.Pkg() != e.pkg.Types {
		return c14prim{}, false
	}
	if e.prims == nil {
		e.prims = map[*types.Func]*c14prim{}
	}
	if p, seen := e.prims[fo]; seen {
		if p == nil {
			return c14prim{}, false
		}
		return *p, true
	}
	e.prims[fo] = nil
	hd := declOf(e.pkg, fo)
	if hd == nil || hd.Recv == nil {
		return c14prim{}, false
	}
	h := funcOf(e.pkg, hd)
	recv := c14recvObj(h, hd)
	if recv == nil {
		return c14prim{}, false
	}
	if _, isMap := recv.Type().Underlying().(*types.Map); !isMap {
		return c14prim{}, false
	}
	if _, isNamed := recv.Type().(*types.Named); !isNamed {
		return c14prim{}, false
	}
	params := c14params(h)
	idx := func(x ast.Expr) int {
		o := c14obj(h, x)
		for i, p := range params {
			if p == o && o != nil {
				return i
			}
		}
		return -1
	}
	if len(hd.Body.List) != 1 {
		return c14prim{}, false
	}
	var res *c14prim
	switch st := hd.Body.List[0].(type) {
	case *ast.AssignStmt:
		if len(st.Lhs) == 1 && len(st.Rhs) == 1 {
			if ix, ok := ast.Unparen(st.Lhs[0]).(*ast.IndexExpr); ok && c14obj(h, ix.X) == recv && idx(ix.Index) >= 0 && idx(st.Rhs[0]) >= 0 {
				res = &c14prim{kind: "put", key: idx(ix.Index), val: idx(st.Rhs[0])}
			}
		}
	case *ast.ExprStmt:
		if call, ok := st.X.(*ast.CallExpr); ok && c14isBuiltin(h, call, "delete") && len(call.Args) == 2 && c14obj(h, call.Args[0]) == recv && idx(call.Args[1]) >= 0 {
			res = &c14prim{kind: "drop", key: idx(call.Args[1])}
		}
	case *ast.RangeStmt:
		if c14obj(h, st.X) == recv && st.Key != nil && st.Value != nil && len(st.Body.List) == 1 {
			if as, ok := st.Body.List[0].(*ast.AssignStmt); ok && len(as.Lhs) == 1 && len(as.Rhs) == 1 {
				if ix, ok := ast.Unparen(as.Lhs[0]).(*ast.IndexExpr); ok && idx(ix.X) >= 0 && c14obj(h, ix.Index) == c14obj(h, st.Key) && c14obj(h, as.Rhs[0]) == c14obj(h, st.Value) {
					res = &c14prim{kind: "copy", val: idx(ix.X)}
				}
			}
		}
	}
	e.prims[fo] = res
	if res == nil {
		return c14prim{}, false
	}
	return *res, true
}

// primCall: call is `<x>.<field>.<prim>(..)` with field one of the trie maps.
func (e *c14env) primCall(g *flow.Func, call *ast.CallExpr) (c14prim, *types.Var, ast.Expr, bool) {
	p, ok := e.mapPrim(c14calleeOf(g, call))
	if !ok {
		return c14prim{}, nil, nil, false
	}
	r := c14recvOf(g, call)
	if r == nil {
		return c14prim{}, nil, nil, false
	}
	for _, fld := range []*types.Var{e.clientsF, e.nodesF} {
		if node, isFld := c14fieldRecv(g, r, fld); isFld {
			return p, fld, node, true
		}
	}
	return c14prim{}, nil, nil, false
}
