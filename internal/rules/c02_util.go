package rules

import (
	"go/ast"
	"go/constant"
	"go/token"
	"go/types"
	"reflect"
	"strconv"
	"strings"

	"golang.org/x/tools/go/cfg"

	"verif/internal/core"
	"verif/internal/flow"
	"verif/internal/load"
)

// Helpers private to C02.

const (
	c02pl = "pkg/object/pipeline"
	c02gf = "pkg/object/globalfilter"
	c02fl = "pkg/filters"
)

// c02FieldByYAML resolves a struct field by its yaml key (the configuration contract), which
// is the role of the field; the Go name of the field is irrelevant.
func c02FieldByYAML(c *core.Ctx, rel, typ, key string) *types.Var {
	n := namedType(c, rel, typ)
	if n == nil {
		return nil
	}
	st, ok := n.Underlying().(*types.Struct)
	if !ok {
		c.Errorf("anchor: %s.%s is not a struct", rel, typ)
		return nil
	}
	for i := 0; i < st.NumFields(); i++ {
		tag := reflect.StructTag(st.Tag(i)).Get("yaml")
		if name := strings.Split(tag, ",")[0]; name == key {
			return st.Field(i)
		}
	}
	c.Errorf("anchor: no field of %s.%s has yaml key %q", rel, typ, key)
	return nil
}

// c02FieldByType resolves the (single) field of a struct whose type satisfies pred.
func c02FieldByType(c *core.Ctx, rel, typ, what string, pred func(types.Type) bool) *types.Var {
	n := namedType(c, rel, typ)
	if n == nil {
		return nil
	}
	st, ok := n.Underlying().(*types.Struct)
	if !ok {
		c.Errorf("anchor: %s.%s is not a struct", rel, typ)
		return nil
	}
	var found *types.Var
	for i := 0; i < st.NumFields(); i++ {
		if pred(st.Field(i).Type()) {
			if found != nil {
				c.Errorf("anchor: %s.%s has more than one field of type %s", rel, typ, what)
				return nil
			}
			found = st.Field(i)
		}
	}
	if found == nil {
		c.Errorf("anchor: %s.%s has no field of type %s", rel, typ, what)
	}
	return found
}

func c02IsNamed(t types.Type, path, name string) bool {
	if p, ok := t.(*types.Pointer); ok {
		t = p.Elem()
	}
	n, ok := t.(*types.Named)
	return ok && n.Obj().Pkg() != nil && n.Obj().Pkg().Path() == path && n.Obj().Name() == name
}

// c02Defs records, for every local variable of a function (and of the same-package helpers it
// reaches), how often it is (re)defined and the right-hand side of the definition when it is a
// plain 1:1 assignment. Helpers with exactly one call site inside the covered functions have
// their parameters and receiver bound to the operands of that call, so that `h(node)` with
// `func h(n *FlowNode)` makes n a name for node; `x := h()` with a helper that always returns
// the same local makes x a name for that local.
type c02Defs struct {
	f     *flow.Func
	n     map[types.Object]int
	rhs   map[types.Object]ast.Expr
	taken map[types.Object]bool // address taken or assigned inside a closure
	// tuple definitions `a, b := h(..)`: the call and the result index
	rhsCall map[types.Object]*ast.CallExpr
	rhsIdx  map[types.Object]int
	funcs   []*flow.Func                 // covered functions, f first
	site    map[*flow.Func]*ast.CallExpr // the single call site of a covered helper
	siteFn  map[*flow.Func]*flow.Func    // the covered function containing that call site
	byObj   map[types.Object]*flow.Func  // function object → covered function
	parents map[*flow.Func]map[ast.Node]ast.Node
	// callback iterators: a function literal handed to a covered helper that calls that parameter at
	// exactly one place is executed there (`walkBackward(flow, func(node *FlowNode) {..})` with
	// `fn(&flow[i])` inside the helper's loop): the literal's parameters name that call's operands
	litSite map[*ast.FuncLit]*ast.CallExpr
}

func c02NewDefs(f *flow.Func) *c02Defs { return c02ReachDefs(f, 0) }

func c02FuncObj(g *flow.Func) types.Object {
	if fd, ok := g.Node.(*ast.FuncDecl); ok {
		return g.Info.Defs[fd.Name]
	}
	return nil
}

func c02ReachDefs(f *flow.Func, depth int) *c02Defs {
	d := &c02Defs{f: f, n: map[types.Object]int{}, rhs: map[types.Object]ast.Expr{}, taken: map[types.Object]bool{},
		rhsCall: map[types.Object]*ast.CallExpr{}, rhsIdx: map[types.Object]int{},
		site: map[*flow.Func]*ast.CallExpr{}, siteFn: map[*flow.Func]*flow.Func{}, byObj: map[types.Object]*flow.Func{},
		parents: map[*flow.Func]map[ast.Node]ast.Node{}}
	d.funcs = []*flow.Func{f}
	if depth > 0 {
		d.funcs = reach(f, depth)
	}
	for _, g := range d.funcs {
		if o := c02FuncObj(g); o != nil {
			d.byObj[o] = g
		}
	}
	// call sites of the covered helpers inside the covered functions
	nsites := map[*flow.Func]int{}
	for _, g := range d.funcs {
		g := g
		ast.Inspect(g.Body, func(n ast.Node) bool {
			if call, ok := n.(*ast.CallExpr); ok {
				if fo, ok := g.Callee(call).(*types.Func); ok {
					if h := d.byObj[fo.Origin()]; h != nil && h != f {
						nsites[h]++
						d.site[h], d.siteFn[h] = call, g
					}
				}
			}
			return true
		})
	}
	for h, k := range nsites {
		if k != 1 {
			delete(d.site, h)
			delete(d.siteFn, h)
		}
	}
	for _, g := range d.funcs {
		d.addFunc(g)
	}
	d.bindLits()
	return d
}

// bindLits binds the parameters of function literals passed to covered single-site helpers.
func (d *c02Defs) bindLits() {
	d.litSite = map[*ast.FuncLit]*ast.CallExpr{}
	f := d.f
	for h, call := range d.site {
		sig, _ := c02FuncObj(h).Type().(*types.Signature)
		if sig == nil || sig.Variadic() || h.Type.Params == nil {
			continue
		}
		// parameter identifiers of h in order
		var params []*ast.Ident
		for _, fld := range h.Type.Params.List {
			if len(fld.Names) == 0 {
				params = append(params, nil)
			}
			params = append(params, fld.Names...)
		}
		for k, arg := range call.Args {
			lit, ok := ast.Unparen(arg).(*ast.FuncLit)
			if !ok || k >= len(params) || params[k] == nil {
				continue
			}
			po := f.Info.Defs[params[k]]
			if po == nil || d.n[po] != 1 {
				continue
			}
			var inv []*ast.CallExpr
			other := false
			ast.Inspect(h.Body, func(n ast.Node) bool {
				switch x := n.(type) {
				case *ast.CallExpr:
					if id, ok := ast.Unparen(x.Fun).(*ast.Ident); ok && f.Info.Uses[id] == po {
						inv = append(inv, x)
					}
				case *ast.Ident:
					if f.Info.Uses[x] == po {
						other = true
					}
				}
				return true
			})
			// every use of the parameter is the callee of one call
			uses := 0
			ast.Inspect(h.Body, func(n ast.Node) bool {
				if id, ok := n.(*ast.Ident); ok && f.Info.Uses[id] == po {
					uses++
				}
				return true
			})
			_ = other
			if len(inv) != 1 || uses != 1 {
				continue
			}
			d.litSite[lit] = inv[0]
			i := 0
			if lit.Type.Params != nil {
				for _, fld := range lit.Type.Params.List {
					for _, id := range fld.Names {
						if o := f.Info.Defs[id]; o != nil && i < len(inv[0].Args) {
							d.n[o]++
							d.rhs[o] = inv[0].Args[i]
						}
						i++
					}
				}
			}
		}
	}
}

// up returns the node that stands for n one level further out: the call that invokes the bound
// function literal n sits in, or the single call site of the helper n belongs to (nil at the top).
func (d *c02Defs) up(n ast.Node) ast.Node {
	g := d.owner(n)
	if g == nil {
		return nil
	}
	var best *ast.FuncLit
	for lit := range d.litSite {
		if contains(lit, n) && ast.Node(lit) != n && (best == nil || contains(best, lit)) {
			best = lit
		}
	}
	if best != nil {
		return d.litSite[best]
	}
	if g == d.f {
		return nil
	}
	if call := d.site[g]; call != nil {
		return call
	}
	return nil
}

// loopsOut lists, innermost first, the loops enclosing n along the chain of bound literals and
// single-site helpers, together with the function each loop belongs to; ok=false if the chain breaks
// before reaching d.f.
func (d *c02Defs) loopsOut(n ast.Node) (loops []ast.Stmt, fns []*flow.Func, ok bool) {
	for i := 0; i < 10 && n != nil; i++ {
		g := d.owner(n)
		if g == nil {
			return nil, nil, false
		}
		// the region of g that n executes in: the innermost bound literal, or the whole body
		var region ast.Node = g.Body
		for lit := range d.litSite {
			if contains(lit, n) && ast.Node(lit) != n && contains(region, lit) {
				region = lit.Body
			}
		}
		ls := enclosingLoops(region, n)
		for j := len(ls) - 1; j >= 0; j-- {
			loops = append(loops, ls[j])
			fns = append(fns, g)
		}
		next := d.up(n)
		if next == nil {
			return loops, fns, g == d.f
		}
		n = next
	}
	return nil, nil, false
}

// within reports whether n executes inside region (a node of some covered function), following
// bound literals and single call sites outward.
func (d *c02Defs) within(region, n ast.Node) bool {
	for i := 0; i < 10 && n != nil; i++ {
		if contains(region, n) {
			return true
		}
		n = d.up(n)
	}
	return false
}

func (d *c02Defs) addFunc(g *flow.Func) {
	f := d.f
	obj := func(e ast.Expr) types.Object {
		id, ok := ast.Unparen(e).(*ast.Ident)
		if !ok || id.Name == "_" {
			return nil
		}
		if o := f.Info.Defs[id]; o != nil {
			return o
		}
		return f.Info.Uses[id]
	}
	def := func(l ast.Expr, r ast.Expr) {
		if o := obj(l); o != nil {
			d.n[o]++
			d.rhs[o] = r
			delete(d.rhsCall, o)
		}
	}
	// parameters, results and the receiver are defined by the call; for a helper with a single
	// covered call site they are names for the operands of that call
	call := d.site[g]
	if fd, ok := g.Node.(*ast.FuncDecl); ok && fd.Recv != nil {
		for _, fld := range fd.Recv.List {
			for _, id := range fld.Names {
				var r ast.Expr
				if call != nil {
					if sel, ok := ast.Unparen(call.Fun).(*ast.SelectorExpr); ok {
						if s := f.Info.Selections[sel]; s != nil && s.Kind() == types.MethodVal {
							r = sel.X
						}
					}
				}
				def(id, r)
			}
		}
	}
	if g.Type.Params != nil {
		i := 0
		variadic := false
		if n := len(g.Type.Params.List); n > 0 {
			_, variadic = g.Type.Params.List[n-1].Type.(*ast.Ellipsis)
		}
		for _, fld := range g.Type.Params.List {
			if len(fld.Names) == 0 {
				i++
				continue
			}
			for _, id := range fld.Names {
				var r ast.Expr
				if call != nil && !variadic && i < len(call.Args) && !call.Ellipsis.IsValid() {
					r = call.Args[i]
				}
				def(id, r)
				i++
			}
		}
	}
	if g.Type.Results != nil {
		for _, fld := range g.Type.Results.List {
			for _, id := range fld.Names {
				def(id, nil)
			}
		}
	}
	depth := 0
	var visit func(n ast.Node) bool
	visit = func(n ast.Node) bool {
		switch s := n.(type) {
		case *ast.FuncLit:
			depth++
			ast.Inspect(s.Body, visit)
			depth--
			return false
		case *ast.AssignStmt:
			for i, l := range s.Lhs {
				var r ast.Expr
				if len(s.Lhs) == len(s.Rhs) && (s.Tok == token.ASSIGN || s.Tok == token.DEFINE) {
					r = s.Rhs[i]
				}
				def(l, r)
				if r == nil && len(s.Rhs) == 1 && (s.Tok == token.ASSIGN || s.Tok == token.DEFINE) {
					if c, ok := ast.Unparen(s.Rhs[0]).(*ast.CallExpr); ok {
						if o := obj(l); o != nil {
							d.rhsCall[o], d.rhsIdx[o] = c, i
						}
					}
				}
				if depth > 0 && s.Tok != token.DEFINE {
					if o := obj(l); o != nil {
						d.taken[o] = true
					}
				}
			}
		case *ast.ValueSpec:
			for i, id := range s.Names {
				var r ast.Expr
				if len(s.Values) == len(s.Names) {
					r = s.Values[i]
				}
				def(id, r)
			}
		case *ast.RangeStmt:
			if s.Key != nil {
				def(s.Key, nil)
			}
			if s.Value != nil {
				def(s.Value, nil)
			}
		case *ast.IncDecStmt:
			def(s.X, nil)
		case *ast.UnaryExpr:
			if s.Op == token.AND {
				if o := obj(s.X); o != nil {
					d.taken[o] = true
				}
			}
		}
		return true
	}
	ast.Inspect(g.Body, visit)
}

// owner returns the covered function whose declaration spans node n.
func (d *c02Defs) owner(n ast.Node) *flow.Func {
	for _, g := range d.funcs {
		if g.Node.Pos() <= n.Pos() && n.End() <= g.Node.End() {
			return g
		}
	}
	return nil
}

// parent returns the syntactic parent of n inside its covered function.
func (d *c02Defs) parent(n ast.Node) ast.Node {
	g := d.owner(n)
	if g == nil {
		return nil
	}
	pm := d.parents[g]
	if pm == nil {
		pm = parentMap(g.Body)
		d.parents[g] = pm
	}
	return pm[n]
}

// lift maps a node of a covered helper to the call in d.f through which the helper is reached
// (the node itself when it already belongs to d.f); nil if the chain of single call sites breaks.
func (d *c02Defs) lift(n ast.Node) ast.Node {
	for i := 0; i < 8; i++ {
		g := d.owner(n)
		if g == nil {
			return nil
		}
		if g == d.f {
			return n
		}
		call := d.site[g]
		if call == nil {
			return nil
		}
		n = call
	}
	return nil
}

// liftTo is lift with an arbitrary covered function as the target.
func (d *c02Defs) liftTo(n ast.Node, target *flow.Func) ast.Node {
	for i := 0; i < 8; i++ {
		g := d.owner(n)
		if g == nil {
			return nil
		}
		if g == target {
			return n
		}
		call := d.site[g]
		if call == nil {
			return nil
		}
		n = call
	}
	return nil
}

// inside visits the nodes executed inside region (a node of covered function lf): the nodes it
// spans and the bodies of the covered helpers called from within it.
func (d *c02Defs) inside(region ast.Node, lf *flow.Func, visit func(n ast.Node) bool) {
	for _, g := range d.funcs {
		g := g
		ast.Inspect(g.Body, func(n ast.Node) bool {
			if n == nil {
				return true
			}
			up := d.liftTo(n, lf)
			if up == nil {
				return false // not reached from lf through single call sites
			}
			if !contains(region, up) {
				return g == lf // keep descending towards the region in lf; skip helpers called elsewhere
			}
			return visit(n)
		})
	}
}

// canon is the outermost variable an expression names: aliases are resolved, and a helper's local
// that is handed out by return is replaced by the caller's variable receiving it.
func (d *c02Defs) canon(e ast.Expr) types.Object {
	o := d.rootObj(e)
	if o == nil {
		return nil
	}
	oo, _ := d.outward(o, nil)
	return oo
}

// canonObj is canon for a variable.
func (d *c02Defs) canonObj(o types.Object) types.Object {
	if o == nil {
		return nil
	}
	oo, _ := d.outward(o, nil)
	return oo
}

// returnsOf lists, for result index idx of covered helper h, the returned expressions (the named
// result identifier for bare returns); ok=false if a return cannot be read.
func (d *c02Defs) returnsOf(h *flow.Func, idx int) (out []ast.Expr, ok bool) {
	var named []*ast.Ident
	if h.Type.Results != nil {
		for _, fld := range h.Type.Results.List {
			for _, id := range fld.Names {
				named = append(named, id)
			}
		}
	}
	ok = true
	ast.Inspect(h.Body, func(n ast.Node) bool {
		switch x := n.(type) {
		case *ast.FuncLit:
			return false
		case *ast.ReturnStmt:
			switch {
			case idx < len(x.Results):
				out = append(out, x.Results[idx])
			case len(x.Results) == 0 && idx < len(named):
				out = append(out, named[idx])
			default:
				ok = false
			}
		}
		return true
	})
	return out, ok && len(out) > 0
}

// callee returns the covered helper a call invokes (nil if none).
func (d *c02Defs) calleeOf(call *ast.CallExpr) *flow.Func {
	if fo, ok := d.f.Callee(call).(*types.Func); ok {
		if h := d.byObj[fo.Origin()]; h != nil && h != d.f {
			return h
		}
	}
	return nil
}

// outward follows a helper-local variable to the variable of the calling function that receives
// it: `func h() T { v := ..; return v }` with `x := h()` maps v to x (repeatedly). The variable
// itself is returned when it is not handed out.
func (d *c02Defs) outward(o types.Object, id *ast.Ident) (types.Object, *ast.Ident) {
	for i := 0; i < 6 && o != nil; i++ {
		var h *flow.Func
		for _, g := range d.funcs {
			if g != d.f && g.Node.Pos() <= o.Pos() && o.Pos() <= g.Node.End() {
				h = g
			}
		}
		if h == nil || d.site[h] == nil {
			return o, id
		}
		as, ok := d.parent(d.site[h]).(*ast.AssignStmt)
		if !ok || len(as.Rhs) != 1 {
			return o, id
		}
		sig, _ := c02FuncObj(h).Type().(*types.Signature)
		if sig == nil || sig.Results().Len() != len(as.Lhs) {
			return o, id
		}
		moved := false
		for k := range as.Lhs {
			rets, ok := d.returnsOf(h, k)
			if !ok {
				continue
			}
			for _, r := range rets {
				if c02Obj(d.f, r) == o {
					if lo := c02Obj(d.f, as.Lhs[k]); lo != nil {
						o, id = lo, ast.Unparen(as.Lhs[k]).(*ast.Ident)
						moved = true
					}
					break
				}
			}
			if moved {
				break
			}
		}
		if !moved {
			return o, id
		}
	}
	return o, id
}

// rootObj is the variable an expression names after alias resolution (nil if not a variable).
func (d *c02Defs) rootObj(e ast.Expr) types.Object {
	// follow the alias chain as long as it leads from one variable to another; a variable defined
	// by a non-variable expression (x := m[k]) is its own root
	var last types.Object
	for i := 0; i < 8; i++ {
		o := c02Obj(d.f, e)
		if o == nil {
			return last
		}
		last = o
		id := ast.Unparen(e).(*ast.Ident)
		next := d.aliasStep(id)
		if next == nil {
			return last
		}
		e = next
	}
	return last
}

// aliasStep is one step of alias: the expression the single-definition variable id names, or nil.
func (d *c02Defs) aliasStep(id *ast.Ident) ast.Expr {
	one := d.alias1(id)
	if one == ast.Expr(id) {
		return nil
	}
	return one
}

// alias follows single-definition locals: `x := e` (defined once, never reassigned, address
// not taken) makes x a name for e.
func (d *c02Defs) alias(e ast.Expr) ast.Expr {
	for i := 0; i < 8; i++ {
		e = ast.Unparen(e)
		id, ok := e.(*ast.Ident)
		if !ok {
			return e
		}
		next := d.alias1(id)
		if next == ast.Expr(id) {
			return e
		}
		e = next
	}
	return e
}

// alias1 is one step of alias: what the single-definition variable id names (id itself if nothing).
func (d *c02Defs) alias1(id *ast.Ident) ast.Expr {
	var e ast.Expr = id
	o := d.f.Info.Uses[id]
	if o == nil {
		o = d.f.Info.Defs[id]
	}
	if o == nil || d.n[o] != 1 || d.taken[o] {
		return e
	}
	r := d.rhs[o]
	idx := 0
	if r == nil && d.rhsCall[o] != nil {
		r, idx = d.rhsCall[o], d.rhsIdx[o]
	}
	if r == nil {
		return e
	}
	// x := h(..) where the covered helper h always returns the same local: x names it
	if call, ok := ast.Unparen(r).(*ast.CallExpr); ok {
		if h := d.calleeOf(call); h != nil {
			if rets, ok := d.returnsOf(h, idx); ok {
				var same types.Object
				var first ast.Expr
				all := true
				for _, x := range rets {
					ro := c02Obj(d.f, x)
					if ro == nil || (same != nil && ro != same) {
						all = false
						break
					}
					same, first = ro, x
				}
				if all && same != nil {
					return first
				}
			}
		}
		if d.rhs[o] == nil {
			return e
		}
	}
	return r
}

// norm renders an expression with single-definition locals substituted and & * () dropped,
// so that `node := &flow[i]; node.Namespace` and `flow[i].Namespace` render identically.
func (d *c02Defs) norm(e ast.Expr) string {
	var sb strings.Builder
	d.normTo(&sb, e, 0)
	return sb.String()
}

func (d *c02Defs) normTo(sb *strings.Builder, e ast.Expr, depth int) {
	if depth > 12 {
		sb.WriteString(d.f.Render(e))
		return
	}
	e = ast.Unparen(e)
	switch x := e.(type) {
	case *ast.Ident:
		if a := d.alias(x); a != ast.Expr(x) {
			d.normTo(sb, a, depth+1)
			return
		}
		sb.WriteString(d.f.Render(x))
	case *ast.UnaryExpr:
		if x.Op == token.AND {
			d.normTo(sb, x.X, depth+1)
			return
		}
		sb.WriteString(x.Op.String())
		d.normTo(sb, x.X, depth+1)
	case *ast.StarExpr:
		d.normTo(sb, x.X, depth+1)
	case *ast.SelectorExpr:
		if id, ok := x.X.(*ast.Ident); ok {
			if _, isPkg := d.f.Info.Uses[id].(*types.PkgName); isPkg {
				sb.WriteString(d.f.Render(x))
				return
			}
		}
		d.normTo(sb, x.X, depth+1)
		sb.WriteString("." + x.Sel.Name)
	case *ast.IndexExpr:
		d.normTo(sb, x.X, depth+1)
		sb.WriteString("[")
		d.normTo(sb, x.Index, depth+1)
		sb.WriteString("]")
	case *ast.CallExpr:
		d.normTo(sb, x.Fun, depth+1)
		sb.WriteString("(")
		for i, a := range x.Args {
			if i > 0 {
				sb.WriteString(", ")
			}
			d.normTo(sb, a, depth+1)
		}
		sb.WriteString(")")
	default:
		sb.WriteString(d.f.Render(e))
	}
}

// c02FieldSel reports whether e (after alias resolution) is a selection of field fld and
// returns the base expression.
func (d *c02Defs) fieldSel(e ast.Expr, fld *types.Var) (ast.Expr, bool) {
	sel, ok := d.alias(e).(*ast.SelectorExpr)
	if !ok {
		return nil, false
	}
	s := d.f.Info.Selections[sel]
	if s == nil || s.Obj() != fld {
		return nil, false
	}
	return sel.X, true
}

// c02Obj returns the variable denoted by an identifier expression.
func c02Obj(f *flow.Func, e ast.Expr) types.Object {
	id, ok := ast.Unparen(e).(*ast.Ident)
	if !ok || id.Name == "_" {
		return nil
	}
	if o := f.Info.Defs[id]; o != nil {
		return o
	}
	return f.Info.Uses[id]
}

// c02ConstString returns the string value of a constant expression.
func c02ConstString(f *flow.Func, e ast.Expr) (string, bool) {
	tv, ok := f.Info.Types[e]
	if !ok || tv.Value == nil || tv.Value.Kind() != constant.String {
		return "", false
	}
	return constant.StringVal(tv.Value), true
}

// c02Assigns lists the assignment statements of body (function literals included) that have
// variable o on their left-hand side.
func c02Assigns(f *flow.Func, body ast.Node, o types.Object) []*ast.AssignStmt {
	var out []*ast.AssignStmt
	ast.Inspect(body, func(n ast.Node) bool {
		if as, ok := n.(*ast.AssignStmt); ok {
			for _, l := range as.Lhs {
				if c02Obj(f, l) == o {
					out = append(out, as)
					break
				}
			}
		}
		return true
	})
	return out
}

// c02IntRange decides from the facts of a state which values in [0,hi] an integer
// expression (rendered r) may still have. ok=false if a fact about r could not be read.
func c02IntRange(st *flow.State, r string, hi int) (vals []int, ok bool) {
	type cons struct {
		kind string // eq, lt (r<k), gt (k<r)
		k    int
		v    flow.Val
	}
	var cs []cons
	ok = true
	for _, fact := range st.Facts() {
		i := strings.LastIndex(fact, "=")
		key, val := fact[:i], fact[i+1:]
		v := flow.True
		if val == "F" {
			v = flow.False
		}
		switch {
		case strings.HasPrefix(key, "eq:"+r+"=="):
			k, err := strconv.Atoi(key[len("eq:"+r+"=="):])
			if err != nil {
				ok = false
				continue
			}
			cs = append(cs, cons{"eq", k, v})
		case strings.HasPrefix(key, "lt:"+r+"<"):
			k, err := strconv.Atoi(key[len("lt:"+r+"<"):])
			if err != nil {
				ok = false
				continue
			}
			cs = append(cs, cons{"lt", k, v})
		case strings.HasPrefix(key, "lt:") && strings.HasSuffix(key, "<"+r):
			k, err := strconv.Atoi(key[3 : len(key)-len("<"+r)])
			if err != nil {
				ok = false
				continue
			}
			cs = append(cs, cons{"gt", k, v})
		}
	}
	for x := 0; x <= hi; x++ {
		good := true
		for _, c := range cs {
			var holds bool
			switch c.kind {
			case "eq":
				holds = x == c.k
			case "lt":
				holds = x < c.k
			case "gt":
				holds = c.k < x
			}
			if holds != (c.v == flow.True) {
				good = false
			}
		}
		if good {
			vals = append(vals, x)
		}
	}
	return vals, ok
}

// c02Loop describes a loop that visits the elements of a slice/array/map expression one by one:
// `for k, v := range X`, `for i := range X` or `for i := 0; i < len(X); i++`.
type c02Loop struct {
	stmt     ast.Stmt
	body     *ast.BlockStmt
	X        ast.Expr     // the collection
	key, val types.Object // loop variables (nil if absent)
	keyR     string       // rendering of the key variable
	indexed  bool         // 3-clause form
	reverse  bool         // 3-clause form counting down from len(X)-1
	bodyKind cfg.BlockKind
	backKind cfg.BlockKind
	doneKind cfg.BlockKind
}

// c02LoopOf recognises the loop forms above (nil if stmt is another kind of loop).
func c02LoopOf(f *flow.Func, stmt ast.Stmt) *c02Loop {
	switch l := stmt.(type) {
	case *ast.RangeStmt:
		lp := &c02Loop{stmt: l, body: l.Body, X: l.X, bodyKind: cfg.KindRangeBody, backKind: cfg.KindRangeLoop, doneKind: cfg.KindRangeDone}
		if l.Key != nil {
			lp.key = c02Obj(f, l.Key)
			if lp.key != nil {
				lp.keyR = f.Render(l.Key)
			}
		}
		if l.Value != nil {
			lp.val = c02Obj(f, l.Value)
		}
		return lp
	case *ast.ForStmt:
		post, ok := l.Post.(*ast.IncDecStmt)
		init, ok2 := l.Init.(*ast.AssignStmt)
		if !ok || !ok2 || l.Cond == nil || len(init.Lhs) != 1 || len(init.Rhs) != 1 {
			return nil
		}
		iObj := c02Obj(f, init.Lhs[0])
		if iObj == nil || c02Obj(f, post.X) != iObj {
			return nil
		}
		lenArg := func(e ast.Expr) ast.Expr {
			if call, ok := ast.Unparen(e).(*ast.CallExpr); ok && len(call.Args) == 1 {
				if b, ok := f.Callee(call).(*types.Builtin); ok && b.Name() == "len" {
					return call.Args[0]
				}
			}
			return nil
		}
		lp := &c02Loop{stmt: l, body: l.Body, key: iObj, keyR: f.Render(init.Lhs[0]), indexed: true, bodyKind: cfg.KindForBody, backKind: cfg.KindForPost, doneKind: cfg.KindForDone}
		be, isBin := ast.Unparen(l.Cond).(*ast.BinaryExpr)
		if !isBin {
			return nil
		}
		if post.Tok == token.INC {
			zero := f.Info.Types[init.Rhs[0]]
			if zero.Value == nil || zero.Value.ExactString() != "0" {
				return nil
			}
			lhs, rhs := be.X, be.Y
			if be.Op == token.GTR {
				lhs, rhs = rhs, lhs
			}
			if (be.Op != token.LSS && be.Op != token.GTR) || c02Obj(f, lhs) != iObj {
				return nil
			}
			lp.X = lenArg(rhs)
		} else {
			// i := len(X)-1; i >= 0 (i > -1, 0 <= i); i--
			sub, ok := ast.Unparen(init.Rhs[0]).(*ast.BinaryExpr)
			if !ok || sub.Op != token.SUB {
				return nil
			}
			if one := f.Info.Types[sub.Y]; one.Value == nil || one.Value.ExactString() != "1" {
				return nil
			}
			k, neg := f.Atom(l.Cond)
			ri := f.Render(init.Lhs[0])
			if !((k == "lt:"+ri+"<0" && neg) || (k == "lt:-1<"+ri && !neg)) {
				return nil
			}
			lp.X = lenArg(sub.X)
			lp.reverse = true
		}
		if lp.X == nil {
			return nil
		}
		return lp
	}
	return nil
}

// elem reports whether e denotes the element of the current iteration: the range value, or X[key].
func (lp *c02Loop) elem(d *c02Defs, e ast.Expr) bool {
	e = d.alias(e)
	if u, ok := e.(*ast.UnaryExpr); ok && u.Op == token.AND {
		e = ast.Unparen(u.X)
	}
	if lp.val != nil && c02Obj(d.f, e) == lp.val {
		return true
	}
	if ix, ok := e.(*ast.IndexExpr); ok && lp.key != nil {
		return d.rootObj(ix.Index) == lp.key && d.norm(ix.X) == d.norm(lp.X)
	}
	return false
}

// c02ActiveNsField resolves, by role, the field of context.Context that holds the active namespace:
// the string field of Context (the only one today); with several string fields, the one
// Context.UseNamespace (or a helper it calls) assigns. nil + checker error if it cannot be told.
func c02ActiveNsField(c *core.Ctx) *types.Var {
	n := namedType(c, "pkg/context", "Context")
	if n == nil {
		return nil
	}
	st, ok := n.Underlying().(*types.Struct)
	if !ok {
		c.Errorf("anchor: pkg/context.Context is not a struct")
		return nil
	}
	var strs []*types.Var
	for i := 0; i < st.NumFields(); i++ {
		if b, ok := st.Field(i).Type().Underlying().(*types.Basic); ok && b.Kind() == types.String {
			strs = append(strs, st.Field(i))
		}
	}
	if len(strs) == 1 {
		return strs[0]
	}
	if f := fnOpt(c, "pkg/context", "Context", "UseNamespace"); f != nil {
		var hit []*types.Var
		for _, g := range reach(f, 2) {
			ast.Inspect(g.Body, func(x ast.Node) bool {
				if as, ok := x.(*ast.AssignStmt); ok {
					for _, l := range as.Lhs {
						if sel, ok := ast.Unparen(l).(*ast.SelectorExpr); ok {
							if sl := g.Info.Selections[sel]; sl != nil {
								for _, v := range strs {
									if sl.Obj() == types.Object(v) {
										hit = append(hit, v)
									}
								}
							}
						}
					}
				}
				return true
			})
		}
		if len(hit) > 0 {
			same := true
			for _, v := range hit {
				if v != hit[0] {
					same = false
				}
			}
			if same {
				return hit[0]
			}
		}
	}
	c.Errorf("anchor: cannot identify the field of pkg/context.Context that holds the active namespace (%d string fields)", len(strs))
	return nil
}

// c02Flag is the END flag of the flow loop as a fact: a bool variable (key v:x), or a variable of an
// enum-like integer type compared with the constant that means "ended" (key eq:x==K; equal to another
// constant means false).
type c02Flag struct {
	key    string
	prefix string // "eq:<x>==" for enums, "" for bools
}

func c02FlagOf(f *flow.Func, e ast.Expr, endedExact string) c02Flag {
	if endedExact == "" {
		return c02Flag{key: f.VarKey(e)}
	}
	pre := "eq:" + f.Render(e) + "=="
	return c02Flag{key: pre + endedExact, prefix: pre}
}

func (fl c02Flag) get(st *flow.State) flow.Val {
	if fl.key == "" {
		return flow.Unknown
	}
	if v := st.Get(fl.key); v != flow.Unknown || fl.prefix == "" {
		return v
	}
	for _, fact := range st.Facts() {
		if strings.HasPrefix(fact, fl.prefix) && strings.HasSuffix(fact, "=T") && !strings.HasPrefix(fact, fl.key+"=") {
			return flow.False // equal to another constant of the enum
		}
	}
	return flow.Unknown
}

func (fl c02Flag) is(st *flow.State, v flow.Val) bool { return fl.key != "" && fl.get(st) == v }

// c02FlagResult finds the result of the flow loop that reports END: a bool, or a package-local
// enum-like unsigned/signed integer type. enum=true for the latter.
func c02FlagResult(sig *types.Signature) (idx int, enum bool) {
	idx = -1
	for i := 0; i < sig.Results().Len(); i++ {
		t := sig.Results().At(i).Type()
		b, ok := t.Underlying().(*types.Basic)
		if !ok {
			continue
		}
		if b.Kind() == types.Bool && idx < 0 {
			return i, false
		}
	}
	for i := 0; i < sig.Results().Len(); i++ {
		t := sig.Results().At(i).Type()
		n, isNamed := t.(*types.Named)
		b, ok := t.Underlying().(*types.Basic)
		if ok && isNamed && b.Info()&types.IsInteger != 0 && n.Obj().Pkg() != nil && strings.HasPrefix(n.Obj().Pkg().Path(), load.ModulePath) {
			return i, true
		}
	}
	return -1, false
}
