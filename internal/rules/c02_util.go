package rules

import (
	"go/ast"
	"go/constant"
	"go/token"
	"go/types"
	"reflect"
	"strconv"
	"strings"

	"verif/internal/core"
	"verif/internal/flow"
)

// Helpers private to C02.

const (
	c02pl = "pkg/object/pipeline"
	c02gf = "pkg/object/globalfilter"
	c02fl = "pkg/filters"
)

// c02FieldByYAML resolves a struct field by its yaml key (the configuration contract), which
// is the role of the field; the Go name of the field is irrelevant.
func c02FieldByYAML(c *core.Ctx, rel, typ, key string) *types.Var {
	n := namedType(c, rel, typ)
	if n == nil {
		return nil
	}
	st, ok := n.Underlying().(*types.Struct)
	if !ok {
		c.Errorf("anchor: %s.%s is not a struct", rel, typ)
		return nil
	}
	for i := 0; i < st.NumFields(); i++ {
		tag := reflect.StructTag(st.Tag(i)).Get("yaml")
		if name := strings.Split(tag, ",")[0]; name == key {
			return st.Field(i)
		}
	}
	c.Errorf("anchor: no field of %s.%s has yaml key %q", rel, typ, key)
	return nil
}

// c02FieldByType resolves the (single) field of a struct whose type satisfies pred.
func c02FieldByType(c *core.Ctx, rel, typ, what string, pred func(types.Type) bool) *types.Var {
	n := namedType(c, rel, typ)
	if n == nil {
		return nil
	}
	st, ok := n.Underlying().(*types.Struct)
	if !ok {
		c.Errorf("anchor: %s.%s is not a struct", rel, typ)
		return nil
	}
	var found *types.Var
	for i := 0; i < st.NumFields(); i++ {
		if pred(st.Field(i).Type()) {
			if found != nil {
				c.Errorf("anchor: %s.%s has more than one field of type %s", rel, typ, what)
				return nil
			}
			found = st.Field(i)
		}
	}
	if found == nil {
		c.Errorf("anchor: %s.%s has no field of type %s", rel, typ, what)
	}
	return found
}

func c02IsNamed(t types.Type, path, name string) bool {
	if p, ok := t.(*types.Pointer); ok {
		t = p.Elem()
	}
	n, ok := t.(*types.Named)
	return ok && n.Obj().Pkg() != nil && n.Obj().Pkg().Path() == path && n.Obj().Name() == name
}

// c02Defs records, for every local variable of a function, how often it is (re)defined and
// the right-hand side of the definition when it is a plain 1:1 assignment.
type c02Defs struct {
	f     *flow.Func
	n     map[types.Object]int
	rhs   map[types.Object]ast.Expr
	taken map[types.Object]bool // address taken or assigned inside a closure
}

func c02NewDefs(f *flow.Func) *c02Defs {
	d := &c02Defs{f: f, n: map[types.Object]int{}, rhs: map[types.Object]ast.Expr{}, taken: map[types.Object]bool{}}
	obj := func(e ast.Expr) types.Object {
		id, ok := ast.Unparen(e).(*ast.Ident)
		if !ok || id.Name == "_" {
			return nil
		}
		if o := f.Info.Defs[id]; o != nil {
			return o
		}
		return f.Info.Uses[id]
	}
	def := func(l ast.Expr, r ast.Expr) {
		if o := obj(l); o != nil {
			d.n[o]++
			d.rhs[o] = r
		}
	}
	// parameters, results and the receiver are defined by the call
	fields := []*ast.FieldList{f.Type.Params, f.Type.Results}
	if fd, ok := f.Node.(*ast.FuncDecl); ok {
		fields = append(fields, fd.Recv)
	}
	for _, fl := range fields {
		if fl == nil {
			continue
		}
		for _, fld := range fl.List {
			for _, id := range fld.Names {
				def(id, nil)
			}
		}
	}
	depth := 0
	var visit func(n ast.Node) bool
	visit = func(n ast.Node) bool {
		switch s := n.(type) {
		case *ast.FuncLit:
			depth++
			ast.Inspect(s.Body, visit)
			depth--
			return false
		case *ast.AssignStmt:
			for i, l := range s.Lhs {
				var r ast.Expr
				if len(s.Lhs) == len(s.Rhs) && (s.Tok == token.ASSIGN || s.Tok == token.DEFINE) {
					r = s.Rhs[i]
				}
				def(l, r)
				if depth > 0 && s.Tok != token.DEFINE {
					if o := obj(l); o != nil {
						d.taken[o] = true
					}
				}
			}
		case *ast.ValueSpec:
			for i, id := range s.Names {
				var r ast.Expr
				if len(s.Values) == len(s.Names) {
					r = s.Values[i]
				}
				def(id, r)
			}
		case *ast.RangeStmt:
			if s.Key != nil {
				def(s.Key, nil)
			}
			if s.Value != nil {
				def(s.Value, nil)
			}
		case *ast.IncDecStmt:
			def(s.X, nil)
		case *ast.UnaryExpr:
			if s.Op == token.AND {
				if o := obj(s.X); o != nil {
					d.taken[o] = true
				}
			}
		}
		return true
	}
	ast.Inspect(f.Body, visit)
	return d
}

// alias follows single-definition locals: `x := e` (defined once, never reassigned, address
// not taken) makes x a name for e.
func (d *c02Defs) alias(e ast.Expr) ast.Expr {
	for i := 0; i < 8; i++ {
		e = ast.Unparen(e)
		id, ok := e.(*ast.Ident)
		if !ok {
			return e
		}
		o := d.f.Info.Uses[id]
		if o == nil {
			o = d.f.Info.Defs[id]
		}
		if o == nil || d.n[o] != 1 || d.rhs[o] == nil || d.taken[o] {
			return e
		}
		e = d.rhs[o]
	}
	return e
}

// norm renders an expression with single-definition locals substituted and & * () dropped,
// so that `node := &flow[i]; node.Namespace` and `flow[i].Namespace` render identically.
func (d *c02Defs) norm(e ast.Expr) string {
	var sb strings.Builder
	d.normTo(&sb, e, 0)
	return sb.String()
}

func (d *c02Defs) normTo(sb *strings.Builder, e ast.Expr, depth int) {
	if depth > 12 {
		sb.WriteString(d.f.Render(e))
		return
	}
	e = ast.Unparen(e)
	switch x := e.(type) {
	case *ast.Ident:
		if a := d.alias(x); a != ast.Expr(x) {
			d.normTo(sb, a, depth+1)
			return
		}
		sb.WriteString(d.f.Render(x))
	case *ast.UnaryExpr:
		if x.Op == token.AND {
			d.normTo(sb, x.X, depth+1)
			return
		}
		sb.WriteString(x.Op.String())
		d.normTo(sb, x.X, depth+1)
	case *ast.StarExpr:
		d.normTo(sb, x.X, depth+1)
	case *ast.SelectorExpr:
		if id, ok := x.X.(*ast.Ident); ok {
			if _, isPkg := d.f.Info.Uses[id].(*types.PkgName); isPkg {
				sb.WriteString(d.f.Render(x))
				return
			}
		}
		d.normTo(sb, x.X, depth+1)
		sb.WriteString("." + x.Sel.Name)
	case *ast.IndexExpr:
		d.normTo(sb, x.X, depth+1)
		sb.WriteString("[")
		d.normTo(sb, x.Index, depth+1)
		sb.WriteString("]")
	case *ast.CallExpr:
		d.normTo(sb, x.Fun, depth+1)
		sb.WriteString("(")
		for i, a := range x.Args {
			if i > 0 {
				sb.WriteString(", ")
			}
			d.normTo(sb, a, depth+1)
		}
		sb.WriteString(")")
	default:
		sb.WriteString(d.f.Render(e))
	}
}

// c02FieldSel reports whether e (after alias resolution) is a selection of field fld and
// returns the base expression.
func (d *c02Defs) fieldSel(e ast.Expr, fld *types.Var) (ast.Expr, bool) {
	sel, ok := d.alias(e).(*ast.SelectorExpr)
	if !ok {
		return nil, false
	}
	s := d.f.Info.Selections[sel]
	if s == nil || s.Obj() != fld {
		return nil, false
	}
	return sel.X, true
}

// c02Obj returns the variable denoted by an identifier expression.
func c02Obj(f *flow.Func, e ast.Expr) types.Object {
	id, ok := ast.Unparen(e).(*ast.Ident)
	if !ok || id.Name == "_" {
		return nil
	}
	if o := f.Info.Defs[id]; o != nil {
		return o
	}
	return f.Info.Uses[id]
}

// c02ConstString returns the string value of a constant expression.
func c02ConstString(f *flow.Func, e ast.Expr) (string, bool) {
	tv, ok := f.Info.Types[e]
	if !ok || tv.Value == nil || tv.Value.Kind() != constant.String {
		return "", false
	}
	return constant.StringVal(tv.Value), true
}

// c02Assigns lists the assignment statements of body (function literals included) that have
// variable o on their left-hand side.
func c02Assigns(f *flow.Func, body ast.Node, o types.Object) []*ast.AssignStmt {
	var out []*ast.AssignStmt
	ast.Inspect(body, func(n ast.Node) bool {
		if as, ok := n.(*ast.AssignStmt); ok {
			for _, l := range as.Lhs {
				if c02Obj(f, l) == o {
					out = append(out, as)
					break
				}
			}
		}
		return true
	})
	return out
}

// c02IntRange decides from the facts of a state which values in [0,hi] an integer
// expression (rendered r) may still have. ok=false if a fact about r could not be read.
func c02IntRange(st *flow.State, r string, hi int) (vals []int, ok bool) {
	type cons struct {
		kind string // eq, lt (r<k), gt (k<r)
		k    int
		v    flow.Val
	}
	var cs []cons
	ok = true
	for _, fact := range st.Facts() {
		i := strings.LastIndex(fact, "=")
		key, val := fact[:i], fact[i+1:]
		v := flow.True
		if val == "F" {
			v = flow.False
		}
		switch {
		case strings.HasPrefix(key, "eq:"+r+"=="):
			k, err := strconv.Atoi(key[len("eq:"+r+"=="):])
			if err != nil {
				ok = false
				continue
			}
			cs = append(cs, cons{"eq", k, v})
		case strings.HasPrefix(key, "lt:"+r+"<"):
			k, err := strconv.Atoi(key[len("lt:"+r+"<"):])
			if err != nil {
				ok = false
				continue
			}
			cs = append(cs, cons{"lt", k, v})
		case strings.HasPrefix(key, "lt:") && strings.HasSuffix(key, "<"+r):
			k, err := strconv.Atoi(key[3 : len(key)-len("<"+r)])
			if err != nil {
				ok = false
				continue
			}
			cs = append(cs, cons{"gt", k, v})
		}
	}
	for x := 0; x <= hi; x++ {
		good := true
		for _, c := range cs {
			var holds bool
			switch c.kind {
			case "eq":
				holds = x == c.k
			case "lt":
				holds = x < c.k
			case "gt":
				holds = c.k < x
			}
			if holds != (c.v == flow.True) {
				good = false
			}
		}
		if good {
			vals = append(vals, x)
		}
	}
	return vals, ok
}
