// Property C13 — configurations accepted by validation instantiate and serve without panicking.
//
// Static cannot enumerate the configuration space; it enumerates the places where the code can
// panic on configuration / on an admissible request and demands, for each, the protective
// construct that keeps accepted configurations away from it.
//
// Rules (DESIGN.md §3 C13):
//
//	R-C13-1  ratchet over explicit panic(...) sites reachable from CreateInstance / Init / Inherit /
//	         Handle / InjectResiliencePolicy of every filter kind and Init / Inherit of Pipeline,
//	         HTTPServer, GlobalFilter, MQTTProxy (c13_graph.go: reference call graph, class
//	         hierarchy for interface calls, recover barriers). A site whose guard reads only spec
//	         fields is decided automatically (the fields must be read by validation code or carry
//	         an enum tag); the others need an entry in the reviewed table (c13_panics.go), several
//	         with a machine-checked protective condition; unreviewed sites are violations.
//	R-C13-2  RawPayload() only where IsStream() is known false (flow engine, all paths).
//	R-C13-3  integer divisors / moduli / rand.Intn arguments in the same reachable code: proven
//	         non-zero on all paths (flow engine), by the schema minimum of the spec field, or
//	         reviewed (c13_div.go); unreviewed sites are violations.
//	R-C13-4  resilience policy cross references (InjectResiliencePolicy panics on dangling names):
//	         the referencing spec fields must be read by validation code.
//	R-C13-5  regexp.MustCompile(spec field) needs format=regexp on the field (or validation code
//	         that hands it to regexp.Compile).
//	R-C13-7  sized buffers (make([]T, n), n from configuration) indexed by a cursor / computed slot:
//	         non-empty by a dominating test, or reviewed with a checked reason (schema minimum of
//	         the size's spec field, or admission only after `calls < size`) (c13_buf.go).
//	R-C13-8  constant index into a slice of run-time length: len >= k+1 on every path, by interval
//	         reasoning over the engine's facts about len(x) (c13_idx.go).
//	R-C13-9  the value result of a (value, err) call is not stored into an unconditionally
//	         dereferenced pointer field on a path where err may be non-nil (c13_nil.go).
//	R-C13-6  non-comma-ok type assertion on ctx.GetInputResponse()/GetOutputResponse() needs a
//	         dominating non-nil test of the asserted value.
//
// Mutants tried in the scratch worktree (independent edits applied in two batches, every one
// compiles) -> obligation that turned violated:
//
//	MemoryCache.Store: stream guard `if resp.IsStream() {return}` deleted        -> R-C13-2 Store|RawPayload
//	MemoryCache.Store: `resp.SetPayload(resp.GetPayload())` before RawPayload     -> R-C13-2 Store|RawPayload
//	ResponseAdaptor.Handle: nil test moved after the type assertion              -> R-C13-6 Handle|response downcast
//	RemoteFilter.Handle: `if response == nil` inverted                           -> R-C13-6 Handle|response downcast
//	Fallback.Init: new `if spec.MockBody == "" && len(spec.MockHeaders) == 0 {panic}` -> R-C13-1 Init|panic guarded by Spec.MockBody, Spec.MockHeaders
//	proxy.NewServerPool: ParseDuration error now panics                          -> R-C13-1 NewServerPool|explicit panic (unreviewed)
//	pipeline Spec.Validate: resilience validation loop deleted                   -> R-C13-1 Pipeline.reload|explicit panic (reason check)
//	globalfilter Spec.Validate: AfterPipeline.Validate() dropped                 -> R-C13-1 GlobalFilter.reload|explicit panic (reason check)
//	HeaderToJSON.Handle: SetPayload(string(...)) through the protocols interface -> R-C13-1 *.SetPayload|explicit panic (argument types)
//	roundRobin ChooseServer: `len(lb.Servers) == 0` guard deleted                -> R-C13-3 ChooseServer|divisor len(BaseLoadBalancer.Servers)
//	CertExtractor.Handle: guard `len(certs) < 1` -> `< 0`                        -> R-C13-3 Handle|divisor len(PeerCertificates)
//	CircuitBreaker.RecordResult: window.Push moved after the rate computation    -> R-C13-3 *.FailureRate/SlowRate|divisor total (Push-before-rate)
//	ratelimiter Policy.LimitForPeriod: `minimum=1` dropped from the tag          -> R-C13-3 acquirePermission|divisor Policy.LimitForPeriod
//	httpserver Header.Regexp: `format=regexp` dropped from the tag               -> R-C13-5 initHeaderRoute|MustCompile(Header.Regexp)
//	headerlookup Spec.Validate: regexp.Compile(spec.HeaderKey) (wrong variable)  -> R-C13-5 Init|MustCompile(Spec.PathRegExp)
//	circuit breaker AcquirePermission: half-open admission `<` -> `<=`, `!=`, `< permitted+1`,
//	  `permitted >= calls` (seeded regression b and respellings)                 -> R-C13-7 CountBasedWindow.Push|index into sized buffer
//	transitTo: half-open window sized by policy.MinimumNumberOfCalls              -> R-C13-7 CountBasedWindow.Push|index into sized buffer
//	CountBasedWindow.Total: new read of bucket[bucketIdx]                         -> R-C13-7 Total|index into sized buffer (unreviewed)
//	CircuitBreakerPolicy.SlidingWindowSize: `minimum=1` dropped                   -> R-C13-7 (3 obligations) and R-C13-3
//	InjectResiliencePolicy: a fifth panic site                                    -> R-C13-4 |explicit panic beyond the reviewed count
//	(silent: admission rewritten as early `if calls >= permitted {return false}`, or through a
//	local `permitted := ...; if permitted > calls`)
//	headerlookup Handle: `len(match) > 1` -> `match != nil` (round-2 seeded b), `> 0`     -> R-C13-8 Handle|constant index into result of FindStringSubmatch
//	parseCredentials `len(parts) < 2` -> `< 1`; signer initFromQuery `len(scopes) < 3` -> `< 1` -> R-C13-8
//	cluster GetRaw: `len(resp.Kvs) == 0` guard deleted; autocert `len(protos) == 1 &&` dropped -> R-C13-8
//	Mock.Handle: new `strings.Split(path, "/")[1]` without a length test                   -> R-C13-8 (new site)
//	(silent: `2 <= len(match)`; `n := len(parts); if n != 2`; `empty := len(kvs) < 1; if empty`;
//	`!(len(p) != 1 || p[0] != x)`)
//	mux.reload: `tracer, err = tracing.New(..); if err != nil {log}` (round-3 seeded a); `tracer =
//	  tracer0` moved out of the else                                                       -> R-C13-9 reload|store ... into muxInstance.tracer
//	topicmapper getPolicyRoute: append of &policyRe{re: r} moved out of the else           -> R-C13-9 getPolicyRoute|store ... into policyRe.re
//	putRouteToCache: `mi.cache != nil` guard deleted (cache comes from a logged NewARC error) -> R-C13-9 reload|store ... into muxInstance.cache
//	(silent: `if err == nil {tracer = tracer0} else {log}`; `if err != nil {log; tracer0 = NoopTracer};
//	tracer = tracer0`; `r = nil` on error + `if r != nil {store}`; connectcontrol storing a nil
//	regexp whose every use is nil-tested)
//	NOT caught: round-3 seeded b (pipeline doHandle END test on the alias): a nil filters.Filter
//	interface is called; C02's R-C02-3 decides it, no C13 rule added.
//	NOT caught: round-2 seeded a (ratelimiter Spec.Validate rewritten so that an empty effective
//	policy reference is skipped): validation and bindPolicyToURL still read the same fields; that
//	the two lookups agree is a value-semantic equivalence, no shape rule decides it.
//	NOT caught (by design, see NotDecided): ServerPool.failureCodes map initialisation removed
//	(implicit nil-map write); a Validate() that reads the field but tests the wrong value.
//
// Behaviour-preserving edits, all silent: stream test extracted into a local bool; `0 == len(x)`,
// `len(x) < 1`, renamed receiver and divisor via a local `n := len(..)`; `if r := getter(); r != nil
// {assert} else {return}`; guard condition extracted into a local bool (certextractor); switch{case}
// instead of if (headertojson); reordered Init checks with `if c := spec.Compress; ...`;
// `w := cb.window; w.FailureRate()`.
//
// Robustness pass (behaviour-preserving refactorings, all silent): obligations are attributed to
// the owner of a function (an unexported helper with a single same-package caller belongs to its
// caller: extract / inline function keeps constructs and known-finding keys), reviewed divisors
// are keyed by operand role + site count (not by function), an operand / payload receiver that
// is a parameter is judged at the call sites, proofs see through single-definition locals tested
// in place of the expression (`n := len(xs); if n == 0`) and through guards in same-package
// helpers (flow inlining + parameter vocabulary, with an opaque-helper analysis as second
// chance), Validate checks search the reach of Validate, the half-open admission check inlines
// same-package callees and finds the state field by type, deferred named recover functions are
// barriers. Tried: the 34 refactorings of /tmp/vw/C13/refactors.txt plus own variants (RawPayload
// and the stream test moved into helpers, `hasGroup(match)`, `noServers(lb.Servers)`, named
// deferred recoverBuild, rate evaluation moved out of RecordResult).
//
// Second robustness set (36 more refactorings, all silent): guards spelled with same-package
// predicate functions over spec fields (`!isSupportedCodec(spec.Compress)`) are still spec-field
// guards; single-definition locals inside an operand are spelled out (`servers := lb.base.Servers;
// .. % len(servers)`); len(p) of a slice parameter is judged at the call sites; `% len(F)` of a
// sized buffer F in a function whose indexing of F is reviewed by R-C13-7 is the same obligation;
// push-before-rate is judged from the rate call upwards through its same-package callers; the
// half-open admission decider is found by role (innermost function that reads the state field,
// changes the breaker and answers with a boolean or a struct carrying one) and `answer(true)` /
// permission{granted: true} count as admitting returns.
//
// Fourth seeded round: two reviewed reasons became machine-checked. (g) every value reaching
// ratelimiter.Policy / MultiPolicy.LimitRefreshPeriod is positive on every path (c13_period.go:
// stores, constructor parameters followed to their call sites, `<= 0 -> default` replacements,
// ParseDuration of a spec field that Validate parses too, zero from literals that omit the field)
// -> R-C13-3; (h) every resilience.Wrapper.Wrap returns only nil, a pkg/resilience sentinel or the
// wrapped handler's error, by value origin (c13_origin.go) -> R-C13-1 on ServerPool.handle's
// "should not reach here". Also caught: `TimePeriod >= 0`, filter else-default removed, Validate's
// positive test removed, `return ctx.Err()` inline, `fmt.Errorf("..%w", err)`, ctx.Err() in the
// circuit breaker wrapper. Silent: both refactorings done correctly (default applied in the multi
// branch; sleep() returning bool or its error being replaced by the last attempt's error).
//
// Third robustness set (31 refactorings, all silent): a SetPayload argument collected in an
// interface-typed local is judged by everything assigned to that local; an operand that reads the
// receiver or a parameter of a helper (`len(blb.Servers)` in (*BaseLoadBalancer).serverByHash) is
// judged in the callers with the helper interpreted in place (only when it is neither reviewed by
// role nor provable where it stands); reviewed operands count distinct division sites; the
// circuit breaker window's result counter is recognised by role (unsigned field incremented by
// every Window.Push, divided by only below Window.FailureRate/SlowRate) when it moves into a
// `counters` struct.
//
// Genuine defects found on today's tree (demo tests + fixes in /tmp/vw/C13/out): see final report.
package rules

import (
	"go/ast"
	"go/token"
	"go/types"
	"sort"
	"strings"
	"time"

	"verif/internal/core"
	"verif/internal/flow"
)

func init() { Registry["C13"] = c13 }

const (
	c13Filters = "pkg/filters"
	c13Ctx     = "pkg/context"
	c13HTTP    = "pkg/protocols/httpprot"
	c13Proto   = "pkg/protocols"
)

func c13(c *core.Ctx) string {
	c.Rule("R-C13-1", "explicit-panic ratchet: every panic(...) reachable from CreateInstance/Init/Inherit/Handle/InjectResiliencePolicy of a filter kind or Init/Inherit of Pipeline, HTTPServer, GlobalFilter, MQTTProxy (not under a recover barrier) is either guarded by spec fields that validation code reads, or listed in the reviewed table with its reason (and, where stated, a machine-checked protective condition)")
	c.Rule("R-C13-2", "typestate: every RawPayload() call on an HTTP request/response (or the protocols interface) is reached only in states where IsStream() of the same value is known false")
	c.Rule("R-C13-3", "every integer divisor / modulus / rand.Intn argument in the reachable code is proven non-zero (positive for Intn) on all paths, or is a spec field with schema minimum >= 1, or is listed in the reviewed table")
	c.Rule("R-C13-4", "cross references: spec fields naming a resilience policy, whose dangling value makes InjectResiliencePolicy panic, are read by validation code")
	c.Rule("R-C13-5", "regexp.MustCompile applied to a spec field requires format=regexp on that field (or validation code that compiles it)")
	c.Rule("R-C13-7", "sized buffers: a struct field that receives make([]T, n) with a run-time n and is indexed by a cursor / computed slot (not a loop variable) in the reachable code is proven non-empty at the index (dominating length test), or reviewed with a checked reason: every size reaching the constructor is a spec field with schema minimum >= 1, or a result is only recorded after a strict test has shown the size positive")
	c.Rule("R-C13-8", "constant index x[k] into a slice of run-time length (not a parameter) in the reachable code: on every path len(x) >= k+1 is established by dominating comparisons of len(x) with constants, by what the producing call guarantees (non-nil Find*Submatch: 1, strings.Split* with a non-empty constant separator: 1), or by a reviewed reason")
	c.Rule("R-C13-9", "a pointer field that is dereferenced somewhere without a nil test never receives, in the reachable code, the value result of a `v, err := f()` call on a path where err may be non-nil (err known nil since the call, or the value known non-nil, on every path to the store)")
	c.Rule("R-C13-6", "a non-comma-ok type assertion on the value of ctx.GetInputResponse()/GetOutputResponse() is dominated by a non-nil test of that value")
	c.NotDecided = []string{
		"implicit panics in general (nil map/pointer dereference, index out of range, third-party code); only the listed operation classes are audited",
		"nil dereference of pointers that Init binds by a lookup which validation is supposed to guarantee (e.g. RateLimiter URLRule.policy): whether the lookup in Validate() agrees with the one at run time is value-semantic",
		"constant indexes into slices received as parameters (the caller's length contract) and non-constant indexes other than R-C13-7's cursors",
		"request-side downcasts ctx.GetInputRequest().(*T) in a flow node with a fresh namespace or a pipeline of another protocol (documented usage contract, ~20 sites, one finding per filter kind if armed)",
		"pkg/filters/wasmhost (build tag wasmhost, not part of the default build)",
		"panics that depend on the environment rather than on the configuration (Kafka brokers unreachable, listen port in use)",
		"that a Validate() method reading a field actually rejects the offending value (reading is the necessary condition checked), and that v.Validate's reflective traversal reaches that method (pointer-receiver methods on struct-valued fields are not called by it)",
		"calls through function values are attributed to the place where the function value is created",
		"the YAML grammar itself",
	}
	c.Assumptions = append(c.Assumptions,
		"C13 call graph: references to functions are edges, interface calls fan out to every module implementation, functions with a deferred recover() that does not re-panic are barriers",
		"C13 flow proofs: a call that is not handed the base variable of a divisor / payload as receiver or argument is assumed not to change it (no alias analysis)")

	t0 := time.Now()
	lap := func(what string) {
		c.Stats["ms:"+what] = int(time.Since(t0).Milliseconds())
		t0 = time.Now()
	}
	g := c13BuildGraph(c)
	c13Roots(c, g)
	g.reach()
	sf := c13CollectSpecFields(c, g)
	lap("graph")
	c13RawPayload(c)
	lap("R-C13-2")
	c13Downcast(c)
	lap("R-C13-6")
	c13Panics(c, g, sf)
	lap("R-C13-1")
	c13Divisors(c, g, sf)
	lap("R-C13-3")
	c13MustCompile(c, g, sf)
	c13Buffers(c, g, sf)
	lap("R-C13-7")
	c13ConstIndexes(c, g, sf)
	lap("R-C13-8")
	c13NilStores(c, g, sf)
	lap("R-C13-9")
	lap("R-C13-5")
	return "Audit of the panic sites an accepted configuration can reach: reference call graph from the lifecycle and Handle methods of every filter kind and of Pipeline/HTTPServer/GlobalFilter/MQTTProxy (recover barriers cut), explicit panics and integer divisors enumerated as a ratchet against a reviewed table, spec-field guards matched with validation code by field object, RawPayload/IsStream typestate and response downcasts decided path-sensitively on every path. Not decided: implicit panics in general, request-side downcasts, environment-dependent failures, whether a Validate() that reads a field rejects the right values."
}

// c13Roots registers the entry points of "instantiate and serve".
func c13Roots(c *core.Ctx, g *c13Graph) {
	filterT := namedType(c, c13Filters, "Filter")
	kindT := namedType(c, c13Filters, "Kind")
	if filterT == nil || kindT == nil {
		return
	}
	filterI := filterT.Underlying().(*types.Interface)
	nFilters := 0
	for _, nt := range g.named {
		if !types.Implements(types.NewPointer(nt), filterI) {
			continue
		}
		nFilters++
		for _, m := range []string{"Init", "Inherit", "Handle", "InjectResiliencePolicy"} {
			if n := g.method(nt, m); n != nil {
				g.addRoot(n, "filter "+c13TypeName(nt)+" "+m)
			}
		}
	}
	c.RequireCount("R-C13-1", "filter implementations", nFilters, 19)
	nKinds := 0
	for _, pkg := range c.Prog.Module {
		for _, file := range pkg.Syntax {
			ast.Inspect(file, func(x ast.Node) bool {
				cl, ok := x.(*ast.CompositeLit)
				if !ok {
					return true
				}
				tv, ok := pkg.TypesInfo.Types[cl]
				if !ok || !types.Identical(tv.Type, kindT) {
					return true
				}
				nKinds++
				for _, el := range cl.Elts {
					kv, ok := el.(*ast.KeyValueExpr)
					if !ok {
						continue
					}
					if k, ok := kv.Key.(*ast.Ident); !ok || k.Name != "CreateInstance" {
						continue
					}
					role := "kind " + relPkg(pkg.PkgPath) + " CreateInstance"
					switch v := ast.Unparen(kv.Value).(type) {
					case *ast.FuncLit:
						g.addRoot(g.litNode(pkg, relPkg(pkg.PkgPath)+".Kind.CreateInstance", v), role)
					case *ast.Ident:
						g.addRoot(g.byObj[pkg.TypesInfo.Uses[v]], role)
					}
				}
				return true
			})
		}
	}
	c.RequireCount("R-C13-1", "filters.Kind literals", nKinds, 19)
	for _, o := range [][2]string{{"pkg/object/pipeline", "Pipeline"}, {"pkg/object/httpserver", "HTTPServer"},
		{"pkg/object/globalfilter", "GlobalFilter"}, {"pkg/object/mqttproxy", "MQTTProxy"}} {
		nt := namedType(c, o[0], o[1])
		if nt == nil {
			continue
		}
		for _, m := range []string{"Init", "Inherit"} {
			n := g.method(nt, m)
			if n == nil {
				c.Errorf("anchor: method %s.(%s).%s not found", o[0], o[1], m)
				continue
			}
			g.addRoot(n, "object "+o[1]+" "+m)
		}
	}
}

// ---------------------------------------------------------------------------------------
// shared helpers

// c13EachBody visits every function declaration body of the module with its flow.Func.
func c13EachBody(c *core.Ctx, visit func(f *flow.Func, name string)) {
	for _, pkg := range c.Prog.Module {
		for _, file := range pkg.Syntax {
			for _, d := range file.Decls {
				if fd, ok := d.(*ast.FuncDecl); ok && fd.Body != nil {
					visit(flow.NewFunc(pkg, fd), declName(pkg, fd))
				}
			}
		}
	}
}

// c13Innermost returns the flow.Func of the innermost function (declaration or literal) of f
// that contains node.
func c13Innermost(f *flow.Func, node ast.Node) *flow.Func {
	var best *ast.FuncLit
	ast.Inspect(f.Body, func(x ast.Node) bool {
		if lit, ok := x.(*ast.FuncLit); ok && contains(lit.Body, node) {
			best = lit // later (deeper) literals overwrite outer ones
		}
		return true
	})
	if best == nil {
		return f
	}
	return f.Lit(best)
}

// c13StatesAt analyses fn and returns the abstract states in which the CFG node containing
// target is reached (nil, false if the node was never seen).
//
// Two sound analyses are available: same-package helpers interpreted in place (sees guards that
// live in helpers) and helpers kept opaque (the engine loses the caller's facts about an argument
// when the same helper is entered a second time, e.g. for the other outcome of `if h(x)`). When
// the caller supplies its acceptance predicate good, the states of the analysis in which every
// state is good are returned; if neither is, those of the first.
func c13StatesAt(c *core.Ctx, fn *flow.Func, target ast.Node, cfg flow.Config, good ...func(*flow.State) bool) ([]*flow.State, bool) {
	if cfg.Inline != nil || len(good) == 0 {
		return c13StatesAt1(c, fn, target, cfg)
	}
	all := func(states []*flow.State) bool {
		for _, st := range states {
			if !good[0](st) {
				return false
			}
		}
		return true
	}
	s1, seen1 := c13StatesAt1(c, fn, target, cfg)
	if !seen1 || all(s1) {
		return s1, seen1
	}
	opaque := cfg
	opaque.Inline = func(*ast.CallExpr, *types.Func) *flow.Func { return nil }
	if s2, seen2 := c13StatesAt1(c, fn, target, opaque); seen2 && all(s2) {
		return s2, true
	}
	return s1, seen1
}

func c13StatesAt1(c *core.Ctx, fn *flow.Func, target ast.Node, cfg flow.Config) ([]*flow.State, bool) {
	var states []*flow.State
	seen := false
	user := cfg.OnNode
	if cfg.Inline == nil {
		// guards may live in same-package helpers (`if tooShort(parts) { return }`): the callee is
		// interpreted in place and learns its facts in the vocabulary of its parameters, which the
		// engine copies back to the caller's expressions — so the fact filter must let them through
		cfg.Inline = inlineSamePkg(fn)
		cfg.Track = nil
	}
	cfg.OnNode = func(st *flow.State, n ast.Node) {
		if user != nil {
			user(st, n)
		}
		if !contains(n, target) {
			return
		}
		// the target must not sit inside a literal nested in this node
		inner := false
		ast.Inspect(n, func(x ast.Node) bool {
			if lit, ok := x.(*ast.FuncLit); ok && contains(lit, target) {
				inner = true
			}
			return !inner
		})
		if inner {
			return
		}
		seen = true
		states = append(states, st)
	}
	if res := analyze(c, fn, cfg); res == nil {
		return nil, false
	}
	return states, seen
}

// c13BaseObj returns the object of the leftmost identifier of a selector / index chain.
func c13BaseObj(f *flow.Func, e ast.Expr) types.Object {
	for {
		switch x := ast.Unparen(e).(type) {
		case *ast.SelectorExpr:
			e = x.X
		case *ast.IndexExpr:
			e = x.X
		case *ast.StarExpr:
			e = x.X
		case *ast.CallExpr:
			if len(x.Args) == 1 {
				if tv, ok := f.Info.Types[x.Fun]; ok && (tv.IsType() || tv.IsBuiltin()) {
					e = x.Args[0]
					continue
				}
			}
			return nil
		case *ast.Ident:
			if o := f.Info.Uses[x]; o != nil {
				return o
			}
			return f.Info.Defs[x]
		default:
			return nil
		}
	}
}

// c13PureFor returns a Pure predicate: a call leaves facts about base intact unless base itself
// is its receiver or one of its arguments (possibly behind & or *).
func c13PureFor(f *flow.Func, base types.Object) func(*ast.CallExpr, types.Object) bool {
	isBase := func(e ast.Expr) bool {
		e = ast.Unparen(e)
		for {
			switch x := e.(type) {
			case *ast.UnaryExpr:
				if x.Op == token.AND {
					e = ast.Unparen(x.X)
					continue
				}
			case *ast.StarExpr:
				e = ast.Unparen(x.X)
				continue
			}
			break
		}
		id, ok := e.(*ast.Ident)
		return ok && base != nil && (f.Info.Uses[id] == base || f.Info.Defs[id] == base)
	}
	return func(call *ast.CallExpr, callee types.Object) bool {
		if base == nil {
			return true
		}
		if sel, ok := ast.Unparen(call.Fun).(*ast.SelectorExpr); ok && isBase(sel.X) {
			if _, isFn := callee.(*types.Func); isFn {
				return false
			}
		}
		for _, a := range call.Args {
			if isBase(a) {
				return false
			}
		}
		if _, isLit := ast.Unparen(call.Fun).(*ast.FuncLit); isLit {
			return false
		}
		return true
	}
}

// c13PureArgsOnly: like c13PureFor, but method calls on base itself are harmless (accessors);
// only handing base to another function as an argument may change it.
func c13PureArgsOnly(f *flow.Func, base types.Object) func(*ast.CallExpr, types.Object) bool {
	return func(call *ast.CallExpr, callee types.Object) bool {
		if base == nil {
			return true
		}
		for _, a := range call.Args {
			a = ast.Unparen(a)
			if u, ok := a.(*ast.UnaryExpr); ok && u.Op == token.AND {
				a = ast.Unparen(u.X)
			}
			if id, ok := a.(*ast.Ident); ok && (f.Info.Uses[id] == base || f.Info.Defs[id] == base) {
				return false
			}
		}
		if _, isLit := ast.Unparen(call.Fun).(*ast.FuncLit); isLit {
			return false
		}
		return true
	}
}

// c13ParamVocab extends a list of fact-name fragments (renderings) by their spelling in the
// vocabulary of same-package helpers called from f: when h(a) binds parameter p to the argument
// a and a name mentions a, the name with p in place of a is added. The engine copies facts back
// from p to a when the inlined callee exits, but facts learned from the callee's *returned
// condition* (`return len(p) > 1`, assumed after the exit) stay in p's vocabulary; they are facts
// about a as long as every call of h in f binds p to the same a.
func c13ParamVocab(f *flow.Func, names []string) []string {
	type bind struct{ arg, param string }
	perParam := map[string]map[string]bool{}
	var binds []bind
	ast.Inspect(f.Body, func(x ast.Node) bool {
		call, ok := x.(*ast.CallExpr)
		if !ok {
			return true
		}
		fo, ok := f.Callee(call).(*types.Func)
		if !ok || fo.Pkg() != f.Pkg.Types {
			return true
		}
		fd := declOf(f.Pkg, fo)
		if fd == nil || fd.Type.Params == nil {
			return true
		}
		var params []*ast.Ident
		for _, fld := range fd.Type.Params.List {
			params = append(params, fld.Names...)
		}
		if len(params) != len(call.Args) {
			return true
		}
		for i, a := range call.Args {
			pr, ar := f.Render(params[i]), f.Render(a)
			if perParam[pr] == nil {
				perParam[pr] = map[string]bool{}
			}
			perParam[pr][ar] = true
			binds = append(binds, bind{ar, pr})
		}
		// the receiver
		if sel, ok := ast.Unparen(call.Fun).(*ast.SelectorExpr); ok && fd.Recv != nil && len(fd.Recv.List) == 1 && len(fd.Recv.List[0].Names) == 1 {
			pr, ar := f.Render(fd.Recv.List[0].Names[0]), f.Render(sel.X)
			if perParam[pr] == nil {
				perParam[pr] = map[string]bool{}
			}
			perParam[pr][ar] = true
			binds = append(binds, bind{ar, pr})
		}
		return true
	})
	out := append([]string{}, names...)
	have := map[string]bool{}
	for _, n := range names {
		have[n] = true
	}
	for _, b := range binds {
		if len(perParam[b.param]) != 1 {
			continue
		}
		for _, n := range names {
			if strings.Contains(n, b.arg) {
				if nn := strings.ReplaceAll(n, b.arg, b.param); !have[nn] {
					have[nn] = true
					out = append(out, nn)
				}
			}
		}
	}
	return out
}

func c13Join(ss []string) string { return strings.Join(ss, ", ") }

func c13SortedSet(m map[string]bool) []string {
	out := make([]string, 0, len(m))
	for k := range m {
		out = append(out, k)
	}
	sort.Strings(out)
	return out
}

// ---------------------------------------------------------------------------------------
// R-C13-2: RawPayload only when not a stream

func c13IsPayloadMethod(f *flow.Func, call *ast.CallExpr, name string) bool {
	sel, ok := ast.Unparen(call.Fun).(*ast.SelectorExpr)
	if !ok || sel.Sel.Name != name {
		return false
	}
	return calleeIs(f, call,
		"(*"+c13HTTP+".Request)."+name, "(*"+c13HTTP+".Response)."+name,
		"("+c13Proto+".Request)."+name, "("+c13Proto+".Response)."+name)
}

func c13RawPayload(c *core.Ctx) {
	sites := 0
	type verdict struct {
		at     *ast.CallExpr
		bad    *flow.State
		calls  int
		states int
	}
	verdicts := map[string]*verdict{}
	var order []string
	c13EachBody(c, func(top *flow.Func, name string) {
		if strings.HasSuffix(name, ").RawPayload") {
			return // the accessor itself
		}
		for _, call := range calls(top.Body, true) {
			if !c13IsPayloadMethod(top, call, "RawPayload") {
				continue
			}
			sites++
			recv0 := ast.Unparen(call.Fun).(*ast.SelectorExpr).X
			cons := name + "|RawPayload on " + c13RecvRole(top, recv0)
			v := verdicts[cons]
			if v == nil {
				v = &verdict{at: call}
				verdicts[cons] = v
				order = append(order, cons)
			}
			v.calls++
			// where is it judged: in place, or — when the receiver is a parameter of an unexported
			// function — at every same-package call site of that function, on the argument
			type place struct {
				f    *flow.Func
				at   *ast.CallExpr
				recv ast.Expr
			}
			places := []place{{c13Innermost(top, call), call, recv0}}
			if fd, ok := top.Node.(*ast.FuncDecl); ok && !ast.IsExported(fd.Name.Name) {
				node := &c13Node{pkg: top.Pkg, decl: fd, body: fd.Body, obj: top.Info.Defs[fd.Name]}
				if id, ok := ast.Unparen(recv0).(*ast.Ident); ok {
					if pi := c13ParamIndex(node, id); pi >= 0 && places[0].f.Node == top.Node {
						var at []place
						for _, file := range top.Pkg.Syntax {
							for _, d := range file.Decls {
								cd, ok := d.(*ast.FuncDecl)
								if !ok || cd.Body == nil || cd == fd {
									continue
								}
								cf := flow.NewFunc(top.Pkg, cd)
								for _, cc := range calls(cd.Body, true) {
									if cf.Callee(cc) == node.obj && len(cc.Args) > pi {
										at = append(at, place{c13Innermost(cf, cc), cc, cc.Args[pi]})
									}
								}
							}
						}
						if len(at) > 0 {
							places = at
						}
					}
				}
			}
			for _, pl := range places {
				f, recv := pl.f, pl.recv
				key := "call:" + f.Render(recv) + ".IsStream()"
				base := c13BaseObj(f, recv)
				pure0 := c13PureArgsOnly(f, base)
				pure := func(cl *ast.CallExpr, callee types.Object) bool {
					if pure0(cl, callee) {
						return true
					}
					// handed to a same-package helper: harmless unless the helper (or what it
					// calls in the package) replaces a payload
					fo, ok := callee.(*types.Func)
					if !ok || fo.Pkg() != f.Pkg.Types {
						return false
					}
					fd := declOf(f.Pkg, fo)
					if fd == nil {
						return false
					}
					for _, h := range reach(flow.NewFunc(f.Pkg, fd), 3) {
						for _, hc := range calls(h.Body, true) {
							if c13IsPayloadMethod(h, hc, "SetPayload") || c13IsPayloadMethod(h, hc, "FetchPayload") {
								return false
							}
						}
					}
					return true
				}
				judgedCall := pl.at
				inl := inlineSamePkg(f)
				cfg := flow.Config{
					// only helpers that test IsStream() are interpreted in place (engine: the facts of
					// the caller about an aliased argument do not survive a second entry into the
					// same callee, see the report); the others are opaque and harmless (pure)
					Inline: func(cl *ast.CallExpr, callee *types.Func) *flow.Func {
						if cl == judgedCall || callee == nil || callee.Pkg() != f.Pkg.Types {
							return nil
						}
						fd := declOf(f.Pkg, callee)
						if fd == nil {
							return nil
						}
						for _, h := range reach(flow.NewFunc(f.Pkg, fd), 3) {
							for _, hc := range calls(h.Body, true) {
								if c13IsPayloadMethod(h, hc, "IsStream") {
									return inl(cl, callee)
								}
							}
						}
						return nil
					},
					Pure: func(cl *ast.CallExpr, callee types.Object) bool {
						return cl == judgedCall || pure(cl, callee)
					},
					OnCall: func(st *flow.State, cl *ast.CallExpr, callee types.Object, deferred bool) {
						if cl == judgedCall {
							return
						}
						// the payload is replaced: stream-ness is unknown again
						if c13IsPayloadMethod(f, cl, "SetPayload") || c13IsPayloadMethod(f, cl, "FetchPayload") {
							if s, ok := ast.Unparen(cl.Fun).(*ast.SelectorExpr); ok && f.Render(s.X) == f.Render(recv) {
								st.Set(key, flow.Unknown)
							}
						}
						if !pure(cl, callee) {
							st.Set(key, flow.Unknown)
						}
					},
				}
				res := analyze(c, f, cfg)
				if res == nil {
					continue
				}
				states := res.At[pl.at]
				v.states += len(states)
				keys := c13ParamVocab(f, []string{key})
				for _, st := range states {
					known := false
					for _, k := range keys {
						if st.Is(k, flow.False) {
							known = true
						}
					}
					if !known && v.bad == nil {
						v.bad = st
						v.at = pl.at
						break
					}
				}
			}
		}
	})
	for _, cons := range order {
		v := verdicts[cons]
		c.Check(v.bad == nil, "R-C13-2", cons, pos(c, v.at),
			sprintf("%d call(s), %d state(s) reach them, IsStream() known false in all", v.calls, v.states),
			"RawPayload() is reachable without IsStream() of the same value being known false: with clientMaxBodySize/serverMaxBodySize -1 (accepted) the payload is a stream and RawPayload panics (\"the payload is a large one\")", witness(v.bad)...)
	}
	c.RequireCount("R-C13-2", "RawPayload call sites", sites, 4)
}

// c13RecvRole names a receiver expression without local variable names: its static type.
func c13RecvRole(f *flow.Func, e ast.Expr) string {
	if tv, ok := f.Info.Types[e]; ok && tv.Type != nil {
		return strings.ReplaceAll(tv.Type.String(), Mod, "")
	}
	return "?"
}

// ---------------------------------------------------------------------------------------
// R-C13-6: downcast of a possibly absent context response

func c13IsRespGetter(f *flow.Func, e ast.Expr) bool {
	call, ok := ast.Unparen(e).(*ast.CallExpr)
	if !ok {
		return false
	}
	return calleeIs(f, call, "(*"+c13Ctx+".Context).GetInputResponse", "(*"+c13Ctx+".Context).GetOutputResponse")
}

func c13Downcast(c *core.Ctx) {
	sites := 0
	c13EachBody(c, func(top *flow.Func, name string) {
		parents := map[ast.Node]ast.Node(nil)
		ast.Inspect(top.Body, func(x ast.Node) bool {
			ta, ok := x.(*ast.TypeAssertExpr)
			if !ok || ta.Type == nil {
				return true
			}
			f := c13Innermost(top, ta)
			direct := c13IsRespGetter(f, ta.X)
			var id *ast.Ident
			if !direct {
				id, _ = ast.Unparen(ta.X).(*ast.Ident)
				if id == nil || !c13AssignedFromGetter(f, id) {
					return true
				}
			}
			sites++
			if parents == nil {
				parents = parentMap(top.Body)
			}
			cons := name + "|response downcast to " + types.ExprString(ta.Type)
			if c13CommaOk(parents, ta) {
				c.Discharge("R-C13-6", cons, pos(c, ta), "comma-ok form")
				return true
			}
			if direct {
				c.Violate("R-C13-6", cons, pos(c, ta),
					"the response of the active namespace is type-asserted without the comma-ok form and without a nil test: ctx.GetInputResponse()/GetOutputResponse() return a nil interface when no earlier filter produced a response (a flow that validation accepts), and x.(T) on a nil interface panics; a nil test placed after the assertion cannot help")
				return true
			}
			key := f.NilKey(id)
			states, seen := c13StatesAt(c, f, ta, flow.Config{Track: func(k string) bool { return k == key || strings.HasPrefix(k, "v:") }},
				func(st *flow.State) bool { return st.Is(key, flow.False) })
			if !seen {
				c.Discharge("R-C13-6", cons, pos(c, ta), "unreachable")
				return true
			}
			var bad *flow.State
			for _, st := range states {
				if !st.Is(key, flow.False) {
					bad = st
					break
				}
			}
			c.Check(bad == nil, "R-C13-6", cons, pos(c, ta),
				sprintf("%d state(s), value known non-nil in all", len(states)),
				"the response of the active namespace is type-asserted (no comma-ok) on a path where it has not been tested against nil: it is a nil interface when no earlier filter produced a response, and the assertion panics", witness(bad)...)
			return true
		})
	})
	c.RequireCount("R-C13-6", "type assertions on the active-namespace response", sites, 3)
}

// c13AssignedFromGetter: every assignment to the local variable id in f takes a response getter.
func c13AssignedFromGetter(f *flow.Func, id *ast.Ident) bool {
	obj := f.Info.Uses[id]
	if obj == nil {
		return false
	}
	n, good := 0, 0
	ast.Inspect(f.Body, func(x ast.Node) bool {
		switch s := x.(type) {
		case *ast.AssignStmt:
			for i, l := range s.Lhs {
				lid, ok := l.(*ast.Ident)
				if !ok || (f.Info.Defs[lid] != obj && f.Info.Uses[lid] != obj) {
					continue
				}
				n++
				if len(s.Lhs) == len(s.Rhs) && c13IsRespGetter(f, s.Rhs[i]) {
					good++
				}
			}
		case *ast.ValueSpec:
			for i, lid := range s.Names {
				if f.Info.Defs[lid] != obj {
					continue
				}
				n++
				if len(s.Names) == len(s.Values) && c13IsRespGetter(f, s.Values[i]) {
					good++
				}
			}
		}
		return true
	})
	return n > 0 && good > 0
}

func c13CommaOk(parents map[ast.Node]ast.Node, ta *ast.TypeAssertExpr) bool {
	var p ast.Node = ta
	for {
		q := parents[p]
		if pe, ok := q.(*ast.ParenExpr); ok {
			p = pe
			continue
		}
		switch s := q.(type) {
		case *ast.AssignStmt:
			return len(s.Lhs) == 2 && len(s.Rhs) == 1 && s.Rhs[0] == p
		case *ast.ValueSpec:
			return len(s.Names) == 2 && len(s.Values) == 1 && s.Values[0] == p
		}
		return false
	}
}
