package rules

import (
	"go/ast"
	"go/token"
	"go/types"
	"strings"

	"golang.org/x/tools/go/cfg"

	"verif/internal/core"
	"verif/internal/flow"
)

// c20Scope is one reconciliation step: a loop over one class of a watcher event, or a whole
// TrafficController method.
type c20Scope struct {
	name       string              // construct role, e.g. "Delete loop"
	role       string              // delete | create | update | apply
	loop       *ast.RangeStmt      // nil = the whole function
	needAbsent bool                // Init must be preceded by a failed lookup of the name
	entity     *types.Var          // the new entity (loop value / *ObjectEntity parameter)
	entities   map[*types.Var]bool // entity and the parameters of same-package helpers it is handed to
	key        *types.Var          // the loop key (nil for function scopes)

	fClose, fCloseEnd, fInit, fInherit, fStore, fLock, fOrder, fKeys c20Finding
	ends                                                             int
}

const (
	c20WInit    = "(*" + c20sv + ".ObjectEntity).InitWithRecovery"
	c20WInherit = "(*" + c20sv + ".ObjectEntity).InheritWithRecovery"
	c20WClose   = "(*" + c20sv + ".ObjectEntity).CloseWithRecovery"
)

// c20EventLoops finds the range loops over event.Delete / event.Create / event.Update.
func c20EventLoops(c *core.Ctx, f *flow.Func) map[string]*ast.RangeStmt {
	out := map[string]*ast.RangeStmt{}
	fields := map[string]*types.Var{
		"delete": structField(c, c20sv, "ObjectEntityWatcherEvent", "Delete"),
		"create": structField(c, c20sv, "ObjectEntityWatcherEvent", "Create"),
		"update": structField(c, c20sv, "ObjectEntityWatcherEvent", "Update"),
	}
	// a loop over event.X itself, in f or in a same-package function it calls; or a loop over a
	// parameter of such a function which f binds to event.X
	gs, _ := c20Reach(f, 2)
	for _, g := range gs {
		g := g
		gfd, _ := g.Node.(*ast.FuncDecl)
		c20SkipLits(g.Body, func(n ast.Node) bool {
			rs, ok := n.(*ast.RangeStmt)
			if !ok {
				return true
			}
			fld := c20FieldOf(g, rs.X)
			if fld == nil && gfd != nil {
				// a parameter of g (of the handler itself, when it takes the three maps instead of
				// the event): the class is what the callers in the package pass for it
				if idx := c20ParamIndex(g, gfd, c20Var(g, rs.X)); idx >= 0 {
					gObj, _ := g.Info.Defs[gfd.Name].(*types.Func)
					for _, file := range g.Pkg.Syntax {
						for _, d := range file.Decls {
							hfd, ok := d.(*ast.FuncDecl)
							if !ok || hfd.Body == nil {
								continue
							}
							for _, call := range calls(hfd.Body, true) {
								if fo, ok := g.Callee(call).(*types.Func); ok && gObj != nil && fo == gObj && idx < len(call.Args) {
									if af := c20FieldOf(g, call.Args[idx]); af != nil {
										fld = af
									}
								}
							}
						}
					}
				}
			}
			for role, v := range fields {
				if v != nil && fld == v && out[role] == nil {
					out[role] = rs
				}
			}
			return true
		})
	}
	return out
}

func c20Handlers(c *core.Ctx) {
	// ---- Supervisor.handleEvent
	if f := fn(c, c20sv, "Supervisor", "handleEvent"); f != nil {
		cons := fname(c20sv, "Supervisor", "handleEvent")
		loops := c20EventLoops(c, f)
		n := 0
		for _, l := range loops {
			if l != nil {
				n++
			}
		}
		if c.RequireCount("R-C20-4", "loops over event.Delete/Create/Update in Supervisor.handleEvent", n, 3) {
			scopes := []*c20Scope{
				{name: "Delete loop", role: "delete", loop: loops["delete"]},
				{name: "Create loop", role: "create", loop: loops["create"], needAbsent: true},
				{name: "Update loop", role: "update", loop: loops["update"]},
			}
			c20Handler(c, f, cons, scopes, nil)
		}
	}
	// ---- TrafficController methods
	mutexF := c20TCMutexField(c)
	methods := 0
	for _, m := range []struct{ name, role string }{
		{"CreateTrafficGate", "create"}, {"CreatePipeline", "create"},
		{"UpdateTrafficGate", "update"}, {"UpdatePipeline", "update"},
		{"ApplyTrafficGate", "apply"}, {"ApplyPipeline", "apply"},
		{"DeleteTrafficGate", "delete"}, {"DeletePipeline", "delete"},
	} {
		f := fn(c, c20tc, "TrafficController", m.name)
		if f == nil || mutexF == nil {
			continue
		}
		methods++
		sc := &c20Scope{name: m.role, role: m.role, needAbsent: m.role == "apply"}
		c20Handler(c, f, fname(c20tc, "TrafficController", m.name), []*c20Scope{sc}, mutexF)
	}
	c.RequireCount("R-C20-4", "TrafficController reconciliation methods", methods, 8)
	// ---- RawConfigTrafficController.handleEvent
	c20Dispatch(c)
}

// c20Handler analyses one function and checks its scopes.
func c20Handler(c *core.Ctx, f *flow.Func, cons string, scopes []*c20Scope, mutexF *types.Var) {
	gs, wrappers := c20Reach(f, 2)
	var lookups []*c20Lookup
	for _, g := range gs {
		for _, l := range c20Lookups(g, g.Body) {
			l.id = len(lookups)
			lookups = append(lookups, l)
		}
	}
	var allCalls []*ast.CallExpr
	for _, g := range gs {
		allCalls = append(allCalls, calls(g.Body, false)...)
	}
	scopeOf := func(n ast.Node) *c20Scope {
		for _, sc := range scopes {
			if sc.loop == nil || contains(sc.loop.Body, n) {
				return sc
			}
		}
		return nil
	}
	for _, sc := range scopes {
		if sc.loop != nil {
			sc.key = c20Var(f, sc.loop.Key)
			if sc.loop.Value != nil {
				sc.entity = c20Var(f, sc.loop.Value)
			}
		} else if f.Type.Params != nil {
			for _, fld := range f.Type.Params.List {
				for _, id := range fld.Names {
					if v, ok := f.Info.Defs[id].(*types.Var); ok && c20IsEntityPtr(v.Type()) {
						sc.entity = v
					}
				}
			}
		}
	}
	// the entity keeps its identity when it is handed to a same-package helper as an argument
	for _, sc := range scopes {
		sc.entities = map[*types.Var]bool{}
		if sc.entity == nil {
			continue
		}
		sc.entities[sc.entity] = true
		for round := 0; round < 3; round++ {
			for _, call := range allCalls {
				fo, ok := f.Callee(call).(*types.Func)
				if !ok || fo.Pkg() != f.Pkg.Types {
					continue
				}
				hfd := declOf(f.Pkg, fo)
				if hfd == nil || hfd.Type.Params == nil {
					continue
				}
				i := 0
				for _, fld := range hfd.Type.Params.List {
					for _, id := range fld.Names {
						if i < len(call.Args) {
							if a := c20Var(f, call.Args[i]); a != nil && sc.entities[c20Origin(f, a)] {
								if pv, ok := f.Info.Defs[id].(*types.Var); ok {
									sc.entities[pv] = true
								}
							}
						}
						i++
					}
				}
			}
		}
	}
	var delScope *c20Scope
	for _, sc := range scopes {
		if sc.role == "delete" && sc.loop != nil {
			delScope = sc
		}
	}
	lookupOfVal := func(v *types.Var) *c20Lookup {
		for _, l := range lookups {
			if v != nil && l.val == v && l.op != "index" {
				return l
			}
		}
		return nil
	}
	found := func(st *flow.State, l *c20Lookup) flow.Val {
		if l == nil || l.okID == nil || l.ok == nil || !st.Is(sprintf("ev:okfrom:%d", l.id), flow.True) {
			return flow.Unknown
		}
		return st.Get(f.VarKey(l.okID))
	}
	const (
		evInit, evInherit, evClose = "ev:init", "ev:inherit", "ev:close"
		evStored, evRemoved        = "ev:stored", "ev:removed"
		evLocked                   = "ev:locked"
	)
	iterEvents := []string{evInit, evInherit, evClose, evStored, evRemoved}
	for _, l := range lookups {
		if l.op == "LoadAndDelete" {
			iterEvents = append(iterEvents, sprintf("ev:lad:%d", l.id))
		}
	}
	endCheck := func(sc *c20Scope, st *flow.State, at ast.Node) {
		sc.ends++
		ini, inh, cls := st.Is(evInit, flow.True), st.Is(evInherit, flow.True), st.Is(evClose, flow.True)
		sto, rem := st.Is(evStored, flow.True), st.Is(evRemoved, flow.True)
		for _, l := range lookups {
			// LoadAndDelete removes an entry only if it found one
			if l.op == "LoadAndDelete" && st.Is(sprintf("ev:lad:%d", l.id), flow.True) && found(st, l) != flow.False {
				rem = true
			}
		}
		switch sc.role {
		case "delete":
			if cls && !rem {
				sc.fCloseEnd.fail(st, at, "an object is closed but stays in the live map: the next delete/update for the name closes it again or inherits from a closed object (double close)")
			}
			if rem && !cls {
				sc.fCloseEnd.fail(st, at, "an object is removed from the live map without being closed: its listeners, goroutines and ports leak")
			}
			if ini || inh || sto {
				sc.fCloseEnd.fail(st, at, "the delete step initialises/inherits/stores an object")
			}
		default:
			if (ini || inh) && !sto {
				sc.fStore.fail(st, at, "an object is initialised/inherited but not stored in the live map: the next update/delete of the name does not find it ('not found') and it can never be closed")
			}
			if sto && !(ini || inh) {
				sc.fStore.fail(st, at, "an entity is stored in the live map without having been initialised or inherited")
			}
			if ini && inh {
				sc.fStore.fail(st, at, "the same entity is both initialised and inherited")
			}
			if cls || rem {
				sc.fStore.fail(st, at, "the "+sc.role+" step closes/removes an object (the previous generation is handed to Inherit, never closed by the handler)")
			}
			if sc.role == "create" && inh {
				sc.fStore.fail(st, at, "the create step inherits")
			}
			if sc.role == "update" && ini {
				sc.fStore.fail(st, at, "the update step initialises from scratch: the previous generation is neither inherited nor closed")
			}
		}
	}

	res := analyze(c, f, flow.Config{
		Inline: c20InlineRelevant(f, wrappers, func(g *flow.Func) bool {
			for _, sc := range scopes {
				if sc.loop != nil && contains(g.Body, sc.loop) {
					return true
				}
			}
			for _, call := range calls(g.Body, true) {
				w, _ := c20Wrapper(g, call)
				if op, _ := c20SyncMapOp(g, call); op != "" || w != "" {
					return true
				}
			}
			return false
		}),
		OnBlock: func(st *flow.State, b *cfg.Block) {
			for _, sc := range scopes {
				if sc.loop == nil || b.Stmt != ast.Stmt(sc.loop) {
					continue
				}
				switch b.Kind {
				case cfg.KindRangeBody:
					st.Set("ev:in:"+sc.name, flow.True)
					for _, k := range iterEvents {
						st.Set(k, flow.False)
					}
					if delScope != nil && sc != delScope {
						sc.fOrder.n++
						if !st.Is("ev:done:"+delScope.name, flow.True) {
							sc.fOrder.fail(st, sc.loop, "the "+sc.name+" runs before the deletions of the same event are finished: an object that replaces a deleted one (same name after a kind change, or another name on the same port) is initialised while the old one is still live and then refused or shadowed")
						}
					}
				case cfg.KindRangeLoop:
					if st.Is("ev:in:"+sc.name, flow.True) {
						endCheck(sc, st, sc.loop)
					}
					st.Set("ev:in:"+sc.name, flow.Unknown)
					for _, k := range iterEvents {
						st.Set(k, flow.Unknown)
					}
				case cfg.KindRangeDone:
					st.Set("ev:done:"+sc.name, flow.True)
				}
			}
		},
		OnNode: func(st *flow.State, n ast.Node) {
			as, ok := n.(*ast.AssignStmt)
			if !ok {
				return
			}
			for _, lhs := range as.Lhs {
				v := c20Var(f, lhs)
				if v == nil {
					continue
				}
				for _, l := range lookups {
					if l.ok == v {
						if l.stmt == as {
							st.Set(sprintf("ev:okfrom:%d", l.id), flow.True)
						} else {
							st.Set(sprintf("ev:okfrom:%d", l.id), flow.Unknown)
						}
					}
				}
			}
		},
		OnCall: func(st *flow.State, call *ast.CallExpr, callee types.Object, deferred bool) {
			switch w, _ := c20Wrapper(f, call); w {
			case "init":
				st.Set(evInit, flow.True)
			case "inherit":
				st.Set(evInherit, flow.True)
			case "close":
				st.Set(evClose, flow.True)
			}
			switch op, _ := c20SyncMapOp(f, call); op {
			case "Store", "LoadOrStore":
				st.Set(evStored, flow.True)
			case "Delete":
				st.Set(evRemoved, flow.True)
			case "LoadAndDelete":
				bound := false
				for _, l := range lookups {
					if l.op == "LoadAndDelete" && ast.Unparen(l.stmt.Rhs[0]) == ast.Expr(call) {
						st.Set(sprintf("ev:lad:%d", l.id), flow.True)
						bound = true
					}
				}
				if !bound {
					st.Set(evRemoved, flow.True)
				}
			}
			if mutexF != nil {
				if fnObj, ok := callee.(*types.Func); ok && fnObj.Pkg() != nil && fnObj.Pkg().Path() == "sync" {
					if sel, ok := ast.Unparen(call.Fun).(*ast.SelectorExpr); ok && c20FieldOf(f, sel.X) == mutexF {
						switch fnObj.Name() {
						case "Lock":
							st.Set(evLocked, flow.True)
						case "Unlock":
							st.Set(evLocked, flow.False)
						}
					}
				}
			}
		},
	})
	if res == nil {
		return
	}
	// function scopes end at the returns; loop scopes also end at returns taken inside the loop
	for _, ex := range res.Exits {
		if ex.Kind != flow.ExitReturn {
			continue
		}
		for _, sc := range scopes {
			if sc.loop == nil {
				endCheck(sc, ex.State, ex.At)
			} else if ex.State.Is("ev:in:"+sc.name, flow.True) {
				endCheck(sc, ex.State, ex.At)
			}
		}
	}

	// ---- call-site obligations
	counts := map[*c20Scope]map[string]int{}
	for _, sc := range scopes {
		counts[sc] = map[string]int{}
	}
	var mapFields = map[*c20Scope]map[string]bool{}
	var keyRenders = map[*c20Scope]map[string]bool{}
	for _, call := range allCalls {
		sc := scopeOf(call)
		if sc == nil {
			continue
		}
		wkind, wrecv := c20Wrapper(f, call)
		states := res.At[call]
		isWrapper := wkind != ""
		op, recv := c20SyncMapOp(f, call)
		if !isWrapper && op == "" {
			continue
		}
		// lock discipline
		if mutexF != nil {
			for _, st := range states {
				sc.fLock.n++
				if !st.Is(evLocked, flow.True) {
					sc.fLock.fail(st, call, "the live map / an object's lifecycle is touched without tc.mutex held: a concurrent Create/Update/Delete of the same name can inherit from or close an object twice")
				}
			}
		}
		if op != "" {
			if op == "Range" {
				continue
			}
			if mapFields[sc] == nil {
				mapFields[sc], keyRenders[sc] = map[string]bool{}, map[string]bool{}
			}
			if fld := c20FieldOf(f, recv); fld != nil {
				mapFields[sc]["field "+fld.Name()] = true
			} else {
				// a map reached through a local / an accessor: identified by the receiver expression
				mapFields[sc]["expr "+f.Render(recv)] = true
			}
			if len(call.Args) > 0 {
				keyRenders[sc][f.Render(call.Args[0])] = true
				if sc.key != nil && c20Var(f, call.Args[0]) != sc.key {
					sc.fKeys.fail(nil, call, "the live map is accessed with a key that is not the name of the object being reconciled in this iteration")
				}
			}
			if (op == "Store" || op == "LoadOrStore") && len(call.Args) == 2 {
				counts[sc]["store"]++
				if !sc.entities[c20RootOrigin(f, call.Args[1])] {
					sc.fStore.fail(nil, call, "the value stored in the live map is not the entity being created/updated: the live map keeps (or gets) another generation than the one that was initialised/inherited")
				}
			}
			continue
		}
		switch {
		case wkind == "close":
			counts[sc]["close"]++
			ls := []*c20Lookup{lookupOfVal(c20RootOrigin(f, wrecv))}
			if ls[0] == nil {
				// the event's own entity for the name being deleted (same pointer as the live one as
				// long as every event is handled) is accepted too; any lookup of the name then counts
				ls = nil
				if c20IsEventEntity(f, sc, wrecv) {
					for _, l := range lookups {
						if l.op != "index" && contains(sc.loop.Body, l.stmt) {
							ls = append(ls, l)
						}
					}
				}
			}
			if len(ls) == 0 {
				sc.fClose.fail(nil, call, "the closed entity is neither the one taken out of the live map (Load/LoadAndDelete result) nor the event's entity of the name being deleted: some other object is closed and the deleted one leaks")
				break
			}
			for _, st := range states {
				sc.fClose.n++
				ok := false
				for _, l := range ls {
					if found(st, l) == flow.True {
						ok = true
					}
				}
				if !ok {
					sc.fClose.fail(st, call, "CloseWithRecovery is reached without the name having been found in the live map: the nil entity's type assertion / method call panics outside any recover and kills the handler (nothing after it is reconciled)")
				}
			}
		case wkind == "init":
			counts[sc]["init"]++
			if !sc.entities[c20RootOrigin(f, wrecv)] {
				sc.fInit.fail(nil, call, "InitWithRecovery is called on something other than the entity being created")
			}
			for _, st := range states {
				sc.fInit.n++
				if !sc.needAbsent {
					continue
				}
				absent := false
				for _, l := range lookups {
					if l.op != "index" && found(st, l) == flow.False {
						absent = true
					}
				}
				if !absent {
					sc.fInit.fail(st, call, "InitWithRecovery is reached without the name having been looked up and found absent: an existing live object of that name is overwritten without Close or Inherit (second Init on the same name; the old listener/port leaks)")
				}
			}
		case wkind == "inherit":
			counts[sc]["inherit"]++
			if !sc.entities[c20RootOrigin(f, wrecv)] {
				sc.fInherit.fail(nil, call, "InheritWithRecovery is called on something other than the new entity")
			}
			var l *c20Lookup
			var pv *types.Var
			if len(call.Args) > 0 {
				pv = c20RootOrigin(f, call.Args[0])
				l = lookupOfVal(pv)
			}
			if l == nil {
				sc.fInherit.fail(nil, call, "the predecessor handed to InheritWithRecovery is not the live generation loaded from the live map: the object inherits from itself / from a stale entity and the live generation is never taken over")
				break
			}
			// Equals guards between predecessor and new entity (apply only)
			var eqKeys []string
			for _, ec := range allCalls {
				if calleeIs(f, ec, "(*"+c20sv+".Spec).Equals") && len(ec.Args) == 1 {
					es := ast.Unparen(ec.Fun).(*ast.SelectorExpr)
					a, b := c20DerivRoot(f, es.X), c20DerivRoot(f, ec.Args[0])
					if (a == pv && sc.entities[b]) || (sc.entities[a] && b == pv) {
						eqKeys = append(eqKeys, f.CallKey(ec))
					}
				}
			}
			for _, st := range states {
				sc.fInherit.n++
				if found(st, l) != flow.True {
					sc.fInherit.fail(st, call, "InheritWithRecovery is reached without a predecessor having been found in the live map: the nil predecessor panics in the type assertion outside any recover (handler dies) or inside Inherit (object left uninitialised)")
				}
				if sc.role == "apply" {
					changed := false
					for _, k := range eqKeys {
						if st.Is(k, flow.False) {
							changed = true
						}
					}
					if !changed {
						sc.fInherit.fail(st, call, "Apply inherits without Spec.Equals(previous, new) having returned false: an unchanged object is torn down and rebuilt on every apply instead of being left untouched")
					}
				}
			}
		}
	}

	// ---- report
	for _, sc := range scopes {
		sk := cons + "|" + sc.name + ": "
		at := ast.Node(f.Body)
		if sc.loop != nil {
			at = sc.loop
		}
		c.RequireCount("R-C20-4", sk+"abstract ends", sc.ends, 1)
		if len(mapFields[sc]) > 1 || len(keyRenders[sc]) > 1 {
			sc.fKeys.fail(nil, at, sprintf("the step touches %d live maps with %d different key expressions: lookup, store and removal must address the same entry", len(mapFields[sc]), len(keyRenders[sc])))
		}
		sc.fKeys.report(c, "R-C20-4", sk+"one live-map entry per step", at, "lookup, store and removal use the same map field and key")
		if delScope != nil && sc != delScope {
			sc.fOrder.report(c, "R-C20-4", sk+"after the Delete loop", at, sprintf("%d states enter the loop body, all after the Delete loop finished", sc.fOrder.n))
		}
		if mutexF != nil {
			sc.fLock.report(c, "R-C20-4", sk+"under tc.mutex", at, sprintf("%d states at lifecycle/map calls, all with the mutex held", sc.fLock.n))
		}
		for what, fd := range map[string]*c20Finding{"close": &sc.fClose, "init": &sc.fInit, "inherit": &sc.fInherit} {
			if counts[sc][what] > 0 && fd.n == 0 {
				fd.fail(nil, at, "the "+what+" wrapper call of this step is unreachable")
			}
		}
		switch sc.role {
		case "delete":
			if counts[sc]["close"] == 0 {
				sc.fClose.fail(nil, at, "the delete step never calls CloseWithRecovery: deleted objects are never closed")
			}
			if sc.fClose.why == "" && sc.fCloseEnd.why != "" {
				sc.fClose.why, sc.fClose.witness, sc.fClose.at = sc.fCloseEnd.why, sc.fCloseEnd.witness, sc.fCloseEnd.at
			}
			sc.fClose.report(c, "R-C20-4", sk+"close iff removed, only when found", at,
				sprintf("%d states at CloseWithRecovery with the name found; %d ends with closed ⇔ removed", sc.fClose.n, sc.ends))
		case "create":
			if counts[sc]["init"] == 0 {
				sc.fInit.fail(nil, at, "the create step never calls InitWithRecovery")
			}
			detail := "InitWithRecovery on the new entity"
			if sc.needAbsent {
				detail += ", only after the name was looked up and found absent"
			}
			sc.fInit.report(c, "R-C20-4", sk+"init only for an absent name", at, sprintf("%d states: %s", sc.fInit.n, detail))
			sc.fStore.report(c, "R-C20-4", sk+"initialised entity is stored", at, sprintf("%d ends: initialised ⇔ stored", sc.ends))
		case "update":
			if counts[sc]["inherit"] == 0 {
				sc.fInherit.fail(nil, at, "the update step never calls InheritWithRecovery: the previous generation is neither inherited nor closed")
			}
			sc.fInherit.report(c, "R-C20-4", sk+"inherit only from the loaded live predecessor", at, sprintf("%d states at InheritWithRecovery with the predecessor found", sc.fInherit.n))
			sc.fStore.report(c, "R-C20-4", sk+"inherited entity is stored", at, sprintf("%d ends: inherited ⇔ stored", sc.ends))
		case "apply":
			if counts[sc]["init"] == 0 {
				sc.fInit.fail(nil, at, "Apply never calls InitWithRecovery")
			}
			if counts[sc]["inherit"] == 0 {
				sc.fInherit.fail(nil, at, "Apply never calls InheritWithRecovery")
			}
			sc.fInit.report(c, "R-C20-4", sk+"init only for an absent name", at, sprintf("%d states at InitWithRecovery with the name found absent", sc.fInit.n))
			sc.fInherit.report(c, "R-C20-4", sk+"inherit only from the loaded live predecessor, unchanged spec untouched", at, sprintf("%d states at InheritWithRecovery with the predecessor found and Equals false", sc.fInherit.n))
			sc.fStore.report(c, "R-C20-4", sk+"initialised/inherited entity is stored", at, sprintf("%d ends", sc.ends))
		}
	}
}

// c20IsEventEntity: e (modulo type assertions) is the loop's value variable or `<ranged map>[<loop key>]`.
func c20IsEventEntity(f *flow.Func, sc *c20Scope, e ast.Expr) bool {
	if sc.loop == nil {
		return false
	}
	for {
		e = ast.Unparen(e)
		if ta, ok := e.(*ast.TypeAssertExpr); ok {
			e = ta.X
			continue
		}
		break
	}
	if v := c20Origin(f, c20Var(f, e)); v != nil && sc.entities[v] {
		return true
	}
	if ix, ok := e.(*ast.IndexExpr); ok {
		return f.Render(ix.X) == f.Render(sc.loop.X) && sc.key != nil && c20Var(f, ix.Index) == sc.key
	}
	return false
}

func c20IsEntityPtr(t types.Type) bool {
	p, ok := t.(*types.Pointer)
	if !ok {
		return false
	}
	n, ok := p.Elem().(*types.Named)
	return ok && n.Obj().Name() == "ObjectEntity" && n.Obj().Pkg() != nil && n.Obj().Pkg().Path() == Mod+c20sv
}

// c20Dispatch: RawConfigTrafficController.handleEvent hands each class of the event to the
// matching TrafficController verb (pipelines and traffic gates told apart by kind), deletions first.
func c20Dispatch(c *core.Ctx) {
	f := fn(c, c20rc, "RawConfigTrafficController", "handleEvent")
	if f == nil {
		return
	}
	cons := fname(c20rc, "RawConfigTrafficController", "handleEvent")
	loops := c20EventLoops(c, f)
	n := 0
	for _, l := range loops {
		if l != nil {
			n++
		}
	}
	if !c.RequireCount("R-C20-4", "loops over event.Delete/Create/Update in RawConfigTrafficController.handleEvent", n, 3) {
		return
	}
	// the pipeline kind constant
	pipeKind := ""
	if pkg := c.Prog.Pkg("pkg/object/pipeline"); pkg != nil {
		if k, ok := pkg.Types.Scope().Lookup("Kind").(*types.Const); ok {
			pipeKind = k.Val().ExactString()
		}
	}
	if pipeKind == "" {
		c.Errorf("R-C20-4: anchor: constant pkg/object/pipeline.Kind not found")
		return
	}
	verbs := map[string]string{"delete": "Delete", "create": "Create", "update": "Update"}
	tcCall := func(call *ast.CallExpr) string {
		full := strings.ReplaceAll(calleeFull(f, call), Mod, "")
		pre := "(*" + c20tc + ".TrafficController)."
		if !strings.HasPrefix(full, pre) {
			return ""
		}
		return strings.TrimPrefix(full, pre)
	}
	// comparisons of a kind with the pipeline kind
	type atomAt struct {
		c20Atom
		loop *ast.RangeStmt
	}
	var atoms []atomAt
	for _, l := range loops {
		l := l
		ast.Inspect(l.Body, func(n ast.Node) bool {
			if be, ok := n.(*ast.BinaryExpr); ok && (be.Op == token.EQL || be.Op == token.NEQ) {
				for _, side := range []ast.Expr{be.X, be.Y} {
					if tv, ok := f.Info.Types[side]; ok && tv.Value != nil && tv.Value.ExactString() == pipeKind {
						// the key is the positive fact "kind == pipeline kind" whatever the operator
						k, _ := f.Atom(be)
						atoms = append(atoms, atomAt{c20Atom{k, false}, l})
					}
				}
			}
			return true
		})
	}
	res := analyze(c, f, flow.Config{
		Inline: c20InlineRelevant(f, nil, func(g *flow.Func) bool {
			for _, l := range loops {
				if contains(g.Body, l) {
					return true
				}
			}
			for _, call := range calls(g.Body, true) {
				if tcCall(call) != "" {
					return true
				}
			}
			return false
		}),
		OnBlock: func(st *flow.State, b *cfg.Block) {
			for role, l := range loops {
				if b.Stmt == ast.Stmt(l) && b.Kind == cfg.KindRangeDone {
					st.Set("ev:done:"+role, flow.True)
				}
			}
		},
	})
	if res == nil {
		return
	}
	for _, role := range []string{"delete", "create", "update"} {
		l := loops[role]
		var fd c20Finding
		matching := 0
		undecidedTable := false
		key, val := c20Var(f, l.Key), c20Var(f, l.Value)
		for _, call := range calls(l.Body, false) {
			name := tcCall(call)
			if name == "" {
				// dependency inversion: the verb is picked from a table of bound method values
				// (funcs.delete(ns, name) with funcs := trafficObjectFuncsOf(kind))
				if fld := c20FieldOf(f, call.Fun); fld != nil {
					if _, isFn := fld.Type().Underlying().(*types.Signature); isFn {
						names, why := c20TableVerbs(c, f, fld, pipeKind)
						switch {
						case why != "":
							c.Undecide("R-C20-4", cons+"|"+verbs[role]+" loop: dispatch", pos(c, call), "the class is dispatched through the function-valued field "+fld.Name()+": "+why)
							undecidedTable = true
						default:
							for _, n := range names {
								if !strings.HasPrefix(n, verbs[role]) {
									fd.fail(nil, call, "the "+role+" class of the event is handed (through the table field "+fld.Name()+") to TrafficController."+n)
								}
							}
							if len(names) > 0 {
								matching++
								if len(call.Args) == 2 {
									arg := c20Var(f, call.Args[1])
									if role == "delete" && (arg == nil || arg != key) {
										fd.fail(nil, call, "the name handed to the "+fld.Name()+" function is not the deleted name of this iteration")
									}
									if role != "delete" && (arg == nil || arg != val) {
										fd.fail(nil, call, "the entity handed to the "+fld.Name()+" function is not the entity of this iteration")
									}
								}
								for _, st := range res.At[call] {
									fd.n++
									if role != "delete" && !st.Is("ev:done:delete", flow.True) {
										fd.fail(st, call, "the "+role+" class is dispatched before the deletions of the same event are finished: an object replacing a deleted one (same name after a kind change, same port) is started while the old one is still live")
									}
								}
							}
						}
					}
				}
				continue
			}
			isPipe := strings.HasSuffix(name, "Pipeline")
			isGate := strings.HasSuffix(name, "TrafficGate")
			if !isPipe && !isGate {
				continue
			}
			if !strings.HasPrefix(name, verbs[role]) {
				fd.fail(nil, call, "the "+role+" class of the event is handed to TrafficController."+name+": "+map[string]string{
					"delete": "deleted objects are not closed",
					"create": "new objects are not initialised (or an absent predecessor is demanded)",
					"update": "changed objects are re-initialised over their live predecessor, which is never closed (port conflict), instead of being inherited",
				}[role])
				continue
			}
			matching++
			// arguments
			if len(call.Args) == 2 {
				arg := c20Var(f, call.Args[1])
				if role == "delete" && (arg == nil || arg != key) {
					fd.fail(nil, call, "the name handed to "+name+" is not the deleted name of this iteration")
				}
				if role != "delete" && (arg == nil || arg != val) {
					fd.fail(nil, call, "the entity handed to "+name+" is not the entity of this iteration")
				}
			}
			for _, st := range res.At[call] {
				fd.n++
				v := flow.Unknown
				for _, a := range atoms {
					if a.loop == l {
						if t := c20Tri(st, a.key, a.neg); t != flow.Unknown {
							v = t
						}
					}
				}
				if isPipe && v != flow.True {
					fd.fail(st, call, name+" is reached without the kind having been compared equal to the pipeline kind: traffic gates land in the pipeline map")
				}
				if isGate && v != flow.False {
					fd.fail(st, call, name+" is reached without the kind having been found different from the pipeline kind: pipelines land in the traffic-gate map and their handlers are not found")
				}
				if role != "delete" && !st.Is("ev:done:delete", flow.True) {
					fd.fail(st, call, "the "+role+" class is dispatched before the deletions of the same event are finished: an object replacing a deleted one (same name after a kind change, same port) is started while the old one is still live")
				}
			}
		}
		if undecidedTable {
			continue
		}
		if matching == 0 {
			fd.fail(nil, l, "the "+role+" class of the event is not handed to any TrafficController."+verbs[role]+"* method: these objects are never reconciled")
		}
		fd.report(c, "R-C20-4", cons+"|"+verbs[role]+" loop: dispatch", l,
			sprintf("%d states at %d TrafficController.%s* calls: pipelines and traffic gates told apart by kind, after the deletions", fd.n, matching, verbs[role]))
	}
}

// c20InlineRelevant inlines only the same-package callees that carry part of the reconciliation
// step (a class loop, a live-map operation, a lifecycle wrapper or TrafficController call); pure
// helpers stay opaque calls. (Work-around: the engine's fact transfer on leaving an inlined callee
// adds the callee's parameter to the dependencies of the caller's facts, so a second entry into
// the same callee kills them — harmless for helpers entered once per path.)
func c20InlineRelevant(f *flow.Func, except []types.Object, relevant func(g *flow.Func) bool) func(*ast.CallExpr, *types.Func) *flow.Func {
	base := inlineSamePkg(f, except...)
	memo := map[*flow.Func]bool{}
	return func(call *ast.CallExpr, callee *types.Func) *flow.Func {
		g := base(call, callee)
		if g == nil {
			return nil
		}
		r, ok := memo[g]
		if !ok {
			r = relevant(g)
			memo[g] = r
		}
		if !r {
			return nil
		}
		return g
	}
}

// c20TableVerbs resolves a function-valued struct field to the TrafficController methods stored in
// it anywhere in the package (composite literals of bound method values). Every literal must hold
// methods of one sort only (…Pipeline or …TrafficGate) and be built on a path where the kind has
// been compared equal (pipelines) / different (traffic gates) to the pipeline kind. A non-empty
// why means the table cannot be read.
func c20TableVerbs(c *core.Ctx, f *flow.Func, fld *types.Var, pipeKind string) (names []string, why string) {
	pre := "(*" + c20tc + ".TrafficController)."
	for _, file := range f.Pkg.Syntax {
		for _, d := range file.Decls {
			hfd, ok := d.(*ast.FuncDecl)
			if !ok || hfd.Body == nil {
				continue
			}
			h := flow.NewFunc(f.Pkg, hfd)
			var res *flow.Result
			pm := map[ast.Node]ast.Node(nil)
			ast.Inspect(hfd.Body, func(n ast.Node) bool {
				switch x := n.(type) {
				case *ast.AssignStmt:
					for _, l := range x.Lhs {
						if c20FieldOf(h, l) == fld {
							why = "the field is assigned outside a composite literal"
						}
					}
				case *ast.CompositeLit:
					var mine ast.Expr
					sorts := map[string]bool{}
					for _, el := range x.Elts {
						kv, ok := el.(*ast.KeyValueExpr)
						if !ok {
							continue
						}
						id, ok := kv.Key.(*ast.Ident)
						if !ok {
							continue
						}
						fv, _ := h.Info.Uses[id].(*types.Var)
						if fv == nil {
							continue
						}
						// every function-valued entry of the literal tells the sort
						sel, isSel := ast.Unparen(kv.Value).(*ast.SelectorExpr)
						var full string
						if isSel {
							if mo, ok := h.Info.Uses[sel.Sel].(*types.Func); ok {
								full = strings.ReplaceAll(mo.FullName(), Mod, "")
							}
						}
						if strings.HasPrefix(full, pre) {
							m := strings.TrimPrefix(full, pre)
							switch {
							case strings.HasSuffix(m, "Pipeline"):
								sorts["pipeline"] = true
							case strings.HasSuffix(m, "TrafficGate"):
								sorts["gate"] = true
							}
							if fv == fld {
								names = append(names, m)
								mine = kv.Value
							}
						} else if fv == fld {
							why = "an entry of the table is not a bound TrafficController method"
						}
					}
					if mine == nil {
						return true
					}
					if len(sorts) != 1 {
						why = "a table literal mixes pipeline and traffic-gate methods"
						return true
					}
					// the literal must be built where the kind test has the matching outcome
					if res == nil {
						res = analyze(c, h, flow.Config{})
						pm = parentMap(hfd)
					}
					if res == nil {
						why = "the function building the table cannot be analysed"
						return true
					}
					var stmt ast.Node = x
					for stmt != nil && len(res.At[stmt]) == 0 {
						stmt = pm[stmt]
					}
					if stmt == nil {
						why = "the statement building the table is unreachable"
						return true
					}
					var keys []string
					ast.Inspect(hfd.Body, func(m ast.Node) bool {
						if be, ok := m.(*ast.BinaryExpr); ok && (be.Op == token.EQL || be.Op == token.NEQ) {
							for _, side := range []ast.Expr{be.X, be.Y} {
								if tv, ok := h.Info.Types[side]; ok && tv.Value != nil && tv.Value.ExactString() == pipeKind {
									k, _ := h.Atom(be)
									keys = append(keys, k)
								}
							}
						}
						return true
					})
					for _, st := range res.At[stmt] {
						v := flow.Unknown
						for _, k := range keys {
							if t := st.Get(k); t != flow.Unknown {
								v = t
							}
						}
						if (sorts["pipeline"] && v != flow.True) || (sorts["gate"] && v != flow.False) {
							why = "a table of " + map[bool]string{true: "pipeline", false: "traffic-gate"}[sorts["pipeline"]] + " methods is built on a path where the kind was not compared accordingly with the pipeline kind"
						}
					}
				}
				return true
			})
		}
	}
	if len(names) == 0 && why == "" {
		why = "no bound TrafficController method is stored in it"
	}
	return names, why
}
